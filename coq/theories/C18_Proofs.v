(* C18_Proofs.v — proofs about the token-bucket model of C18.

   Key quantity: for a limited bucket with state (tokens, last) let
       z = last - tokens          ("the instant at which the bucket was/would be empty").
   One reservation at t >= last gives   z' = max z (t - B*I) + I   and
   timeToAct = max t z'.  Hence z grows by at least I per grant, every act time is at
   least z', and z' >= act - (B-1)*I: the window bound follows. *)
From Verif Require Import Common C18_Model C18_Spec.
Open Scope Z_scope.
Set Implicit Arguments.

Definition lim_state (I B : Z) (b : bucket) (l : Z) : Prop :=
  b_limit b = Some I /\ b_burst b = B /\ b_last b = Some l.

Definition zb (b : bucket) (l : Z) : Z := l - b_tokens b.

Lemma reserve_step I B b l t :
  0 < I -> 1 <= B -> lim_state I B b l -> l <= t ->
  exists b' a, reserve b t = (b', Some a) /\ lim_state I B b' t /\
               zb b' t = Z.max (zb b l) (t - B * I) + I /\ a = Z.max t (zb b' t).
Proof.
  intros HI HB (Hl & Hb & Hlast) Hle.
  unfold reserve, reserve_n. rewrite Hl. unfold advance. rewrite Hlast, Hb.
  assert (E : (1 <=? B) = true) by (apply Z.leb_le; exact HB).
  rewrite E. cbn [andb].
  eexists. eexists. split; [reflexivity|].
  split; [unfold lim_state; cbn; auto|].
  unfold zb; cbn [b_tokens]. split; lia.
Qed.

Lemma sortedb_cons x y r : sortedb (x :: y :: r) = true -> x <= y /\ sortedb (y :: r) = true.
Proof.
  cbn [sortedb]. intros H. apply andb_true_iff in H as [H1 H2].
  apply Z.leb_le in H1. split; assumption.
Qed.

(* under lim_state every request is granted *)
Lemma grants_all_some I B : 0 < I -> 1 <= B ->
  forall arr b l, lim_state I B b l -> sortedb (l :: arr) = true ->
  grants b arr = map Some (somes (grants b arr)) /\ length (somes (grants b arr)) = length arr.
Proof.
  intros HI HB arr. induction arr as [|t r IH]; intros b l Hst Hs.
  - split; reflexivity.
  - apply sortedb_cons in Hs as [Hle Hs].
    destruct (reserve_step HI HB Hst Hle) as (b' & a & Hr & Hst' & _ & _).
    cbn [grants]. rewrite Hr. cbn [somes map length].
    destruct (IH b' t Hst' Hs) as [E1 E2]. split; [f_equal; exact E1 | f_equal; exact E2].
Qed.

(* every later act time is at least z + (index+1)*I *)
Lemma acts_lower I B : 0 < I -> 1 <= B ->
  forall arr b l, lim_state I B b l -> sortedb (l :: arr) = true ->
  forall j aj, nth_error (somes (grants b arr)) j = Some aj ->
  zb b l + (Z.of_nat j + 1) * I <= aj.
Proof.
  intros HI HB arr. induction arr as [|t r IH]; intros b l Hst Hs j aj Hn.
  - destruct j; discriminate.
  - apply sortedb_cons in Hs as [Hle Hs].
    destruct (reserve_step HI HB Hst Hle) as (b' & a & Hr & Hst' & Hz & Ha).
    cbn [grants] in Hn. rewrite Hr in Hn. cbn [somes] in Hn.
    destruct j as [|j'].
    + cbn in Hn. inversion Hn; subst aj. lia.
    + cbn [nth_error] in Hn. specialize (IH b' t Hst' Hs j' aj Hn).
      rewrite Nat2Z.inj_succ. lia.
Qed.

(* the window bound from any limited state *)
Lemma acts_bound I B : 0 < I -> 1 <= B ->
  forall arr b l, lim_state I B b l -> sortedb (l :: arr) = true ->
  forall i j ai aj, (i <= j)%nat ->
  nth_error (somes (grants b arr)) i = Some ai ->
  nth_error (somes (grants b arr)) j = Some aj ->
  (Z.of_nat j - Z.of_nat i + 1 - B) * I <= aj - ai.
Proof.
  intros HI HB arr. induction arr as [|t r IH]; intros b l Hst Hs i j ai aj Hij Hi Hj.
  - destruct i; discriminate.
  - apply sortedb_cons in Hs as [Hle Hs].
    destruct (reserve_step HI HB Hst Hle) as (b' & a & Hr & Hst' & Hz & Ha).
    cbn [grants] in Hi, Hj. rewrite Hr in Hi, Hj. cbn [somes] in Hi, Hj.
    destruct i as [|i'].
    + cbn in Hi. inversion Hi; subst ai.
      destruct j as [|j'].
      * cbn in Hj. inversion Hj; subst aj. nia.
      * cbn [nth_error] in Hj.
        pose proof (acts_lower HI HB r Hst' Hs j' Hj) as Hlow.
        rewrite Nat2Z.inj_succ. nia.
    + destruct j as [|j']; [lia|].
      cbn [nth_error] in Hi, Hj.
      assert (Hij' : (i' <= j')%nat) by lia.
      specialize (IH b' t Hst' Hs i' j' ai aj Hij' Hi Hj).
      rewrite !Nat2Z.inj_succ. lia.
Qed.

(* ---- from the configuration ---- *)

Definition bucket0 (I B : Z) : bucket := mkBucket (Some I) B (B * I) None.

Lemma create_limited I B : 0 < I -> 1 <= B ->
  create_rate_limiter (Some (mkSettings I B)) = bucket0 I B.
Proof.
  intros HI HB. unfold create_rate_limiter, new_limiter, every, bucket0. cbn [s_interval s_burst].
  destruct (Z.eqb_spec I 0) as [E|_]; [lia|].
  destruct (Z.leb_spec I 0) as [E|_]; [lia|].
  destruct (Z.eqb_spec B 0) as [E|_]; [lia|].
  reflexivity.
Qed.

(* the first reservation on the fresh limiter (last = zero time) behaves as if last = t *)
Lemma first_reserve I B t : 1 <= B ->
  reserve (bucket0 I B) t = reserve (mkBucket (Some I) B (B * I) (Some t)) t.
Proof.
  intros HB. assert (E : (1 <=? B) = true) by (apply Z.leb_le; exact HB).
  unfold reserve, reserve_n, advance, bucket0, max_duration. cbn [b_limit b_last b_tokens b_burst].
  rewrite E. cbn [andb].
  replace (Z.min (B * I + 9223372036854775807) (B * I)) with (B * I) by lia.
  replace (Z.min (B * I + (t - Z.min t t)) (B * I)) with (B * I) by lia.
  reflexivity.
Qed.

Lemma grants_first I B arr : 1 <= B ->
  grants (bucket0 I B) arr =
  match arr with [] => [] | t :: _ => grants (mkBucket (Some I) B (B * I) (Some t)) arr end.
Proof.
  intros HB. destruct arr as [|t r]; [reflexivity|]. cbn [grants]. rewrite (first_reserve I t HB). reflexivity.
Qed.

Lemma sortedb_dup t r : sortedb (t :: r) = true -> sortedb (t :: t :: r) = true.
Proof.
  intros H. change (sortedb (t :: t :: r)) with ((t <=? t) && sortedb (t :: r)).
  rewrite H. rewrite Z.leb_refl. reflexivity.
Qed.

Lemma window_bound I B arrivals :
  0 < I -> 1 <= B -> sortedb arrivals = true ->
  forall i j ai aj, (i <= j)%nat ->
  nth_error (grants (create_rate_limiter (Some (mkSettings I B))) arrivals) i = Some (Some ai) ->
  nth_error (grants (create_rate_limiter (Some (mkSettings I B))) arrivals) j = Some (Some aj) ->
  (Z.of_nat j - Z.of_nat i + 1 - B) * I <= aj - ai.
Proof.
  intros HI HB Hs i j ai aj Hij Hi Hj.
  rewrite (create_limited HI HB) in Hi, Hj. rewrite (grants_first I arrivals HB) in Hi, Hj.
  destruct arrivals as [|t r]; [destruct i; discriminate|].
  set (b := mkBucket (Some I) B (B * I) (Some t)) in *.
  assert (Hst : lim_state I B b t) by (unfold lim_state, b; cbn; auto).
  pose proof (@sortedb_dup t r Hs) as Hs'.
  destruct (grants_all_some HI HB (t :: r) Hst Hs') as [E _].
  rewrite E in Hi, Hj.
  rewrite nth_error_map in Hi, Hj.
  destruct (nth_error (somes (grants b (t :: r))) i) as [x|] eqn:Ei; [|discriminate].
  destruct (nth_error (somes (grants b (t :: r))) j) as [y|] eqn:Ej; [|discriminate].
  cbn in Hi, Hj. inversion Hi; inversion Hj; subst.
  exact (acts_bound HI HB (t :: r) Hst Hs' Hij Ei Ej).
Qed.

Lemma always_granted I B arrivals :
  0 < I -> 1 <= B -> sortedb arrivals = true ->
  let g := grants (create_rate_limiter (Some (mkSettings I B))) arrivals in
  g = map Some (somes g) /\ length (somes g) = length arrivals.
Proof.
  intros HI HB Hs. cbv zeta.
  rewrite (create_limited HI HB). rewrite (grants_first I arrivals HB).
  destruct arrivals as [|t r]; [split; reflexivity|].
  apply (@grants_all_some I B HI HB (t :: r) _ t).
  - unfold lim_state; cbn; auto.
  - apply sortedb_dup; exact Hs.
Qed.

(* B = 0 in the settings is read as 1 *)
Lemma zero_burst_is_one I :
  create_rate_limiter (Some (mkSettings I 0)) = create_rate_limiter (Some (mkSettings I 1)).
Proof. reflexivity. Qed.

(* ---- unlimited ---- *)

Lemma grants_inf b : b_limit b = None -> forall arr, grants b arr = map Some arr.
Proof.
  intros Hb arr. induction arr as [|t r IH]; [reflexivity|].
  cbn [grants]. unfold reserve, reserve_n. rewrite Hb. cbn [map]. f_equal. exact IH.
Qed.

Lemma unlimited_without_settings arrivals :
  grants (create_rate_limiter None) arrivals = map Some arrivals.
Proof. apply grants_inf. reflexivity. Qed.

Lemma unlimited_zero_interval B arrivals :
  grants (create_rate_limiter (Some (mkSettings 0 B))) arrivals = map Some arrivals.
Proof. apply grants_inf. reflexivity. Qed.

(* ---- counting in windows ---- *)

Lemma filter_span (p : Z -> bool) : forall l, filter p l <> [] ->
  exists i j x y, (i <= j)%nat /\ nth_error l i = Some x /\ nth_error l j = Some y /\
                  p x = true /\ p y = true /\ (length (filter p l) <= j - i + 1)%nat.
Proof.
  induction l as [|a r IH]; intros Hne; [exfalso; apply Hne; reflexivity|].
  cbn [filter] in *. destruct (p a) eqn:Pa.
  - destruct (filter p r) as [|f fr] eqn:Ef.
    + exists 0%nat, 0%nat, a, a. cbn. repeat split; auto.
    + destruct IH as (i & j & x & y & Hij & Hi & Hj & Px & Py & Hlen); [discriminate|].
      exists 0%nat, (S j), a, y. cbn [nth_error length] in *. repeat split; auto; lia.
  - destruct (IH Hne) as (i & j & x & y & Hij & Hi & Hj & Px & Py & Hlen).
    exists (S i), (S j), x, y. cbn [nth_error]. repeat split; auto; lia.
Qed.

Lemma ceil_div_ge_floor T I : 0 < I -> T / I <= ceil_div T I.
Proof. intros HI. unfold ceil_div. apply Z.div_le_mono; lia. Qed.

(* a list with the pairwise bound has at most B + T/I elements in any closed window *)
Lemma count_from_pairwise I B l : 0 < I -> 1 <= B ->
  (forall i j x y, (i <= j)%nat -> nth_error l i = Some x -> nth_error l j = Some y ->
                   (Z.of_nat j - Z.of_nat i + 1 - B) * I <= y - x) ->
  forall s T, 0 <= T -> count_in s T l <= B + T / I.
Proof.
  intros HI HB Hpair s T HT. unfold count_in.
  destruct (filter (in_window s T) l) as [|f fr] eqn:Ef.
  - cbn. assert (0 <= T / I) by (apply Z.div_pos; lia). lia.
  - assert (Hne : filter (in_window s T) l <> []) by (rewrite Ef; discriminate).
    destruct (filter_span _ _ Hne) as (i & j & x & y & Hij & Hi & Hj & Px & Py & Hlen).
    rewrite Ef in Hlen.
    specialize (Hpair i j x y Hij Hi Hj).
    unfold in_window in Px, Py.
    apply andb_true_iff in Px as [Px1 Px2]. apply andb_true_iff in Py as [Py1 Py2].
    apply Z.leb_le in Px1, Px2, Py1, Py2.
    assert (Hq : Z.of_nat j - Z.of_nat i + 1 - B <= T / I).
    { apply Z.div_le_lower_bound; [exact HI|]. lia. }
    lia.
Qed.

Lemma count_in_window I B arrivals :
  0 < I -> 1 <= B -> sortedb arrivals = true ->
  forall s T, 0 <= T ->
  count_in s T (somes (grants (create_rate_limiter (Some (mkSettings I B))) arrivals)) <= B + T / I.
Proof.
  intros HI HB Hs. apply (@count_from_pairwise I B _ HI HB).
  intros i j x y Hij Hi Hj.
  destruct (@always_granted I B arrivals HI HB Hs) as [E _].
  apply (@window_bound I B arrivals HI HB Hs _ _ _ _ Hij); rewrite E; rewrite nth_error_map.
  - rewrite Hi; reflexivity.
  - rewrite Hj; reflexivity.
Qed.

Lemma respects_limit_model I B arrivals :
  0 < I -> 1 <= B -> sortedb arrivals = true ->
  respects_limit I B (somes (grants (create_rate_limiter (Some (mkSettings I B))) arrivals)).
Proof.
  intros HI HB Hs s T HT.
  pose proof (@count_in_window I B arrivals HI HB Hs s T HT).
  pose proof (@ceil_div_ge_floor T I HI). lia.
Qed.

(* ---- the decidable form ---- *)

Lemma from_ok_intro I B x : forall rest k,
  (forall m y, nth_error rest m = Some y -> k + Z.of_nat m + 1 <= B + ceil_div (y - x) I) ->
  from_ok I B x k rest = true.
Proof.
  induction rest as [|y r IH]; intros k H; [reflexivity|].
  cbn [from_ok]. apply andb_true_iff; split.
  - apply Z.leb_le. specialize (H 0%nat y eq_refl). cbn in H. lia.
  - apply IH. intros m y' Hm. specialize (H (S m) y' Hm). rewrite Nat2Z.inj_succ in H. lia.
Qed.

Lemma window_ok_intro I B : 0 < I -> forall l,
  (forall i j x y, (i <= j)%nat -> nth_error l i = Some x -> nth_error l j = Some y ->
                   (Z.of_nat j - Z.of_nat i + 1 - B) * I <= y - x) ->
  window_ok I B l = true.
Proof.
  intros HI. induction l as [|x r IH]; intros H; [reflexivity|].
  cbn [window_ok]. apply andb_true_iff; split.
  - apply from_ok_intro. intros m y Hm.
    specialize (H 0%nat (S m) x y (Nat.le_0_l _) eq_refl Hm).
    rewrite Nat2Z.inj_succ in H. cbn [Z.of_nat] in H.
    assert (Hq : Z.succ (Z.of_nat m) - 0 + 1 - B <= (y - x) / I).
    { apply Z.div_le_lower_bound; [exact HI|]. lia. }
    pose proof (@ceil_div_ge_floor (y - x) I HI). lia.
  - apply IH. intros i j a c Hij Hi Hj.
    specialize (H (S i) (S j) a c (le_n_S _ _ Hij) Hi Hj).
    rewrite !Nat2Z.inj_succ in H. lia.
Qed.

Lemma list_eqb_refl_optZ l : list_eqb (option_eqb Z.eqb) l l = true.
Proof.
  apply list_eqb_refl. intros [x|]; cbn; [apply Z.eqb_refl | reflexivity].
Qed.

Lemma spec_holds cfg arrivals :
  sortedb arrivals = true -> P cfg arrivals (grants (create_rate_limiter cfg) arrivals) = true.
Proof.
  intros Hs. unfold P. destruct cfg as [[I B]|].
  - cbn [s_interval s_burst]. rewrite Hs.
    destruct (Z.ltb_spec 0 I) as [HI|_]; [|reflexivity].
    destruct (Z.leb_spec 1 B) as [HB|_]; [|reflexivity].
    cbn [andb]. apply (@window_ok_intro I B HI).
    intros i j x y Hij Hi Hj.
    destruct (@always_granted I B arrivals HI HB Hs) as [E _].
    apply (@window_bound I B arrivals HI HB Hs _ _ _ _ Hij); rewrite E; rewrite nth_error_map.
    + rewrite Hi; reflexivity.
    + rewrite Hj; reflexivity.
  - rewrite unlimited_without_settings. apply list_eqb_refl_optZ.
Qed.

(* ---- the RateLimitWait probe: calls at one instant with a deadline shorter than I ---- *)

Definition count_true (l : list bool) : Z := Z.of_nat (length (filter (fun x => x) l)).

Lemma probe_bound I B t budget : 0 < I -> 0 <= budget < I ->
  forall n b m, b_limit b = Some I -> b_burst b = B -> 0 <= m -> advance I b t <= m * I ->
  count_true (wait_probe b t budget n) <= m.
Proof.
  intros HI Hbud. induction n as [|n IH]; intros b m Hl Hb Hm Hadv.
  - cbn. exact Hm.
  - cbn [wait_probe]. unfold reserve_n. rewrite Hl.
    set (tok := advance I b t - I).
    destruct ((1 <=? b_burst b) && (Z.max 0 (- tok) <=? budget)) eqn:Eok.
    + apply andb_true_iff in Eok as [_ Ew]. apply Z.leb_le in Ew.
      assert (Hm1 : 1 <= m) by (subst tok; nia).
      set (b' := mkBucket (Some I) (b_burst b) tok (Some t)).
      assert (Hadv' : advance I b' t <= (m - 1) * I).
      { unfold advance, b'. cbn [b_last b_tokens b_burst]. subst tok. lia. }
      specialize (IH b' (m - 1) eq_refl Hb ltac:(lia) Hadv').
      unfold count_true in *. cbn [filter length]. rewrite Nat2Z.inj_succ. lia.
    + specialize (IH b m Hl Hb Hm Hadv).
      unfold count_true in *. cbn [filter]. exact IH.
Qed.

Lemma probe_spec I B t budget n : 0 < I -> 1 <= B -> 0 <= budget < I ->
  P_wall (Some (mkSettings I B))
         (count_true (wait_probe (create_rate_limiter (Some (mkSettings I B))) t budget n)) 0 = true.
Proof.
  intros HI HB Hbud. unfold P_wall. cbn [s_interval s_burst].
  destruct (Z.ltb_spec 0 I) as [_|]; [|lia].
  destruct (Z.leb_spec 1 B) as [_|]; [|lia].
  cbn [andb]. apply Z.leb_le.
  rewrite (create_limited HI HB).
  assert (Hc : ceil_div 0 I = 0) by (unfold ceil_div; apply Z.div_small; lia).
  rewrite Hc.
  assert (count_true (wait_probe (bucket0 I B) t budget n) <= B); [|lia].
  apply (@probe_bound I B t budget HI Hbud n (bucket0 I B) B); try reflexivity; try lia.
  unfold advance, bucket0, max_duration. cbn [b_last b_tokens b_burst]. lia.
Qed.

(* ======================================================================================
   Operator level: the queue workers in front of the limiters (C18_Model.advance_q_lim ...).

   Every execution start in the ghost log happens at an instant the hook's limiter granted:
   at once after a limiter call that was granted for that very instant, or - after a sleep -
   at the wake-up instant of a sleeper, which holds a grant nobody else uses (starts and
   pending wake-up instants together are a sub-multiset of the grants, [hinv]).  Starts and
   grants are both in time order, so the starts of a hook are a subsequence of the grants of
   ITS limiter over the sorted list of ITS request instants; the window bound of the limiter
   level carries over to subsequences. *)
Unset Implicit Arguments.

(* ---- subsequences ---- *)
Inductive Sub : list Z -> list Z -> Prop :=
| Sub_nil : forall l, Sub [] l
| Sub_skip : forall l' x l, Sub l' l -> Sub l' (x :: l)
| Sub_take : forall x l' l, Sub l' l -> Sub (x :: l') (x :: l).

Lemma Sub_snoc_r l' l x : Sub l' l -> Sub l' (l ++ [x]).
Proof. intros H. induction H; cbn; constructor; assumption. Qed.

Lemma Sub_snoc l' l x : Sub l' l -> Sub (l' ++ [x]) (l ++ [x]).
Proof.
  intros H. induction H as [l|l' y l H IH|y l' l H IH]; cbn.
  - induction l as [|y l IHl]; cbn; [apply Sub_take, Sub_nil | apply Sub_skip, IHl].
  - apply Sub_skip, IH.
  - apply Sub_take, IH.
Qed.

Lemma count_in_sub s T l' l : Sub l' l -> count_in s T l' <= count_in s T l.
Proof.
  unfold count_in. intros H. induction H as [l|l' y l H IH|y l' l H IH]; cbn [filter length].
  - lia.
  - destruct (in_window s T y); cbn [length]; lia.
  - destruct (in_window s T y); cbn [length]; lia.
Qed.

Lemma respects_limit_sub I B l' l : Sub l' l -> respects_limit I B l -> respects_limit I B l'.
Proof. intros HS H s T HT. pose proof (count_in_sub s T l' l HS). specialize (H s T HT). lia. Qed.

Lemma from_ok_sub I B x : forall r' r, Sub r' r -> forall k k', k' <= k ->
  from_ok I B x k r = true -> from_ok I B x k' r' = true.
Proof.
  intros r' r H. induction H as [l|l' y l H IH|y l' l H IH]; intros k k' Hk Hf.
  - reflexivity.
  - cbn [from_ok] in Hf. apply andb_true_iff in Hf as [_ Hf]. apply (IH (k + 1) k'); [lia | exact Hf].
  - cbn [from_ok] in Hf |- *. apply andb_true_iff in Hf as [H1 Hf]. apply Z.leb_le in H1.
    apply andb_true_iff; split; [apply Z.leb_le; lia | apply (IH (k + 1) (k' + 1)); [lia | exact Hf]].
Qed.

Lemma window_ok_sub I B l' l : Sub l' l -> window_ok I B l = true -> window_ok I B l' = true.
Proof.
  intros H. induction H as [l|l' y l H IH|y l' l H IH]; intros Hw.
  - reflexivity.
  - cbn [window_ok] in Hw. apply andb_true_iff in Hw as [_ Hw]. exact (IH Hw).
  - cbn [window_ok] in Hw |- *. apply andb_true_iff in Hw as [H1 Hw].
    apply andb_true_iff; split; [exact (from_ok_sub I B y l' l H 1 1 ltac:(lia) H1) | exact (IH Hw)].
Qed.

(* ---- lists of requests growing at the end ---- *)
Definition bucket_after (b : bucket) (arr : list Z) : bucket :=
  fold_left (fun b t => fst (reserve b t)) arr b.

Lemma bucket_after_snoc b arr t : bucket_after b (arr ++ [t]) = fst (reserve (bucket_after b arr) t).
Proof. unfold bucket_after. rewrite fold_left_app. reflexivity. Qed.

Lemma grants_snoc : forall arr b t,
  grants b (arr ++ [t]) = grants b arr ++ [snd (reserve (bucket_after b arr) t)].
Proof.
  induction arr as [|x r IH]; intros b t.
  - cbn. destruct (reserve b t); reflexivity.
  - cbn [app grants]. unfold bucket_after. cbn [fold_left].
    destruct (reserve b x) as [b1 a] eqn:E. cbn [fst]. rewrite IH. reflexivity.
Qed.

Lemma somes_app A (l1 l2 : list (option A)) : somes (l1 ++ l2) = somes l1 ++ somes l2.
Proof. induction l1 as [|[x|] r IH]; cbn; [reflexivity | f_equal; exact IH | exact IH]. Qed.

Lemma sortedb_snoc : forall l t, sortedb l = true -> Forall (fun x => x <= t) l -> sortedb (l ++ [t]) = true.
Proof.
  induction l as [|x r IH]; intros t Hs Hf; [reflexivity|].
  inversion Hf as [|? ? Hx Hr]; subst.
  destruct r as [|y r'].
  - cbn. apply andb_true_iff; split; [apply Z.leb_le; exact Hx | reflexivity].
  - apply sortedb_cons in Hs as [Hxy Hs]. specialize (IH t Hs Hr).
    change (sortedb (x :: y :: (r' ++ [t])) = true). cbn [sortedb].
    apply andb_true_iff; split; [apply Z.leb_le; exact Hxy | exact IH].
Qed.

Lemma reserve_ge b t b' a : reserve b t = (b', Some a) -> t <= a.
Proof.
  unfold reserve, reserve_n. destruct (b_limit b) as [iv|].
  - destruct (_ && _); intros H; inversion H; lia.
  - intros H; inversion H; lia.
Qed.

(* ---- projections of the log ---- *)
Lemma reqs_of_app h l1 l2 : reqs_of h (l1 ++ l2) = reqs_of h l1 ++ reqs_of h l2.
Proof. induction l1 as [|[h' t a|h' q t] r IH]; cbn; [reflexivity | destruct (N.eqb h' h); cbn; [f_equal|]; exact IH | exact IH]. Qed.
Lemma acts_of_app h l1 l2 : acts_of h (l1 ++ l2) = acts_of h l1 ++ acts_of h l2.
Proof. induction l1 as [|[h' t a|h' q t] r IH]; cbn; [reflexivity | destruct (N.eqb h' h); cbn; [f_equal|]; exact IH | exact IH]. Qed.
Lemma starts_in_app h l1 l2 : starts_in h (l1 ++ l2) = starts_in h l1 ++ starts_in h l2.
Proof. induction l1 as [|[h' t a|h' q t] r IH]; cbn; [reflexivity | exact IH | destruct (N.eqb h' h); cbn; [f_equal|]; exact IH]. Qed.

(* ---- sleepers ---- *)

(* no sleeper's instant lies before [now] *)
Definition winv (now : Z) (wt : waiting) : Prop :=
  Forall (fun e => match we_until e with Some u => now <= u | None => True end) wt.

Lemma winv_app now wt1 wt2 : winv now wt1 -> winv now wt2 -> winv now (wt1 ++ wt2).
Proof. intros H1 H2. apply Forall_app; split; assumption. Qed.

Lemma winv_remove now q wt : winv now wt -> winv now (remove_entry q wt).
Proof.
  unfold winv, remove_entry. intros H. induction H as [|e r He Hr IH]; cbn [filter]; [constructor|].
  destruct (negb _); [constructor; assumption | exact IH].
Qed.

Lemma due_false_winv now wt : due now wt = false -> winv now wt.
Proof.
  unfold due, winv. induction wt as [|e r IH]; cbn [existsb]; intros H; [constructor|].
  apply orb_false_iff in H as [H1 H2]. constructor; [|exact (IH H2)].
  destruct (we_until e) as [u|]; [|exact I]. apply Z.leb_gt in H1. lia.
Qed.

(* the sleeper chosen by [earliest_due] is a sleeper, its instant has come, and no other
   sleeper's instant lies before it *)
Lemma earliest_due_spec now : forall wt e u,
  earliest_due now wt = Some (e, u) ->
  In e wt /\ we_until e = Some u /\ u <= now /\ winv u wt.
Proof.
  induction wt as [|e0 r IH]; intros e u H; [discriminate|].
  cbn [earliest_due] in H. destruct (we_until e0) as [u0|] eqn:E0.
  - destruct (u0 <=? now) eqn:El.
    + apply Z.leb_le in El.
      destruct (earliest_due now r) as [[e' u']|] eqn:Er.
      * destruct (IH e' u' eq_refl) as (Hin & Hu & Hle & Hw).
        destruct (u' <? u0) eqn:Elt; inversion H; subst.
        -- apply Z.ltb_lt in Elt. split; [right; exact Hin|]. split; [exact Hu|]. split; [exact Hle|].
           constructor; [rewrite E0; lia | exact Hw].
        -- apply Z.ltb_ge in Elt. split; [left; reflexivity|]. split; [exact E0|]. split; [exact El|].
           constructor; [rewrite E0; lia|].
           eapply Forall_impl; [|exact Hw]. cbn. intros a Ha. destruct (we_until a); [lia | exact I].
      * inversion H; subst. split; [left; reflexivity|]. split; [exact E0|]. split; [exact El|].
        constructor; [rewrite E0; lia|].
        (* nobody else is due *)
        clear - Er El. induction r as [|a r IHr]; [constructor|].
        cbn [earliest_due] in Er. destruct (we_until a) as [ua|] eqn:Ea.
        -- destruct (ua <=? now) eqn:Ela.
           ++ destruct (earliest_due now r) as [[e' u']|]; [destruct (u' <? ua)|]; discriminate.
           ++ apply Z.leb_gt in Ela. constructor; [rewrite Ea; lia | exact (IHr Er)].
        -- constructor; [rewrite Ea; exact I | exact (IHr Er)].
    + apply Z.leb_gt in El. destruct (IH e u H) as (Hin & Hu & Hle & Hw).
      split; [right; exact Hin|]. split; [exact Hu|]. split; [exact Hle|].
      constructor; [rewrite E0; lia | exact Hw].
  - destruct (IH e u H) as (Hin & Hu & Hle & Hw).
    split; [right; exact Hin|]. split; [exact Hu|]. split; [exact Hle|].
    constructor; [rewrite E0; exact I | exact Hw].
Qed.

(* ---- a generic invariant of the workers: closed under the limiter calls (granted for now
        and skipped, granted for now and started, granted for later, refused), under waking
        up and under the passing of time ---- *)
Section Generic.
  Variable Q : Z -> limiters -> waiting -> list levent -> Prop.
  Variable le : Z -> Z -> Prop.      (* how time may move from one action to the next *)
  Hypothesis le_of_Zle : forall a b, a <= b -> le a b.
  Hypothesis le_trans : forall a b c, le a b -> le b c -> le a c.
  Hypothesis Q_time : forall now now' lims wt log,
    le now now' -> due now' wt = false -> Q now lims wt log -> Q now' lims wt log.
  Hypothesis Q_wake_time : forall now n lims wt log e u,
    earliest_due n wt = Some (e, u) -> Q now lims wt log -> Q u lims wt log.
  Hypothesis Q_req : forall now lims wt log h' b',
    Q now lims wt log -> reserve (lims h') now = (b', Some now) ->
    Q now (set_lim lims h' b') wt (log ++ [LReq h' now (Some now)]).
  Hypothesis Q_start : forall now lims wt log h' b' q,
    Q now lims wt log -> reserve (lims h') now = (b', Some now) ->
    Q now (set_lim lims h' b') wt ((log ++ [LReq h' now (Some now)]) ++ [LStart h' q now]).
  Hypothesis Q_wait : forall now lims wt log h' b' q act,
    Q now lims wt log -> reserve (lims h') now = (b', Some act) -> now < act ->
    Q now (set_lim lims h' b') (wt ++ [(q, Some act, h')]) (log ++ [LReq h' now (Some act)]).
  Hypothesis Q_refused : forall now lims wt log h' b' q,
    Q now lims wt log -> reserve (lims h') now = (b', None) ->
    Q now (set_lim lims h' b') (wt ++ [(q, None, h')]) (log ++ [LReq h' now None]).
  Hypothesis Q_wake_start : forall now lims wt log e,
    Q now lims wt log -> In e wt -> we_until e = Some now ->
    Q now lims (remove_entry (we_queue e) wt) (log ++ [LStart (we_hook e) (we_queue e) now]).
  Hypothesis Q_wake_skip : forall now lims wt log q,
    Q now lims wt log -> Q now lims (remove_entry q wt) log.

  Lemma advance_q_lim_Q cfg qok now qn : forall fuel items w wt items' st w',
    Q now (w_lims w) wt (w_log w) ->
    advance_q_lim fuel cfg qok now qn items w = (items', st, w') ->
    Q now (w_lims w') (wt ++ wait_of qn st) (w_log w').
  Proof.
    induction fuel as [|fuel IH]; intros items w wt items' st w' HQ H.
    - cbn in H. inversion H; subst. cbn [wait_of]. rewrite app_nil_r. exact HQ.
    - cbn [advance_q_lim] in H. destruct items as [|t rest]; [inversion H; subst; cbn [wait_of]; rewrite app_nil_r; exact HQ|].
      destruct (t_type t).
      + (* HookRun *)
        destruct (reserve (w_lims w (t_hook t)) now) as [b' a] eqn:Er.
        destruct a as [act|].
        * destruct (now <? act) eqn:El.
          -- apply Z.ltb_lt in El. inversion H; subst. cbn [wait_of w_lims w_log].
             exact (Q_wait now _ _ _ (t_hook t) b' qn act HQ Er El).
          -- assert (Ea : act = now).
             { apply Z.ltb_ge in El. pose proof (reserve_ge _ _ _ _ Er). lia. }
             subst act.
             destruct (should_run _ t).
             ++ pose proof (Q_start now _ _ _ (t_hook t) b' qn HQ Er) as H2.
                cbn [w_sh w_lims w_log] in H.
                destruct (negb _ && should_combine t && qok (t_queue t)).
                ** destruct (combine t rest). inversion H; subst. cbn [wait_of]. rewrite app_nil_r. exact H2.
                ** inversion H; subst. cbn [wait_of]. rewrite app_nil_r. exact H2.
             ++ eapply IH; [|exact H]. cbn [w_lims w_log].
                exact (Q_req now _ _ _ (t_hook t) b' HQ Er).
        * inversion H; subst. cbn [wait_of w_lims w_log].
          exact (Q_refused now _ _ _ (t_hook t) b' qn HQ Er).
      + (* EnableKube *)
        destruct (find_hook cfg (t_hook t)); eapply IH; try exact H; exact HQ.
      + (* EnableSched *)
        eapply IH; [|exact H]. exact HQ.
  Qed.

  Lemma advance_all_lim_Q cfg qok now : forall qs wt w qs' wt' w',
    Q now (w_lims w) wt (w_log w) ->
    advance_all_lim cfg qok now wt qs w = (qs', wt', w') ->
    Q now (w_lims w') wt' (w_log w').
  Proof.
    induction qs as [|q r IH]; intros wt w qs' wt' w' HQ H.
    - cbn in H. inversion H; subst. exact HQ.
    - cbn [advance_all_lim] in H. destruct (is_running q || is_waiting wt (q_name q)).
      + destruct (advance_all_lim cfg qok now wt r w) as [[r1 wt1] w1] eqn:E.
        inversion H; subst. exact (IH _ _ _ _ _ HQ E).
      + destruct (advance_q_lim _ cfg qok now (q_name q) (q_items q) w) as [[items st] w1] eqn:E1.
        destruct (advance_all_lim cfg qok now (wt ++ wait_of (q_name q) st) r w1) as [[r1 wt1] w2] eqn:E2.
        inversion H; subst.
        exact (IH _ _ _ _ _ (advance_q_lim_Q _ _ _ _ _ _ _ _ _ _ _ HQ E1) E2).
  Qed.

  Lemma resume_q_Q cfg qok stp now e : forall items w wt items' st w',
    Q now (w_lims w) wt (w_log w) -> In e wt -> we_until e = Some now ->
    match items with t :: _ => t_hook t = we_hook e | [] => True end ->
    resume_q cfg qok stp now (we_queue e) items w = (items', st, w') ->
    Q now (w_lims w') (remove_entry (we_queue e) wt ++ wait_of (we_queue e) st) (w_log w').
  Proof.
    intros items w wt items' st w' HQ Hin Hu Hh H.
    unfold resume_q in H. destruct items as [|t rest].
    - inversion H; subst. cbn [wait_of]. rewrite app_nil_r. apply Q_wake_skip. exact HQ.
    - destruct (should_run _ t).
      + pose proof (Q_wake_start now _ _ _ e HQ Hin Hu) as H2. rewrite <- Hh in H2.
        cbn [w_sh w_lims w_log] in H.
        destruct (negb _ && should_combine t && qok (t_queue t)).
        * destruct (combine t rest). inversion H; subst. cbn [wait_of]. rewrite app_nil_r. exact H2.
        * inversion H; subst. cbn [wait_of]. rewrite app_nil_r. exact H2.
      + pose proof (Q_wake_skip now _ _ _ (we_queue e) HQ) as H2.
        destruct stp.
        * inversion H; subst. cbn [wait_of w_lims w_log]. rewrite app_nil_r. exact H2.
        * eapply advance_q_lim_Q; [|exact H]. exact H2.
  Qed.

  Lemma wake_in_Q cfg qok stp now e : forall qs w wt qs' wtn w',
    Q now (w_lims w) wt (w_log w) -> In e wt -> we_until e = Some now ->
    wake_in cfg qok stp now (we_queue e) (we_hook e) qs w = (qs', wtn, w') ->
    Q now (w_lims w') (remove_entry (we_queue e) wt ++ wtn) (w_log w').
  Proof.
    induction qs as [|q r IH]; intros w wt qs' wtn w' HQ Hin Hu H.
    - cbn in H. inversion H; subst. rewrite app_nil_r. apply Q_wake_skip. exact HQ.
    - cbn [wake_in] in H. destruct (N.eqb (q_name q) (we_queue e)).
      + destruct (q_items q) as [|t rest] eqn:Ei.
        * inversion H; subst. rewrite app_nil_r. apply Q_wake_skip. exact HQ.
        * destruct (N.eqb (t_hook t) (we_hook e) && is_hookrun t) eqn:Eh.
          -- apply andb_true_iff in Eh as [Eh _]. apply N.eqb_eq in Eh.
             destruct (resume_q cfg qok stp now (we_queue e) (t :: rest) w) as [[items st] w1] eqn:Er.
             inversion H; subst.
             eapply resume_q_Q; [exact HQ | exact Hin | exact Hu | | exact Er]. exact Eh.
          -- inversion H; subst. rewrite app_nil_r. apply Q_wake_skip. exact HQ.
      + destruct (wake_in cfg qok stp now (we_queue e) (we_hook e) r w) as [[r1 wt1] w1] eqn:E.
        inversion H; subst. exact (IH _ _ _ _ _ HQ Hin Hu E).
  Qed.

  Definition Qs (now : Z) (ls : lstate) : Prop := Q now (l_lims ls) (l_waiting ls) (l_log ls).

  Lemma wake_one_Q cfg e u ls : Qs u ls -> In e (l_waiting ls) -> we_until e = Some u -> Qs u (wake_one cfg e u ls).
  Proof.
    intros HQ Hin Hu. unfold Qs, wake_one.
    destruct (wake_in _ _ _ _ _ _ _ _) as [[qs wtn] w] eqn:E. cbn [l_lims l_waiting l_log].
    eapply wake_in_Q; [| exact Hin | exact Hu | exact E]. exact HQ.
  Qed.

  Lemma wake_due_Q cfg n : forall fuel ls now,
    Qs now ls -> le now n -> exists now', Qs now' (wake_due fuel cfg n ls) /\ le now' n.
  Proof.
    induction fuel as [|fuel IH]; intros ls now HQ Hle; [exists now; split; assumption|].
    cbn [wake_due]. destruct (earliest_due n (l_waiting ls)) as [[e u]|] eqn:Ed; [|exists now; split; assumption].
    destruct (earliest_due_spec _ _ _ _ Ed) as (Hin & Hu & Hun & _).
    apply (IH _ u).
    - apply wake_one_Q; [|exact Hin | exact Hu]. exact (Q_wake_time now n _ _ _ e u Ed HQ).
    - apply le_of_Zle. exact Hun.
  Qed.

  Lemma step_lim_Q cfg ls ta now :
    Qs now ls -> le now (fst ta) -> exists now', Qs now' (step_lim cfg ls ta) /\ le now' (fst ta).
  Proof.
    intros HQ Ht. unfold step_lim.
    destruct (wake_due_Q cfg (fst ta) (wake_fuel cfg ls) ls now HQ Ht) as (now1 & HQ1 & Hle1).
    set (ls1 := wake_due (wake_fuel cfg ls) cfg (fst ta) ls) in *.
    destruct (due (fst ta) (l_waiting ls1)) eqn:Ed; [exists now1; split; assumption|].
    exists (fst ta). split; [|apply le_of_Zle; lia].
    pose proof (Q_time _ _ _ _ _ Hle1 Ed HQ1) as HQ2.
    unfold Qs, advance_lim. cbn [l_op l_waiting l_lims l_log l_overrun].
    destruct (stopped _); [exact HQ2|].
    destruct (advance_all_lim _ _ _ _ _ _) as [[qs wt] w] eqn:E. cbn [l_lims l_log l_waiting].
    eapply advance_all_lim_Q; [|exact E]. exact HQ2.
  Qed.

  Fixpoint chain (now : Z) (l : list Z) : Prop :=
    match l with [] => True | t :: r => le now t /\ chain t r end.

  Lemma chain_weaken a b l : le a b -> chain b l -> chain a l.
  Proof. destruct l as [|t r]; [auto|]. cbn. intros H [H1 H2]. split; [exact (le_trans _ _ _ H H1) | exact H2]. Qed.

  Lemma run_lim_Q cfg : forall script ls now,
    Qs now ls -> chain now (map fst script) ->
    exists now', Qs now' (run_lim cfg ls script).
  Proof.
    induction script as [|ta r IH]; intros ls now HQ Hc.
    - exists now. exact HQ.
    - cbn [map chain] in Hc. destruct Hc as [Ht Hc]. cbn [run_lim fold_left].
      destruct (step_lim_Q cfg ls ta now HQ Ht) as (now1 & HQ1 & Hle1).
      apply (IH (step_lim cfg ls ta) now1); [exact HQ1 | exact (chain_weaken _ _ _ Hle1 Hc)].
  Qed.
End Generic.

(* ---- multisets of instants ---- *)
Definition cnt (l : list Z) (v : Z) : nat := count_occ Z.eq_dec l v.

Lemma cnt_app l1 l2 v : cnt (l1 ++ l2) v = (cnt l1 v + cnt l2 v)%nat.
Proof. apply count_occ_app. Qed.

(* wake-up instants of the workers that sleep for hook h *)
Definition pend_of (h : N) (e : wentry) : list Z :=
  if N.eqb (we_hook e) h then match we_until e with Some u => [u] | None => [] end else [].
Definition pend (h : N) (wt : waiting) : list Z := flat_map (pend_of h) wt.

Lemma pend_app h wt1 wt2 : pend h (wt1 ++ wt2) = pend h wt1 ++ pend h wt2.
Proof. apply flat_map_app. Qed.

Lemma pend_remove_le h q v : forall wt, (cnt (pend h (remove_entry q wt)) v <= cnt (pend h wt) v)%nat.
Proof.
  induction wt as [|e r IH]; [cbn; lia|].
  unfold remove_entry in *. cbn [filter]. destruct (negb _).
  - change (pend h (e :: ?l)) with (pend_of h e ++ pend h l). rewrite !cnt_app. lia.
  - change (pend h (e :: r)) with (pend_of h e ++ pend h r). rewrite cnt_app. lia.
Qed.

Lemma pend_remove_in h v : forall wt e,
  In e wt -> (cnt (pend h (remove_entry (we_queue e) wt)) v + cnt (pend_of h e) v <= cnt (pend h wt) v)%nat.
Proof.
  induction wt as [|e0 r IH]; intros e Hin; [destruct Hin|].
  change (pend h (e0 :: r)) with (pend_of h e0 ++ pend h r). rewrite cnt_app.
  destruct Hin as [E|Hin].
  - subst e0. unfold remove_entry at 1. cbn [filter]. rewrite N.eqb_refl. cbn [negb].
    pose proof (pend_remove_le h (we_queue e) v r) as Hle. unfold remove_entry in Hle. lia.
  - specialize (IH e Hin). unfold remove_entry in *. cbn [filter]. destruct (negb _).
    + change (pend h (e0 :: ?l)) with (pend_of h e0 ++ pend h l). rewrite cnt_app. lia.
    + lia.
Qed.

(* a sorted sub-multiset of a sorted list is a subsequence of it *)
Lemma sortedb_Forall : forall l x, sortedb (x :: l) = true -> Forall (fun y => x <= y) l.
Proof.
  induction l as [|y r IH]; intros x H; [constructor|].
  apply sortedb_cons in H as [Hxy Hs]. constructor; [exact Hxy|].
  eapply Forall_impl; [|exact (IH y Hs)]. cbn. intros; lia.
Qed.

Lemma sortedb_tail x l : sortedb (x :: l) = true -> sortedb l = true.
Proof. destruct l as [|y r]; [reflexivity|]. intros H. apply sortedb_cons in H as [_ H]. exact H. Qed.

Lemma cnt_pos_In l v : (0 < cnt l v)%nat -> In v l.
Proof. intros H. apply (count_occ_In Z.eq_dec). exact H. Qed.

Lemma cnt_zero_below l x v : Forall (fun y => x <= y) l -> v < x -> cnt l v = 0%nat.
Proof.
  intros Hf Hlt. apply (count_occ_not_In Z.eq_dec). intros Hin.
  rewrite Forall_forall in Hf. specialize (Hf v Hin). lia.
Qed.

Lemma sorted_msub_sub : forall l l',
  sortedb l = true -> sortedb l' = true -> (forall v, (cnt l' v <= cnt l v)%nat) -> Sub l' l.
Proof.
  induction l as [|x r IH]; intros l' Hs Hs' Hc.
  - destruct l' as [|y r']; [constructor|]. specialize (Hc y). unfold cnt in Hc. cbn in Hc.
    destruct (Z.eq_dec y y); [lia | congruence].
  - destruct l' as [|y r']; [constructor|].
    destruct (Z.eq_dec x y) as [E|Hn].
    + subst y. apply Sub_take. apply IH; [exact (sortedb_tail _ _ Hs) | exact (sortedb_tail _ _ Hs')|].
      intros v. specialize (Hc v). unfold cnt in *. cbn [count_occ] in Hc. destruct (Z.eq_dec x v); lia.
    + apply Sub_skip. apply IH; [exact (sortedb_tail _ _ Hs) | exact Hs'|].
      (* x < y: y occurs in x :: r, which is sorted *)
      assert (Hxy : x < y).
      { assert (Hin : In y (x :: r)).
        { apply cnt_pos_In. specialize (Hc y). unfold cnt in *. cbn [count_occ] in Hc |- *.
          destruct (Z.eq_dec y y); [lia | congruence]. }
        destruct Hin as [E|Hin]; [congruence|].
        pose proof (sortedb_Forall _ _ Hs) as Hf. rewrite Forall_forall in Hf. specialize (Hf y Hin). lia. }
      intros v. specialize (Hc v). unfold cnt in *. cbn [count_occ] in Hc.
      destruct (Z.eq_dec x v) as [E|_]; [|exact Hc].
      subst v. fold (cnt (y :: r') x).
      rewrite (cnt_zero_below (y :: r') y x); [lia | | exact Hxy].
      constructor; [lia | exact (sortedb_Forall _ _ Hs')].
Qed.

(* ---- the grants of a limiter never go back in time ---- *)
Lemma sortedb_cons_intro x l : Forall (fun y => x <= y) l -> sortedb l = true -> sortedb (x :: l) = true.
Proof.
  destruct l as [|y r]; [reflexivity|]. intros Hf Hs. inversion Hf; subst.
  change (sortedb (x :: y :: r)) with ((x <=? y) && sortedb (y :: r)).
  apply andb_true_iff; split; [apply Z.leb_le; assumption | exact Hs].
Qed.

Lemma grants_sorted_lim I B : 0 < I -> 1 <= B ->
  forall arr b l, lim_state I B b l -> sortedb (l :: arr) = true ->
  sortedb (somes (grants b arr)) = true /\
  Forall (fun a => l <= a /\ zb b l + I <= a) (somes (grants b arr)).
Proof.
  intros HI HB arr. induction arr as [|t r IH]; intros b l Hst Hs.
  - split; [reflexivity | constructor].
  - apply sortedb_cons in Hs as [Hle Hs].
    destruct (reserve_step HI HB Hst Hle) as (b' & a & Hr & Hst' & Hz & Ha).
    cbn [grants]. rewrite Hr. cbn [somes].
    destruct (IH b' t Hst' Hs) as [IH1 IH2]. split.
    + apply sortedb_cons_intro; [|exact IH1].
      eapply Forall_impl; [|exact IH2]. cbn. intros x [H1 H2]. lia.
    + constructor; [lia|]. eapply Forall_impl; [|exact IH2]. cbn. intros x [H1 H2]. lia.
Qed.

Lemma grants_refused b : forall arr I, b_limit b = Some I -> b_burst b < 1 -> somes (grants b arr) = [].
Proof.
  induction arr as [|t r IH]; intros I Hl Hb; [reflexivity|].
  cbn [grants]. unfold reserve, reserve_n. rewrite Hl.
  destruct (Z.leb_spec 1 (b_burst b)) as [H|_]; [lia|]. cbn [andb somes]. exact (IH I Hl Hb).
Qed.

Lemma somes_map_Some A (l : list A) : somes (map Some l) = l.
Proof. induction l as [|x r IH]; cbn; [reflexivity | f_equal; exact IH]. Qed.

Lemma grants_sorted cfg arr : sortedb arr = true ->
  sortedb (somes (grants (create_rate_limiter cfg) arr)) = true.
Proof.
  intros Hs.
  assert (Hinf : forall b, b_limit b = None -> sortedb (somes (grants b arr)) = true).
  { intros b Hb. rewrite (grants_inf b Hb), somes_map_Some. exact Hs. }
  destruct cfg as [[I B]|]; [|apply Hinf; reflexivity].
  unfold create_rate_limiter. cbn [s_interval s_burst].
  destruct (I =? 0) eqn:E0; [apply Hinf; reflexivity|].
  unfold every. destruct (I <=? 0) eqn:E1; [apply Hinf; reflexivity|].
  apply Z.leb_gt in E1.
  set (B' := if B =? 0 then 1 else B).
  destruct (Z.le_gt_cases 1 B') as [HB|HB].
  - change (new_limiter (Some I) B') with (bucket0 I B'). rewrite (grants_first I arr HB).
    destruct arr as [|t r]; [reflexivity|].
    apply (@grants_sorted_lim I B' E1 HB (t :: r) _ t); [unfold lim_state; cbn; auto | apply sortedb_dup; exact Hs].
  - rewrite (grants_refused (new_limiter (Some I) B') arr I); [reflexivity | reflexivity | cbn; lia].
Qed.

(* ---- the invariant of one hook's limiter ---- *)
Definition hinv (b0 : bucket) (h : N) (now : Z) (lims : limiters) (wt : waiting) (log : list levent) : Prop :=
  lims h = bucket_after b0 (reqs_of h log) /\
  acts_of h log = grants b0 (reqs_of h log) /\
  Forall (fun t => t <= now) (reqs_of h log) /\
  sortedb (reqs_of h log) = true /\
  Forall (fun t => t <= now) (starts_in h log) /\
  sortedb (starts_in h log) = true /\
  winv now wt /\
  (forall v, (cnt (starts_in h log) v + cnt (pend h wt) v <= cnt (somes (acts_of h log)) v)%nat).

Lemma set_lim_same lims h b : set_lim lims h b h = b.
Proof. unfold set_lim. rewrite N.eqb_refl. reflexivity. Qed.
Lemma set_lim_other lims h h' b : h' <> h -> set_lim lims h' b h = lims h.
Proof. unfold set_lim. intros Hn. destruct (N.eqb_spec h h'); [congruence | reflexivity]. Qed.

Lemma Forall_le_mono l a b : a <= b -> Forall (fun t => t <= a) l -> Forall (fun t => t <= b) l.
Proof. intros Hab H. eapply Forall_impl; [|exact H]. cbn. intros; lia. Qed.

Lemma hinv_time b0 h now now' lims wt log :
  now <= now' -> due now' wt = false -> hinv b0 h now lims wt log -> hinv b0 h now' lims wt log.
Proof.
  intros Hle Hd (H1 & H2 & H3 & H4 & H5 & H6 & H7 & H8).
  repeat split; try assumption; try (eapply Forall_le_mono; eassumption).
  apply due_false_winv. exact Hd.
Qed.

Lemma hinv_wake_time b0 h now n lims wt log e u :
  earliest_due n wt = Some (e, u) -> hinv b0 h now lims wt log -> hinv b0 h u lims wt log.
Proof.
  intros Hd (H1 & H2 & H3 & H4 & H5 & H6 & H7 & H8).
  destruct (earliest_due_spec _ _ _ _ Hd) as (Hin & Hu & _ & Hw).
  assert (Hle : now <= u).
  { unfold winv in H7. rewrite Forall_forall in H7. specialize (H7 e Hin). rewrite Hu in H7. exact H7. }
  repeat split; try assumption; eapply Forall_le_mono; eassumption.
Qed.

(* a limiter call of hook h' at [now]: what it does to the first four parts *)
Lemma hinv_call b0 h now lims log h' b' a :
  lims h = bucket_after b0 (reqs_of h log) -> acts_of h log = grants b0 (reqs_of h log) ->
  Forall (fun t => t <= now) (reqs_of h log) -> sortedb (reqs_of h log) = true ->
  reserve (lims h') now = (b', a) ->
  let log' := log ++ [LReq h' now a] in
  set_lim lims h' b' h = bucket_after b0 (reqs_of h log') /\
  acts_of h log' = grants b0 (reqs_of h log') /\
  Forall (fun t => t <= now) (reqs_of h log') /\ sortedb (reqs_of h log') = true /\
  starts_in h log' = starts_in h log /\
  somes (acts_of h log') = somes (acts_of h log) ++ (if N.eqb h' h then match a with Some x => [x] | None => [] end else []).
Proof.
  intros H1 H2 H3 H4 Er. cbv zeta.
  rewrite reqs_of_app, acts_of_app, starts_in_app. cbn [reqs_of acts_of starts_in].
  destruct (N.eqb_spec h' h) as [E|Hn].
  - subst h'. rewrite set_lim_same, bucket_after_snoc, grants_snoc, <- H1, Er. cbn [fst snd].
    rewrite !app_nil_r, somes_app. split; [reflexivity|]. split; [|split; [|split; [|split]]].
    + rewrite H2. reflexivity.
    + apply Forall_app; split; [exact H3 | constructor; [lia | constructor]].
    + apply sortedb_snoc; assumption.
    + reflexivity.
    + destruct a; reflexivity.
  - rewrite (set_lim_other _ _ _ _ Hn), !app_nil_r. split; [exact H1|]. split; [exact H2|]. split; [exact H3|]. split; [exact H4|]. split; reflexivity.
Qed.

Lemma hinv_req b0 h now lims wt log h' b' :
  hinv b0 h now lims wt log -> reserve (lims h') now = (b', Some now) ->
  hinv b0 h now (set_lim lims h' b') wt (log ++ [LReq h' now (Some now)]).
Proof.
  intros (H1 & H2 & H3 & H4 & H5 & H6 & H7 & H8) Er.
  destruct (hinv_call b0 h now lims log h' b' (Some now) H1 H2 H3 H4 Er) as (G1 & G2 & G3 & G4 & G5 & G6).
  unfold hinv. rewrite G5, G6. repeat split; try assumption.
  intros v. specialize (H8 v). rewrite cnt_app. lia.
Qed.

Lemma hinv_start b0 h now lims wt log h' b' q :
  hinv b0 h now lims wt log -> reserve (lims h') now = (b', Some now) ->
  hinv b0 h now (set_lim lims h' b') wt ((log ++ [LReq h' now (Some now)]) ++ [LStart h' q now]).
Proof.
  intros Hh Er. destruct (hinv_req b0 h now lims wt log h' b' Hh Er) as (G1 & G2 & G3 & G4 & G5 & G6 & G7 & G8).
  destruct Hh as (H1 & H2 & H3 & H4 & H5 & H6 & H7 & H8).
  destruct (hinv_call b0 h now lims log h' b' (Some now) H1 H2 H3 H4 Er) as (_ & _ & _ & _ & K5 & K6).
  set (log1 := log ++ [LReq h' now (Some now)]) in *.
  unfold hinv. rewrite (reqs_of_app h log1), (acts_of_app h log1), (starts_in_app h log1).
  cbn [reqs_of acts_of starts_in]. rewrite !app_nil_r.
  repeat split; try assumption.
  - destruct (N.eqb h' h); [|rewrite app_nil_r; exact G5].
    apply Forall_app; split; [exact G5 | constructor; [lia | constructor]].
  - destruct (N.eqb h' h); [|rewrite app_nil_r; exact G6].
    apply sortedb_snoc; assumption.
  - intros v. specialize (H8 v). rewrite K6, K5. destruct (N.eqb h' h).
    + rewrite !cnt_app. lia.
    + rewrite !app_nil_r. exact H8.
Qed.

Lemma hinv_wait b0 h now lims wt log h' b' q act :
  hinv b0 h now lims wt log -> reserve (lims h') now = (b', Some act) -> now < act ->
  hinv b0 h now (set_lim lims h' b') (wt ++ [(q, Some act, h')]) (log ++ [LReq h' now (Some act)]).
Proof.
  intros (H1 & H2 & H3 & H4 & H5 & H6 & H7 & H8) Er Hlt.
  destruct (hinv_call b0 h now lims log h' b' (Some act) H1 H2 H3 H4 Er) as (G1 & G2 & G3 & G4 & G5 & G6).
  unfold hinv. rewrite G5, G6. repeat split; try assumption.
  - apply winv_app; [exact H7|]. constructor; [cbn; lia | constructor].
  - intros v. specialize (H8 v). rewrite pend_app, !cnt_app.
    change (pend h [(q, Some act, h')]) with (pend_of h (q, Some act, h') ++ []). rewrite app_nil_r.
    unfold pend_of. cbn [we_hook we_until fst snd]. lia.
Qed.

Lemma hinv_refused b0 h now lims wt log h' b' q :
  hinv b0 h now lims wt log -> reserve (lims h') now = (b', None) ->
  hinv b0 h now (set_lim lims h' b') (wt ++ [(q, None, h')]) (log ++ [LReq h' now None]).
Proof.
  intros (H1 & H2 & H3 & H4 & H5 & H6 & H7 & H8) Er.
  destruct (hinv_call b0 h now lims log h' b' None H1 H2 H3 H4 Er) as (G1 & G2 & G3 & G4 & G5 & G6).
  unfold hinv. rewrite G5, G6. repeat split; try assumption.
  - apply winv_app; [exact H7|]. constructor; [cbn; exact I | constructor].
  - intros v. specialize (H8 v). rewrite pend_app, !cnt_app.
    change (pend h [(q, None, h')]) with (pend_of h (q, None, h') ++ []). rewrite app_nil_r.
    unfold pend_of. cbn [we_hook we_until fst snd]. destruct (N.eqb h' h); cbn; lia.
Qed.

Lemma hinv_wake_skip b0 h now lims wt log q :
  hinv b0 h now lims wt log -> hinv b0 h now lims (remove_entry q wt) log.
Proof.
  intros (H1 & H2 & H3 & H4 & H5 & H6 & H7 & H8). repeat split; try assumption.
  - apply winv_remove. exact H7.
  - intros v. specialize (H8 v). pose proof (pend_remove_le h q v wt). lia.
Qed.

Lemma hinv_wake_start b0 h now lims wt log e :
  hinv b0 h now lims wt log -> In e wt -> we_until e = Some now ->
  hinv b0 h now lims (remove_entry (we_queue e) wt) (log ++ [LStart (we_hook e) (we_queue e) now]).
Proof.
  intros (H1 & H2 & H3 & H4 & H5 & H6 & H7 & H8) Hin Hu. unfold hinv.
  rewrite reqs_of_app, acts_of_app, starts_in_app. cbn [reqs_of acts_of starts_in]. rewrite !app_nil_r.
  repeat split; try assumption.
  - destruct (N.eqb (we_hook e) h); [|rewrite app_nil_r; exact H5].
    apply Forall_app; split; [exact H5 | constructor; [lia | constructor]].
  - destruct (N.eqb (we_hook e) h); [|rewrite app_nil_r; exact H6].
    apply sortedb_snoc; assumption.
  - apply winv_remove. exact H7.
  - intros v. specialize (H8 v). pose proof (pend_remove_in h v wt e Hin) as Hp.
    unfold pend_of in Hp. rewrite Hu in Hp.
    destruct (N.eqb (we_hook e) h).
    + rewrite cnt_app. lia.
    + rewrite app_nil_r. lia.
Qed.

Lemma hinv_init hs h now : hinv (init_limiters hs h) h now (init_limiters hs) [] [].
Proof. unfold hinv. cbn. repeat split; try constructor; try (intros v; cbn; lia). Qed.

Lemma chain_le_of_sorted : forall l now, sortedb (now :: l) = true -> chain Z.le now l.
Proof.
  induction l as [|t r IH]; intros now Hs; [exact I|].
  apply sortedb_cons in Hs as [Hle Hs]. split; [exact Hle | exact (IH t Hs)].
Qed.

Lemma chain_any : forall l now, chain (fun _ _ => True) now l.
Proof. induction l as [|t r IH]; intros now; cbn; auto. Qed.

Definition final_log (cfg : config) (hs : hook_settings) (script : list (Z * action)) : list levent :=
  l_log (run_lim cfg (init_lim hs) script).

Lemma op_hinv cfg hs script h : sortedb (map fst script) = true ->
  exists now, hinv (init_limiters hs h) h now
                   (l_lims (run_lim cfg (init_lim hs) script))
                   (l_waiting (run_lim cfg (init_lim hs) script)) (final_log cfg hs script).
Proof.
  intros Hs. unfold final_log.
  set (now0 := match map fst script with [] => 0 | t :: _ => t end).
  apply (run_lim_Q (hinv (init_limiters hs h) h) Z.le) with (now := now0).
  - intros a b H; exact H.
  - intros a b c; apply Z.le_trans.
  - intros now now' lims wt log. apply hinv_time.
  - intros now n lims wt log e u. apply hinv_wake_time.
  - intros now lims wt log h' b'. apply hinv_req.
  - intros now lims wt log h' b' q. apply hinv_start.
  - intros now lims wt log h' b' q act. apply hinv_wait.
  - intros now lims wt log h' b' q. apply hinv_refused.
  - intros now lims wt log e. apply hinv_wake_start.
  - intros now lims wt log q. apply hinv_wake_skip.
  - apply hinv_init.
  - apply chain_le_of_sorted. subst now0. destruct (map fst script) as [|t r]; [reflexivity|].
    apply sortedb_dup. exact Hs.
Qed.

(* every start of a hook's execution - at once or after a sleep in RateLimitWait - is one
   of the grants of its limiter *)
Lemma op_starts_are_grants cfg hs script h : sortedb (map fst script) = true ->
  let log := final_log cfg hs script in
  sortedb (reqs_of h log) = true /\
  acts_of h log = grants (create_rate_limiter (settings_of hs h)) (reqs_of h log) /\
  Sub (starts_in h log) (somes (acts_of h log)).
Proof.
  intros Hs. cbv zeta. destruct (op_hinv cfg hs script h Hs) as (now & _ & H2 & _ & H4 & _ & H6 & _ & H8).
  split; [exact H4|]. split; [exact H2|].
  apply sorted_msub_sub; [| exact H6 |].
  - rewrite H2. apply grants_sorted. exact H4.
  - intros v. specialize (H8 v). lia.
Qed.

(* the sleepers of a hook hold grants of its limiter that have not been used: starts and
   pending wake-up instants together are a sub-multiset of the grants *)
Lemma op_sleepers_hold_grants cfg hs script h : sortedb (map fst script) = true ->
  let ls := run_lim cfg (init_lim hs) script in
  forall v, (cnt (starts_in h (l_log ls)) v + cnt (pend h (l_waiting ls)) v
             <= cnt (somes (grants (create_rate_limiter (settings_of hs h)) (reqs_of h (l_log ls)))) v)%nat.
Proof.
  intros Hs. cbv zeta. destruct (op_hinv cfg hs script h Hs) as (now & _ & H2 & _ & _ & _ & _ & _ & H8).
  intros v. specialize (H8 v). unfold final_log in *. rewrite H2 in H8. exact H8.
Qed.

Lemma op_respects_limit cfg hs script h I B :
  settings_of hs h = Some (mkSettings I B) -> 0 < I -> 1 <= B -> sortedb (map fst script) = true ->
  respects_limit I B (starts_in h (final_log cfg hs script)).
Proof.
  intros Hset HI HB Hs. destruct (op_starts_are_grants cfg hs script h Hs) as (H4 & H2 & H5).
  rewrite Hset in H2. eapply respects_limit_sub; [exact H5|]. rewrite H2.
  apply (@respects_limit_model I B _ HI HB H4).
Qed.

(* ---- hooks without settings: time plays no role ---- *)
Definition uinv (h : N) (_ : Z) (lims : limiters) (_ : waiting) (log : list levent) : Prop :=
  b_limit (lims h) = None /\ acts_of h log = map Some (reqs_of h log).

Lemma reserve_inf b t : b_limit b = None -> reserve b t = (b, Some t).
Proof. intros H. unfold reserve, reserve_n. rewrite H. reflexivity. Qed.

Lemma uinv_call h now lims wt wt' log h' b' a :
  uinv h now lims wt log -> reserve (lims h') now = (b', a) ->
  uinv h now (set_lim lims h' b') wt' (log ++ [LReq h' now a]).
Proof.
  intros (H1 & H2) Er. unfold uinv. rewrite reqs_of_app, acts_of_app. cbn [reqs_of acts_of].
  destruct (N.eqb_spec h' h) as [E|Hn].
  - subst h'. rewrite (reserve_inf _ now H1) in Er. inversion Er; subst.
    rewrite set_lim_same, map_app, H2. split; [exact H1 | reflexivity].
  - rewrite (set_lim_other _ _ _ _ Hn), !app_nil_r. split; assumption.
Qed.

Lemma uinv_startev h now lims wt wt' log h' q t :
  uinv h now lims wt log -> uinv h now lims wt' (log ++ [LStart h' q t]).
Proof.
  intros (H1 & H2). unfold uinv. rewrite reqs_of_app, acts_of_app. cbn [reqs_of acts_of]. rewrite !app_nil_r.
  split; assumption.
Qed.

Lemma not_throttled_of_acts h : forall log,
  acts_of h log = map Some (reqs_of h log) -> ~ In h (throttled_in log).
Proof.
  induction log as [|[h' t a|h' q t] r IH]; cbn [acts_of reqs_of throttled_in]; intros He Hin.
  - exact Hin.
  - destruct (N.eqb_spec h' h) as [E|Hn].
    + cbn [map] in He. inversion He as [[Ha Hr]]. subst a. rewrite Z.eqb_refl in Hin. exact (IH Hr Hin).
    + destruct a as [x|]; [destruct (x =? t)|]; try exact (IH He Hin);
        destruct Hin as [Hh|Hin]; try (apply Hn; exact Hh); exact (IH He Hin).
  - exact (IH He Hin).
Qed.

Lemma op_unlimited_acts cfg hs script h :
  b_limit (init_limiters hs h) = None ->
  let log := final_log cfg hs script in acts_of h log = map Some (reqs_of h log).
Proof.
  intros Hb. cbv zeta. unfold final_log.
  destruct (run_lim_Q (uinv h) (fun _ _ => True)) with (cfg := cfg) (script := script) (ls := init_lim hs) (now := 0)
    as (now & _ & H2).
  - intros a b _; exact I.
  - intros a b c _ _; exact I.
  - intros now now' lims wt log _ _ H. exact H.
  - intros now n lims wt log e u _ H. exact H.
  - intros now lims wt log h' b'. apply uinv_call.
  - intros now lims wt log h' b' q H Er. apply uinv_startev with (wt := wt). apply (uinv_call h now lims wt wt log h' b' (Some now) H Er).
  - intros now lims wt log h' b' q act H Er _. apply (uinv_call h now lims wt _ log h' b' (Some act) H Er).
  - intros now lims wt log h' b' q H Er. apply (uinv_call h now lims wt _ log h' b' None H Er).
  - intros now lims wt log e H _ _. apply uinv_startev with (wt := wt). exact H.
  - intros now lims wt log q H. exact H.
  - split; [exact Hb | reflexivity].
  - apply chain_any.
  - exact H2.
Qed.

Lemma op_not_throttled cfg hs script h :
  settings_of hs h = None -> ~ In h (throttled_in (final_log cfg hs script)).
Proof.
  intros Hset. apply not_throttled_of_acts. apply op_unlimited_acts.
  unfold init_limiters. rewrite Hset. reflexivity.
Qed.

(* ---- the decidable predicate on the model's own log ---- *)
Lemma starts_of_all h : forall log, starts_of h (starts_all log) = starts_in h log.
Proof.
  unfold starts_of. induction log as [|[h' t a|h' q t] r IH]; cbn [starts_all starts_in]; try exact IH; [reflexivity|].
  cbn [filter fst]. destruct (N.eqb h' h); cbn [map snd]; [f_equal|]; exact IH.
Qed.

Lemma op_P_holds cfg hs script : sortedb (map fst script) = true ->
  let log := final_log cfg hs script in
  P_op hs (starts_all log) (throttled_in log) = true.
Proof.
  intros Hs. cbv zeta. unfold P_op. apply forallb_forall. intros h _.
  rewrite starts_of_all. unfold P_hook.
  destruct (settings_of hs h) as [[I B]|] eqn:Hset.
  - cbn [s_interval s_burst].
    destruct (Z.ltb_spec 0 I) as [HI|_]; [|reflexivity].
    destruct (Z.leb_spec 1 B) as [HB|_]; [|reflexivity].
    cbn [andb].
    destruct (op_starts_are_grants cfg hs script h Hs) as (H4 & H2 & H5).
    apply (window_ok_sub I B _ _ H5). rewrite H2, Hset.
    pose proof (@spec_holds (Some (mkSettings I B)) _ H4) as HP.
    unfold P in HP. cbn [s_interval s_burst] in HP. rewrite H4 in HP.
    destruct (Z.ltb_spec 0 I) as [_|]; [|lia]. destruct (Z.leb_spec 1 B) as [_|]; [|lia].
    exact HP.
  - apply negb_true_iff. destruct (mem_N h (throttled_in (final_log cfg hs script))) eqn:Em; [|reflexivity].
    apply mem_N_In in Em. exfalso. exact (op_not_throttled cfg hs script h Hset Em).
Qed.

(* ---- without any limit the workers are exactly those of the plain task-flow model ---- *)
Definition all_unlimited (lims : limiters) : Prop := forall h, b_limit (lims h) = None.

Lemma all_unlimited_set lims h : all_unlimited lims -> all_unlimited (set_lim lims h (lims h)).
Proof. intros H x. unfold set_lim. destruct (N.eqb x h); apply H. Qed.

Lemma advance_q_lim_unlimited cfg qok now qn : forall fuel items w,
  all_unlimited (w_lims w) ->
  exists st w', advance_q_lim fuel cfg qok now qn items w =
                  (fst (fst (advance_q fuel cfg qok items (w_sh w))), st, w') /\
                run_of st = snd (fst (advance_q fuel cfg qok items (w_sh w))) /\
                wait_of qn st = [] /\
                w_sh w' = snd (advance_q fuel cfg qok items (w_sh w)) /\
                all_unlimited (w_lims w').
Proof.
  induction fuel as [|fuel IH]; intros items w Hu.
  - exists WFree, w. cbn. repeat split; auto.
  - cbn [advance_q_lim advance_q]. destruct items as [|t rest].
    + exists WFree, w. cbn. repeat split; auto.
    + destruct (t_type t).
      * rewrite (reserve_inf _ now (Hu (t_hook t))). rewrite Z.ltb_irrefl.
        cbn [w_sh w_lims w_log].
        destruct (should_run _ t).
        -- destruct (negb _ && should_combine t && qok (t_queue t)).
           ++ destruct (combine t rest) as [t' rest']. eexists. eexists. split; [reflexivity|].
              cbn. repeat split; auto. apply all_unlimited_set; exact Hu.
           ++ eexists. eexists. split; [reflexivity|].
              cbn. repeat split; auto. apply all_unlimited_set; exact Hu.
        -- match goal with |- context [advance_q_lim fuel cfg qok now qn rest ?w1] =>
             destruct (IH rest w1 (all_unlimited_set _ _ Hu)) as (st & w' & H1 & H2 & H3 & H4 & H5) end.
           exists st, w'. cbn [w_sh] in *. repeat split; assumption.
      * destruct (find_hook cfg (t_hook t)) as [h|].
        -- match goal with |- context [advance_q_lim fuel cfg qok now qn ?it ?w1] =>
             destruct (IH it w1 Hu) as (st & w' & H1 & H2 & H3 & H4 & H5) end.
           exists st, w'. cbn [w_sh] in *. repeat split; assumption.
        -- destruct (IH rest w Hu) as (st & w' & H1 & H2 & H3 & H4 & H5).
           exists st, w'. repeat split; assumption.
      * match goal with |- context [advance_q_lim fuel cfg qok now qn rest ?w1] =>
          destruct (IH rest w1 Hu) as (st & w' & H1 & H2 & H3 & H4 & H5) end.
        exists st, w'. cbn [w_sh] in *. repeat split; assumption.
Qed.

Lemma advance_all_lim_unlimited cfg qok now : forall qs w,
  all_unlimited (w_lims w) ->
  exists w', advance_all_lim cfg qok now [] qs w = (fst (advance_all cfg qok qs (w_sh w)), [], w') /\
             w_sh w' = snd (advance_all cfg qok qs (w_sh w)) /\ all_unlimited (w_lims w').
Proof.
  induction qs as [|q r IH]; intros w Hu.
  - exists w. cbn. repeat split; auto.
  - cbn [advance_all_lim advance_all is_waiting existsb]. rewrite orb_false_r.
    destruct (is_running q).
    + destruct (IH w Hu) as (w' & H1 & H2 & H3). rewrite H1.
      destruct (advance_all cfg qok r (w_sh w)) as [r' sh'] eqn:E. cbn [fst snd] in *.
      exists w'. repeat split; assumption.
    + destruct (advance_q_lim_unlimited cfg qok now (q_name q) (fuel_for cfg (q_items q)) (q_items q) w Hu)
        as (st & w1 & H1 & H2 & H3 & H4 & H5).
      rewrite H1, H3. cbn [app].
      destruct (advance_q (fuel_for cfg (q_items q)) cfg qok (q_items q) (w_sh w)) as [[items run] sh1] eqn:E1.
      cbn [fst snd] in *.
      destruct (IH w1 H5) as (w' & G1 & G2 & G3). rewrite G1, H4, H2.
      destruct (advance_all cfg qok r sh1) as [r' sh'] eqn:E2. cbn [fst snd] in *.
      exists w'. rewrite H4, E2 in G2. cbn [snd] in G2. repeat split; assumption.
Qed.

Lemma step_is_pre_advance cfg s a : step cfg s a = op_advance cfg (pre_step cfg s a).
Proof. destruct a; reflexivity. Qed.

Lemma wake_due_nobody cfg now ls : forall fuel, l_waiting ls = [] -> wake_due fuel cfg now ls = ls.
Proof. intros [|fuel] Hw; [reflexivity|]. cbn [wake_due]. rewrite Hw. reflexivity. Qed.

Lemma step_lim_unlimited cfg ls ta :
  all_unlimited (l_lims ls) -> l_waiting ls = [] ->
  l_op (step_lim cfg ls ta) = step cfg (l_op ls) (snd ta) /\
  l_waiting (step_lim cfg ls ta) = [] /\ all_unlimited (l_lims (step_lim cfg ls ta)).
Proof.
  intros Hu Hw. rewrite step_is_pre_advance. unfold step_lim.
  rewrite (wake_due_nobody cfg (fst ta) ls _ Hw), Hw. cbn [due existsb].
  unfold advance_lim, op_advance.
  cbn [l_op l_waiting l_lims l_log l_overrun].
  destruct (stopped (pre_step cfg (l_op ls) (snd ta))); [cbn; repeat split; auto|].
  match goal with |- context [advance_all_lim cfg ?qok (fst ta) [] ?qs ?w] =>
    destruct (advance_all_lim_unlimited cfg qok (fst ta) qs w Hu) as (w' & H1 & H2 & H3) end.
  rewrite H1. cbn [w_sh] in *.
  destruct (advance_all _ _ _ _) as [qs' sh'] eqn:E. cbn [fst snd l_op l_waiting l_lims] in *.
  rewrite H2. repeat split; auto.
Qed.

Lemma op_unlimited_is_plain_operator cfg hs : forall script,
  all_unlimited (init_limiters hs) ->
  l_op (run_lim cfg (init_lim hs) script) = exec cfg (map snd script) init /\
  l_waiting (run_lim cfg (init_lim hs) script) = [].
Proof.
  intros script Hu.
  assert (G : forall script ls, all_unlimited (l_lims ls) -> l_waiting ls = [] ->
              l_op (run_lim cfg ls script) = exec cfg (map snd script) (l_op ls) /\
              l_waiting (run_lim cfg ls script) = []).
  { clear. induction script as [|ta r IH]; intros ls Hu Hw; [split; [reflexivity | exact Hw]|].
    destruct (step_lim_unlimited cfg ls ta Hu Hw) as (H1 & H2 & H3).
    cbn [run_lim fold_left map exec]. unfold run_lim, exec in IH.
    destruct (IH (step_lim cfg ls ta) H3 H2) as [G1 G2]. rewrite G1, H1. split; [reflexivity | exact G2]. }
  apply (G script (init_lim hs) Hu eq_refl).
Qed.

(* ======================================================================================
   Concurrent waiters of one hook; instants that are observed late. *)

(* ---- stacked reservations ---- *)
Lemma stacked_state I B : 0 < I -> 1 <= B ->
  forall arr b l, lim_state I B b l -> sortedb (l :: arr) = true ->
  forall i ti tj ai aj,
  nth_error arr i = Some ti -> nth_error arr (S i) = Some tj ->
  nth_error (grants b arr) i = Some (Some ai) -> nth_error (grants b arr) (S i) = Some (Some aj) ->
  tj < aj -> aj <= ai + I /\ (ti < ai -> aj = ai + I).
Proof.
  intros HI HB arr. induction arr as [|t r IH]; intros b l Hst Hs i ti tj ai aj Hti Htj Hai Haj Hw.
  - destruct i; discriminate.
  - apply sortedb_cons in Hs as [Hle Hs].
    destruct (reserve_step HI HB Hst Hle) as (b' & a & Hr & Hst' & Hz & Ha).
    cbn [grants] in Hai, Haj. rewrite Hr in Hai, Haj.
    destruct i as [|i'].
    + cbn in Hti, Hai. inversion Hti; inversion Hai; subst ti ai. clear Hti Hai.
      destruct r as [|t2 r2]; [discriminate|]. cbn in Htj. inversion Htj; subst t2. clear Htj.
      apply sortedb_cons in Hs as [Hle2 Hs2].
      destruct (reserve_step HI HB Hst' Hle2) as (b2 & a2 & Hr2 & Hst2 & Hz2 & Ha2).
      cbn [nth_error grants] in Haj. rewrite Hr2 in Haj. cbn in Haj. inversion Haj; subst aj. clear Haj.
      assert (HBI : I <= B * I) by nia.
      split; [|intros Hd]; lia.
    + cbn [nth_error] in Hti, Htj, Hai, Haj.
      exact (IH b' t Hst' Hs i' ti tj ai aj Hti Htj Hai Haj Hw).
Qed.

Lemma stacked_reservations I B arrivals : 0 < I -> 1 <= B -> sortedb arrivals = true ->
  forall i ti tj ai aj,
  nth_error arrivals i = Some ti -> nth_error arrivals (S i) = Some tj ->
  nth_error (grants (create_rate_limiter (Some (mkSettings I B))) arrivals) i = Some (Some ai) ->
  nth_error (grants (create_rate_limiter (Some (mkSettings I B))) arrivals) (S i) = Some (Some aj) ->
  tj < aj -> aj <= ai + I /\ (ti < ai -> aj = ai + I).
Proof.
  intros HI HB Hs i ti tj ai aj Hti Htj Hai Haj Hw.
  rewrite (create_limited HI HB) in Hai, Haj. rewrite (grants_first I arrivals HB) in Hai, Haj.
  destruct arrivals as [|t r]; [destruct i; discriminate|].
  eapply (@stacked_state I B HI HB (t :: r) _ t); try eassumption.
  - unfold lim_state; cbn; auto.
  - apply sortedb_dup; exact Hs.
Qed.

(* n requests at one instant: the first B act at once, the (B+k)-th k intervals later *)
Lemma concurrent_state I B t : 0 < I -> 1 <= B ->
  forall n b m, lim_state I B b t -> 0 <= m -> zb b t = t - B * I + m * I ->
  forall k, (k < n)%nat ->
  nth_error (grants b (repeat t n)) k = Some (Some (t + Z.max 0 (m + Z.of_nat k + 1 - B) * I)).
Proof.
  intros HI HB. induction n as [|n IH]; intros b m Hst Hm Hz k Hk; [lia|].
  cbn [repeat grants].
  destruct (reserve_step HI HB Hst (Z.le_refl t)) as (b' & a & Hr & Hst' & Hz' & Ha). rewrite Hr.
  destruct k as [|k'].
  - cbn. f_equal. f_equal. subst a. rewrite Hz', Hz. nia.
  - cbn [nth_error]. rewrite (IH b' (m + 1) Hst' ltac:(lia)); [| rewrite Hz', Hz; nia | lia].
    f_equal. f_equal. rewrite Nat2Z.inj_succ. f_equal. f_equal. lia.
Qed.

Lemma concurrent_waiters I B t n k : 0 < I -> 1 <= B -> (k < n)%nat ->
  nth_error (grants (create_rate_limiter (Some (mkSettings I B))) (repeat t n)) k
  = Some (Some (t + Z.max 0 (Z.of_nat k + 1 - B) * I)).
Proof.
  intros HI HB Hk. rewrite (create_limited HI HB), (grants_first I (repeat t n) HB).
  destruct n as [|n]; [lia|]. cbn [repeat].
  change (t :: repeat t n) with (repeat t (S n)).
  rewrite (@concurrent_state I B t HI HB (S n) (mkBucket (Some I) B (B * I) (Some t)) 0); try lia.
  - reflexivity.
  - unfold lim_state; cbn; auto.
  - unfold zb; cbn. lia.
Qed.

(* ---- later requests are granted later ---- *)
Lemma grants_monotone_state I B : 0 < I -> 1 <= B ->
  forall arr arr' b l b2 l2, Forall2 Z.le arr arr' ->
  lim_state I B b l -> lim_state I B b2 l2 -> zb b l <= zb b2 l2 ->
  sortedb (l :: arr) = true -> sortedb (l2 :: arr') = true ->
  Forall2 Z.le (somes (grants b arr)) (somes (grants b2 arr')).
Proof.
  intros HI HB arr arr' b l b2 l2 HF. revert b l b2 l2.
  induction HF as [|t t' r r' Htt HF IH]; intros b l b2 l2 Hst Hst2 Hz Hs Hs2; [constructor|].
  apply sortedb_cons in Hs as [Hle Hs]. apply sortedb_cons in Hs2 as [Hle2 Hs2].
  destruct (reserve_step HI HB Hst Hle) as (b' & a & Hr & Hst' & Hz' & Ha).
  destruct (reserve_step HI HB Hst2 Hle2) as (b2' & a2 & Hr2 & Hst2' & Hz2' & Ha2).
  cbn [grants]. rewrite Hr, Hr2. cbn [somes]. constructor; [lia|].
  apply (IH b' t b2' t' Hst' Hst2'); [lia | exact Hs | exact Hs2].
Qed.

Lemma grants_monotone I B arr arr' : 0 < I -> 1 <= B ->
  Forall2 Z.le arr arr' -> sortedb arr = true -> sortedb arr' = true ->
  Forall2 Z.le (somes (grants (create_rate_limiter (Some (mkSettings I B))) arr))
               (somes (grants (create_rate_limiter (Some (mkSettings I B))) arr')).
Proof.
  intros HI HB HF Hs Hs'. rewrite (create_limited HI HB), !(grants_first I _ HB).
  destruct HF as [|t t' r r' Htt HF]; [constructor|].
  apply (@grants_monotone_state I B HI HB (t :: r) (t' :: r') _ t _ t').
  - constructor; assumption.
  - unfold lim_state; cbn; auto.
  - unfold lim_state; cbn; auto.
  - unfold zb; cbn. lia.
  - apply sortedb_dup; exact Hs.
  - apply sortedb_dup; exact Hs'.
Qed.

(* ---- windows that begin at a known instant, judged on instants observed late ---- *)
Lemma anchored_from_intro I B a : forall l k,
  (forall j m, nth_error l j = Some m -> k + Z.of_nat j <= B + ceil_div (m - a) I) ->
  anchored_from I B a k l = true.
Proof.
  induction l as [|m r IH]; intros k H; [reflexivity|].
  cbn [anchored_from]. apply andb_true_iff; split.
  - apply Z.leb_le. specialize (H 0%nat m eq_refl). cbn in H. lia.
  - apply IH. intros j m' Hj. specialize (H (S j) m' Hj). rewrite Nat2Z.inj_succ in H. lia.
Qed.

Lemma sortedb_filter p : forall l, sortedb l = true -> sortedb (filter p l) = true.
Proof.
  induction l as [|x r IH]; intros Hs; [reflexivity|].
  pose proof (sortedb_Forall _ _ Hs) as Hf. specialize (IH (sortedb_tail _ _ Hs)).
  cbn [filter]. destruct (p x); [|exact IH].
  apply sortedb_cons_intro; [|exact IH].
  rewrite Forall_forall in *. intros y Hy. apply filter_In in Hy as [Hy _]. exact (Hf y Hy).
Qed.

Lemma filter_filter_and A (p q : A -> bool) : forall l,
  filter q (filter p l) = filter (fun x => p x && q x) l.
Proof.
  induction l as [|x r IH]; [reflexivity|]. cbn [filter].
  destruct (p x); cbn [filter andb]; [destruct (q x); [f_equal|]; exact IH | exact IH].
Qed.

Lemma sorted_prefix_le : forall l j m, sortedb l = true -> nth_error l j = Some m ->
  (j + 1 <= length (filter (fun x => Z.leb x m) l))%nat.
Proof.
  induction l as [|x r IH]; intros j m Hs Hn; [destruct j; discriminate|].
  pose proof (sortedb_Forall _ _ Hs) as Hf.
  destruct j as [|j'].
  - cbn in Hn. inversion Hn; subst. cbn [filter]. rewrite Z.leb_refl. cbn [length]. lia.
  - cbn [nth_error] in Hn.
    assert (Hxm : x <= m).
    { rewrite Forall_forall in Hf. apply Hf. eapply nth_error_In; exact Hn. }
    cbn [filter]. apply Z.leb_le in Hxm. rewrite Hxm. cbn [length].
    specialize (IH j' m (sortedb_tail _ _ Hs) Hn). lia.
Qed.

(* observing late moves starts out of a window that begins at an anchor, never into it *)
Lemma late_count a m : forall reals meas, Forall2 Z.le reals meas ->
  (forall r x, In (r, x) (List.combine reals meas) -> a <= x -> a <= r) ->
  (length (filter (fun x => Z.leb a x && Z.leb x m) meas) <= length (filter (in_window a (m - a)) reals))%nat.
Proof.
  intros reals meas HF. induction HF as [|r x rs xs Hrx HF IH]; intros Hanch; [cbn; lia|].
  assert (IH' := IH (fun r0 x0 Hin => Hanch r0 x0 (or_intror Hin))).
  cbn [filter]. destruct ((a <=? x) && (x <=? m)) eqn:Ex.
  - apply andb_true_iff in Ex as [E1 E2]. apply Z.leb_le in E1, E2.
    assert (Har : a <= r) by (apply (Hanch r x); [left; reflexivity | exact E1]).
    assert (Ew : in_window a (m - a) r = true).
    { unfold in_window. apply andb_true_iff; split; apply Z.leb_le; lia. }
    rewrite Ew. cbn [length]. lia.
  - destruct (in_window a (m - a) r); cbn [length]; lia.
Qed.

Lemma late_observation_sound I B a reals meas :
  0 < I -> respects_limit I B reals -> Forall2 Z.le reals meas -> sortedb meas = true ->
  (forall r x, In (r, x) (List.combine reals meas) -> a <= x -> a <= r) ->
  anchored_ok I B a meas = true.
Proof.
  intros HI Hresp HF Hs Hanch. unfold anchored_ok. apply anchored_from_intro. intros j m Hj.
  set (F := filter (fun x => a <=? x) meas) in *.
  assert (HsF : sortedb F = true) by (apply sortedb_filter; exact Hs).
  pose proof (sorted_prefix_le F j m HsF Hj) as H1. unfold F in H1. rewrite filter_filter_and in H1.
  pose proof (late_count a m reals meas HF Hanch) as H2.
  assert (Ham : a <= m).
  { apply nth_error_In in Hj. apply filter_In in Hj as [_ Hj]. apply Z.leb_le in Hj. exact Hj. }
  specialize (Hresp a (m - a) ltac:(lia)). unfold count_in in Hresp. lia.
Qed.

Lemma Forall2_le_refl : forall l, Forall2 Z.le l l.
Proof. induction l; constructor; [lia | assumption]. Qed.

Lemma In_combine_same : forall (l : list Z) r x, In (r, x) (List.combine l l) -> r = x.
Proof.
  induction l as [|y l IH]; intros r x H; [destruct H|].
  destruct H as [H|H]; [inversion H; reflexivity | exact (IH r x H)].
Qed.

(* the starts of the model satisfy the anchored form for every anchor *)
Lemma op_starts_sorted cfg hs script h : sortedb (map fst script) = true ->
  sortedb (starts_in h (final_log cfg hs script)) = true.
Proof. intros Hs. destruct (op_hinv cfg hs script h Hs) as (now & _ & _ & _ & _ & _ & H6 & _). exact H6. Qed.

Lemma op_P_timed_holds cfg hs script anchors : sortedb (map fst script) = true ->
  P_timed hs anchors (starts_all (final_log cfg hs script)) = true.
Proof.
  intros Hs. unfold P_timed. apply forallb_forall. intros h _. rewrite starts_of_all.
  unfold P_hook_anchored. destruct (settings_of hs h) as [[I B]|] eqn:Hset; [|reflexivity].
  cbn [s_interval s_burst].
  destruct (Z.ltb_spec 0 I) as [HI|_]; [|reflexivity].
  destruct (Z.leb_spec 1 B) as [HB|_]; [|reflexivity].
  cbn [andb]. rewrite (op_starts_sorted cfg hs script h Hs). cbn [andb].
  apply forallb_forall. intros a _.
  apply (late_observation_sound I B a (starts_in h (final_log cfg hs script))); try assumption.
  - exact (op_respects_limit cfg hs script h I B Hset HI HB Hs).
  - apply Forall2_le_refl.
  - exact (op_starts_sorted cfg hs script h Hs).
  - intros r x Hin Hax. apply In_combine_same in Hin. subst. exact Hax.
Qed.
