(* C18_Proofs.v — proofs about the token-bucket model of C18.

   Key quantity: for a limited bucket with state (tokens, last) let
       z = last - tokens          ("the instant at which the bucket was/would be empty").
   One reservation at t >= last gives   z' = max z (t - B*I) + I   and
   timeToAct = max t z'.  Hence z grows by at least I per grant, every act time is at
   least z', and z' >= act - (B-1)*I: the window bound follows. *)
From Verif Require Import Common C18_Model C18_Spec.
Open Scope Z_scope.
Set Implicit Arguments.

Definition lim_state (I B : Z) (b : bucket) (l : Z) : Prop :=
  b_limit b = Some I /\ b_burst b = B /\ b_last b = Some l.

Definition zb (b : bucket) (l : Z) : Z := l - b_tokens b.

Lemma reserve_step I B b l t :
  0 < I -> 1 <= B -> lim_state I B b l -> l <= t ->
  exists b' a, reserve b t = (b', Some a) /\ lim_state I B b' t /\
               zb b' t = Z.max (zb b l) (t - B * I) + I /\ a = Z.max t (zb b' t).
Proof.
  intros HI HB (Hl & Hb & Hlast) Hle.
  unfold reserve, reserve_n. rewrite Hl. unfold advance. rewrite Hlast, Hb.
  assert (E : (1 <=? B) = true) by (apply Z.leb_le; exact HB).
  rewrite E. cbn [andb].
  eexists. eexists. split; [reflexivity|].
  split; [unfold lim_state; cbn; auto|].
  unfold zb; cbn [b_tokens]. split; lia.
Qed.

Lemma sortedb_cons x y r : sortedb (x :: y :: r) = true -> x <= y /\ sortedb (y :: r) = true.
Proof.
  cbn [sortedb]. intros H. apply andb_true_iff in H as [H1 H2].
  apply Z.leb_le in H1. split; assumption.
Qed.

(* under lim_state every request is granted *)
Lemma grants_all_some I B : 0 < I -> 1 <= B ->
  forall arr b l, lim_state I B b l -> sortedb (l :: arr) = true ->
  grants b arr = map Some (somes (grants b arr)) /\ length (somes (grants b arr)) = length arr.
Proof.
  intros HI HB arr. induction arr as [|t r IH]; intros b l Hst Hs.
  - split; reflexivity.
  - apply sortedb_cons in Hs as [Hle Hs].
    destruct (reserve_step HI HB Hst Hle) as (b' & a & Hr & Hst' & _ & _).
    cbn [grants]. rewrite Hr. cbn [somes map length].
    destruct (IH b' t Hst' Hs) as [E1 E2]. split; [f_equal; exact E1 | f_equal; exact E2].
Qed.

(* every later act time is at least z + (index+1)*I *)
Lemma acts_lower I B : 0 < I -> 1 <= B ->
  forall arr b l, lim_state I B b l -> sortedb (l :: arr) = true ->
  forall j aj, nth_error (somes (grants b arr)) j = Some aj ->
  zb b l + (Z.of_nat j + 1) * I <= aj.
Proof.
  intros HI HB arr. induction arr as [|t r IH]; intros b l Hst Hs j aj Hn.
  - destruct j; discriminate.
  - apply sortedb_cons in Hs as [Hle Hs].
    destruct (reserve_step HI HB Hst Hle) as (b' & a & Hr & Hst' & Hz & Ha).
    cbn [grants] in Hn. rewrite Hr in Hn. cbn [somes] in Hn.
    destruct j as [|j'].
    + cbn in Hn. inversion Hn; subst aj. lia.
    + cbn [nth_error] in Hn. specialize (IH b' t Hst' Hs j' aj Hn).
      rewrite Nat2Z.inj_succ. lia.
Qed.

(* the window bound from any limited state *)
Lemma acts_bound I B : 0 < I -> 1 <= B ->
  forall arr b l, lim_state I B b l -> sortedb (l :: arr) = true ->
  forall i j ai aj, (i <= j)%nat ->
  nth_error (somes (grants b arr)) i = Some ai ->
  nth_error (somes (grants b arr)) j = Some aj ->
  (Z.of_nat j - Z.of_nat i + 1 - B) * I <= aj - ai.
Proof.
  intros HI HB arr. induction arr as [|t r IH]; intros b l Hst Hs i j ai aj Hij Hi Hj.
  - destruct i; discriminate.
  - apply sortedb_cons in Hs as [Hle Hs].
    destruct (reserve_step HI HB Hst Hle) as (b' & a & Hr & Hst' & Hz & Ha).
    cbn [grants] in Hi, Hj. rewrite Hr in Hi, Hj. cbn [somes] in Hi, Hj.
    destruct i as [|i'].
    + cbn in Hi. inversion Hi; subst ai.
      destruct j as [|j'].
      * cbn in Hj. inversion Hj; subst aj. nia.
      * cbn [nth_error] in Hj.
        pose proof (acts_lower HI HB r Hst' Hs j' Hj) as Hlow.
        rewrite Nat2Z.inj_succ. nia.
    + destruct j as [|j']; [lia|].
      cbn [nth_error] in Hi, Hj.
      assert (Hij' : (i' <= j')%nat) by lia.
      specialize (IH b' t Hst' Hs i' j' ai aj Hij' Hi Hj).
      rewrite !Nat2Z.inj_succ. lia.
Qed.

(* ---- from the configuration ---- *)

Definition bucket0 (I B : Z) : bucket := mkBucket (Some I) B (B * I) None.

Lemma create_limited I B : 0 < I -> 1 <= B ->
  create_rate_limiter (Some (mkSettings I B)) = bucket0 I B.
Proof.
  intros HI HB. unfold create_rate_limiter, new_limiter, every, bucket0. cbn [s_interval s_burst].
  destruct (Z.eqb_spec I 0) as [E|_]; [lia|].
  destruct (Z.leb_spec I 0) as [E|_]; [lia|].
  destruct (Z.eqb_spec B 0) as [E|_]; [lia|].
  reflexivity.
Qed.

(* the first reservation on the fresh limiter (last = zero time) behaves as if last = t *)
Lemma first_reserve I B t : 1 <= B ->
  reserve (bucket0 I B) t = reserve (mkBucket (Some I) B (B * I) (Some t)) t.
Proof.
  intros HB. assert (E : (1 <=? B) = true) by (apply Z.leb_le; exact HB).
  unfold reserve, reserve_n, advance, bucket0, max_duration. cbn [b_limit b_last b_tokens b_burst].
  rewrite E. cbn [andb].
  replace (Z.min (B * I + 9223372036854775807) (B * I)) with (B * I) by lia.
  replace (Z.min (B * I + (t - Z.min t t)) (B * I)) with (B * I) by lia.
  reflexivity.
Qed.

Lemma grants_first I B arr : 1 <= B ->
  grants (bucket0 I B) arr =
  match arr with [] => [] | t :: _ => grants (mkBucket (Some I) B (B * I) (Some t)) arr end.
Proof.
  intros HB. destruct arr as [|t r]; [reflexivity|]. cbn [grants]. rewrite (first_reserve I t HB). reflexivity.
Qed.

Lemma sortedb_dup t r : sortedb (t :: r) = true -> sortedb (t :: t :: r) = true.
Proof.
  intros H. change (sortedb (t :: t :: r)) with ((t <=? t) && sortedb (t :: r)).
  rewrite H. rewrite Z.leb_refl. reflexivity.
Qed.

Lemma window_bound I B arrivals :
  0 < I -> 1 <= B -> sortedb arrivals = true ->
  forall i j ai aj, (i <= j)%nat ->
  nth_error (grants (create_rate_limiter (Some (mkSettings I B))) arrivals) i = Some (Some ai) ->
  nth_error (grants (create_rate_limiter (Some (mkSettings I B))) arrivals) j = Some (Some aj) ->
  (Z.of_nat j - Z.of_nat i + 1 - B) * I <= aj - ai.
Proof.
  intros HI HB Hs i j ai aj Hij Hi Hj.
  rewrite (create_limited HI HB) in Hi, Hj. rewrite (grants_first I arrivals HB) in Hi, Hj.
  destruct arrivals as [|t r]; [destruct i; discriminate|].
  set (b := mkBucket (Some I) B (B * I) (Some t)) in *.
  assert (Hst : lim_state I B b t) by (unfold lim_state, b; cbn; auto).
  pose proof (@sortedb_dup t r Hs) as Hs'.
  destruct (grants_all_some HI HB (t :: r) Hst Hs') as [E _].
  rewrite E in Hi, Hj.
  rewrite nth_error_map in Hi, Hj.
  destruct (nth_error (somes (grants b (t :: r))) i) as [x|] eqn:Ei; [|discriminate].
  destruct (nth_error (somes (grants b (t :: r))) j) as [y|] eqn:Ej; [|discriminate].
  cbn in Hi, Hj. inversion Hi; inversion Hj; subst.
  exact (acts_bound HI HB (t :: r) Hst Hs' Hij Ei Ej).
Qed.

Lemma always_granted I B arrivals :
  0 < I -> 1 <= B -> sortedb arrivals = true ->
  let g := grants (create_rate_limiter (Some (mkSettings I B))) arrivals in
  g = map Some (somes g) /\ length (somes g) = length arrivals.
Proof.
  intros HI HB Hs. cbv zeta.
  rewrite (create_limited HI HB). rewrite (grants_first I arrivals HB).
  destruct arrivals as [|t r]; [split; reflexivity|].
  apply (@grants_all_some I B HI HB (t :: r) _ t).
  - unfold lim_state; cbn; auto.
  - apply sortedb_dup; exact Hs.
Qed.

(* B = 0 in the settings is read as 1 *)
Lemma zero_burst_is_one I :
  create_rate_limiter (Some (mkSettings I 0)) = create_rate_limiter (Some (mkSettings I 1)).
Proof. reflexivity. Qed.

(* ---- unlimited ---- *)

Lemma grants_inf b : b_limit b = None -> forall arr, grants b arr = map Some arr.
Proof.
  intros Hb arr. induction arr as [|t r IH]; [reflexivity|].
  cbn [grants]. unfold reserve, reserve_n. rewrite Hb. cbn [map]. f_equal. exact IH.
Qed.

Lemma unlimited_without_settings arrivals :
  grants (create_rate_limiter None) arrivals = map Some arrivals.
Proof. apply grants_inf. reflexivity. Qed.

Lemma unlimited_zero_interval B arrivals :
  grants (create_rate_limiter (Some (mkSettings 0 B))) arrivals = map Some arrivals.
Proof. apply grants_inf. reflexivity. Qed.

(* ---- counting in windows ---- *)

Lemma filter_span (p : Z -> bool) : forall l, filter p l <> [] ->
  exists i j x y, (i <= j)%nat /\ nth_error l i = Some x /\ nth_error l j = Some y /\
                  p x = true /\ p y = true /\ (length (filter p l) <= j - i + 1)%nat.
Proof.
  induction l as [|a r IH]; intros Hne; [exfalso; apply Hne; reflexivity|].
  cbn [filter] in *. destruct (p a) eqn:Pa.
  - destruct (filter p r) as [|f fr] eqn:Ef.
    + exists 0%nat, 0%nat, a, a. cbn. repeat split; auto.
    + destruct IH as (i & j & x & y & Hij & Hi & Hj & Px & Py & Hlen); [discriminate|].
      exists 0%nat, (S j), a, y. cbn [nth_error length] in *. repeat split; auto; lia.
  - destruct (IH Hne) as (i & j & x & y & Hij & Hi & Hj & Px & Py & Hlen).
    exists (S i), (S j), x, y. cbn [nth_error]. repeat split; auto; lia.
Qed.

Lemma ceil_div_ge_floor T I : 0 < I -> T / I <= ceil_div T I.
Proof. intros HI. unfold ceil_div. apply Z.div_le_mono; lia. Qed.

(* a list with the pairwise bound has at most B + T/I elements in any closed window *)
Lemma count_from_pairwise I B l : 0 < I -> 1 <= B ->
  (forall i j x y, (i <= j)%nat -> nth_error l i = Some x -> nth_error l j = Some y ->
                   (Z.of_nat j - Z.of_nat i + 1 - B) * I <= y - x) ->
  forall s T, 0 <= T -> count_in s T l <= B + T / I.
Proof.
  intros HI HB Hpair s T HT. unfold count_in.
  destruct (filter (in_window s T) l) as [|f fr] eqn:Ef.
  - cbn. assert (0 <= T / I) by (apply Z.div_pos; lia). lia.
  - assert (Hne : filter (in_window s T) l <> []) by (rewrite Ef; discriminate).
    destruct (filter_span _ _ Hne) as (i & j & x & y & Hij & Hi & Hj & Px & Py & Hlen).
    rewrite Ef in Hlen.
    specialize (Hpair i j x y Hij Hi Hj).
    unfold in_window in Px, Py.
    apply andb_true_iff in Px as [Px1 Px2]. apply andb_true_iff in Py as [Py1 Py2].
    apply Z.leb_le in Px1, Px2, Py1, Py2.
    assert (Hq : Z.of_nat j - Z.of_nat i + 1 - B <= T / I).
    { apply Z.div_le_lower_bound; [exact HI|]. lia. }
    lia.
Qed.

Lemma count_in_window I B arrivals :
  0 < I -> 1 <= B -> sortedb arrivals = true ->
  forall s T, 0 <= T ->
  count_in s T (somes (grants (create_rate_limiter (Some (mkSettings I B))) arrivals)) <= B + T / I.
Proof.
  intros HI HB Hs. apply (@count_from_pairwise I B _ HI HB).
  intros i j x y Hij Hi Hj.
  destruct (@always_granted I B arrivals HI HB Hs) as [E _].
  apply (@window_bound I B arrivals HI HB Hs _ _ _ _ Hij); rewrite E; rewrite nth_error_map.
  - rewrite Hi; reflexivity.
  - rewrite Hj; reflexivity.
Qed.

Lemma respects_limit_model I B arrivals :
  0 < I -> 1 <= B -> sortedb arrivals = true ->
  respects_limit I B (somes (grants (create_rate_limiter (Some (mkSettings I B))) arrivals)).
Proof.
  intros HI HB Hs s T HT.
  pose proof (@count_in_window I B arrivals HI HB Hs s T HT).
  pose proof (@ceil_div_ge_floor T I HI). lia.
Qed.

(* ---- the decidable form ---- *)

Lemma from_ok_intro I B x : forall rest k,
  (forall m y, nth_error rest m = Some y -> k + Z.of_nat m + 1 <= B + ceil_div (y - x) I) ->
  from_ok I B x k rest = true.
Proof.
  induction rest as [|y r IH]; intros k H; [reflexivity|].
  cbn [from_ok]. apply andb_true_iff; split.
  - apply Z.leb_le. specialize (H 0%nat y eq_refl). cbn in H. lia.
  - apply IH. intros m y' Hm. specialize (H (S m) y' Hm). rewrite Nat2Z.inj_succ in H. lia.
Qed.

Lemma window_ok_intro I B : 0 < I -> forall l,
  (forall i j x y, (i <= j)%nat -> nth_error l i = Some x -> nth_error l j = Some y ->
                   (Z.of_nat j - Z.of_nat i + 1 - B) * I <= y - x) ->
  window_ok I B l = true.
Proof.
  intros HI. induction l as [|x r IH]; intros H; [reflexivity|].
  cbn [window_ok]. apply andb_true_iff; split.
  - apply from_ok_intro. intros m y Hm.
    specialize (H 0%nat (S m) x y (Nat.le_0_l _) eq_refl Hm).
    rewrite Nat2Z.inj_succ in H. cbn [Z.of_nat] in H.
    assert (Hq : Z.succ (Z.of_nat m) - 0 + 1 - B <= (y - x) / I).
    { apply Z.div_le_lower_bound; [exact HI|]. lia. }
    pose proof (@ceil_div_ge_floor (y - x) I HI). lia.
  - apply IH. intros i j a c Hij Hi Hj.
    specialize (H (S i) (S j) a c (le_n_S _ _ Hij) Hi Hj).
    rewrite !Nat2Z.inj_succ in H. lia.
Qed.

Lemma list_eqb_refl_optZ l : list_eqb (option_eqb Z.eqb) l l = true.
Proof.
  apply list_eqb_refl. intros [x|]; cbn; [apply Z.eqb_refl | reflexivity].
Qed.

Lemma spec_holds cfg arrivals :
  sortedb arrivals = true -> P cfg arrivals (grants (create_rate_limiter cfg) arrivals) = true.
Proof.
  intros Hs. unfold P. destruct cfg as [[I B]|].
  - cbn [s_interval s_burst]. rewrite Hs.
    destruct (Z.ltb_spec 0 I) as [HI|_]; [|reflexivity].
    destruct (Z.leb_spec 1 B) as [HB|_]; [|reflexivity].
    cbn [andb]. apply (@window_ok_intro I B HI).
    intros i j x y Hij Hi Hj.
    destruct (@always_granted I B arrivals HI HB Hs) as [E _].
    apply (@window_bound I B arrivals HI HB Hs _ _ _ _ Hij); rewrite E; rewrite nth_error_map.
    + rewrite Hi; reflexivity.
    + rewrite Hj; reflexivity.
  - rewrite unlimited_without_settings. apply list_eqb_refl_optZ.
Qed.

(* ---- the RateLimitWait probe: calls at one instant with a deadline shorter than I ---- *)

Definition count_true (l : list bool) : Z := Z.of_nat (length (filter (fun x => x) l)).

Lemma probe_bound I B t budget : 0 < I -> 0 <= budget < I ->
  forall n b m, b_limit b = Some I -> b_burst b = B -> 0 <= m -> advance I b t <= m * I ->
  count_true (wait_probe b t budget n) <= m.
Proof.
  intros HI Hbud. induction n as [|n IH]; intros b m Hl Hb Hm Hadv.
  - cbn. exact Hm.
  - cbn [wait_probe]. unfold reserve_n. rewrite Hl.
    set (tok := advance I b t - I).
    destruct ((1 <=? b_burst b) && (Z.max 0 (- tok) <=? budget)) eqn:Eok.
    + apply andb_true_iff in Eok as [_ Ew]. apply Z.leb_le in Ew.
      assert (Hm1 : 1 <= m) by (subst tok; nia).
      set (b' := mkBucket (Some I) (b_burst b) tok (Some t)).
      assert (Hadv' : advance I b' t <= (m - 1) * I).
      { unfold advance, b'. cbn [b_last b_tokens b_burst]. subst tok. lia. }
      specialize (IH b' (m - 1) eq_refl Hb ltac:(lia) Hadv').
      unfold count_true in *. cbn [filter length]. rewrite Nat2Z.inj_succ. lia.
    + specialize (IH b m Hl Hb Hm Hadv).
      unfold count_true in *. cbn [filter]. exact IH.
Qed.

Lemma probe_spec I B t budget n : 0 < I -> 1 <= B -> 0 <= budget < I ->
  P_wall (Some (mkSettings I B))
         (count_true (wait_probe (create_rate_limiter (Some (mkSettings I B))) t budget n)) 0 = true.
Proof.
  intros HI HB Hbud. unfold P_wall. cbn [s_interval s_burst].
  destruct (Z.ltb_spec 0 I) as [_|]; [|lia].
  destruct (Z.leb_spec 1 B) as [_|]; [|lia].
  cbn [andb]. apply Z.leb_le.
  rewrite (create_limited HI HB).
  assert (Hc : ceil_div 0 I = 0) by (unfold ceil_div; apply Z.div_small; lia).
  rewrite Hc.
  assert (count_true (wait_probe (bucket0 I B) t budget n) <= B); [|lia].
  apply (@probe_bound I B t budget HI Hbud n (bucket0 I B) B); try reflexivity; try lia.
  unfold advance, bucket0, max_duration. cbn [b_last b_tokens b_burst]. lia.
Qed.
