(* C15_Proofs.v — lemmas and proofs for C15 (conversion chains). *)
From Verif Require Import Common C15_Model C15_Spec.
From Coq Require Import Arith.

Set Implicit Arguments.

(* ================================================================= basic facts *)

Lemma version_eqb_eq a b : version_eqb a b = true <-> a = b.
Proof.
  unfold version_eqb. destruct a as [ga sa], b as [gb sb]; cbn [fst snd].
  rewrite andb_true_iff, N.eqb_eq, (option_eqb_eq N.eqb N_eqb_iff).
  split; [intros [-> ->]; reflexivity | intros E; inversion E; auto].
Qed.

Lemma version_eqb_refl a : version_eqb a a = true.
Proof. now apply version_eqb_eq. Qed.

Lemma rule_eqb_eq a b : rule_eqb a b = true <-> a = b.
Proof.
  unfold rule_eqb. destruct a as [a1 a2], b as [b1 b2]; cbn [fst snd].
  rewrite andb_true_iff, !version_eqb_eq.
  split; [intros [-> ->]; reflexivity | intros E; inversion E; auto].
Qed.

Lemma rule_eqb_refl a : rule_eqb a a = true.
Proof. now apply rule_eqb_eq. Qed.

Lemma rule_eqb_neq a b : rule_eqb a b = false <-> a <> b.
Proof.
  split.
  - intros E H. apply rule_eqb_eq in H. congruence.
  - intros H. destruct (rule_eqb a b) eqn:E; [apply rule_eqb_eq in E; contradiction | reflexivity].
Qed.

Lemma rule_eq_dec (a b : rule) : {a = b} + {a <> b}.
Proof.
  destruct (rule_eqb a b) eqn:E; [left; now apply rule_eqb_eq | right; now apply rule_eqb_neq].
Qed.

Lemma vmatch_short a b : vmatch a b = true -> short a = short b.
Proof.
  unfold vmatch, short. destruct a as [[ga|] sa], b as [[gb|] sb]; cbn [fst snd];
    rewrite ?andb_true_iff, ?N.eqb_eq; tauto.
Qed.

Lemma vmatch_refl a : vmatch a a = true.
Proof.
  unfold vmatch. destruct a as [[ga|] sa]; cbn [fst snd]; rewrite ?N.eqb_refl; reflexivity.
Qed.

Lemma same_version_vmatch a b : same_version a b = vmatch a b.
Proof.
  unfold same_version, vmatch. destruct a as [[ga|] sa], b as [[gb|] sb]; cbn [fst snd];
    rewrite ?andb_true_r; try reflexivity. apply andb_comm.
Qed.

Lemma same_version_short a b : same_version a b = true -> short a = short b.
Proof. rewrite same_version_vmatch. apply vmatch_short. Qed.

(* the domain: every version written with a group carries the group g *)
Definition dom (g : N) (v : version) : Prop := fst v = None \/ fst v = Some g.

Lemma vmatch_dom g a b : dom g a -> dom g b -> vmatch a b = N.eqb (short a) (short b).
Proof.
  unfold dom, vmatch, short. destruct a as [ga sa], b as [gb sb]; cbn [fst snd].
  intros [-> | ->] [-> | ->]; try reflexivity. now rewrite N.eqb_refl.
Qed.

Lemma vmatch_dom_true g a b : dom g a -> dom g b -> short a = short b -> vmatch a b = true.
Proof. intros Ha Hb E. rewrite (vmatch_dom Ha Hb), E. apply N.eqb_refl. Qed.

Lemma one_group_dom vs : one_group vs = true -> exists g, forall v, In v vs -> dom g v.
Proof.
  unfold one_group. destruct (groups_of vs) as [|g gs] eqn:E.
  - intros _. exists 0%N. intros v Hv. left.
    destruct (fst v) as [h|] eqn:Ev; [|reflexivity].
    assert (In h (groups_of vs)) as Hin.
    { unfold groups_of. apply in_flat_map. exists v. split; [assumption|]. rewrite Ev. now left. }
    rewrite E in Hin. destruct Hin.
  - intros Hall. exists g. intros v Hv. destruct (fst v) as [h|] eqn:Ev; [right | now left].
    unfold dom. rewrite Ev.
    assert (In h (groups_of vs)) as Hin.
    { unfold groups_of. apply in_flat_map. exists v. split; [assumption|]. rewrite Ev. now left. }
    rewrite E in Hin. destruct Hin as [-> | Hin]; [reflexivity|].
    rewrite forallb_forall in Hall. apply Hall in Hin. apply N.eqb_eq in Hin. now subst.
Qed.

Definition rules_dom (g : N) (rules : list rule) : Prop :=
  forall r, In r rules -> dom g (r_from r) /\ dom g (r_to r).

Lemma versions_of_dom g rules :
  (forall v, In v (versions_of rules) -> dom g v) -> rules_dom g rules.
Proof.
  intros H r Hr. split; apply H; unfold versions_of; apply in_flat_map; exists r;
    (split; [assumption|]); cbn; auto.
Qed.

(* generic fold_left facts *)
Lemma fold_left_inv A B (f : A -> B -> A) (P : A -> Prop) l :
  forall a0, P a0 -> (forall a x, P a -> In x l -> P (f a x)) -> P (fold_left f l a0).
Proof.
  induction l as [|y l IH]; intros a0 H0 Hs; cbn [fold_left]; [assumption|].
  apply IH; [apply Hs; [assumption | now left] | intros a x Ha Hx; apply Hs; [assumption | now right]].
Qed.

(* a property established when x is processed and preserved by every step holds at the end *)
Lemma fold_left_reach A B (f : A -> B -> A) (Q : A -> Prop) l x :
  In x l -> (forall a, Q (f a x)) -> (forall a y, Q a -> Q (f a y)) ->
  forall a0, Q (fold_left f l a0).
Proof.
  intros Hin Hx Hp. induction l as [|y l IH]; intros a0; [destruct Hin|].
  cbn [fold_left]. destruct Hin as [-> | Hin].
  - apply fold_left_inv; [apply Hx | intros a z Ha _; now apply Hp].
  - now apply IH.
Qed.

(* ================================================================= the cache *)

Lemma get_put c k p k' :
  cache_get (cache_put c k p) k' = if rule_eqb k k' then Some p else cache_get c k'.
Proof.
  induction c as [|[k0 p0] c IH]; cbn [cache_put cache_get].
  - reflexivity.
  - destruct (rule_eqb k0 k) eqn:E0; cbn [cache_get].
    + apply rule_eqb_eq in E0; subst k0. destruct (rule_eqb k k'); reflexivity.
    + rewrite IH. destruct (rule_eqb k0 k') eqn:E1; [|reflexivity].
      apply rule_eqb_eq in E1; subst k0. apply rule_eqb_neq in E0.
      assert (rule_eqb k k' = false) as -> by (apply rule_eqb_neq; congruence). reflexivity.
Qed.

Lemma keys_put_mono c k p k' : In k' (cache_keys c) -> In k' (cache_keys (cache_put c k p)).
Proof.
  unfold cache_keys. induction c as [|[k0 p0] c IH]; cbn [cache_put map]; [intros []|].
  cbn [fst]. intros H. destruct (rule_eqb k0 k); cbn [map fst].
  - exact H.
  - destruct H as [<- | H]; [now left | right; now apply IH].
Qed.

Lemma keys_put_new c k p : In k (cache_keys (cache_put c k p)).
Proof.
  unfold cache_keys. induction c as [|[k0 p0] c IH]; cbn [cache_put map]; [now left|].
  destruct (rule_eqb k0 k) eqn:E; cbn [map fst].
  - left. now apply rule_eqb_eq.
  - now right.
Qed.

Lemma keys_get c k : In k (cache_keys c) <-> cache_get c k <> None.
Proof.
  unfold cache_keys. induction c as [|[k0 p0] c IH]; cbn [map cache_get fst].
  - split; [intros [] | intros H; now contradiction H].
  - destruct (rule_eqb k0 k) eqn:E.
    + apply rule_eqb_eq in E; subst. split; [discriminate | now left].
    + rewrite <- IH. split; [intros [H | H]; [apply rule_eqb_neq in E; contradiction | assumption] | now right].
Qed.

Lemma get_In c k p : cache_get c k = Some p -> In (k, p) c.
Proof.
  induction c as [|[k0 p0] c IH]; cbn [cache_get]; [discriminate|].
  destruct (rule_eqb k0 k) eqn:E.
  - apply rule_eqb_eq in E; subst. intros H; inversion H; subst. now left.
  - intros H. right. now apply IH.
Qed.

Lemma path_get c k : cache_path c k <> [] -> cache_get c k = Some (cache_path c k).
Proof. unfold cache_path. destruct (cache_get c k); [reflexivity | intros H; now contradiction H]. Qed.

(* short-name linkage: the path starts at short name s and ends at short name t *)
Fixpoint slinked (s : N) (p : list rule) (t : N) : Prop :=
  match p with
  | [] => s = t
  | r :: rest => s = short (r_from r) /\ slinked (short (r_to r)) rest t
  end.

Lemma slinked_app s p t q u : slinked s p t -> slinked t q u -> slinked s (p ++ q) u.
Proof.
  revert s. induction p as [|r p IH]; intros s; cbn [slinked app].
  - now intros ->.
  - intros [E H] Hq. split; [assumption | now apply IH].
Qed.

Lemma slinked_app_inv s p q u : slinked s (p ++ q) u -> exists t, slinked s p t /\ slinked t q u.
Proof.
  revert s. induction p as [|r p IH]; intros s; cbn [slinked app].
  - intros H. exists s. now split.
  - intros [E H]. destruct (IH _ H) as [t [H1 H2]]. exists t. repeat split; assumption.
Qed.

Definition path_ok (rules : list rule) (k : rule) (p : list rule) : Prop :=
  p <> [] /\ Forall (fun r => In r rules) p /\ slinked (short (r_from k)) p (short (r_to k)).

Definition entries_ok (rules : list rule) (c : cache) : Prop :=
  Forall (fun kp => path_ok rules (fst kp) (snd kp)) c.

Lemma entries_ok_get rules c k p : entries_ok rules c -> cache_get c k = Some p -> path_ok rules k p.
Proof.
  intros H E. apply get_In in E. unfold entries_ok in H. rewrite Forall_forall in H.
  now apply H in E.
Qed.

Lemma entries_ok_put rules c k p : entries_ok rules c -> path_ok rules k p -> entries_ok rules (cache_put c k p).
Proof.
  unfold entries_ok. intros H Hp. induction c as [|[k0 p0] c IH]; cbn [cache_put].
  - constructor; [assumption | constructor].
  - inversion H as [|? ? H0 Hc]; subst. destruct (rule_eqb k0 k) eqn:E.
    + apply rule_eqb_eq in E; subst. constructor; assumption.
    + constructor; [assumption | now apply IH].
Qed.

Lemma base_cache_ok rules : entries_ok rules (base_cache rules).
Proof.
  unfold base_cache. apply fold_left_inv.
  - constructor.
  - intros a r Ha Hr. apply entries_ok_put; [assumption|].
    split; [discriminate|]. split; [constructor; [assumption | constructor]|].
    cbn [slinked]. split; reflexivity.
Qed.

Lemma base_cache_keys rules r : In r rules -> In r (cache_keys (base_cache rules)).
Proof.
  intros H. unfold base_cache.
  apply (fold_left_reach (fun c r => cache_put c r [r]) (fun c => In r (cache_keys c)) rules r H).
  - intros a. apply keys_put_new.
  - intros a y Ha. now apply keys_put_mono.
Qed.

Lemma base_cache_keys_inv rules k : In k (cache_keys (base_cache rules)) -> In k rules.
Proof.
  unfold base_cache.
  assert (forall l c, (forall k, In k (cache_keys c) -> In k rules) -> incl l rules ->
                      forall k, In k (cache_keys (fold_left (fun c r => cache_put c r [r]) l c)) -> In k rules) as G.
  { intros l. induction l as [|r l IH]; intros c Hc Hl k0; cbn [fold_left]; [apply Hc|].
    apply IH; [|intros x Hx; apply Hl; now right].
    intros k1 H1. apply keys_get in H1. rewrite get_put in H1.
    destruct (rule_eqb r k1) eqn:E.
    - apply rule_eqb_eq in E; subst. apply Hl. now left.
    - apply Hc. now apply keys_get. }
  apply G; [intros k0 [] | apply incl_refl].
Qed.

Lemma merge_keys_old c news k : In k (cache_keys c) -> In k (cache_keys (merge c news)).
Proof.
  intros H. unfold merge. apply fold_left_inv; [assumption|].
  intros a x Ha _. now apply keys_put_mono.
Qed.

Lemma merge_keys_new c news k : In k (cache_keys news) -> In k (cache_keys (merge c news)).
Proof.
  unfold cache_keys. intros H. apply in_map_iff in H. destruct H as [[k0 p0] [E H]]. cbn in E; subst k0.
  unfold merge.
  apply (fold_left_reach (fun c kp => cache_put c (fst kp) (snd kp)) (fun c => In k (map fst c)) news (k, p0) H).
  - intros a. apply keys_put_new.
  - intros a y Ha. now apply keys_put_mono.
Qed.

Lemma merge_ok rules c news : entries_ok rules c -> entries_ok rules news -> entries_ok rules (merge c news).
Proof.
  intros Hc Hn. unfold merge. apply fold_left_inv; [assumption|].
  intros a [k p] Ha Hin. apply entries_ok_put; [assumption|].
  unfold entries_ok in Hn. rewrite Forall_forall in Hn. now apply Hn in Hin.
Qed.

(* ================================================================= search *)

Lemma head_filter_In A (f : A -> bool) l k rest : filter f l = k :: rest -> In k l /\ f k = true.
Proof. intros E. apply filter_In. rewrite E. now left. Qed.

Lemma pick_generic A (l1 l2 l3 : list A) (d : A) :
  let r := match l1 with k :: _ => k | [] =>
           match l2 with k :: _ => k | [] =>
           match l3 with k :: _ => k | [] => d end end end in
  In r l1 \/ In r l2 \/ In r l3 \/ r = d.
Proof. destruct l1, l2, l3; cbn; auto. Qed.

Lemma pick_key_In q pk k0 : In k0 pk -> In (pick_key q pk k0) pk.
Proof.
  intros H0. unfold pick_key.
  match goal with |- In (match ?l1 with [] => match ?l2 with [] => match ?l3 with [] => _ | _ => _ end | _ => _ end | _ => _ end) _ =>
    destruct (pick_generic l1 l2 l3 k0) as [H | [H | [H | H]]] end;
    try (apply filter_In in H; apply H).
  cbv zeta in H. rewrite H. exact H0.
Qed.

(* whatever search returns is the cached path of a key matching the query *)
Lemma search_sound c q :
  search c q <> [] -> exists k, cache_get c k = Some (search c q) /\ key_matches q k = true.
Proof.
  unfold search. destruct (cache_get c q) as [p|] eqn:Eq.
  - intros _. exists q. split; [assumption|]. unfold key_matches. now rewrite !vmatch_refl.
  - set (pk := filter (key_matches q) (cache_keys c)).
    assert (forall k, In k pk -> cache_path c k <> [] ->
                      exists k0, cache_get c k0 = Some (cache_path c k) /\ key_matches q k0 = true) as G.
    { intros k Hk Hne. exists k. split; [now apply path_get|]. unfold pk in Hk. now apply filter_In in Hk. }
    destruct pk as [|k0 [|k1 pk']] eqn:Epk.
    + intros H; now contradiction H.
    + apply G. now left.
    + apply G. apply pick_key_In. now left.
Qed.

(* if some key matches and every cached path is non-empty, search answers *)
Lemma search_complete rules c q k :
  entries_ok rules c -> In k (cache_keys c) -> key_matches q k = true -> search c q <> [].
Proof.
  intros Hok Hk Hm.
  assert (forall k', In k' (cache_keys c) -> cache_path c k' <> []) as G.
  { intros k' Hk'. apply keys_get in Hk'. unfold cache_path.
    destruct (cache_get c k') as [p|] eqn:E; [|now contradiction Hk'].
    apply (entries_ok_get _ Hok) in E. apply E. }
  unfold search. destruct (cache_get c q) as [p|] eqn:Eq.
  - apply (entries_ok_get _ Hok) in Eq. apply Eq.
  - set (pk := filter (key_matches q) (cache_keys c)).
    assert (In k pk) as Hkpk by (unfold pk; apply filter_In; now split).
    assert (forall k', In k' pk -> In k' (cache_keys c)) as Hsub
        by (intros k' H; unfold pk in H; now apply filter_In in H).
    destruct pk as [|k0 [|k1 pk']] eqn:Epk.
    + destruct Hkpk.
    + apply G, Hsub. now left.
    + apply G, Hsub. apply pick_key_In. now left.
Qed.

Lemma nonempty_true A (l : list A) : nonempty l = true <-> l <> [].
Proof. destruct l; cbn; split; try discriminate; try reflexivity; intros H; now contradiction H. Qed.

Lemma nonempty_false A (l : list A) : nonempty l = false <-> l = [].
Proof. destruct l; cbn; split; try discriminate; reflexivity. Qed.

(* ================================================================= one round of extension *)

Lemma next_rules_In rules v nr :
  In nr (next_rules rules v) <-> In nr rules /\ vmatch (r_from nr) v = true.
Proof.
  unfold next_rules. rewrite filter_In. split; intros [H1 H2]; (split; [assumption|]).
  - apply orb_true_iff in H2. destruct H2 as [H2 | H2]; [|assumption].
    apply version_eqb_eq in H2. rewrite H2. apply vmatch_refl.
  - rewrite H2. apply orb_true_r.
Qed.

Lemma similar_from_In c q k :
  In k (similar_from c q) <-> In k (cache_keys c) /\ vmatch (r_from k) (r_from q) = true.
Proof. unfold similar_from. apply filter_In. Qed.

Lemma keys_put_inv c k p k' : In k' (cache_keys (cache_put c k p)) -> k' = k \/ In k' (cache_keys c).
Proof.
  intros H. apply keys_get in H. rewrite get_put in H. destruct (rule_eqb k k') eqn:E.
  - left. symmetry. now apply rule_eqb_eq.
  - right. now apply keys_get.
Qed.

Lemma merge_keys_inv c news k :
  In k (cache_keys (merge c news)) -> In k (cache_keys c) \/ In k (cache_keys news).
Proof.
  unfold merge.
  apply (fold_left_inv (fun c kp => cache_put c (fst kp) (snd kp))
           (fun c' => In k (cache_keys c') -> In k (cache_keys c) \/ In k (cache_keys news))).
  - now left.
  - intros a [k0 p0] Ha Hin H. cbn [fst snd] in H. apply keys_put_inv in H. destruct H as [-> | H].
    + right. unfold cache_keys. apply in_map_iff. exists (k0, p0). now split.
    + now apply Ha.
Qed.

(* every candidate the round produces: a cached path from (something like) the query's
   source, continued by one declared rule that starts where it ended *)
Definition candidate (rules : list rule) (c : cache) (q : rule) (k : rule) (p : list rule) : Prop :=
  exists rtc p0 nr, cache_get c rtc = Some p0 /\ vmatch (r_from rtc) (r_from q) = true
                    /\ In nr rules /\ vmatch (r_from nr) (r_to rtc) = true
                    /\ k = (r_from q, r_to nr) /\ p = p0 ++ [nr].

Lemma new_paths_candidates rules c q :
  Forall (fun kp => candidate rules c q (fst kp) (snd kp)) (new_paths rules c q).
Proof.
  unfold new_paths.
  apply (fold_left_inv (fun news rtc => extend_one rules c q rtc news)
           (fun news => Forall (fun kp => candidate rules c q (fst kp) (snd kp)) news)).
  - constructor.
  - intros news rtc Hn Hrtc. apply similar_from_In in Hrtc. destruct Hrtc as [Hk Hm].
    unfold extend_one. destruct (N.eqb _ _); [assumption|].
    apply fold_left_inv; [assumption|].
    intros news' nr Hn' Hnr. apply next_rules_In in Hnr. destruct Hnr as [Hr Hv].
    destruct (N.eqb _ _); [assumption|].
    destruct (nonempty _); [assumption|].
    apply keys_get in Hk. destruct (cache_get c rtc) as [p0|] eqn:Eg; [|now contradiction Hk].
    (* cache_put keeps every old entry or replaces the value of the same key *)
    assert (forall (cc : cache) k p, Forall (fun kp => candidate rules c q (fst kp) (snd kp)) cc ->
              candidate rules c q k p ->
              Forall (fun kp => candidate rules c q (fst kp) (snd kp)) (cache_put cc k p)) as Gput.
    { intros cc k p Hcc Hc. induction cc as [|[k1 p1] cc IH]; cbn [cache_put].
      - constructor; [assumption | constructor].
      - inversion Hcc; subst. destruct (rule_eqb k1 k) eqn:E.
        + apply rule_eqb_eq in E; subst. constructor; assumption.
        + constructor; [assumption | now apply IH]. }
    apply Gput; [assumption|].
    exists rtc, p0, nr. unfold cache_path. rewrite Eg. repeat split; assumption.
Qed.

Lemma candidate_ok rules c q k p : entries_ok rules c -> candidate rules c q k p -> path_ok rules k p.
Proof.
  intros Hok (rtc & p0 & nr & Eg & Hm & Hr & Hv & -> & ->).
  apply (entries_ok_get _ Hok) in Eg. destruct Eg as (Hne & Hall & Hl).
  split; [destruct p0; discriminate|]. split.
  - apply Forall_app. split; [assumption | constructor; [assumption | constructor]].
  - cbn [r_from r_to fst snd]. apply vmatch_short in Hm, Hv.
    apply slinked_app with (t := short (r_to rtc)).
    + unfold r_from in *. rewrite <- Hm. exact Hl.
    + cbn [slinked]. split; [now symmetry | reflexivity].
Qed.

Lemma new_paths_ok rules c q : entries_ok rules c -> entries_ok rules (new_paths rules c q).
Proof.
  intros Hok. unfold entries_ok. eapply Forall_impl; [|apply new_paths_candidates].
  intros [k p] Hc. now apply candidate_ok with (c := c) (q := q).
Qed.

(* ================================================================= invariant of a Chain *)

Definition cache_dom (g : N) (c : cache) : Prop :=
  forall k, In k (cache_keys c) -> dom g (r_from k) /\ dom g (r_to k).
Definition base_present (rules : list rule) (c : cache) : Prop :=
  forall r, In r rules -> In r (cache_keys c).
Definition cache_inv (g : N) (rules : list rule) (c : cache) : Prop :=
  entries_ok rules c /\ cache_dom g c /\ base_present rules c.

Lemma cache_inv_base g rules : rules_dom g rules -> cache_inv g rules (base_cache rules).
Proof.
  intros Hd. split; [apply base_cache_ok|]. split.
  - intros k Hk. apply base_cache_keys_inv in Hk. now apply Hd.
  - intros r Hr. now apply base_cache_keys.
Qed.

Lemma cache_inv_merge g rules c q :
  rules_dom g rules -> dom g (r_from q) -> cache_inv g rules c ->
  cache_inv g rules (merge c (new_paths rules c q)).
Proof.
  intros Hrd Hq (Hok & Hdom & Hbase). split; [|split].
  - apply merge_ok; [assumption | now apply new_paths_ok].
  - intros k Hk. apply merge_keys_inv in Hk. destruct Hk as [Hk | Hk]; [now apply Hdom|].
    unfold cache_keys in Hk. apply in_map_iff in Hk. destruct Hk as [[k0 p0] [E Hin]]. cbn in E; subst k0.
    pose proof (new_paths_candidates rules c q) as Hc. rewrite Forall_forall in Hc. apply Hc in Hin.
    destruct Hin as (rtc & p1 & nr & _ & _ & Hr & _ & E & _). cbn [fst snd] in E. subst k.
    cbn [r_from r_to fst snd]. split; [assumption | now apply Hrd].
  - intros r Hr. apply merge_keys_old. now apply Hbase.
Qed.

(* the loop keeps the invariant; what it returns is a cached path of a matching key *)
Lemma find_loop_inv g rules q : rules_dom g rules -> dom g (r_from q) ->
  forall fuel c, cache_inv g rules c ->
    cache_inv g rules (fst (find_loop fuel rules c q)) /\
    forall p, snd (find_loop fuel rules c q) = Some p ->
              exists k, path_ok rules k p /\ key_matches q k = true.
Proof.
  intros Hrd Hq. induction fuel as [|n IH]; intros c Hinv; cbn [find_loop].
  - split; [assumption | discriminate].
  - destruct (nonempty (search c q)) eqn:En.
    + cbn [fst snd]. split; [assumption|]. intros p E. inversion E; subst p.
      apply nonempty_true in En. destruct (search_sound c q En) as [k [Eg Hm]].
      exists k. split; [|assumption]. destruct Hinv as (Hok & _). now apply (entries_ok_get _ Hok).
    + destruct (new_paths rules c q) as [|e news] eqn:Enews.
      * cbn [fst snd]. split; [assumption | discriminate].
      * rewrite <- Enews. apply IH. now apply cache_inv_merge.
Qed.

Lemma find_inv g rules q c : rules_dom g rules -> dom g (r_from q) -> cache_inv g rules c ->
  cache_inv g rules (fst (find rules c q)) /\
  forall p, snd (find rules c q) = Some p ->
            p <> [] /\ Forall (fun r => In r rules) p /\ slinked (short (r_from q)) p (short (r_to q)).
Proof.
  intros Hrd Hq Hinv. unfold find. destruct (has_target rules (r_to q)).
  - destruct (@find_loop_inv g rules q Hrd Hq (default_fuel rules) c Hinv) as [H1 H2]. split; [assumption|].
    intros p E. destruct (H2 _ E) as (k & (Hne & Hall & Hl) & Hm).
    unfold key_matches in Hm. apply andb_true_iff in Hm. destruct Hm as [Hm1 Hm2].
    apply vmatch_short in Hm1, Hm2. rewrite Hm1, Hm2. repeat split; assumption.
  - cbn [fst snd]. split; [assumption | discriminate].
Qed.

(* from short-name linkage to the Spec's chain, inside the domain *)
Lemma slinked_linked g rules : rules_dom g rules ->
  forall p A B, dom g A -> dom g B -> Forall (fun r => In r rules) p ->
                slinked (short A) p (short B) -> linked A p B = true.
Proof.
  intros Hrd. induction p as [|r p IH]; intros A B HA HB Hall Hl; cbn [linked slinked] in *.
  - rewrite same_version_vmatch. now apply vmatch_dom_true with (g := g).
  - inversion Hall as [|? ? Hr Hall']; subst. destruct Hl as [E Hl]. destruct (Hrd _ Hr) as [Hf Ht].
    apply andb_true_iff. split.
    + rewrite same_version_vmatch. now apply vmatch_dom_true with (g := g).
    + apply IH; assumption.
Qed.

Lemma declared_In rules r : declared rules r = true <-> In r rules.
Proof.
  unfold declared. rewrite existsb_exists. split.
  - intros [x [Hx E]]. apply rule_eqb_eq in E. now subst.
  - intros H. exists r. split; [assumption | apply rule_eqb_refl].
Qed.

Lemma valid_chain_intro g rules A B p : rules_dom g rules -> dom g A -> dom g B ->
  p <> [] -> Forall (fun r => In r rules) p -> slinked (short A) p (short B) ->
  valid_chain rules A B p = true.
Proof.
  intros Hrd HA HB Hne Hall Hl. unfold valid_chain. rewrite !andb_true_iff. repeat split.
  - destruct p; [now contradiction Hne | reflexivity].
  - apply forallb_forall. intros r Hr. apply declared_In. rewrite Forall_forall in Hall. now apply Hall.
  - now apply slinked_linked with (g := g) (rules := rules).
Qed.

Lemma valid_chain_elim rules A B p : valid_chain rules A B p = true ->
  p <> [] /\ Forall (fun r => In r rules) p /\ slinked (short A) p (short B).
Proof.
  unfold valid_chain. rewrite !andb_true_iff. intros [[Hne Hall] Hl]. repeat split.
  - destruct p; [discriminate | discriminate].
  - apply Forall_forall. intros r Hr. rewrite forallb_forall in Hall. apply declared_In. now apply Hall.
  - clear Hne Hall. revert A Hl. induction p as [|r p IH]; intros A Hl; cbn [linked slinked] in *.
    + now apply same_version_short.
    + apply andb_true_iff in Hl. destruct Hl as [H1 H2]. split; [now apply same_version_short | now apply IH].
Qed.

Theorem find_sound g rules c q p : rules_dom g rules -> dom g (r_from q) -> dom g (r_to q) ->
  cache_inv g rules c -> snd (find rules c q) = Some p ->
  valid_chain rules (r_from q) (r_to q) p = true.
Proof.
  intros Hrd Hf Ht Hinv E. destruct (@find_inv g rules q c Hrd Hf Hinv) as [_ H]. destruct (H _ E) as (Hne & Hall & Hl).
  now apply valid_chain_intro with (g := g).
Qed.

(* ================================================================= completeness of the search *)

(* a path that never comes back to the short name s *)
Definition avoid (s : N) (p : list rule) : Prop := Forall (fun r => short (r_to r) <> s) p.

Definition target_known (c : cache) (q : rule) (t : N) : Prop :=
  exists k, In k (cache_keys c) /\ short (r_from k) = short (r_from q) /\ short (r_to k) = t.

(* every target of a path of at most n declared rules from the query's source that avoids
   the source is the target of a cached key *)
Definition covered (rules : list rule) (c : cache) (q : rule) (n : nat) : Prop :=
  forall p t, p <> [] -> length p <= n -> Forall (fun r => In r rules) p ->
              slinked (short (r_from q)) p t -> avoid (short (r_from q)) p -> target_known c q t.

Lemma covered_1 rules c q : base_present rules c -> covered rules c q 1.
Proof.
  intros Hb p t Hne Hlen Hall Hl _. destruct p as [|r [|r' p]]; [now contradiction Hne | | cbn in Hlen; lia].
  inversion Hall; subst. cbn [slinked] in Hl. destruct Hl as [E1 E2].
  exists r. split; [now apply Hb | split; [now symmetry | assumption]].
Qed.

Lemma avoid_end s0 p : forall s u, p <> [] -> slinked s p u -> avoid s0 p -> u <> s0.
Proof.
  induction p as [|r p IH]; intros s u Hne Hl Ha; [now contradiction Hne|].
  inversion Ha as [|? ? Hr Ha']; subst. cbn [slinked] in Hl. destruct Hl as [_ Hl].
  destruct p as [|r' p].
  - cbn [slinked] in Hl. now subst.
  - apply IH with (s := short (r_to r)); [discriminate | assumption | assumption].
Qed.

Lemma target_known_merge c news q t : target_known c q t -> target_known (merge c news) q t.
Proof. intros (k & Hk & H). exists k. split; [now apply merge_keys_old | assumption]. Qed.

Lemma keys_extend_mono rules c q rtc news k :
  In k (cache_keys news) -> In k (cache_keys (extend_one rules c q rtc news)).
Proof.
  intros H. unfold extend_one. destruct (N.eqb _ _); [assumption|].
  apply fold_left_inv; [assumption|]. intros a nr Ha _.
  destruct (N.eqb _ _); [assumption|].
  destruct (nonempty (search c (r_from q, r_to nr))); [assumption|]. now apply keys_put_mono.
Qed.

Lemma covered_step g rules c q n :
  rules_dom g rules -> dom g (r_from q) -> cache_inv g rules c -> 1 <= n ->
  covered rules c q n -> covered rules (merge c (new_paths rules c q)) q (S n).
Proof.
  intros Hrd Hq (Hok & Hdom & Hbase) Hn Hcov p t Hne Hlen Hall Hl Hav.
  destruct (le_lt_dec (length p) n) as [Hle | Hgt].
  { apply target_known_merge. now apply (Hcov p t). }
  assert (length p = S n) as Elen by lia.
  destruct (exists_last Hne) as (p' & nr & ->).
  rewrite app_length in Elen. cbn [length] in Elen.
  assert (p' <> []) as Hne' by (destruct p'; [cbn in Elen; lia | discriminate]).
  apply Forall_app in Hall. destruct Hall as [Hall' Hnr]. inversion Hnr as [|? ? Hnr_in _]; subst.
  unfold avoid in Hav. apply Forall_app in Hav. destruct Hav as [Hav' Hav_nr].
  inversion Hav_nr as [|? ? Ht_ne _]; subst.
  apply slinked_app_inv in Hl. destruct Hl as (u & Hl' & Hlnr). cbn [slinked] in Hlnr.
  destruct Hlnr as [Eu Et].
  assert (u <> short (r_from q)) as Hu_ne
    by (apply avoid_end with (p := p') (s := short (r_from q)); assumption).
  destruct (Hcov p' u Hne' ltac:(lia) Hall' Hl' Hav') as (kc & Hkc & Ekf & Ekt).
  destruct (Hdom _ Hkc) as [Dkf Dkt]. destruct (Hrd _ Hnr_in) as [Dnf Dnt].
  set (newRule := (r_from q, r_to nr)).
  destruct (nonempty (search c newRule)) eqn:Es.
  - (* already discovered *)
    apply nonempty_true in Es. destruct (search_sound c newRule Es) as (k & Eg & Hm).
    apply target_known_merge. exists k. split.
    + apply keys_get. rewrite Eg. discriminate.
    + unfold key_matches in Hm. apply andb_true_iff in Hm. destruct Hm as [Hm1 Hm2].
      apply vmatch_short in Hm1, Hm2. cbn [newRule r_from r_to fst snd] in Hm1, Hm2.
      split; [now symmetry | rewrite <- Et; now symmetry].
  - (* the round creates the key newRule *)
    exists newRule. split; [|split; [reflexivity | cbn [newRule r_to snd]; exact Et]].
    apply merge_keys_new. unfold new_paths.
    apply (fold_left_reach (fun news rtc => extend_one rules c q rtc news)
             (fun news => In newRule (cache_keys news)) (similar_from c q) kc).
    + apply similar_from_In. split; [assumption|]. now apply vmatch_dom_true with (g := g).
    + intros news. unfold extend_one.
      assert (N.eqb (short (r_to kc)) (short (r_from q)) = false) as -> by (apply N.eqb_neq; congruence).
      apply (fold_left_reach _ (fun news => In newRule (cache_keys news)) (next_rules rules (r_to kc)) nr).
      * apply next_rules_In. split; [assumption|]. apply vmatch_dom_true with (g := g); [assumption | assumption | congruence].
      * intros a. cbn [r_to r_from fst snd].
        assert (N.eqb (short (r_to nr)) (short (r_from q)) = false) as -> by (apply N.eqb_neq; exact Ht_ne).
        fold newRule. rewrite Es. apply keys_put_new.
      * intros a y Ha. destruct (N.eqb _ _); [assumption|].
        destruct (nonempty (search c (r_from q, r_to y))); [assumption|].
        now apply keys_put_mono.
    + intros a y Ha. now apply keys_extend_mono.
Qed.

Lemma merge_nil c : merge c [] = c.
Proof. reflexivity. Qed.

Lemma covered_stable g rules c q n :
  rules_dom g rules -> dom g (r_from q) -> cache_inv g rules c -> 1 <= n ->
  new_paths rules c q = [] -> covered rules c q n -> forall m, covered rules c q (n + m).
Proof.
  intros Hrd Hq Hinv Hn Enil Hcov m. induction m as [|m IH].
  - now rewrite Nat.add_0_r.
  - rewrite Nat.add_succ_r. rewrite <- (merge_nil c), <- Enil.
    apply covered_step with (g := g); [assumption | assumption | assumption | lia | exact IH].
Qed.

Lemma target_known_search g rules c q :
  cache_inv g rules c -> dom g (r_from q) -> dom g (r_to q) ->
  target_known c q (short (r_to q)) -> search c q <> [].
Proof.
  intros (Hok & Hdom & _) Hf Ht (k & Hk & E1 & E2). destruct (Hdom _ Hk) as [Dk1 Dk2].
  apply (@search_complete rules c q k Hok Hk). unfold key_matches. apply andb_true_iff. split;
    apply vmatch_dom_true with (g := g); auto.
Qed.

(* the loop finds a chain as soon as the fuel covers the length of a witness path *)
Lemma find_loop_complete g rules q W :
  rules_dom g rules -> dom g (r_from q) -> dom g (r_to q) ->
  W <> [] -> Forall (fun r => In r rules) W ->
  slinked (short (r_from q)) W (short (r_to q)) -> avoid (short (r_from q)) W ->
  forall fuel n c, cache_inv g rules c -> 1 <= n -> covered rules c q n ->
    1 <= fuel -> length W <= n + (fuel - 1) ->
    exists p, snd (find_loop fuel rules c q) = Some p.
Proof.
  intros Hrd Hf Ht HWne HWall HWl HWav. induction fuel as [|f IH]; intros n c Hinv Hn Hcov Hfuel Hlen; [lia|].
  cbn [find_loop]. destruct (nonempty (search c q)) eqn:Es.
  - cbn [snd]. eexists. reflexivity.
  - apply nonempty_false in Es.
    (* the witness is longer than what the cache covers, else search would have answered *)
    assert (forall m, covered rules c q m -> length W <= m -> False) as Hshort.
    { intros m Hm Hle. apply (@target_known_search g rules c q Hinv Hf Ht); [|exact Es].
      now apply (Hm W (short (r_to q))). }
    destruct (new_paths rules c q) as [|e news] eqn:Enews.
    + exfalso. apply (Hshort (n + length W)); [|lia].
      now apply covered_stable with (g := g).
    + rewrite <- Enews.
      destruct (le_lt_dec (length W) n) as [Hle | Hgt]; [exfalso; now apply (Hshort n)|].
      apply (IH (S n)).
      * now apply cache_inv_merge.
      * lia.
      * now apply covered_step with (g := g).
      * lia.
      * lia.
Qed.

(* ================================================================= reachable <-> a valid chain exists *)

Unset Implicit Arguments.

(* a walk through declared rules that ends literally at b *)
Fixpoint walk (rules : list rule) (a : version) (p : list rule) (b : version) : Prop :=
  match p with
  | [] => a = b
  | r :: rest => same_version a (fst r) = true /\ In r rules /\ walk rules (snd r) rest b
  end.

Lemma walk_app rules a p m q b : walk rules a p m -> walk rules m q b -> walk rules a (p ++ q) b.
Proof.
  revert a. induction p as [|r p IH]; intros a; cbn [walk app].
  - now intros ->.
  - intros (H1 & H2 & H3) Hq. repeat split; [assumption | assumption | now apply IH].
Qed.

Lemma walk_app_inv rules a p q b : walk rules a (p ++ q) b -> exists m, walk rules a p m /\ walk rules m q b.
Proof.
  revert a. induction p as [|r p IH]; intros a; cbn [walk app].
  - intros H. exists a. now split.
  - intros (H1 & H2 & H3). destruct (IH _ H3) as (m & Hp & Hq). exists m. repeat split; assumption.
Qed.

Lemma walk_linked rules p : forall a v B, walk rules a p v -> same_version v B = true ->
  linked a p B = true /\ Forall (fun r => In r rules) p.
Proof.
  induction p as [|r p IH]; intros a v B Hw Hv; cbn [walk linked] in *.
  - subst. split; [assumption | constructor].
  - destruct Hw as (H1 & H2 & H3). destruct (IH _ _ _ H3 Hv) as [Hl Hall].
    split; [now rewrite H1, Hl | now constructor].
Qed.

Lemma linked_walk rules p : forall a B, linked a p B = true -> Forall (fun r => In r rules) p ->
  exists v, walk rules a p v /\ same_version v B = true.
Proof.
  induction p as [|r p IH]; intros a B Hl Hall; cbn [walk linked] in *.
  - exists a. now split.
  - apply andb_true_iff in Hl. destruct Hl as [H1 H2]. inversion Hall; subst.
    destruct (IH _ _ H2) as (v & Hw & Hv); [assumption|]. exists v. repeat split; assumption.
Qed.

Lemma step_from_In rules S v :
  In v (step_from rules S) <->
  exists r u, In r rules /\ In u S /\ same_version u (fst r) = true /\ v = snd r.
Proof.
  unfold step_from. rewrite in_map_iff. split.
  - intros (r & E & Hr). apply filter_In in Hr. destruct Hr as [Hr Hex].
    apply existsb_exists in Hex. destruct Hex as (u & Hu & Hs). exists r, u. repeat split; auto.
  - intros (r & u & Hr & Hu & Hs & ->). exists r. split; [reflexivity|].
    apply filter_In. split; [assumption|]. apply existsb_exists. exists u. now split.
Qed.

Lemma closure_sound rules n : forall S v, In v (closure n rules S) ->
  exists v0 p, In v0 S /\ walk rules v0 p v /\ length p <= n.
Proof.
  induction n as [|n IH]; intros S v H; cbn [closure] in H.
  - exists v, []. repeat split; [assumption | constructor].
  - destruct (IH _ _ H) as (v0 & p & H0 & Hw & Hlen). apply in_app_or in H0. destruct H0 as [H0 | H0].
    + exists v0, p. repeat split; [assumption | assumption | lia].
    + apply step_from_In in H0. destruct H0 as (r & u & Hr & Hu & Hs & ->).
      exists u, (r :: p). repeat split; try assumption. cbn [length]. lia.
Qed.

Lemma closure_incl rules n : forall S x, In x S -> In x (closure n rules S).
Proof.
  induction n as [|n IH]; intros S x H; cbn [closure]; [assumption|].
  apply IH. apply in_or_app. now left.
Qed.

Lemma closure_complete rules p : forall n S v0 v, In v0 S -> walk rules v0 p v -> length p <= n ->
  In v (closure n rules S).
Proof.
  induction p as [|r p IH]; intros n S v0 v H0 Hw Hlen; cbn [walk] in Hw.
  - subst. now apply closure_incl.
  - destruct Hw as (H1 & H2 & H3). destruct n as [|n]; [cbn in Hlen; lia|]. cbn [closure].
    apply IH with (v0 := snd r); [|assumption | cbn in Hlen; lia].
    apply in_or_app. right. apply step_from_In. exists r, v0. repeat split; assumption.
Qed.

Lemma reachable_sound rules A B : reachable rules A B = true ->
  exists p, valid_chain rules A B p = true /\ length p <= S (length rules).
Proof.
  unfold reachable. intros H. apply existsb_exists in H. destruct H as (v & Hv & Hs).
  apply closure_sound in Hv. destruct Hv as (v0 & p & H0 & Hw & Hlen).
  apply step_from_In in H0. destruct H0 as (r & u & Hr & Hu & Hsu & ->).
  destruct Hu as [<- | []].
  assert (walk rules A (r :: p) v) as Hw' by (cbn [walk]; repeat split; assumption).
  destruct (walk_linked _ _ _ _ _ Hw' Hs) as [Hl Hall].
  exists (r :: p). split; [|cbn [length]; lia].
  unfold valid_chain. rewrite Hl, andb_true_r. cbn [andb].
  apply forallb_forall. intros x Hx. apply declared_In. rewrite Forall_forall in Hall. now apply Hall.
Qed.

(* pigeonhole: a walk longer than the rule list repeats a rule and can be cut *)
Lemma dup_split (l : list rule) : ~ NoDup l -> exists x l1 l2 l3, l = l1 ++ x :: l2 ++ x :: l3.
Proof.
  induction l as [|a l IH]; intros H; [exfalso; apply H; constructor|].
  destruct (in_dec rule_eq_dec a l) as [Hin | Hnin].
  - apply in_split in Hin. destruct Hin as (l2 & l3 & ->). exists a, [], l2, l3. reflexivity.
  - assert (~ NoDup l) as Hl by (intros Hnd; apply H; now constructor).
    destruct (IH Hl) as (x & l1 & l2 & l3 & ->). exists x, (a :: l1), l2, l3. reflexivity.
Qed.

Lemma walk_In rules p : forall a b, walk rules a p b -> Forall (fun r => In r rules) p.
Proof.
  induction p as [|r p IH]; intros a b H; [constructor|]. cbn [walk] in H. destruct H as (_ & H2 & H3).
  constructor; [assumption | now apply IH with (a := snd r) (b := b)].
Qed.

Lemma walk_shorten rules : forall n p a b, length p <= n -> p <> [] -> walk rules a p b ->
  exists p', p' <> [] /\ walk rules a p' b /\ length p' <= length rules.
Proof.
  induction n as [|n IH]; intros p a b Hlen Hne Hw.
  - destruct p; [now contradiction Hne | cbn in Hlen; lia].
  - destruct (le_lt_dec (length p) (length rules)) as [Hle | Hgt]; [exists p; now repeat split|].
    assert (~ NoDup p) as Hnd.
    { intros Hnd. assert (length p <= length rules); [|lia]. apply NoDup_incl_length; [exact Hnd|].
      intros x Hx. pose proof (walk_In _ _ _ _ Hw) as Hall. rewrite Forall_forall in Hall. now apply Hall. }
    destruct (dup_split _ Hnd) as (x & l1 & l2 & l3 & ->).
    apply walk_app_inv in Hw. destruct Hw as (m & Hw1 & Hw2). cbn [walk] in Hw2.
    destruct Hw2 as (Hx1 & Hx2 & Hw2). apply walk_app_inv in Hw2. destruct Hw2 as (m' & _ & Hw3).
    cbn [walk] in Hw3. destruct Hw3 as (_ & _ & Hw3).
    apply (IH (l1 ++ x :: l3)).
    + rewrite !app_length in *. cbn [length] in *. rewrite app_length in Hlen. cbn [length] in Hlen. lia.
    + destruct l1; discriminate.
    + apply walk_app with (m := m); [assumption|]. cbn [walk]. repeat split; assumption.
Qed.

Lemma reachable_complete rules A B p : valid_chain rules A B p = true -> reachable rules A B = true.
Proof.
  unfold valid_chain. rewrite !andb_true_iff. intros [[Hne Hdecl] Hl].
  assert (Forall (fun r => In r rules) p) as Hall.
  { apply Forall_forall. intros r Hr. rewrite forallb_forall in Hdecl. apply declared_In. now apply Hdecl. }
  destruct (linked_walk _ _ _ _ Hl Hall) as (v & Hw & Hv).
  assert (p <> []) as Hne' by (destruct p; [discriminate | discriminate]).
  destruct (walk_shorten rules (length p) p A v (le_n _) Hne' Hw) as (p' & Hne'' & Hw' & Hlen).
  destruct p' as [|r p']; [now contradiction Hne''|]. cbn [walk] in Hw'. destruct Hw' as (H1 & H2 & H3).
  unfold reachable. apply existsb_exists. exists v. split; [|assumption].
  apply closure_complete with (p := p') (v0 := snd r); [|assumption | cbn [length] in Hlen; lia].
  apply step_from_In. exists r, A. repeat split; [assumption | now left | assumption].
Qed.

Theorem reachable_iff_chain rules A B :
  reachable rules A B = true <-> exists p, valid_chain rules A B p = true.
Proof.
  split.
  - intros H. destruct (reachable_sound _ _ _ H) as (p & Hp & _). now exists p.
  - intros (p & Hp). now apply reachable_complete with (p := p).
Qed.

(* ================================================================= find is complete *)

(* cut a path at its last return to s0 *)
Lemma cut_avoid s0 t p : t <> s0 -> forall s, slinked s p t ->
  exists p', avoid s0 p' /\ length p' <= length p /\ incl p' p /\
             (slinked s p' t \/ (p' <> [] /\ slinked s0 p' t)).
Proof.
  intros Hts. induction p as [|r p IH]; intros s Hl.
  - exists []. repeat split; [constructor | apply le_n | apply incl_refl | now left].
  - cbn [slinked] in Hl. destruct Hl as [E Hl]. destruct (IH _ Hl) as (p'' & Hav & Hlen & Hincl & Hcase).
    destruct Hcase as [Hleft | Hright].
    + destruct (N.eq_dec (short (r_to r)) s0) as [Eq | Neq].
      * exists p''. repeat split; [assumption | cbn [length]; lia | now apply incl_tl |].
        right. rewrite Eq in Hleft. split; [|assumption].
        destruct p''; [cbn [slinked] in Hleft; congruence | discriminate].
      * exists (r :: p''). repeat split.
        -- now constructor.
        -- cbn [length]. lia.
        -- intros x [<- | Hx]; [now left | right; now apply Hincl].
        -- left. cbn [slinked]. now split.
    + exists p''. repeat split; [assumption | cbn [length]; lia | now apply incl_tl | now right].
Qed.

Lemma slinked_last_rule p : forall s t, p <> [] -> slinked s p t -> exists r, In r p /\ short (r_to r) = t.
Proof.
  induction p as [|r p IH]; intros s t Hne Hl; [now contradiction Hne|].
  cbn [slinked] in Hl. destruct Hl as [_ Hl]. destruct p as [|r' p].
  - cbn [slinked] in Hl. exists r. split; [now left | assumption].
  - destruct (IH _ _ ltac:(discriminate) Hl) as (x & Hx & E). exists x. split; [now right | assumption].
Qed.

Theorem find_complete g rules c q : rules_dom g rules -> dom g (r_from q) -> dom g (r_to q) ->
  short (r_from q) <> short (r_to q) -> cache_inv g rules c ->
  reachable rules (r_from q) (r_to q) = true ->
  exists p, snd (find rules c q) = Some p.
Proof.
  intros Hrd Hf Ht Hne Hinv Hr.
  destruct (reachable_sound _ _ _ Hr) as (p0 & Hv & Hlen0).
  apply valid_chain_elim in Hv. destruct Hv as (Hne0 & Hall0 & Hl0).
  destruct (@cut_avoid (short (r_from q)) (short (r_to q)) p0 ltac:(congruence) _ Hl0)
    as (W & Hav & HlenW & Hincl & Hcase).
  assert (W <> [] /\ slinked (short (r_from q)) W (short (r_to q))) as [HWne HWl].
  { destruct Hcase as [H | [H1 H2]]; [|now split]. split; [|assumption].
    destruct W; [cbn [slinked] in H; congruence | discriminate]. }
  assert (Forall (fun r => In r rules) W) as HWall.
  { apply Forall_forall. intros r Hr'. rewrite Forall_forall in Hall0. apply Hall0. now apply Hincl. }
  unfold find.
  assert (has_target rules (r_to q) = true) as ->.
  { destruct (slinked_last_rule _ _ _ HWne HWl) as (r & Hr1 & Hr2). unfold has_target. apply existsb_exists.
    exists r. rewrite Forall_forall in HWall. split; [now apply HWall|].
    apply vmatch_dom_true with (g := g); [assumption | now apply Hrd, HWall | now symmetry]. }
  destruct Hinv as (Hok & Hdom & Hbase).
  apply (@find_loop_complete g rules q W Hrd Hf Ht HWne HWall HWl Hav (default_fuel rules) 1 c).
  - split; [assumption | split; assumption].
  - apply le_n.
  - now apply covered_1.
  - unfold default_fuel. lia.
  - unfold default_fuel. lia.
Qed.

(* ================================================================= P_search holds of the model *)

Lemma in_domain_elim rules A B : in_domain rules A B = true ->
  short A <> short B /\ exists g, dom g A /\ dom g B /\ rules_dom g rules.
Proof.
  unfold in_domain. rewrite andb_true_iff, negb_true_iff, N.eqb_neq. intros [H1 H2]. split; [exact H2|].
  destruct (@one_group_dom _ H1) as (g & Hg). exists g. split; [|split].
  - apply Hg. now left.
  - apply Hg. right. now left.
  - apply versions_of_dom. intros v Hv. apply Hg. right. now right.
Qed.

Lemma P_search_find g rules c q : rules_dom g rules -> dom g (r_from q) -> dom g (r_to q) ->
  cache_inv g rules c -> P_search rules (r_from q) (r_to q) (snd (find rules c q)) = true.
Proof.
  intros Hrd Hf Ht Hinv. unfold P_search. destruct (in_domain rules (r_from q) (r_to q)) eqn:Ed; [|reflexivity].
  apply in_domain_elim in Ed. destruct Ed as [Hne _].
  destruct (snd (find rules c q)) as [p|] eqn:E.
  - now apply find_sound with (g := g) (c := c).
  - apply negb_true_iff. destruct (reachable rules (r_from q) (r_to q)) eqn:Er; [|reflexivity].
    destruct (@find_complete g rules c q Hrd Hf Ht Hne Hinv Er) as (p & Hp). congruence.
Qed.

Definition queries_dom (g : N) (qs : list rule) : Prop :=
  forall q, In q qs -> dom g (r_from q) /\ dom g (r_to q).

Theorem search_shared_meets_spec g rules : rules_dom g rules ->
  forall qs c, queries_dom g qs -> cache_inv g rules c ->
               all_P_search rules qs (find_shared rules c qs) = true.
Proof.
  intros Hrd. induction qs as [|q qs IH]; intros c Hq Hinv; cbn [find_shared all_P_search]; [reflexivity|].
  destruct (Hq q ltac:(now left)) as [Hf Ht].
  destruct (find rules c q) as [c' a] eqn:E. cbn [all_P_search].
  pose proof (@P_search_find g rules c q Hrd Hf Ht Hinv) as HP. rewrite E in HP. cbn [snd] in HP.
  unfold r_from, r_to in HP. rewrite HP. cbn [andb].
  apply IH; [intros x Hx; apply Hq; now right|].
  pose proof (@find_inv g rules q c Hrd Hf Hinv) as [Hinv' _]. rewrite E in Hinv'. exact Hinv'.
Qed.

Theorem search_fresh_meets_spec g rules : rules_dom g rules ->
  forall qs, queries_dom g qs -> all_P_search rules qs (find_fresh rules qs) = true.
Proof.
  intros Hrd. unfold find_fresh. induction qs as [|q qs IH]; intros Hq; cbn [map all_P_search]; [reflexivity|].
  destruct (Hq q ltac:(now left)) as [Hf Ht].
  pose proof (@P_search_find g rules (base_cache rules) q Hrd Hf Ht (@cache_inv_base g rules Hrd)) as HP.
  unfold r_from, r_to in HP. rewrite HP. cbn [andb]. apply IH. intros x Hx. apply Hq. now right.
Qed.

(* ================================================================= the handler *)

Lemma extract_from_seen seen objs :
  (forall o, In o objs -> In (snd o) seen) -> extract_from seen objs = [].
Proof.
  induction objs as [|o objs IH]; intros H; cbn [extract_from]; [reflexivity|].
  assert (existsb (version_eqb (snd o)) seen = true) as ->.
  { apply existsb_exists. exists (snd o). split; [apply H; now left | apply version_eqb_refl]. }
  apply IH. intros x Hx. apply H. now right.
Qed.

Lemma extract_from_all objs : forall seen o, In o objs ->
  In (snd o) seen \/ In (snd o) (extract_from seen objs).
Proof.
  induction objs as [|x objs IH]; intros seen o Ho; [destruct Ho|]. cbn [extract_from].
  destruct (existsb (version_eqb (snd x)) seen) eqn:E.
  - destruct Ho as [-> | Ho]; [|now apply IH].
    left. apply existsb_exists in E. destruct E as (v & Hv & Ev). apply version_eqb_eq in Ev. now subst.
  - destruct Ho as [-> | Ho]; [right; now left|].
    destruct (IH (snd x :: seen) o Ho) as [[<- | H] | H]; [right; now left | now left | right; now right].
Qed.

Lemma is_done_all_at desired objs : is_done desired objs = all_at desired objs.
Proof.
  unfold is_done, all_at, extract. destruct objs as [|o objs]; [reflexivity|].
  destruct (forallb (fun o0 => version_eqb (snd o0) desired) (o :: objs)) eqn:E.
  - rewrite forallb_forall in E. cbn [extract_from existsb].
    assert (snd o = desired) as Eo by (apply version_eqb_eq, E; now left).
    rewrite extract_from_seen.
    + rewrite Eo. apply version_eqb_refl.
    + intros x Hx. left. rewrite Eo. symmetry. apply version_eqb_eq, E. now right.
  - destruct (extract_from [] (o :: objs)) as [|v [|v' l]] eqn:Ex; try reflexivity.
    destruct (version_eqb v desired) eqn:Ev; [|reflexivity]. apply version_eqb_eq in Ev. subst v.
    rewrite <- E. symmetry. apply forallb_forall. intros x Hx.
    destruct (extract_from_all (o :: objs) [] x Hx) as [[] | H]. rewrite Ex in H.
    destruct H as [<- | []]. apply version_eqb_refl.
Qed.

Lemma nth_tl A (l : list A) k d : nth (S k) l d = nth k (tl l) d.
Proof. destruct l; [destruct k; reflexivity | reflexivity]. Qed.

Lemma hd_nth A (l : list A) d : hd d l = nth 0 l d.
Proof. destruct l; reflexivity. Qed.

Lemma last_out_cons outs i t : t <> [] -> last_out outs (i :: t) = last_out (tl outs) t.
Proof.
  intros Hne. unfold last_out. cbn [length]. destruct t as [|j t]; [now contradiction Hne|].
  cbn [length]. rewrite !Nat.sub_succ, !Nat.sub_0_r. apply nth_tl.
Qed.

(* what the loop over the chain does, read off its result *)
Definition stop_ok (desired : version) (chain : list rule) (outs : list outcome)
           (t : list invocation) (s : stop) : Prop :=
  match s with
  | StFailed m =>
    match last_out outs t with
    | OExitFail | OBadResponse => m = MHookFailed
    | ONoResponse => m = MPropError
    | OResp (c :: x) _ => m = MHook (c :: x)
    | OResp [] _ => False
    end
  | StDone o => last_out outs t = OResp [] o /\ is_done desired o = true
  | StNotDone => exists o, last_out outs t = OResp [] o /\ is_done desired o = false
                           /\ length t = length chain
  end.

Lemma steps_spec desired : forall chain outs objs t s,
  steps desired chain outs objs = (t, s) ->
  map fst t = firstn (length t) chain
  /\ feeds objs outs t = true
  /\ (chain <> [] -> t <> [])
  /\ (t = [] -> s = StNotDone /\ chain = [])
  /\ (t <> [] ->
      (forall k, S k < length t -> exists o, nth k outs OExitFail = OResp [] o /\ is_done desired o = false)
      /\ stop_ok desired chain outs t s).
Proof.
  assert (forall o, objs_eqb o o = true) as Hrefl.
  { intros o. apply list_eqb_refl. intros [i v]. unfold obj_eqb. cbn [fst snd].
    now rewrite N.eqb_refl, version_eqb_refl. }
  induction chain as [|r rest IH]; intros outs objs t s E; cbn [steps] in E.
  - inversion E; subst. split; [reflexivity|]. split; [reflexivity|]. split; [intros H; now contradiction H|].
    split; [intros _; now split | intros H; now contradiction H].
  - assert (forall m, (t, s) = ([(r, objs)], StFailed m) ->
              match hd OExitFail outs with
              | OExitFail | OBadResponse => m = MHookFailed
              | ONoResponse => m = MPropError
              | OResp (c :: x) _ => m = MHook (c :: x)
              | OResp [] _ => False end ->
              map fst t = firstn (length t) (r :: rest) /\ feeds objs outs t = true
              /\ (r :: rest <> [] -> t <> []) /\ (t = [] -> s = StNotDone /\ r :: rest = [])
              /\ (t <> [] -> (forall k, S k < length t -> exists o, nth k outs OExitFail = OResp [] o /\ is_done desired o = false)
                             /\ stop_ok desired (r :: rest) outs t s)) as Gfail.
    { intros m E' Hm. inversion E'; subst. cbn [map fst length firstn feeds]. rewrite Hrefl.
      repeat split; try discriminate.
      - intros k Hk. cbn in Hk. lia.
      - unfold stop_ok, last_out. cbn [length Nat.sub]. rewrite <- hd_nth. exact Hm. }
    destruct (hd OExitFail outs) as [| | |[|c m] objs'] eqn:Eh.
    5: { apply (Gfail (MHook (c :: m))); [now symmetry | reflexivity]. }
    + apply (Gfail MHookFailed); [now symmetry | reflexivity].
    + apply (Gfail MHookFailed); [now symmetry | reflexivity].
    + apply (Gfail MPropError); [now symmetry | reflexivity].
    + destruct (is_done desired objs') eqn:Ed.
      * inversion E; subst. cbn [map fst length firstn feeds]. rewrite Hrefl.
        repeat split; try discriminate.
        -- intros k Hk. cbn in Hk. lia.
        -- unfold last_out. cbn [length Nat.sub]. now rewrite <- hd_nth.
        -- assumption.
      * destruct (steps desired rest (tl outs) objs') as [t' s'] eqn:Es. inversion E; subst.
        destruct (IH _ _ _ _ Es) as (H1 & H2 & H3 & H4 & H5).
        cbn [map fst length firstn]. rewrite H1.
        split; [reflexivity|]. split.
        { cbn [feeds]. rewrite Hrefl. cbn [andb]. destruct t' as [|i t']; [reflexivity|].
          rewrite Eh. cbn [ok_out]. exact H2. }
        split; [discriminate|]. split; [discriminate|]. intros _.
        destruct t' as [|i t'].
        { destruct (H4 eq_refl) as [-> ->]. split.
          - intros k Hk. cbn in Hk. lia.
          - cbn [stop_ok]. exists objs'. unfold last_out. cbn [length Nat.sub]. rewrite <- hd_nth.
            repeat split; assumption. }
        destruct (H5 ltac:(discriminate)) as [Hall Hstop]. split.
        { intros k Hk. destruct k as [|k].
          - exists objs'. rewrite <- hd_nth. now split.
          - rewrite nth_tl. apply Hall. cbn [length] in *. lia. }
        unfold stop_ok in *. rewrite last_out_cons by discriminate.
        destruct s as [m | o | ]; [exact Hstop | exact Hstop |].
        destruct Hstop as (o & Ho1 & Ho2 & Ho3). exists o. repeat split; try assumption.
        cbn [length] in *. lia.
Qed.

Lemma extract_nonempty o req : extract (o :: req) <> [].
Proof. unfold extract. cbn [extract_from existsb]. discriminate. Qed.

Lemma convert_cases desired chain outs req t a : convert desired chain outs req = (t, a) ->
  (req = [] /\ t = [] /\ a = Failed MNotSuccessful)
  \/ (req <> [] /\ exists s, steps desired chain outs req = (t, s) /\
        a = match s with
            | StFailed m => Failed m
            | StNotDone => Failed MNotSuccessful
            | StDone objs => if N.eqb (N.of_nat (length req)) (N.of_nat (length objs)) then Success objs
                             else Failed (MCount (N.of_nat (length objs)) (N.of_nat (length req)))
            end).
Proof.
  unfold convert. destruct req as [|o req].
  - cbn. intros E; inversion E. left. repeat split.
  - destruct (extract (o :: req)) as [|v vs] eqn:Ex; [now apply extract_nonempty in Ex|].
    intros E. right. split; [discriminate|].
    destruct (steps desired chain outs (o :: req)) as [t' s] eqn:Es. exists s.
    destruct s as [m | objs |]; [inversion E; now subst | | inversion E; now subst].
    destruct (N.eqb _ _); inversion E; now subst.
Qed.

Theorem steps_in_order desired chain outs req t a : convert desired chain outs req = (t, a) ->
  map fst t = firstn (length t) chain /\ feeds req outs t = true.
Proof.
  intros E. apply convert_cases in E. destruct E as [(-> & -> & _) | (_ & s & Es & _)].
  - split; reflexivity.
  - destruct (steps_spec _ _ _ _ _ _ Es) as (H1 & H2 & _). now split.
Qed.

Lemma is_ok_resp o objs : o = OResp [] objs -> is_ok o = true.
Proof. now intros ->. Qed.

(* the position of a step that did not succeed is the last one, and the stop is a failure *)
Lemma failure_is_last desired chain outs req t s k :
  steps desired chain outs req = (t, s) -> k < length t -> is_ok (nth k outs OExitFail) = false ->
  length t = S k /\ last_out outs t = nth k outs OExitFail /\ exists m, s = StFailed m.
Proof.
  intros Es Hk Hbad. destruct (steps_spec _ _ _ _ _ _ Es) as (_ & _ & _ & _ & H5).
  assert (t <> []) as Hne by (destruct t; [cbn in Hk; lia | discriminate]).
  destruct (H5 Hne) as [Hall Hstop].
  assert (length t = S k) as El.
  { destruct (le_lt_dec (length t) (S k)); [lia|]. destruct (Hall k l) as (o & Eo & _).
    rewrite Eo in Hbad. discriminate. }
  assert (last_out outs t = nth k outs OExitFail) as Elast.
  { unfold last_out. rewrite El. now rewrite Nat.sub_succ, Nat.sub_0_r. }
  split; [assumption|]. split; [assumption|].
  unfold stop_ok in Hstop. rewrite Elast in Hstop.
  destruct s as [m | o |]; [now exists m | |].
  - destruct Hstop as [Eo _]. rewrite Eo in Hbad. discriminate.
  - destruct Hstop as (o & Eo & _). rewrite Eo in Hbad. discriminate.
Qed.

Theorem stop_at_first_failure desired chain outs req t a k :
  convert desired chain outs req = (t, a) -> k < length t -> is_ok (nth k outs OExitFail) = false ->
  length t = S k /\ exists m, a = Failed m.
Proof.
  intros E Hk Hbad. apply convert_cases in E. destruct E as [(_ & -> & _) | (_ & s & Es & ->)]; [cbn in Hk; lia|].
  destruct (failure_is_last _ _ _ _ _ _ _ Es Hk Hbad) as (H1 & _ & m & ->). split; [assumption | now exists m].
Qed.

Theorem failed_message_relayed desired chain outs req t a k m objs :
  convert desired chain outs req = (t, a) -> k < length t ->
  nth k outs OExitFail = OResp m objs -> m <> [] -> a = Failed (MHook m).
Proof.
  intros E Hk Eo Hm. destruct m as [|c m]; [now contradiction Hm|]. clear Hm. apply convert_cases in E. destruct E as [(_ & -> & _) | (_ & s & Es & ->)]; [cbn in Hk; lia|].
  assert (is_ok (nth k outs OExitFail) = false) as Hbad by now rewrite Eo.
  destruct (failure_is_last _ _ _ _ _ _ _ Es Hk Hbad) as (_ & Elast & m' & ->).
  destruct (steps_spec _ _ _ _ _ _ Es) as (_ & _ & _ & _ & H5).
  assert (t <> []) as Hne by (destruct t; [cbn in Hk; lia | discriminate]).
  destruct (H5 Hne) as [_ Hstop]. unfold stop_ok in Hstop. rewrite Elast, Eo in Hstop. now subst.
Qed.

Theorem success_iff_all_steps_and_count desired chain outs req t a objs :
  convert desired chain outs req = (t, a) ->
  (a = Success objs <->
   t <> [] /\ (forall k, k < length t -> is_ok (nth k outs OExitFail) = true)
   /\ last_out outs t = OResp [] objs /\ all_at desired objs = true /\ length objs = length req).
Proof.
  intros E. apply convert_cases in E. destruct E as [(-> & -> & ->) | (Hreq & s & Es & ->)].
  - split; [discriminate | intros [H _]; now contradiction H].
  - destruct (steps_spec _ _ _ _ _ _ Es) as (_ & _ & _ & H4 & H5). split.
    + intros Ea. destruct s as [m | o |]; try discriminate.
      destruct (N.eqb (N.of_nat (length req)) (N.of_nat (length o))) eqn:Ec; [|discriminate].
      inversion Ea; subst o. apply N.eqb_eq, Nat2N.inj in Ec.
      assert (t <> []) as Hne by (intros ->; destruct (H4 eq_refl); discriminate).
      destruct (H5 Hne) as [Hall [Elast Hd]]. split; [assumption|]. split; [|split; [assumption|split; [|now symmetry]]].
      * intros k Hk. destruct (le_lt_dec (length t) (S k)) as [Hle | Hlt].
        -- assert (k = length t - 1) as -> by lia. fold (last_out outs t). now rewrite Elast.
        -- destruct (Hall k Hlt) as (o & -> & _). reflexivity.
      * now rewrite <- is_done_all_at.
    + intros (Hne & _ & Elast & Hat & Hlen). destruct (H5 Hne) as [_ Hstop]. unfold stop_ok in Hstop.
      rewrite Elast in Hstop. rewrite <- is_done_all_at in Hat. destruct s as [m | o |].
      * destruct Hstop.
      * destruct Hstop as [Eo _]. inversion Eo; subst o. rewrite Hlen, N.eqb_refl. reflexivity.
      * destruct Hstop as (o & Eo & Hd & _). inversion Eo; subst o. congruence.
Qed.

Lemma list_eqb_rule_refl l : list_eqb rule_eqb l l = true.
Proof. apply list_eqb_refl, rule_eqb_refl. Qed.

Theorem handler_meets_spec dtext desired chain outs req t a :
  convert desired chain outs req = (t, a) -> P_handler desired chain outs req t (respond dtext a) = true.
Proof.
  intros E. pose proof (steps_in_order _ _ _ _ _ _ E) as [Hord Hfeeds].
  unfold P_handler. rewrite Hfeeds. unfold in_order. rewrite Hord, list_eqb_rule_refl. cbn [andb].
  apply convert_cases in E. destruct E as [(-> & -> & ->) | (Hreq & s & Es & ->)].
  - cbn [respond]. unfold runs_to_end, verdict_ok. destruct chain; reflexivity.
  - destruct (steps_spec _ _ _ _ _ _ Es) as (_ & _ & H3 & H4 & H5).
    destruct t as [|i t'].
    + destruct (H4 eq_refl) as [-> ->]. cbn [respond]. unfold runs_to_end, verdict_ok. destruct req; reflexivity.
    + destruct (H5 ltac:(discriminate)) as [_ Hstop]. unfold stop_ok in Hstop.
      assert (forall o, objs_eqb o o = true) as Hrefl.
      { intros o. apply list_eqb_refl. intros [j v]. unfold obj_eqb. cbn [fst snd].
        now rewrite N.eqb_refl, version_eqb_refl. }
      unfold runs_to_end, verdict_ok.
      assert (nonempty (i :: t') = true) as -> by reflexivity.
      assert ((match chain with [] => true | _ :: _ => match req with [] => true | _ :: _ => true end end) = true) as ->
          by (destruct chain, req; reflexivity).
      rewrite andb_true_r.
      destruct s as [m | o |].
      * cbn [respond]. destruct (last_out outs (i :: t')) as [| | |[|c x] objs'] eqn:El.
        -- reflexivity.
        -- reflexivity.
        -- reflexivity.
        -- destruct Hstop.
        -- subst m. cbn [msg_text andb]. apply bytes_eqb_eq. reflexivity.
      * destruct Hstop as [-> Hd]. rewrite is_done_all_at in Hd. rewrite Hd. cbn [orb andb].
        destruct (N.eqb (N.of_nat (length req)) (N.of_nat (length o))) eqn:Ec; cbn [respond].
        -- rewrite Hrefl, Hd. apply N.eqb_eq in Ec. rewrite <- Ec, N.eqb_refl. reflexivity.
        -- rewrite N.eqb_sym, Ec. reflexivity.
      * destruct Hstop as (o & -> & Hd & Hlen). rewrite is_done_all_at in Hd. cbn [respond].
        rewrite Hd, Hlen, Nat.eqb_refl. reflexivity.
Qed.

(* ================================================================= the texts (part 3 of the model) *)

(* the loop fails with one of three messages; a hook's message it relays is never "" *)
Lemma steps_failed_msg desired chain outs req t m : steps desired chain outs req = (t, StFailed m) ->
  m = MHookFailed \/ m = MPropError \/ exists c x, m = MHook (c :: x).
Proof.
  intros Es. destruct (steps_spec _ _ _ _ _ _ Es) as (_ & _ & _ & H4 & H5).
  assert (t <> []) as Hne by (intros ->; destruct (H4 eq_refl); discriminate).
  destruct (H5 Hne) as [_ Hstop]. unfold stop_ok in Hstop.
  destruct (last_out outs t) as [| | |[|c x] objs'].
  - now left.
  - now left.
  - right. now left.
  - destruct Hstop.
  - right. right. now exists c, x.
Qed.

(* the layered model (event handler, then review handler) answers what [convert] answers,
   with the text of every message written out *)
Theorem serve_respond dtext desired chain outs req :
  serve dtext desired chain outs req =
  (fst (convert desired chain outs req), respond dtext (snd (convert desired chain outs req))).
Proof.
  unfold serve, event_handler, convert. destruct (extract req) as [|v vs].
  - reflexivity.
  - destruct (steps desired chain outs req) as [t s] eqn:Es. destruct s as [m | objs |].
    + destruct (steps_failed_msg _ _ _ _ _ _ Es) as [-> | [-> | (c & x & ->)]]; reflexivity.
    + cbn [handle_review fst snd]. destruct (N.eqb (N.of_nat (length req)) (N.of_nat (length objs))); reflexivity.
    + reflexivity.
Qed.

Lemma serve_convert dtext desired chain outs req t r : serve dtext desired chain outs req = (t, r) ->
  exists a, convert desired chain outs req = (t, a) /\ r = respond dtext a.
Proof.
  rewrite serve_respond. intros E. inversion E. exists (snd (convert desired chain outs req)).
  split; [now destruct (convert desired chain outs req) | reflexivity].
Qed.

(* handler.go alone: a non-empty FailedMessage of the event handler's response IS the message
   of the Failure, whatever bytes it consists of *)
Theorem review_copies_message requested m objs : m <> [] ->
  handle_review requested (OpResponse m objs) = RFailure m.
Proof. intros Hm. destruct m as [|c m]; [now contradiction Hm | reflexivity]. Qed.

(* the whole path: the failing hook's own message is the answer's message, byte for byte *)
Theorem serve_message_verbatim dtext desired chain outs req t r k m objs :
  serve dtext desired chain outs req = (t, r) -> k < length t ->
  nth k outs OExitFail = OResp m objs -> m <> [] -> r = RFailure m.
Proof.
  intros E Hk Eo Hm. apply serve_convert in E. destruct E as (a & E & ->).
  now rewrite (failed_message_relayed _ _ _ _ _ _ _ _ _ E Hk Eo Hm).
Qed.

Theorem serve_meets_spec dtext desired chain outs req t r :
  serve dtext desired chain outs req = (t, r) -> P_handler desired chain outs req t r = true.
Proof.
  intros E. apply serve_convert in E. destruct E as (a & E & ->). now apply handler_meets_spec.
Qed.

Theorem serve_success_iff dtext desired chain outs req t r objs :
  serve dtext desired chain outs req = (t, r) ->
  (r = RSuccess objs <->
   t <> [] /\ (forall k, k < length t -> is_ok (nth k outs OExitFail) = true)
   /\ last_out outs t = OResp [] objs /\ all_at desired objs = true /\ length objs = length req).
Proof.
  intros E. apply serve_convert in E. destruct E as (a & E & ->).
  rewrite <- (success_iff_all_steps_and_count _ _ _ _ _ _ objs E).
  destruct a as [o | m]; cbn [respond]; split; intros H; try discriminate; inversion H; reflexivity.
Qed.

Theorem serve_stop_at_first_failure dtext desired chain outs req t r k :
  serve dtext desired chain outs req = (t, r) -> k < length t -> is_ok (nth k outs OExitFail) = false ->
  length t = S k /\ exists message, r = RFailure message.
Proof.
  intros E Hk Hbad. apply serve_convert in E. destruct E as (a & E & ->).
  destruct (stop_at_first_failure _ _ _ _ _ _ _ E Hk Hbad) as (H1 & m & ->).
  split; [assumption | now exists (msg_text dtext m)].
Qed.

(* ================================================================= statements for C15_Properties *)

Theorem cache_inv_preserved g rules c q : rules_dom g rules -> dom g (r_from q) ->
  cache_inv g rules c -> cache_inv g rules (fst (find rules c q)).
Proof. intros Hrd Hf Hinv. now destruct (@find_inv g rules q c Hrd Hf Hinv). Qed.

Theorem find_sound_fresh rules A B p : in_domain rules A B = true ->
  snd (find rules (base_cache rules) (A, B)) = Some p -> valid_chain rules A B p = true.
Proof.
  intros Hd E. apply in_domain_elim in Hd. destruct Hd as (_ & g & HA & HB & Hrd).
  apply (@find_sound g rules (base_cache rules) (A, B) p Hrd HA HB (@cache_inv_base g rules Hrd) E).
Qed.

Theorem find_complete_fresh rules A B : in_domain rules A B = true -> reachable rules A B = true ->
  exists p, snd (find rules (base_cache rules) (A, B)) = Some p.
Proof.
  intros Hd Hr. apply in_domain_elim in Hd. destruct Hd as (Hne & g & HA & HB & Hrd).
  apply (@find_complete g rules (base_cache rules) (A, B) Hrd HA HB Hne (@cache_inv_base g rules Hrd) Hr).
Qed.

(* ================================================================= part 4: hooks with settings *)

(* the limiter lets Wait(context.Background()) return nil: no limit, or a burst of at least 1 *)
Definition admits (b : bucket) : bool :=
  match b_limit b with None => true | Some _ => (1 <=? b_burst b)%Z end.

Lemma wait_result b t b' g : rate_limit_wait b t = (b', g) ->
  admits b' = admits b /\
  (if admits b then exists t', g = Some t' /\ (t <= t')%Z else g = None).
Proof.
  unfold rate_limit_wait, admits. destruct (b_limit b) as [iv|] eqn:E.
  - destruct (1 <=? b_burst b)%Z eqn:B; intros H; inversion H; subst; clear H.
    + cbn [b_limit b_burst]. rewrite B. split; [reflexivity|]. eexists. split; [reflexivity|lia].
    + rewrite E, B. split; reflexivity.
  - intros H; inversion H; subst; clear H. rewrite E. split; [reflexivity|]. exists t. split; [reflexivity|lia].
Qed.

Theorem wait_admitted b t : admits b = true ->
  exists b' t', rate_limit_wait b t = (b', Some t') /\ admits b' = true /\ (t <= t')%Z.
Proof.
  intros A. destruct (rate_limit_wait b t) as [b' g] eqn:W.
  destruct (wait_result _ _ _ _ W) as [A' R]. rewrite A in R, A'. destruct R as (t' & -> & Ht).
  exists b', t'. auto.
Qed.

Theorem wait_refused b t : admits b = false -> rate_limit_wait b t = (b, None).
Proof.
  unfold rate_limit_wait, admits. destruct (b_limit b); [|discriminate]. now intros ->.
Qed.

Theorem runnable_admits s : runnable s = true -> admits (create_rate_limiter s) = true.
Proof.
  destruct s as [[interval burst]|]; [|reflexivity].
  unfold runnable, create_rate_limiter, new_limiter, admits, every; cbn [b_limit b_burst].
  rewrite orb_true_iff, !Z.leb_le. intros H.
  destruct (interval =? 0)%Z eqn:E0; [reflexivity|].
  destruct (interval <=? 0)%Z eqn:E1; [reflexivity|].
  apply Z.leb_gt in E1. apply Z.leb_le.
  destruct (burst =? 0)%Z eqn:E2; [lia|]. apply Z.eqb_neq in E2. lia.
Qed.

Theorem unrunnable_refuses s : runnable s = false -> admits (create_rate_limiter s) = false.
Proof.
  destruct s as [[interval burst]|]; [|discriminate].
  unfold runnable, create_rate_limiter, new_limiter, admits, every; cbn [b_limit b_burst].
  rewrite orb_false_iff, !Z.leb_gt. intros [Hi Hb].
  destruct (interval =? 0)%Z eqn:E0; [apply Z.eqb_eq in E0; lia|].
  destruct (interval <=? 0)%Z eqn:E1; [apply Z.leb_le in E1; lia|].
  apply Z.leb_gt. destruct (burst =? 0)%Z eqn:E2; [apply Z.eqb_eq in E2; lia|lia].
Qed.

Lemma lim_get_admits lims h : admits (lim_get lims h) = nth (N.to_nat h) (map admits lims) true.
Proof.
  unfold lim_get. change true with (admits (new_limiter None 1)). symmetry. apply map_nth.
Qed.

Lemma lim_set_admits b' : forall lims h, admits b' = admits (nth h lims (new_limiter None 1)) ->
  map admits (lim_set_nat lims h b') = map admits lims.
Proof.
  induction lims as [|x lims IH]; intros h Hb; [reflexivity|].
  destruct h as [|h]; cbn [lim_set_nat map nth] in *; [now rewrite Hb|]. now rewrite IH.
Qed.

(* the handler loop when each rule's hook either can run or never can: a function of the chain
   and the outcomes alone - no limiter state, no clock *)
Fixpoint steps_gate (gate : rule -> bool) (desired : version) (chain : list rule) (outs : list outcome)
         (objs : list obj) : list invocation * stop :=
  match chain with
  | [] => ([], StNotDone)
  | r :: rest =>
    if gate r then
      match hd OExitFail outs with
      | OExitFail | OBadResponse => ([(r, objs)], StFailed MHookFailed)
      | ONoResponse => ([(r, objs)], StFailed MPropError)
      | OResp (c :: m) _ => ([(r, objs)], StFailed (MHook (c :: m)))
      | OResp [] objs' =>
        if is_done desired objs' then ([(r, objs)], StDone objs')
        else let '(t, s) := steps_gate gate desired rest (tl outs) objs' in ((r, objs) :: t, s)
      end
    else ([], StFailed MPropError)
  end.

Definition review_of (dtext : bytes) (req : list obj) (s : stop) : review :=
  handle_review (length req)
    match s with
    | StFailed MPropError => OpError (msg_text dtext MPropError)
    | StFailed m => OpResponse (msg_text dtext m) []
    | StDone objs => OpResponse [] objs
    | StNotDone => OpResponse (msg_text dtext MNotSuccessful) []
    end.

Definition serve_gate (gate : rule -> bool) (dtext : bytes) (desired : version) (chain : list rule)
           (outs : list outcome) (req : list obj) : list invocation * review :=
  match extract req with
  | [] => ([], handle_review (length req) (OpResponse (msg_text dtext MNotSuccessful) []))
  | _ => let '(t, s) := steps_gate gate desired chain outs req in (t, review_of dtext req s)
  end.

Definition gate_of (rules : list rule) (owners : list N) (adm : list bool) (r : rule) : bool :=
  nth (N.to_nat (owner_of rules owners r)) adm true.

Lemma steps_gate_true gate desired : forall chain outs objs, (forall r, In r chain -> gate r = true) ->
  steps_gate gate desired chain outs objs = steps desired chain outs objs.
Proof.
  induction chain as [|r rest IH]; intros outs objs G; [reflexivity|].
  cbn [steps_gate steps]. rewrite (G r (or_introl eq_refl)).
  destruct (hd OExitFail outs) as [| | |m objs']; try reflexivity.
  destruct m as [|c m]; [|reflexivity].
  destruct (is_done desired objs'); [reflexivity|].
  rewrite IH; [reflexivity|]. intros r' Hr'. apply G. now right.
Qed.

Lemma serve_gate_true gate dtext desired chain outs req : (forall r, In r chain -> gate r = true) ->
  serve_gate gate dtext desired chain outs req = serve dtext desired chain outs req.
Proof.
  intros G. unfold serve_gate, serve, event_handler, review_of.
  destruct (extract req); [reflexivity|].
  rewrite steps_gate_true by exact G.
  destruct (steps desired chain outs req) as [t s].
  destruct s as [m|objs|]; [destruct m|..]; reflexivity.
Qed.

(* the one induction over the real loop: what steps_lim does is steps_gate of "which hooks'
   limiters admit", and that bit of every limiter is invariant *)
Lemma steps_lim_gate rules owners desired : forall chain st outs objs t s st',
  steps_lim rules owners st desired chain outs objs = (t, s, st') ->
  steps_gate (gate_of rules owners (map admits (fst st))) desired chain outs objs = (t, s)
  /\ map admits (fst st') = map admits (fst st).
Proof.
  induction chain as [|r rest IH]; intros st outs objs t s st' H.
  - cbn [steps_lim] in H. inversion H; subst. split; reflexivity.
  - cbn [steps_lim steps_gate] in H |- *. unfold hook_run_task in H.
    set (h := owner_of rules owners r) in *.
    destruct (rate_limit_wait (lim_get (fst st) h) (hd 0%Z (snd st))) as [b' g] eqn:W.
    destruct (wait_result _ _ _ _ W) as [A' R].
    assert (map admits (lim_set (fst st) h b') = map admits (fst st)) as Hset
      by (apply lim_set_admits; exact A').
    unfold gate_of at 1. fold h. rewrite <- lim_get_admits.
    destruct (admits (lim_get (fst st) h)).
    + destruct R as (t' & -> & _).
      destruct (hd OExitFail outs) as [| | |m objs'];
        try (inversion H; subst; cbn [fst]; split; [reflexivity|exact Hset]).
      destruct m as [|c m]; [|inversion H; subst; cbn [fst]; split; [reflexivity|exact Hset]].
      destruct (is_done desired objs'); [inversion H; subst; cbn [fst]; split; [reflexivity|exact Hset]|].
      destruct (steps_lim rules owners (lim_set (fst st) h b', tl (snd st)) desired rest (tl outs) objs')
        as [[t1 s1] st1] eqn:S1.
      destruct (IH _ _ _ _ _ _ S1) as [G1 M1]. cbn [fst] in G1, M1.
      rewrite Hset in G1. rewrite G1. inversion H; subst. split; [reflexivity|]. now rewrite M1.
    + subst g. inversion H; subst. cbn [fst]. split; [reflexivity|exact Hset].
Qed.

Lemma serve_lim_gate rules owners st dtext desired chain outs req t a st' :
  serve_lim rules owners st dtext desired chain outs req = (t, a, st') ->
  serve_gate (gate_of rules owners (map admits (fst st))) dtext desired chain outs req = (t, a)
  /\ map admits (fst st') = map admits (fst st).
Proof.
  unfold serve_lim, serve_gate. destruct (extract req).
  - intros H; inversion H; subst. split; reflexivity.
  - destruct (steps_lim rules owners st desired chain outs req) as [[t1 s1] st1] eqn:S1.
    destruct (steps_lim_gate _ _ _ _ _ _ _ _ _ _ S1) as [G1 M1]. rewrite G1.
    intros H; inversion H; subst. split; [reflexivity|exact M1].
Qed.

(* a session is request-by-request serve_gate of the initial "admits" bits *)
Definition serve_q (gate : rule -> bool) (q : squery) : list invocation * review :=
  let '(dtext, desired, chain, outs, req) := q in serve_gate gate dtext desired chain outs req.

Lemma session_gate rules owners : forall qs st,
  serve_session rules owners st qs = map (serve_q (gate_of rules owners (map admits (fst st)))) qs.
Proof.
  induction qs as [|q qs IH]; intros st; [reflexivity|].
  destruct q as [[[[dtext desired] chain] outs] req]. cbn [serve_session map serve_q].
  destruct (serve_lim rules owners st dtext desired chain outs req) as [[t a] st'] eqn:S.
  destruct (serve_lim_gate _ _ _ _ _ _ _ _ _ _ _ S) as [G M]. rewrite G, IH, M. reflexivity.
Qed.

(* neither the clock nor the limiters' tokens matter: only which limiters admit *)
Theorem session_state_irrelevant rules owners qs lims clock lims' clock' :
  map admits lims = map admits lims' ->
  serve_session rules owners (lims, clock) qs = serve_session rules owners (lims', clock') qs.
Proof. intros E. rewrite !session_gate. cbn [fst]. now rewrite E. Qed.

Definition serve_plain (q : squery) : list invocation * review :=
  let '(dtext, desired, chain, outs, req) := q in serve dtext desired chain outs req.

Lemma all_admit_nth lims : Forall (fun b => admits b = true) lims ->
  forall n, nth n (map admits lims) true = true.
Proof.
  induction 1 as [|b lims Hb _ IH]; intros n; destruct n; cbn [map nth]; auto.
Qed.

(* rate limiting only delays: with limiters that admit, every request of the session gets
   the trace and the answer it gets from hooks without settings *)
Theorem session_admitted rules owners qs lims clock : Forall (fun b => admits b = true) lims ->
  serve_session rules owners (lims, clock) qs = map serve_plain qs.
Proof.
  intros A. rewrite session_gate. cbn [fst]. apply map_ext. intros q.
  destruct q as [[[[dtext desired] chain] outs] req]. cbn [serve_q serve_plain].
  apply serve_gate_true. intros r _. unfold gate_of. now apply all_admit_nth.
Qed.

Lemma initial_limiters_admit hsets : settings_in_domain hsets = true ->
  Forall (fun b => admits b = true) (initial_limiters hsets).
Proof.
  unfold settings_in_domain, initial_limiters. rewrite forallb_forall. intros H.
  apply Forall_forall. intros b Hb. apply in_map_iff in Hb. destruct Hb as (s & <- & Hs).
  apply runnable_admits. now apply H.
Qed.

Theorem session_is_serve rules owners hsets clock qs : settings_in_domain hsets = true ->
  serve_session rules owners (initial_limiters hsets, clock) qs = map serve_plain qs.
Proof. intros D. apply session_admitted. now apply initial_limiters_admit. Qed.

Lemma all_P_session_plain : forall qs, all_P_session qs (map serve_plain qs) = true.
Proof.
  induction qs as [|q qs IH]; [reflexivity|].
  destruct q as [[[[dtext desired] chain] outs] req]. cbn [map serve_plain all_P_session].
  destruct (serve dtext desired chain outs req) as [t a] eqn:S.
  rewrite (serve_meets_spec _ _ _ _ _ _ _ S), IH. reflexivity.
Qed.

Theorem session_meets_spec rules owners hsets clock qs : settings_in_domain hsets = true ->
  all_P_session qs (serve_session rules owners (initial_limiters hsets, clock) qs) = true.
Proof. intros D. rewrite session_is_serve by exact D. apply all_P_session_plain. Qed.

(* a hook whose limiter never admits is not executed: the request is answered
   "hook task prop error" at the first step such a hook owns, nothing runs *)
Theorem unrunnable_hook_refused rules owners lims clock dtext desired r rest outs req :
  extract req <> [] -> admits (lim_get lims (owner_of rules owners r)) = false ->
  exists st', serve_lim rules owners (lims, clock) dtext desired (r :: rest) outs req
              = ([], RFailure (msg_text dtext MPropError), st').
Proof.
  intros E A.
  destruct (serve_lim rules owners (lims, clock) dtext desired (r :: rest) outs req) as [[t a] st'] eqn:S.
  exists st'. destruct (serve_lim_gate _ _ _ _ _ _ _ _ _ _ _ S) as [G _].
  unfold serve_gate in G. destruct (extract req); [now elim E|].
  cbn [steps_gate fst] in G. unfold gate_of in G. rewrite <- lim_get_admits, A in G.
  inversion G; subst. reflexivity.
Qed.
