(* C13_TModel.v — the TEXT level of a patch file (helpers.go:18-45, NO proofs here).

   unmarshalFromJSONOrYAML: the whole text goes to unmarshalFromJson first; on ANY error of
   that path the whole text goes to unmarshalFromYaml instead (the fallback rule).

   unmarshalFromJson is the loop  for { err := dec.Decode(&doc); io.EOF -> break; err -> return nil, err }
   over an encoding/json Decoder.  Decoder.Decode (stream.go readValue) skips white space, at the
   end of the input answers io.EOF, otherwise feeds byte after byte to the scanner (scanner.go)
   until the scanner reports the end of ONE value: right at the closing bracket / quote / last
   letter of a literal, or - for a number at top level - at the first byte that does not
   continue the number (that byte is not consumed) or at the end of the input.  A byte the
   scanner cannot accept is a SyntaxError, the end of the input inside a value is
   io.ErrUnexpectedEOF.  The scanner is modelled as it is: one [step] per byte, a stack of open
   containers ([parseState]), the states of scanner.go folded into [mode].

   The YAML decoder (yaml.v3) is not modelled: what it makes of a text is an oracle, the
   parameter [yaml] (None = error).  What ONE JSON document means (json.Unmarshal into
   OperationSpec, then the schema) is the oracle of C13_Model ([DOp o] / [DBad]), here a table
   from document texts to documents; a value that is not a JSON object (or null) cannot be
   unmarshalled into the struct: UnmarshalTypeError, an error of the JSON path. *)
From Coq Require Import List NArith Bool.
From Verif Require Import Common Json C13_Model.
Import ListNotations.
Local Open Scope N_scope.

Definition text := list N.

(* scanner.go isSpace *)
Definition is_ws (c : N) : bool := (c =? 32) || (c =? 9) || (c =? 13) || (c =? 10).
Definition is_digit (c : N) : bool := (48 <=? c) && (c <=? 57).
Definition is_digit19 (c : N) : bool := (49 <=? c) && (c <=? 57).
Definition is_hex (c : N) : bool :=
  is_digit c || ((97 <=? c) && (c <=? 102)) || ((65 <=? c) && (c <=? 70)).
Definition is_e (c : N) : bool := (c =? 101) || (c =? 69).

(* parseState: an object whose key is being read / whose value is being read, an array *)
Inductive frame := FKey | FVal | FArr.

(* state0 stateNeg state1 stateDot stateDot0 stateE stateESign stateE0 *)
Inductive nstate := NNeg | NZero | NInt | NDot | NFrac | NE | NESign | NExp.
Definition n_accepting (s : nstate) : bool :=
  match s with NZero | NInt | NFrac | NExp => true | _ => false end.

Inductive mode :=
| MValue                  (* stateBeginValue *)
| MValueOrClose           (* stateBeginValueOrEmpty: after '[' *)
| MKeyOrClose             (* stateBeginStringOrEmpty: after '{' *)
| MKey                    (* stateBeginString: after ',' in an object *)
| MColon                  (* stateEndValue with parseObjectKey *)
| MEnd                    (* stateEndValue inside a container *)
| MStr (esc : nat)        (* stateInString; 1 = stateInStringEsc; 5..2 = stateInStringEscU.. (hex digits left + 1) *)
| MNum (s : nstate)
| MLit (rest : list N).   (* stateT.. stateF.. stateN..: the letters still to come *)

Inductive sres :=
| Cont (m : mode) (k : list frame)
| Done                    (* the top-level value ended WITH this byte *)
| DoneBefore              (* the top-level value (a number) ended BEFORE this byte *)
| Err.

(* a value ended with the byte just consumed *)
Definition value_end (k : list frame) : sres :=
  match k with
  | [] => Done
  | FKey :: _ => Cont MColon k
  | _ => Cont MEnd k
  end.

(* first byte of a value (white space is handled by the callers) *)
Definition begin_value (c : N) (k : list frame) : sres :=
  if c =? 123 then Cont MKeyOrClose (FKey :: k)              (* { *)
  else if c =? 91 then Cont MValueOrClose (FArr :: k)        (* [ *)
  else if c =? 34 then Cont (MStr 0) k                       (* quote *)
  else if c =? 45 then Cont (MNum NNeg) k                    (* - *)
  else if c =? 48 then Cont (MNum NZero) k
  else if is_digit19 c then Cont (MNum NInt) k
  else if c =? 116 then Cont (MLit [114; 117; 101]) k        (* t rue *)
  else if c =? 102 then Cont (MLit [97; 108; 115; 101]) k    (* f alse *)
  else if c =? 110 then Cont (MLit [117; 108; 108]) k        (* n ull *)
  else Err.

(* stateEndValue inside a container *)
Definition end_step (c : N) (k : list frame) : sres :=
  if is_ws c then Cont MEnd k
  else match k with
       | FVal :: k' =>
         if c =? 44 then Cont MKey (FKey :: k')               (* , *)
         else if c =? 125 then value_end k'                   (* } *)
         else Err
       | FArr :: k' =>
         if c =? 44 then Cont MValue k
         else if c =? 93 then value_end k'                    (* ] *)
         else Err
       | _ => Err
       end.

(* a number ended before [c] *)
Definition num_end (c : N) (k : list frame) : sres :=
  match k with [] => DoneBefore | _ => end_step c k end.

Definition num_step (s : nstate) (c : N) (k : list frame) : sres :=
  match s with
  | NNeg => if c =? 48 then Cont (MNum NZero) k else if is_digit19 c then Cont (MNum NInt) k else Err
  | NZero => if c =? 46 then Cont (MNum NDot) k else if is_e c then Cont (MNum NE) k else num_end c k
  | NInt => if is_digit c then Cont (MNum NInt) k else if c =? 46 then Cont (MNum NDot) k
            else if is_e c then Cont (MNum NE) k else num_end c k
  | NDot => if is_digit c then Cont (MNum NFrac) k else Err
  | NFrac => if is_digit c then Cont (MNum NFrac) k else if is_e c then Cont (MNum NE) k else num_end c k
  | NE => if (c =? 43) || (c =? 45) then Cont (MNum NESign) k else if is_digit c then Cont (MNum NExp) k else Err
  | NESign => if is_digit c then Cont (MNum NExp) k else Err
  | NExp => if is_digit c then Cont (MNum NExp) k else num_end c k
  end.

Definition is_simple_escape (c : N) : bool :=
  (c =? 34) || (c =? 92) || (c =? 47) || (c =? 98) || (c =? 102) || (c =? 110) || (c =? 114) || (c =? 116).

Definition step (m : mode) (k : list frame) (c : N) : sres :=
  match m with
  | MValue => if is_ws c then Cont MValue k else begin_value c k
  | MValueOrClose =>
    if is_ws c then Cont MValueOrClose k
    else if c =? 93 then match k with FArr :: k' => value_end k' | _ => Err end
    else begin_value c k
  | MKeyOrClose =>
    if is_ws c then Cont MKeyOrClose k
    else if c =? 34 then Cont (MStr 0) k
    else if c =? 125 then match k with FKey :: k' => value_end k' | _ => Err end
    else Err
  | MKey => if is_ws c then Cont MKey k else if c =? 34 then Cont (MStr 0) k else Err
  | MColon =>
    if is_ws c then Cont MColon k
    else if c =? 58 then match k with FKey :: k' => Cont MValue (FVal :: k') | _ => Err end
    else Err
  | MEnd => end_step c k
  | MStr O =>
    if c =? 34 then value_end k
    else if c =? 92 then Cont (MStr 1) k
    else if c <? 32 then Err
    else Cont (MStr 0) k
  | MStr (S O) =>
    if is_simple_escape c then Cont (MStr 0) k
    else if c =? 117 then Cont (MStr 5) k
    else Err
  | MStr (S (S n)) =>
    if is_hex c then match n with O => Cont (MStr 0) k | _ => Cont (MStr (S n)) k end else Err
  | MNum s => num_step s c k
  | MLit [] => Err
  | MLit (x :: r) => if c =? x then match r with [] => value_end k | _ => Cont (MLit r) k end else Err
  end.

(* the first byte of a top-level value (Decode after its white space) *)
Definition top_step (c : N) : sres := begin_value c [].

(* the decoder loop over the whole text: [st] = None between two values; [acc] the bytes of
   the value being read (reversed), [vals] the texts of the values read so far (reversed).
   Some = the loop ended with io.EOF, None = it returned an error. *)
Fixpoint stream (st : option (mode * list frame)) (acc : text) (vals : list text) (t : text) : option (list text) :=
  match t with
  | [] =>
    match st with
    | None => Some (rev vals)                                      (* io.EOF *)
    | Some (MNum s, []) => if n_accepting s then Some (rev (rev acc :: vals)) else None
    | Some _ => None                                               (* io.ErrUnexpectedEOF *)
    end
  | c :: r =>
    match st with
    | None =>
      if is_ws c then stream None [] vals r
      else match top_step c with
           | Cont m k => stream (Some (m, k)) [c] vals r
           | _ => None
           end
    | Some (m, k) =>
      match step m k c with
      | Cont m' k' => stream (Some (m', k')) (c :: acc) vals r
      | Done => stream None [] (rev (c :: acc) :: vals) r
      | DoneBefore =>
        if is_ws c then stream None [] (rev acc :: vals) r
        else match top_step c with
             | Cont m' k' => stream (Some (m', k')) [c] (rev acc :: vals) r
             | _ => None
             end
      | Err => None
      end
    end
  end.

(* the texts of the values of a JSON stream, or a syntax error *)
Definition json_values (t : text) : option (list text) := stream None [] [] t.

(* json.Unmarshal into the struct OperationSpec: an object, or null (which leaves the zero
   value); any other value is an UnmarshalTypeError *)
Definition t_null : text := [110; 117; 108; 108].
Definition decodable (v : text) : bool :=
  match v with
  | c :: _ => (c =? 123) || bytes_eqb v t_null
  | [] => false
  end.

(* unmarshalFromJson: Some = the specs (as texts), None = an error *)
Definition json_path (t : text) : option (list text) :=
  match json_values t with
  | Some vs => if forallb decodable vs then Some vs else None
  | None => None
  end.

(* what a document text means: the oracle of C13_Model, as a table; a document the table
   does not know is rejected by the schema (e.g. {} or null: no operation) *)
Definition table := list (text * doc).
Fixpoint lookup (v : text) (tb : table) : option doc :=
  match tb with
  | [] => None
  | (v', d) :: r => if bytes_eqb v v' then Some d else lookup v r
  end.
Definition meaning (tb : table) (v : text) : doc :=
  match lookup v tb with Some d => d | None => DBad end.

(* unmarshalFromJSONOrYAML; [yaml] = what unmarshalFromYaml makes of the same text *)
Definition parse_text (tb : table) (yaml : option (list doc)) (t : text) : option (list doc) :=
  match json_path t with
  | Some vs => Some (map (meaning tb) vs)
  | None => yaml
  end.

(* one hook run with the patch file [t] (operator.go:667-676 over ParseOperations) *)
Definition handle_text_run (c : cluster) (tb : table) (yaml : option (list doc)) (t : text) : outcome :=
  match parse_text tb yaml t with
  | None => mkOutcome false c [] []
  | Some ds => handle_run c ds
  end.

(* ---------- vocabulary for texts built from pieces ---------- *)

(* documents, each with the white space in front of it, and what follows the last one *)
Fixpoint flatten (ds : list (text * text)) (tail : text) : text :=
  match ds with
  | [] => tail
  | (w, v) :: r => w ++ v ++ flatten r tail
  end.

(* the scanner over a piece of text: where it is after ALL of [v]; Done only when the value
   ended exactly with the last byte of [v] *)
Fixpoint run (m : mode) (k : list frame) (v : text) : sres :=
  match v with
  | [] => Cont m k
  | c :: r =>
    match step m k c with
    | Cont m' k' => run m' k' r
    | Done => match r with [] => Done | _ => Err end
    | _ => Err
    end
  end.

(* [v] is exactly one self-delimited JSON value (object, array, string, literal) *)
Definition complete (v : text) : bool :=
  match v with
  | c :: r =>
    negb (is_ws c) &&
    match top_step c with
    | Cont m k => match run m k r with Done => true | _ => false end
    | _ => false
    end
  | [] => false
  end.

(* a byte no value starts with: } ] , : NUL, control bytes, letters other than t f n, ... *)
Definition bad_start (c : N) : bool :=
  negb (is_ws c) && match top_step c with Cont _ _ => false | _ => true end.
