(* C15_BindProofs.v — proofs about C15_BindModel (binding parameters, what a step's hook reads). *)
From Verif Require Import Common C15_Model C15_Spec C15_Proofs C15_BindModel C15_BindSpec.
From Coq Require Import Arith Lia.

(* ================================================================= MapV1 *)

(* a conversion context is rendered as the conversion review, whatever its group, its included
   snapshots and the snapshots it carries *)
Lemma map_v1_conversion bc : bc_btype bc = BConversion ->
  map_v1 bc = mkR (bc_binding bc) RtConversion
                  (if nonempty (bc_include bc) || bc_all bc then Some (bc_snapshots bc) else None)
                  None (Some (bc_versions bc)) (bc_review bc).
Proof. intros E. unfold map_v1. rewrite E. reflexivity. Qed.

Lemma conversion_context_is_review bc : bc_btype bc = BConversion ->
  r_type (map_v1 bc) = RtConversion /\ r_versions (map_v1 bc) = Some (bc_versions bc)
  /\ r_review (map_v1 bc) = bc_review bc /\ r_group (map_v1 bc) = None /\ r_binding (map_v1 bc) = bc_binding bc.
Proof. intros E. rewrite (map_v1_conversion _ E). cbn. repeat split. Qed.

(* the other side of the same statement list: a grouped context of a schedule / kubernetes binding IS
   rendered as "type": "Group" without any review (so the order of the statements matters) *)
Lemma grouped_context_is_group bc g : bc_group bc = Some g ->
  bc_btype bc = BSchedule \/ bc_btype bc = BOnKubernetesEvent ->
  r_type (map_v1 bc) = RtGroup /\ r_group (map_v1 bc) = Some g /\ r_review (map_v1 bc) = None.
Proof. intros Eg [E | E]; unfold map_v1; rewrite E, Eg; cbn; repeat split. Qed.

Lemma update_snapshots_keeps cfg bc :
  bc_btype (update_snapshots cfg bc) = bc_btype bc /\ bc_binding (update_snapshots cfg bc) = bc_binding bc
  /\ bc_versions (update_snapshots cfg bc) = bc_versions bc /\ bc_review (update_snapshots cfg bc) = bc_review bc
  /\ bc_include (update_snapshots cfg bc) = bc_include bc /\ bc_all (update_snapshots cfg bc) = bc_all bc.
Proof. unfold update_snapshots. destruct (h_kube cfg); cbn; repeat split. Qed.

(* what the hook of a step reads, in full *)
Lemma hook_receives_eq hooks l objs :
  hook_receives hooks l objs =
  mkR (l_binding l) RtConversion
      (if nonempty (l_include l)
       then Some (bc_snapshots (update_snapshots (nth (N.to_nat (l_hook l)) hooks no_hook) (handle_event l objs)))
       else None)
      None (Some (l_rule l)) (Some objs).
Proof.
  unfold hook_receives.
  destruct (update_snapshots_keeps (nth (N.to_nat (l_hook l)) hooks no_hook) (handle_event l objs))
    as (Et & Eb & Ev & Er & Ei & Ea).
  rewrite map_v1_conversion by (rewrite Et; reflexivity).
  rewrite Eb, Ev, Er, Ei, Ea. cbn [handle_event bc_binding bc_versions bc_review bc_include bc_all].
  rewrite orb_false_r. reflexivity.
Qed.

Theorem step_hook_receives_request hooks l objs :
  conversion_request (hook_receives hooks l objs) = Some (l_rule l, objs).
Proof. rewrite hook_receives_eq. reflexivity. Qed.

(* "snapshots" is there exactly when the binding includes snapshots (by name or through its group) *)
Theorem snapshots_field_iff hooks l objs :
  r_snapshots (hook_receives hooks l objs) = None <-> l_include l = [].
Proof.
  rewrite hook_receives_eq. cbn [r_snapshots]. destruct (l_include l); cbn; split; intros H; congruence.
Qed.

(* ================================================================= loading: groups *)

Lemma fresh_of_complete : forall l seen x, In x l -> In x seen \/ In x (fresh_of seen l).
Proof.
  induction l as [|y l IH]; intros seen x Hx; [destruct Hx|].
  cbn [fresh_of]. destruct (mem_N y seen) eqn:Em.
  - destruct Hx as [<- | Hx]; [left; now apply mem_N_In | now apply IH].
  - destruct Hx as [<- | Hx]; [right; now left|].
    destruct (IH (y :: seen) x Hx) as [[<- | Hs] | Hf]; [right; now left | now left | right; now right].
Qed.

Lemma merge_arrays_both a1 a2 x : In x a1 \/ In x a2 -> In x (merge_arrays a1 a2).
Proof.
  unfold merge_arrays. rewrite in_app_iff. intros [H | H]; [now left|].
  destruct (fresh_of_complete a2 a1 x H); auto.
Qed.

(* a conversion binding with `group: g` includes the snapshot of every `kubernetes` binding of
   group g, and keeps what includeSnapshotsFrom names *)
Theorem group_includes_its_snapshots cfg cb g k :
  cb_group cb = Some g -> In (k, Some g) (h_kube cfg) -> In k (loaded_include cfg cb).
Proof.
  intros Eg Hk. unfold loaded_include. rewrite Eg.
  assert (In k (group_snapshots (h_kube cfg) g)) as Hin.
  { unfold group_snapshots. apply in_map_iff. exists (k, Some g). split; [reflexivity|].
    apply filter_In. split; [exact Hk | cbn; apply N.eqb_refl]. }
  destruct (group_snapshots (h_kube cfg) g) as [|s0 ss] eqn:Es; [destruct Hin|].
  apply merge_arrays_both. now right.
Qed.

Theorem include_kept cfg cb k : In k (cb_include cb) -> In k (loaded_include cfg cb).
Proof.
  intros Hk. unfold loaded_include. destruct (cb_group cb) as [g|]; [|exact Hk].
  destruct (group_snapshots (h_kube cfg) g); [exact Hk|]. apply merge_arrays_both. now left.
Qed.

(* ================================================================= links *)

Lemma link_for_some : forall links r l, link_for links r = Some l -> In l links /\ l_rule l = r.
Proof.
  induction links as [|l0 links IH]; intros r l E; [discriminate|].
  cbn [link_for] in E. destruct (link_for links r) as [l'|] eqn:El.
  - inversion E; subst l'. destruct (IH r l El) as [Hi Hr]. split; [now right | exact Hr].
  - destruct (rule_eqb (l_rule l0) r) eqn:Er; [|discriminate].
    inversion E; subst l0. split; [now left | now apply rule_eqb_eq].
Qed.

Lemma link_for_none : forall links r, link_for links r = None -> forall l, In l links -> l_rule l <> r.
Proof.
  induction links as [|l0 links IH]; intros r E l Hl; [destruct Hl|].
  cbn [link_for] in E. destruct (link_for links r) as [l'|] eqn:El; [discriminate|].
  destruct (rule_eqb (l_rule l0) r) eqn:Er; [discriminate|].
  destruct Hl as [<- | Hl]; [now apply rule_eqb_neq | now apply IH].
Qed.

Lemma hook_links_rules h cfg : map l_rule (hook_links h cfg) = flat_map cb_rules (h_conv cfg).
Proof.
  unfold hook_links. induction (h_conv cfg) as [|cb cbs IH]; [reflexivity|].
  cbn [flat_map]. rewrite map_app, IH, map_map. cbn [l_rule]. now rewrite map_id.
Qed.

Lemma links_from_rules : forall hooks h, map l_rule (links_from h hooks) = hooks_rules hooks.
Proof.
  induction hooks as [|cfg hooks IH]; intros h; [reflexivity|].
  cbn [links_from]. unfold hooks_rules. cbn [flat_map]. rewrite map_app, hook_links_rules.
  f_equal. apply IH.
Qed.

(* a declared rule has a link *)
Lemma declared_has_link hooks r : declared (hooks_rules hooks) r = true -> link_for (all_links hooks) r <> None.
Proof.
  unfold declared. rewrite existsb_exists. intros (r' & Hin & Er) En.
  apply rule_eqb_eq in Er. subst r'.
  unfold all_links in *. rewrite <- (links_from_rules hooks 0) in Hin.
  apply in_map_iff in Hin. destruct Hin as (l & El & Hl).
  exact (link_for_none _ _ En l Hl El).
Qed.

Lemma hook_links_declares h cfg l : In l (hook_links h cfg) ->
  l_hook l = h /\
  existsb (fun cb => N.eqb (cb_name cb) (l_binding l) && existsb (rule_eqb (l_rule l)) (cb_rules cb)) (h_conv cfg) = true.
Proof.
  unfold hook_links. rewrite in_flat_map. intros (cb & Hcb & Hl).
  apply in_map_iff in Hl. destruct Hl as (r & <- & Hr). cbn [l_hook l_binding l_rule].
  split; [reflexivity|]. apply existsb_exists. exists cb. split; [exact Hcb|].
  rewrite N.eqb_refl. cbn [andb]. apply existsb_exists. exists r. split; [exact Hr | apply rule_eqb_refl].
Qed.

Lemma links_from_declares : forall hooks h0 l, In l (links_from h0 hooks) ->
  exists k cfg, nth_error hooks k = Some cfg /\ l_hook l = (h0 + N.of_nat k)%N /\
    existsb (fun cb => N.eqb (cb_name cb) (l_binding l) && existsb (rule_eqb (l_rule l)) (cb_rules cb)) (h_conv cfg) = true.
Proof.
  induction hooks as [|cfg hooks IH]; intros h0 l Hl; [destruct Hl|].
  cbn [links_from] in Hl. apply in_app_iff in Hl. destruct Hl as [Hl | Hl].
  - destruct (hook_links_declares _ _ _ Hl) as [Eh Ed].
    exists 0, cfg. split; [reflexivity|]. split; [cbn; lia | exact Ed].
  - destruct (IH _ _ Hl) as (k & cfg' & En & Eh & Ed).
    exists (S k), cfg'. split; [exact En|]. split; [lia | exact Ed].
Qed.

Lemma link_declares hooks l : In l (all_links hooks) -> declares hooks (l_hook l) (l_binding l) (l_rule l) = true.
Proof.
  intros Hl. destruct (links_from_declares _ _ _ Hl) as (k & cfg & En & Eh & Ed).
  unfold declares. rewrite Eh, N.add_0_l, Nnat.Nat2N.id.
  now rewrite (nth_error_nth _ _ no_hook En).
Qed.

Lemma delivery_by_declarer hooks l objs : In l (all_links hooks) ->
  run_by_declarer hooks (l_hook l, hook_receives hooks l objs) = true.
Proof.
  intros Hl. unfold run_by_declarer. cbn [fst snd]. rewrite hook_receives_eq. cbn [r_versions r_binding].
  now apply link_declares.
Qed.

(* ================================================================= the chain *)

Lemma steps_params_steps hooks desired : forall chain outs objs,
  (forall r, In r chain -> link_for (all_links hooks) r <> None) ->
  exists t', steps_params hooks desired chain outs objs = (t', Some (snd (steps desired chain outs objs)))
             /\ requests t' = Some (fst (steps desired chain outs objs))
             /\ forallb (run_by_declarer hooks) t' = true.
Proof.
  induction chain as [|r rest IH]; intros outs objs Hall.
  - exists []. repeat split.
  - cbn [steps_params steps].
    destruct (link_for (all_links hooks) r) as [l|] eqn:El; [|exfalso; apply (Hall r); [now left | exact El]].
    destruct (link_for_some _ _ _ El) as [Hin Er].
    assert (requests [(l_hook l, hook_receives hooks l objs)] = Some [(r, objs)]) as Hone.
    { cbn [requests]. rewrite step_hook_receives_request, Er. reflexivity. }
    assert (forallb (run_by_declarer hooks) [(l_hook l, hook_receives hooks l objs)] = true) as Hdec.
    { cbn [forallb]. rewrite (delivery_by_declarer hooks l objs Hin). reflexivity. }
    destruct (hd OExitFail outs) as [ | | | [|c m] objs'];
      try (eexists; split; [reflexivity|]; split; [exact Hone | exact Hdec]).
    destruct (is_done desired objs');
      [eexists; split; [reflexivity|]; split; [exact Hone | exact Hdec]|].
    destruct (IH (tl outs) objs' (fun r' H => Hall r' (or_intror H))) as (t' & E & Hr & Hd).
    rewrite E. destruct (steps desired rest (tl outs) objs') as [t s] eqn:Es. cbn [fst snd] in *.
    eexists. split; [reflexivity|]. split.
    + cbn [requests]. rewrite step_hook_receives_request, Er, Hr. reflexivity.
    + cbn [forallb]. rewrite (delivery_by_declarer hooks l objs Hin), Hd. reflexivity.
Qed.

Lemma serve_unfold dtext desired chain outs req :
  serve dtext desired chain outs req =
  match extract req with
  | [] => ([], handle_review (length req) (OpResponse (msg_text dtext MNotSuccessful) []))
  | _ => let '(t, s) := steps desired chain outs req in
         (t, handle_review (length req)
               match s with
               | StFailed MPropError => OpError (msg_text dtext MPropError)
               | StFailed m => OpResponse (msg_text dtext m) []
               | StDone objs => OpResponse [] objs
               | StNotDone => OpResponse (msg_text dtext MNotSuccessful) []
               end)
  end.
Proof.
  unfold serve, event_handler. destruct (extract req); [reflexivity|].
  destruct (steps desired chain outs req) as [t [m | objs |]]; try reflexivity.
  destruct m; reflexivity.
Qed.

(* hooks with any binding parameters: every executed hook read the conversion request of its step,
   it is a hook that declared the step's rule, and hook runs and answer are those of [serve] *)
Theorem params_is_serve crd hooks dtext desired chain outs req :
  forallb (declared (hooks_rules hooks)) chain = true ->
  exists t', serve_params crd hooks dtext desired chain outs req = (t', snd (serve dtext desired chain outs req))
             /\ requests t' = Some (fst (serve dtext desired chain outs req))
             /\ forallb (run_by_declarer hooks) t' = true.
Proof.
  intros Hd. rewrite forallb_forall in Hd.
  assert (forall r, In r chain -> link_for (all_links hooks) r <> None) as Hall
    by (intros r Hr; apply declared_has_link, Hd, Hr).
  rewrite serve_unfold. unfold serve_params.
  destruct (extract req) as [|v vs]; [exists []; repeat split|].
  destruct (steps_params_steps hooks desired chain outs req Hall) as (t' & E & Hr & Hdec).
  rewrite E. destruct (steps desired chain outs req) as [t s]. cbn [fst snd] in *.
  exists t'. split; [|split; [exact Hr | exact Hdec]].
  destruct s as [m | objs |]; reflexivity.
Qed.

Theorem params_meets_spec crd hooks dtext desired chain outs req t r :
  forallb (declared (hooks_rules hooks)) chain = true ->
  serve_params crd hooks dtext desired chain outs req = (t, r) ->
  P_params hooks desired chain outs req t r = true.
Proof.
  intros Hd E. destruct (params_is_serve crd hooks dtext desired chain outs req Hd) as (t' & E' & Hr & Hdec).
  rewrite E in E'. inversion E'; subst t' r. unfold P_params. rewrite Hr, Hdec. cbn [andb].
  apply serve_meets_spec with (dtext := dtext). now destruct (serve dtext desired chain outs req).
Qed.

(* the binding parameters (and the other bindings of the hooks, and which hook owns which rule) have
   no influence on the requests the hooks read nor on the answer *)
Theorem params_irrelevant crd crd' hooks hooks' dtext desired chain outs req :
  forallb (declared (hooks_rules hooks)) chain = true -> forallb (declared (hooks_rules hooks')) chain = true ->
  requests (fst (serve_params crd hooks dtext desired chain outs req))
  = requests (fst (serve_params crd' hooks' dtext desired chain outs req))
  /\ snd (serve_params crd hooks dtext desired chain outs req) = snd (serve_params crd' hooks' dtext desired chain outs req).
Proof.
  intros H H'.
  destruct (params_is_serve crd hooks dtext desired chain outs req H) as (t & E & Hr & _).
  destruct (params_is_serve crd' hooks' dtext desired chain outs req H') as (t' & E' & Hr' & _).
  rewrite E, E'. cbn [fst snd]. rewrite Hr, Hr'. split; reflexivity.
Qed.

(* a rule nobody has a link for (not a declared rule): the handler gives up with its own error, at
   that step, and no later hook is run *)
Theorem no_link_fails crd hooks dtext desired r rest outs req :
  extract req <> [] -> link_for (all_links hooks) r = None ->
  serve_params crd hooks dtext desired (r :: rest) outs req = ([], RFailure (no_hook_text crd)).
Proof.
  intros Hne El. unfold serve_params. destruct (extract req); [now contradiction Hne|].
  cbn [steps_params]. rewrite El. reflexivity.
Qed.
