(* C04_Corr.v — two kinds of cases: operator-level scenarios (model Op_Model, spec
   C04_Spec.P) and calls of CalculateDelayWithMax (model C04_Delay.delay). *)
From Verif Require Import Common Op_Model Op_Corr C04_Spec C04_Delay.

Inductive case :=
| COp (c : Op_Corr.case)
| CDelay (initial max retry : Z) (results : list Z).   (* distinct values returned by the code *)

Inductive mobs := MOp (o : list sobs) | MDelay (first_values : list Z).

Definition model_obs (c : case) : mobs :=
  match c with
  | COp c => MOp (Op_Corr.model_obs c)
  | CDelay i m r _ => MDelay (map (delay i m r) [0; 1; 500; 999]%Z)
  end.

Definition agrees (c : case) : bool :=
  match c with
  | COp c => Op_Corr.agrees c
  | CDelay i m r rs => forallb (possible i m r) rs
  end.

Definition spec_ok (c : case) : bool :=
  match c with
  | COp c => C04_Spec.P c
  | CDelay i m r rs => forallb (fun x => Z.leb i x) rs       (* never shorter than the initial delay *)
  end.

Definition mismatches (cs : list case) : list N := indices_where (fun c => negb (agrees c)) cs.
Definition spec_violations (cs : list case) : list N := indices_where (fun c => negb (spec_ok c)) cs.
