From Verif Require Import Common Op_Model Op_Corr C17_Spec.
Definition case := Op_Corr.case.
Definition model_obs := Op_Corr.model_obs.
Definition mismatches := Op_Corr.mismatches.
Definition spec_violations (cs : list case) : list N := indices_where (fun c => negb (P c)) cs.
