(* C17_Corr.v — two kinds of cases: operator-level scenarios (model Op_Model, spec C17_Spec.P)
   and Shutdown() requested while the main worker hangs inside an API call (class CHang): the lock
   program translated from the current source must pass lock_ok (C17_Locks; theorem
   C17_blocked_threads_hold_no_lock) and the real operator must have stopped its other queues. *)
From Verif Require Import Common Op_Model Op_Corr C17_Spec C17_Locks.
Open Scope N_scope.

Record hang_obs := mkHangObs {
  hg_reached : bool;        (* the main worker was inside the hanging LIST when Shutdown was requested *)
  hg_returned : bool;       (* Shutdown() returned within the bound *)
  hg_stopped : bool;        (* every other queue's worker has terminated *)
  hg_started_after : N;     (* executions started after the stop request *)
  hg_bad : bool
}.

Inductive case :=
| COp (c : Op_Corr.case)
| CHang (p : program) (o : hang_obs).

Inductive mobs := MOp (o : list sobs) | MHang (o : hang_obs).

(* the model of the hanging case: with a lock program that passes the check nothing on the way
   of Shutdown() waits for the hanging thread (C17_lock_holders_can_move): it returns, the workers
   terminate as their handlers return (C17_handler_return_stops_worker), nothing starts
   (C17_no_new_execution_after_stop) *)
Definition model_obs (c : case) : mobs :=
  match c with
  | COp c => MOp (Op_Corr.model_obs c)
  | CHang _ _ => MHang (mkHangObs true true true 0 false)
  end.

Definition hang_ok (o : hang_obs) : bool :=
  negb (hg_bad o) && hg_reached o && hg_returned o && hg_stopped o && N.eqb (hg_started_after o) 0.

Definition agrees (c : case) : bool :=
  match c with
  | COp c => Op_Corr.agrees c
  | CHang _ o => hang_ok o
  end.

Definition spec_ok (c : case) : bool :=
  match c with
  | COp c => C17_Spec.P c
  | CHang p o => lock_ok p && hang_ok o
  end.

Definition mismatches (cs : list case) : list N := indices_where (fun c => negb (agrees c)) cs.
Definition spec_violations (cs : list case) : list N := indices_where (fun c => negb (spec_ok c)) cs.
