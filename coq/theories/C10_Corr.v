(* C10_Corr.v — correspondence vocabulary for C10.  A case is the parsed document (None for
   the raw-byte stream), whether the generator injected a fault, the oracle tables for the
   strings/values occurring in it (labelled by the generator, independently of the code
   under test) and what HookConfig.LoadAndValidate did with the JSON and with the YAML
   rendering.  Evaluated by vm_compute in the generated cases files. *)
From Coq Require Import String.
From Verif Require Import Common Json C10_Model C10_Spec.

Record case := mkCase {
  cs_doc : option json;
  cs_fault : bool;
  cs_bad_cron : list bytes;          (* crontab strings robfig/cron rejects *)
  cs_bad_sel : list json;            (* label selectors LabelSelectorAsSelector rejects *)
  cs_dur : list (bytes * Z);         (* valid durations with their value in ns *)
  cs_bad_hook : list json;           (* validating bindings the webhook validation rejects *)
  cs_json : obs;
  cs_yaml : obs }.

Definition mem_json (x : json) (l : list json) : bool := existsb (json_eqb x) l.

Fixpoint lookup_dur (s : bytes) (l : list (bytes * Z)) : option Z :=
  match l with
  | [] => None
  | (k, v) :: r => if bytes_eqb s k then Some v else lookup_dur s r
  end.

Definition model_load (c : case) (d : json) : result :=
  load (fun s => negb (mem_bytes s (cs_bad_cron c)))
       (fun j => negb (mem_json j (cs_bad_sel c)))
       (fun s => lookup_dur s (cs_dur c))
       (fun j => negb (mem_json j (cs_bad_hook c)))
       d.

Definition model_obs (c : case) : option obs :=
  match cs_doc c with
  | None => None
  | Some d => Some (match model_load c d with Loaded cfg => OLoaded (cfg_json cfg) | Rejected => ORejected end)
  end.

Definition agrees (c : case) : bool :=
  match model_obs c with
  | None => true
  | Some o => obs_eqb o (cs_json c)
  end.

Definition mismatches (cs : list case) : list N := indices_where (fun c => negb (agrees c)) cs.
Definition spec_violations (cs : list case) : list N :=
  indices_where (fun c => negb (P (cs_doc c) (cs_fault c) (cs_json c) (cs_yaml c))) cs.
