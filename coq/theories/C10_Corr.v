(* C10_Corr.v — correspondence vocabulary for C10.  A case is the parsed document (None for
   the raw-byte stream), whether the generator injected a fault, the oracle tables for the
   strings/values occurring in it (labelled by the generator, independently of the code
   under test) and what HookConfig.LoadAndValidate did with the JSON and with the YAML
   rendering.  A SESSION case is a list of such loads made by one process one after another
   (the same package-level state), each also made alone in a fresh process, with one set of
   oracle tables for the whole session (an oracle answers per string / per value).
   Evaluated by vm_compute in the generated cases files. *)
From Coq Require Import String.
From Verif Require Import Common Json C10_Model C10_Spec C10_Session.

Record one := mkCase {
  cs_doc : option json;
  cs_fault : bool;
  cs_bad_cron : list bytes;          (* crontab strings robfig/cron rejects *)
  cs_bad_sel : list json;            (* label selectors LabelSelectorAsSelector rejects *)
  cs_dur : list (bytes * Z);         (* valid durations with their value in ns *)
  cs_bad_hook : list json;           (* validating bindings the webhook validation rejects *)
  cs_json : obs;
  cs_yaml : obs }.

Definition mem_json (x : json) (l : list json) : bool := existsb (json_eqb x) l.

Fixpoint lookup_dur (s : bytes) (l : list (bytes * Z)) : option Z :=
  match l with
  | [] => None
  | (k, v) :: r => if bytes_eqb s k then Some v else lookup_dur s r
  end.

Definition model_load (c : one) (d : json) : result :=
  load (fun s => negb (mem_bytes s (cs_bad_cron c)))
       (fun j => negb (mem_json j (cs_bad_sel c)))
       (fun s => lookup_dur s (cs_dur c))
       (fun j => negb (mem_json j (cs_bad_hook c)))
       d.

Definition model_obs1 (c : one) : option obs :=
  match cs_doc c with
  | None => None
  | Some d => Some (match model_load c d with Loaded cfg => OLoaded (cfg_json cfg) | Rejected => ORejected end)
  end.

Definition agrees1 (c : one) : bool :=
  match model_obs1 c with
  | None => true
  | Some o => obs_eqb o (cs_json c)
  end.


(* ---- sessions ---- *)

Record sess := mkSess {
  ss_bad_cron : list bytes;
  ss_bad_sel : list json;
  ss_dur : list (bytes * Z);
  ss_bad_hook : list json;
  ss_steps : list sobs }.            (* the implementation's observations, C10_Spec.sobs *)

Definition sess_co (s : sess) : bytes -> bool := fun x => negb (mem_bytes x (ss_bad_cron s)).
Definition sess_lo (s : sess) : json -> bool := fun j => negb (mem_json j (ss_bad_sel s)).
Definition sess_du (s : sess) : bytes -> option Z := fun x => lookup_dur x (ss_dur s).
Definition sess_wo (s : sess) : json -> bool := fun j => negb (mem_json j (ss_bad_hook s)).

(* the model runs the session's documents.  A raw-byte step has no parsed document to give to the
   model; whatever it leaves in the process state cannot change the later results
   (C10_any_earlier_history); the Spec compares it with its alone run. *)
Definition sess_docs (s : sess) : list json :=
  flat_map (fun st => match so_doc st with Some d => [d] | None => [] end) (ss_steps s).

Definition model_sess (s : sess) : list sobs :=
  model_session (sess_co s) (sess_lo s) (sess_du s) (sess_wo s) (sess_docs s).

(* implementation steps with a document, against the model's steps, in order *)
Fixpoint agree_steps (impl model : list sobs) : bool :=
  match impl with
  | [] => is_nil model
  | st :: r =>
      match so_doc st with
      | None => agree_steps r model
      | Some _ =>
          match model with
          | [] => false
          | m :: model' =>
              obs_eqb (so_json m) (so_json st) && obs_eqb (so_alone_json m) (so_alone_json st)
              && agree_steps r model'
          end
      end
  end.

Inductive case := COne (c : one) | CSess (s : sess).

Definition model_obs (c : case) : list (option obs) :=
  match c with
  | COne c1 => [model_obs1 c1]
  | CSess s => map (fun m => Some (so_json m)) (model_sess s)
  end.

Definition agrees (c : case) : bool :=
  match c with
  | COne c1 => agrees1 c1
  | CSess s => agree_steps (ss_steps s) (model_sess s)
  end.

Definition meets_spec (c : case) : bool :=
  match c with
  | COne c1 => P (cs_doc c1) (cs_fault c1) (cs_json c1) (cs_yaml c1)
  | CSess s => P_session (ss_steps s)
  end.

Definition mismatches (cs : list case) : list N := indices_where (fun c => negb (agrees c)) cs.
Definition spec_violations (cs : list case) : list N := indices_where (fun c => negb (meets_spec c)) cs.
