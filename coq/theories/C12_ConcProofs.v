(* C12_ConcProofs.v — proofs about the transition system of C12_ConcModel: for any number of
   executions and any interleaving of their steps, what an execution's hook process reads is the
   document of its own task. *)
From Verif Require Import Common JsonText C12_Model C12_Spec C12_ConcModel C12_ConcSpec C12_Corr.
Require Import Lia.
Open Scope N_scope.

(* ------------------------------------------------------------------ small facts *)
Lemma upd_same A (f : N -> A) k v : upd f k v k = v.
Proof. unfold upd. now rewrite N.eqb_refl. Qed.
Lemma upd_other A (f : N -> A) k v x : x <> k -> upd f k v x = f x.
Proof. intros H. unfold upd. apply N.eqb_neq in H. now rewrite H. Qed.
Lemma upd2_row A (f : N -> N -> A) k k' v x y : x <> k -> upd2 f k k' v x y = f x y.
Proof. intros H. unfold upd2. apply N.eqb_neq in H. now rewrite H. Qed.
Lemma upd2_same A (f : N -> N -> A) k k' v : upd2 f k k' v k k' = v.
Proof. unfold upd2. now rewrite !N.eqb_refl. Qed.
Lemma upd2_col A (f : N -> N -> A) k k' v y : y <> k' -> upd2 f k k' v k y = f k y.
Proof. intros H. unfold upd2. apply N.eqb_neq in H. rewrite H. now rewrite Bool.andb_false_r. Qed.

Lemma ctx_eqb_refl c : ctx_eqb c c = true.
Proof. destruct c as [[k t] i]. cbn. now rewrite !N.eqb_refl. Qed.
Lemma doc_eqb_refl d : doc_eqb d d = true.
Proof. apply list_eqb_refl. exact ctx_eqb_refl. Qed.
Lemma seg_eqb_refl s : seg_eqb s s = true.
Proof. destruct s as [[[k t] f] c]. cbn. now rewrite !N.eqb_refl. Qed.
Lemma ctx_eqb_eq a b : ctx_eqb a b = true <-> a = b.
Proof.
  destruct a as [[k t] i], b as [[k' t'] i']. cbn. rewrite !Bool.andb_true_iff, !N.eqb_eq.
  split; [intros [[-> ->] ->]; reflexivity | intros E; inversion E; auto].
Qed.
Lemma doc_eqb_eq a b : doc_eqb a b = true <-> a = b.
Proof. apply list_eqb_eq. exact ctx_eqb_eq. Qed.
Lemma seg_eqb_eq a b : seg_eqb a b = true <-> a = b.
Proof.
  destruct a as [[[k t] f] c], b as [[[k' t'] f'] c']. cbn. rewrite !Bool.andb_true_iff, !N.eqb_eq.
  split; [intros [[[-> ->] ->] ->]; reflexivity | intros E; inversion E; auto].
Qed.

(* [same_contexts] decides equality of the denoted context lists *)
Lemma same_contexts_iff a b : same_contexts a b = true <-> expand a = expand b.
Proof.
  unfold same_contexts. rewrite Bool.orb_true_iff, doc_eqb_eq. split.
  - intros [H | H]; [| exact H]. apply (list_eqb_eq seg_eqb seg_eqb_eq) in H; now subst.
  - intros H. now right.
Qed.

(* a document written context by context *)
Definition single (c : ctx) : seg := let '(k, t, i) := c in (k, t, i, 1).
Lemma expand_single d : expand (map single d) = d.
Proof.
  induction d as [| [[k t] i] r IH]; [reflexivity |].
  cbn [map]. unfold expand in *. cbn [flat_map]. rewrite IH. reflexivity.
Qed.

(* ------------------------------------------------------------------ the invariant *)
Section Invariant.
Variable ts : list ctask.
Let n : N := N.of_nat (length ts).
Let fails := fails_of ts.
Let dof (e : N) : doc := task_doc (nth_task ts e).

Definition uses_buf (st : exec_st) : bool :=
  match e_pc st with PEncode | PWriteCtx => true | _ => false end.

(* what holds of execution e, by the statement it is at *)
Definition exec_inv (w : world) (e : N) : Prop :=
  let st := w_exec w e in
  let D := Some (CDoc (dof e)) in
  let E := Some CEmpty in
  let early := e_seen st = None /\ e_back st = None in
  match e_pc st with
  | PAlloc => early /\ e_todo st = dof e
  | PEncode => early /\ e_buf st < w_next w /\ w_heap w (e_buf st) ++ e_todo st = dof e
  | PWriteCtx => early /\ e_buf st < w_next w /\ w_heap w (e_buf st) = dof e
  | PCreate1 => early /\ w_fs w e 0 = D
  | PCreate2 => early /\ w_fs w e 0 = D /\ w_fs w e 1 = E
  | PCreate3 => early /\ w_fs w e 0 = D /\ w_fs w e 1 = E /\ w_fs w e 2 = E
  | PCreate4 => early /\ w_fs w e 0 = D /\ w_fs w e 1 = E /\ w_fs w e 2 = E /\ w_fs w e 3 = E
  | PStart => early /\ w_fs w e 0 = D /\ w_fs w e 1 = E /\ w_fs w e 2 = E /\ w_fs w e 3 = E /\ w_fs w e 4 = E
  | PHook => e_seen st = D /\ e_empty st = true /\ e_back st = None
  | PRead => e_seen st = D /\ e_empty st = true /\ e_back st = None /\ fails e = false /\ w_fs w e 4 = Some (token e)
  | PRemove => e_seen st = D /\ e_empty st = true
               /\ e_back st = (if fails e then None else Some (token e))
  | PDone => e_seen st = D /\ e_empty st = true
             /\ e_back st = (if fails e then None else Some (token e))
             /\ forall f, w_fs w e f = None
  end.

Record Inv (w : world) : Prop := mkInv {
  inv_exec : forall e, e < n -> exec_inv w e;
  (* the buffers in use belong to one execution each *)
  inv_bufs : forall e e', e < n -> e' < n -> e <> e' ->
             uses_buf (w_exec w e) = true -> uses_buf (w_exec w e') = true ->
             e_buf (w_exec w e) <> e_buf (w_exec w e');
  inv_rest : forall e, n <= e -> e_pc (w_exec w e) = PDone
}.

Lemma uses_buf_lt w e : exec_inv w e -> uses_buf (w_exec w e) = true -> e_buf (w_exec w e) < w_next w.
Proof.
  unfold exec_inv, uses_buf. destruct (e_pc (w_exec w e)); try discriminate; intros H _; tauto.
Qed.

(* what a step of execution a leaves alone *)
Lemma step_frame w a :
  let w' := step fails w a in
  let st := w_exec w a in
  (forall e, e <> a -> w_exec w' e = w_exec w e)
  /\ (forall e f, e <> a -> w_fs w' e f = w_fs w e f)
  /\ w_next w <= w_next w'
  /\ (forall b, (e_pc st = PAlloc -> b <> w_next w) -> (e_pc st = PEncode -> b <> e_buf st) -> w_heap w' b = w_heap w b).
Proof.
  cbn zeta. unfold step.
  destruct (e_pc (w_exec w a)) eqn:PC; try destruct (e_todo (w_exec w a)); try destruct (fails a);
    cbn [w_exec w_fs w_next w_heap];
    (split; [intros e NE; try reflexivity; now apply upd_other |]);
    (split; [intros e f NE; try reflexivity; try (now apply upd2_row);
             try (apply N.eqb_neq in NE; now rewrite NE) |]);
    (split; [lia |]); intros b HA HE; try reflexivity.
  all: apply upd_other; first [now apply HA | now apply HE].
Qed.

(* an execution that did not take the step keeps its invariant *)
Lemma exec_inv_frame w w' e :
  w_exec w' e = w_exec w e -> (forall f, w_fs w' e f = w_fs w e f) -> w_next w <= w_next w' ->
  (uses_buf (w_exec w e) = true -> w_heap w' (e_buf (w_exec w e)) = w_heap w (e_buf (w_exec w e))) ->
  exec_inv w e -> exec_inv w' e.
Proof.
  intros HX HF HN HH. unfold exec_inv, uses_buf in *. rewrite HX, !HF.
  destruct (e_pc (w_exec w e)); try tauto.
  - intros (? & ? & ?). rewrite HH by reflexivity. repeat split; try tauto; lia.
  - intros (? & ? & ?). rewrite HH by reflexivity. repeat split; try tauto; lia.
  - intros (? & ? & ? & HN'). repeat split; try tauto. intros f. rewrite HF. apply HN'.
Qed.

Lemma step_inv w a : Inv w -> Inv (step fails w a).
Proof.
  intros [HE HB HR].
  destruct (N.lt_ge_cases a n) as [LT | GE].
  2:{ (* not an execution of the case: nothing happens *)
      unfold step. rewrite (HR a GE). now constructor. }
  pose proof (step_frame w a) as (FX & FF & FN & FH). cbn zeta in *.
  pose proof (HE a LT) as IA.
  constructor.
  - intros e LE. destruct (N.eq_dec e a) as [-> | NE].
    + (* the execution that took the step *)
      clear FX FF FH. unfold exec_inv in IA |- *. unfold step.
      destruct (e_pc (w_exec w a)) eqn:PC.
      * (* PAlloc *) cbn [w_exec w_fs w_next w_heap]. rewrite upd_same. cbn [e_pc e_seen e_back e_buf e_todo].
        rewrite upd_same. destruct IA as (EA & TD). cbn [app]. repeat split; try tauto; try lia.
      * (* PEncode *) destruct IA as (EA & LTB & HD).
        destruct (e_todo (w_exec w a)) as [| c r] eqn:TD;
          cbn [w_exec w_fs w_next w_heap]; rewrite upd_same; cbn [e_pc e_seen e_back e_buf e_todo at_pc].
        -- rewrite app_nil_r in HD. repeat split; tauto.
        -- rewrite upd_same. rewrite <- app_assoc. cbn [app]. repeat split; tauto.
      * (* PWriteCtx *) destruct IA as (EA & LTB & HD).
        cbn [w_exec w_fs w_next w_heap]. rewrite upd_same. cbn [e_pc e_seen e_back e_buf e_todo at_pc].
        unfold file_context. rewrite upd2_same, HD. repeat split; tauto.
      * (* PCreate1 *) destruct IA as (EA & F0).
        cbn [w_exec w_fs w_next w_heap]. rewrite upd_same. cbn [e_pc e_seen e_back at_pc]. unfold file_metrics.
        rewrite upd2_same, upd2_col by discriminate. repeat split; tauto.
      * (* PCreate2 *) destruct IA as (EA & F0 & F1).
        cbn [w_exec w_fs w_next w_heap]. rewrite upd_same. cbn [e_pc e_seen e_back at_pc]. unfold file_admission.
        rewrite upd2_same, !upd2_col by discriminate. repeat split; tauto.
      * (* PCreate3 *) destruct IA as (EA & F0 & F1 & F2).
        cbn [w_exec w_fs w_next w_heap]. rewrite upd_same. cbn [e_pc e_seen e_back at_pc]. unfold file_conversion.
        rewrite upd2_same, !upd2_col by discriminate. repeat split; tauto.
      * (* PCreate4 *) destruct IA as (EA & F0 & F1 & F2 & F3).
        cbn [w_exec w_fs w_next w_heap]. rewrite upd_same. cbn [e_pc e_seen e_back at_pc]. unfold file_patch.
        rewrite upd2_same, !upd2_col by discriminate. repeat split; tauto.
      * (* PStart *) destruct IA as (EA & F0 & F1 & F2 & F3 & F4).
        cbn [w_exec w_fs w_next w_heap]. rewrite upd_same. cbn [e_pc e_seen e_back e_empty].
        unfold file_context, file_metrics, file_admission, file_conversion, file_patch.
        rewrite F0, F1, F2, F3, F4. cbn. repeat split; tauto.
      * (* PHook *) destruct IA as (SN & EM & BK).
        destruct (fails a) eqn:FA; cbn [w_exec w_fs w_next w_heap]; rewrite upd_same; cbn [e_pc e_seen e_back e_empty at_pc].
        -- repeat split; tauto.
        -- unfold file_patch. rewrite upd2_same. repeat split; tauto.
      * (* PRead *) destruct IA as (SN & EM & BK & FA & F4).
        cbn [w_exec w_fs w_next w_heap]. rewrite upd_same. cbn [e_pc e_seen e_back e_empty].
        unfold file_patch. rewrite FA, F4. repeat split; tauto.
      * (* PRemove *) destruct IA as (SN & EM & BK).
        cbn [w_exec w_fs w_next w_heap]. rewrite upd_same. cbn [e_pc e_seen e_back e_empty at_pc].
        rewrite N.eqb_refl. repeat split; tauto.
      * (* PDone *) rewrite PC. exact IA.
    + (* another execution *)
      apply (exec_inv_frame w); auto.
      intros UB. apply FH.
      * intros PA EQ. pose proof (uses_buf_lt w e (HE e LE) UB). lia.
      * intros PE. apply (HB e a LE LT NE UB). unfold uses_buf. now rewrite PE.
  - intros e e' LE LE' NE UB UB'.
    assert (OLD : forall x, x < n -> x <> a -> uses_buf (w_exec (step fails w a) x) = true ->
                  uses_buf (w_exec w x) = true /\ e_buf (w_exec (step fails w a) x) = e_buf (w_exec w x)).
    { intros x _ NX U. rewrite (FX x NX) in *. auto. }
    (* the buffer of the stepping execution, if it uses one afterwards: a fresh one, or the one it used before *)
    assert (NEW : uses_buf (w_exec (step fails w a) a) = true ->
                  (e_buf (w_exec (step fails w a) a) = w_next w /\ e_pc (w_exec w a) = PAlloc)
                  \/ (uses_buf (w_exec w a) = true /\ e_buf (w_exec (step fails w a) a) = e_buf (w_exec w a))).
    { unfold step, uses_buf.
      destruct (e_pc (w_exec w a)) eqn:PC; try destruct (e_todo (w_exec w a)); try destruct (fails a);
        cbn [w_exec]; rewrite ?upd_same; cbn [e_pc e_buf at_pc]; try discriminate; try rewrite PC; try discriminate; auto. }
    destruct (N.eq_dec e a) as [-> | NA]; [| destruct (N.eq_dec e' a) as [-> | NA']].
    + destruct (OLD e' LE' (not_eq_sym NE) UB') as (U' & ->).
      destruct (NEW UB) as [(-> & _) | (U & ->)].
      * pose proof (uses_buf_lt w e' (HE e' LE') U'). lia.
      * now apply HB.
    + destruct (OLD e LE NA UB) as (U & ->).
      destruct (NEW UB') as [(-> & _) | (U' & ->)].
      * pose proof (uses_buf_lt w e (HE e LE) U). lia.
      * now apply HB.
    + destruct (OLD e LE NA UB) as (U & ->). destruct (OLD e' LE' NA' UB') as (U' & ->). now apply HB.
  - intros e GE. rewrite FX by lia. now apply HR.
Qed.

Lemma init_inv : Inv (init ts).
Proof.
  constructor.
  - intros e LT. unfold exec_inv, init. cbn [w_exec].
    apply N.ltb_lt in LT. fold n. rewrite LT. cbn. auto.
  - intros e e' LT LT' _. unfold init, uses_buf. cbn [w_exec].
    apply N.ltb_lt in LT. fold n. rewrite LT. cbn. discriminate.
  - intros e GE. unfold init. cbn [w_exec]. apply N.ltb_ge in GE. fold n. now rewrite GE.
Qed.

Lemma run_sched_inv s : forall w, Inv w -> Inv (run_sched ts w s).
Proof.
  induction s as [| a s IH]; intros w HI; [exact HI |].
  unfold run_sched. cbn [fold_left]. apply IH. now apply step_inv.
Qed.

Lemma run_inv s : Inv (conc_run ts s).
Proof. apply run_sched_inv. exact init_inv. Qed.

(* ---- what the hook process of execution e read: nothing yet, or the document of its own task ---- *)
Lemma seen_own s e : e < n ->
  e_seen (w_exec (conc_run ts s) e) = None \/ e_seen (w_exec (conc_run ts s) e) = Some (CDoc (task_doc (nth_task ts e))).
Proof.
  intros LT. pose proof (inv_exec _ (run_inv s) e LT) as H. unfold exec_inv in H.
  destruct (e_pc (w_exec (conc_run ts s) e)); tauto.
Qed.

(* once the hook process runs, it has read that document and found its four output files empty *)
Lemma started_saw_own s e : e < n ->
  match e_pc (w_exec (conc_run ts s) e) with
  | PHook | PRead | PRemove | PDone =>
      e_seen (w_exec (conc_run ts s) e) = Some (CDoc (task_doc (nth_task ts e))) /\ e_empty (w_exec (conc_run ts s) e) = true
  | _ => e_seen (w_exec (conc_run ts s) e) = None
  end.
Proof.
  intros LT. pose proof (inv_exec _ (run_inv s) e LT) as H. unfold exec_inv in H.
  destruct (e_pc (w_exec (conc_run ts s) e)); tauto.
Qed.

(* an execution that has ended: outputs read back (unless the hook failed), its five files gone *)
Lemma done_exec s e : e < n -> e_pc (w_exec (conc_run ts s) e) = PDone ->
  e_seen (w_exec (conc_run ts s) e) = Some (CDoc (task_doc (nth_task ts e)))
  /\ e_empty (w_exec (conc_run ts s) e) = true
  /\ e_back (w_exec (conc_run ts s) e) = (if fails_of ts e then None else Some (token e))
  /\ files_of (conc_run ts s) e = 0.
Proof.
  intros LT PD. pose proof (inv_exec _ (run_inv s) e LT) as H. unfold exec_inv in H. rewrite PD in H.
  destruct H as (H1 & H2 & H3 & H4). repeat split; auto.
  unfold files_of. cbn [filter]. now rewrite !H4.
Qed.

End Invariant.

(* ------------------------------------------------------------------ the content is a function of the own task *)
Theorem content_own_task ts s e c :
  e < N.of_nat (length ts) -> e_seen (w_exec (conc_run ts s) e) = Some c -> c = CDoc (task_doc (nth_task ts e)).
Proof.
  intros LT H. destruct (seen_own ts s e LT) as [N | S]; rewrite H in *; [discriminate | now inversion S].
Qed.

(* two cases (other tasks beside it, other numbers of executions), two interleavings: an execution with
   the same task reads the same *)
Theorem content_function_of_task ts ts' s s' e c c' :
  e < N.of_nat (length ts) -> e < N.of_nat (length ts') -> nth_task ts e = nth_task ts' e ->
  e_seen (w_exec (conc_run ts s) e) = Some c -> e_seen (w_exec (conc_run ts' s') e) = Some c' -> c = c'.
Proof.
  intros LT LT' EQ H H'. rewrite (content_own_task ts s e c LT H), (content_own_task ts' s' e c' LT' H'). now rewrite EQ.
Qed.

(* ------------------------------------------------------------------ the observation of a complete run *)
Definition fcont_eqb (a b : fcont) : bool :=
  match a, b with
  | CDoc d, CDoc d' => doc_eqb d d'
  | CEmpty, CEmpty => true
  | CTok x, CTok y => x =? y
  | _, _ => false
  end.

(* what the transition system says about execution e in the vocabulary of the observations.  That the
   process is the hook's executable in the hook's directory and finds existing files under the six
   variables is not part of the transition system (constants); the path of file f of execution e is
   numbered 5e+f. *)
Definition lts_exec (w : world) (e : N) (t : ctask) : cexec :=
  let st := w_exec w e in
  mkCE true true true true [5 * e; 5 * e + 1; 5 * e + 2; 5 * e + 3; 5 * e + 4] (e_empty st)
       (match e_seen st with
        | Some (CDoc d) => mkSeen true (map single d) true None
        | _ => mkSeen false [] false None
        end)
       (match e_back st with Some _ => 0 | None => 1 end)
       (match e_back st with Some c => fcont_eqb c (token e) | None => false end).
Definition lts_obs (ci : cinput) (w : world) : cobs :=
  mkCO (mapi_from 0 (lts_exec w) (ci_tasks ci)) (files_left (ci_tasks ci) w) (held_expected ci) false.

Lemma all_done_from_spec w m : forall k, all_done_from k m w = true ->
  forall i, (i < m)%nat -> e_pc (w_exec w (k + N.of_nat i)) = PDone.
Proof.
  induction m as [| m IH]; intros k H i LT; [lia |].
  cbn [all_done_from] in H. apply Bool.andb_true_iff in H as [H1 H2].
  destruct i as [| i].
  - rewrite N.add_0_r. unfold is_done in H1. destruct (e_pc (w_exec w k)); try discriminate. reflexivity.
  - replace (k + N.of_nat (S i)) with (k + 1 + N.of_nat i) by lia. apply IH; [exact H2 | lia].
Qed.

Lemma complete_done ts w e : complete ts w = true -> e < N.of_nat (length ts) -> e_pc (w_exec w e) = PDone.
Proof.
  intros H LT. pose proof (all_done_from_spec w (length ts) 0 H (N.to_nat e)) as X.
  rewrite N.add_0_l, N2Nat.id in X. apply X. lia.
Qed.

Lemma forallb2_mapi A B (g : A -> B -> bool) (f : N -> A -> B) (l : list A) : forall k,
  (forall i t, nth_error l i = Some t -> g t (f (k + N.of_nat i) t) = true) ->
  forallb2 g l (mapi_from k f l) = true.
Proof.
  induction l as [| x r IH]; intros k H; [reflexivity |].
  cbn [mapi_from forallb2]. apply Bool.andb_true_iff. split.
  - specialize (H O x eq_refl). now rewrite N.add_0_r in H.
  - apply IH. intros i t HN. specialize (H (S i) t HN). now replace (k + 1 + N.of_nat i) with (k + N.of_nat (S i)) by lia.
Qed.

Lemma forallb2_mapi2 A B (g : B -> B -> bool) (f f' : N -> A -> B) (l : list A) : forall k,
  (forall i t, nth_error l i = Some t -> g (f (k + N.of_nat i) t) (f' (k + N.of_nat i) t) = true) ->
  forallb2 g (mapi_from k f l) (mapi_from k f' l) = true.
Proof.
  induction l as [| x r IH]; intros k H; [reflexivity |].
  cbn [mapi_from forallb2]. apply Bool.andb_true_iff. split.
  - specialize (H O x eq_refl). now rewrite N.add_0_r in H.
  - apply IH. intros i t HN. specialize (H (S i) t HN). now replace (k + 1 + N.of_nat i) with (k + N.of_nat (S i)) by lia.
Qed.

Lemma nth_task_error ts i t : nth_error ts i = Some t -> nth_task ts (0 + N.of_nat i) = t /\ 0 + N.of_nat i < N.of_nat (length ts).
Proof.
  intros H. split.
  - unfold nth_task. rewrite N.add_0_l, Nat2N.id. now apply nth_error_nth.
  - assert (i < length ts)%nat by (apply nth_error_Some; congruence). lia.
Qed.

(* names unique per execution: the numbers 5e .. 5e+4 of different executions are different *)
Lemma mem_N_false x l : (forall y, In y l -> x <> y) -> mem_N x l = false.
Proof.
  intros H. destruct (mem_N x l) eqn:M; [| reflexivity]. apply mem_N_In in M. now specialize (H x M).
Qed.

Lemma paths_lower A (f : N -> A -> cexec) (l : list A) : forall k,
  (forall e t, ce_paths (f e t) = [5 * e; 5 * e + 1; 5 * e + 2; 5 * e + 3; 5 * e + 4]) ->
  forall y, In y (flat_map ce_paths (mapi_from k f l)) -> 5 * k <= y.
Proof.
  induction l as [| x r IH]; intros k HP y HI; [destruct HI |].
  cbn [mapi_from flat_map] in HI. apply in_app_or in HI as [HI | HI].
  - rewrite HP in HI. repeat (destruct HI as [<- | HI]; [lia |]). destruct HI.
  - specialize (IH (k + 1) HP y HI). lia.
Qed.

Lemma paths_unique A (f : N -> A -> cexec) (l : list A) : forall k,
  (forall e t, ce_paths (f e t) = [5 * e; 5 * e + 1; 5 * e + 2; 5 * e + 3; 5 * e + 4]) ->
  nodup_b (flat_map ce_paths (mapi_from k f l)) = true.
Proof.
  induction l as [| x r IH]; intros k HP; [reflexivity |].
  cbn [mapi_from flat_map]. rewrite HP. cbn [app nodup_b].
  assert (B : forall y, In y (flat_map ce_paths (mapi_from (k + 1) f r)) -> 5 * (k + 1) <= y) by (apply paths_lower; exact HP).
  rewrite IH by exact HP.
  rewrite !mem_N_false; [reflexivity | ..];
    intros y HI; repeat (destruct HI as [<- | HI]; [lia |]); specialize (B y HI); lia.
Qed.

Lemma files_from_zero w m : forall k, (forall i, (i < m)%nat -> files_of w (k + N.of_nat i) = 0) -> files_from k m w = 0.
Proof.
  induction m as [| m IH]; intros k H; [reflexivity |].
  cbn [files_from]. rewrite IH.
  - specialize (H O ltac:(lia)). rewrite N.add_0_r in H. lia.
  - intros i LT. specialize (H (S i) ltac:(lia)). now replace (k + 1 + N.of_nat i) with (k + N.of_nat (S i)) by lia.
Qed.

(* what the transition system yields for one execution of a complete run, field by field *)
Lemma lts_exec_done ts s e : complete ts (conc_run ts s) = true -> e < N.of_nat (length ts) ->
  let t := nth_task ts e in
  lts_exec (conc_run ts s) e t =
  mkCE true true true true [5 * e; 5 * e + 1; 5 * e + 2; 5 * e + 3; 5 * e + 4] true
       (mkSeen true (map single (task_doc t)) true None) (if ct_fail t then 1 else 0) (negb (ct_fail t)).
Proof.
  intros C LT t. destruct (done_exec ts s e LT (complete_done ts _ e C LT)) as (SN & EM & BK & _).
  unfold lts_exec. rewrite SN, EM, BK. unfold fails_of. fold t.
  destruct (ct_fail t); cbn; [reflexivity |]. now rewrite N.eqb_refl.
Qed.

(* for every case and every complete schedule, the observation of the transition system agrees with the
   closed form the correspondence uses (C12_Corr.model_conc_obs) ... *)
Theorem lts_agrees_closed ci s :
  complete (ci_tasks ci) (conc_run (ci_tasks ci) s) = true ->
  agrees_conc ci (lts_obs ci (conc_run (ci_tasks ci) s)) = true.
Proof.
  intros C. set (ts := ci_tasks ci) in *. unfold agrees_conc, model_conc_obs, lts_obs. cbn [co_execs co_tmp_after co_held co_bad].
  fold ts.
  assert (FL : files_left ts (conc_run ts s) = 0).
  { unfold files_left. apply files_from_zero. intros i LT.
    assert (LT' : 0 + N.of_nat i < N.of_nat (length ts)) by lia.
    now destruct (done_exec ts s _ LT' (complete_done ts _ _ C LT')) as (_ & _ & _ & F). }
  rewrite FL. cbn [N.eqb negb]. rewrite (list_eqb_refl N.eqb N.eqb_refl). rewrite !Bool.andb_true_r.
  apply Bool.andb_true_iff. split.
  - apply forallb2_mapi2. intros i t HN. destruct (nth_task_error ts i t HN) as (NT & LT).
    pose proof (lts_exec_done ts s _ C LT) as EQ. cbn zeta in EQ. rewrite NT in EQ. rewrite EQ.
    unfold exec_agrees, model_exec, seen_agrees. cbn [ce_identified ce_hook_ok ce_cwd_ok ce_env_ok ce_paths ce_files_empty ce_seen ce_status ce_patch_back sn_json sn_segs sn_canonical].
    rewrite (list_eqb_refl N.eqb N.eqb_refl), N.eqb_refl, Bool.eqb_reflx. cbn [Bool.eqb andb].
    assert (SC : same_contexts (ct_segs t) (map single (task_doc t)) = true)
      by (apply same_contexts_iff; now rewrite expand_single).
    rewrite SC, Bool.eqb_reflx. reflexivity.
  - apply forallb2_mapi. intros i t HN. destruct (nth_task_error ts i t HN) as (NT & LT).
    pose proof (lts_exec_done ts s _ C LT) as EQ. cbn zeta in EQ. rewrite NT in EQ. rewrite EQ.
    reflexivity.
Qed.

(* ... and satisfies the predicate of C12_ConcSpec *)
Theorem lts_P_conc ci s :
  complete (ci_tasks ci) (conc_run (ci_tasks ci) s) = true ->
  P_conc ci (lts_obs ci (conc_run (ci_tasks ci) s)) = true.
Proof.
  intros C. set (ts := ci_tasks ci) in *. unfold P_conc, lts_obs. cbn [co_execs co_tmp_after co_held co_bad]. fold ts.
  assert (FL : files_left ts (conc_run ts s) = 0).
  { unfold files_left. apply files_from_zero. intros i LT.
    assert (LT' : 0 + N.of_nat i < N.of_nat (length ts)) by lia.
    now destruct (done_exec ts s _ LT' (complete_done ts _ _ C LT')) as (_ & _ & _ & F). }
  rewrite FL. cbn [N.eqb negb]. rewrite (list_eqb_refl N.eqb N.eqb_refl). rewrite !Bool.andb_true_r. cbn [andb].
  apply Bool.andb_true_iff. split.
  - apply forallb2_mapi. intros i t HN. destruct (nth_task_error ts i t HN) as (NT & LT).
    pose proof (lts_exec_done ts s _ C LT) as EQ. cbn zeta in EQ. rewrite NT in EQ. rewrite EQ.
    unfold exec_ok, holds_exactly. cbn [ce_identified ce_hook_ok ce_cwd_ok ce_env_ok ce_paths ce_files_empty ce_seen ce_status ce_patch_back sn_json sn_segs length].
    cbn [andb N.of_nat Pos.of_succ_nat Pos.succ N.eqb Pos.eqb].
    assert (SC : same_contexts (map single (task_doc t)) (ct_segs t) = true) by (apply same_contexts_iff; apply expand_single).
    rewrite SC. destruct (ct_fail t); reflexivity.
  - unfold unique_names. apply paths_unique. intros e t. reflexivity.
Qed.

(* the closed form itself satisfies the predicate *)
Theorem closed_P_conc ci : P_conc ci (model_conc_obs ci) = true.
Proof.
  unfold P_conc, model_conc_obs. cbn [co_execs co_tmp_after co_held co_bad].
  rewrite (list_eqb_refl N.eqb N.eqb_refl). cbn [N.eqb negb andb]. rewrite !Bool.andb_true_r.
  apply Bool.andb_true_iff. split.
  - apply forallb2_mapi. intros i t _. unfold exec_ok, model_exec, holds_exactly.
    cbn [ce_identified ce_hook_ok ce_cwd_ok ce_env_ok ce_paths ce_files_empty ce_seen ce_status ce_patch_back sn_json sn_segs length].
    cbn [andb N.of_nat Pos.of_succ_nat Pos.succ N.eqb Pos.eqb].
    assert (SC : same_contexts (ct_segs t) (ct_segs t) = true) by now apply same_contexts_iff.
    rewrite SC. destruct (ct_fail t); reflexivity.
  - unfold unique_names. apply paths_unique. intros e t. reflexivity.
Qed.

(* ------------------------------------------------------------------ every case has complete schedules *)
(* an execution at statement p with k contexts left needs [left p k] more steps *)
Definition left_steps (st : exec_st) : nat :=
  match e_pc st with
  | PAlloc => length (e_todo st) + 11
  | PEncode => length (e_todo st) + 10
  | PWriteCtx => 9 | PCreate1 => 8 | PCreate2 => 7 | PCreate3 => 6 | PCreate4 => 5
  | PStart => 4 | PHook => 3 | PRead => 2 | PRemove => 1 | PDone => 0
  end.

Lemma step_left fails w a : e_pc (w_exec w a) <> PDone ->
  (left_steps (w_exec (step fails w a) a) < left_steps (w_exec w a))%nat.
Proof.
  intros ND. unfold step, left_steps.
  destruct (e_pc (w_exec w a)) eqn:PC; try destruct (e_todo (w_exec w a)) eqn:TD; try destruct (fails a);
    cbn [w_exec]; rewrite ?upd_same; cbn [e_pc e_todo at_pc length]; try rewrite TD; cbn [length]; try lia.
  all: congruence.
Qed.

Lemma step_done_stays fails w a e : e_pc (w_exec w e) = PDone -> e_pc (w_exec (step fails w a) e) = PDone.
Proof.
  intros PD. destruct (N.eq_dec e a) as [-> | NE].
  - unfold step. now rewrite PD.
  - unfold step.
    destruct (e_pc (w_exec w a)); try destruct (e_todo (w_exec w a)); try destruct (fails a);
      cbn [w_exec]; rewrite ?upd_other by exact NE; exact PD.
Qed.

Lemma repeat_steps_done fails a m : forall w, (left_steps (w_exec w a) <= m)%nat ->
  e_pc (w_exec (fold_left (step fails) (repeat a m) w) a) = PDone.
Proof.
  induction m as [| m IH]; intros w LE.
  - cbn. unfold left_steps in LE. destruct (e_pc (w_exec w a)); try lia. reflexivity.
  - cbn [repeat fold_left]. destruct (e_pc (w_exec w a)) eqn:PC;
      try (apply IH; pose proof (step_left fails w a ltac:(rewrite PC; discriminate)); lia).
    apply IH. unfold step. rewrite PC. unfold left_steps. rewrite PC. lia.
Qed.

Lemma steps_keep_done fails s : forall w e, e_pc (w_exec w e) = PDone -> e_pc (w_exec (fold_left (step fails) s w) e) = PDone.
Proof.
  induction s as [| a s IH]; intros w e PD; [exact PD |].
  cbn [fold_left]. apply IH. now apply step_done_stays.
Qed.

Lemma steps_other fails a m : forall w e, e <> a -> w_exec (fold_left (step fails) (repeat a m) w) e = w_exec w e.
Proof.
  induction m as [| m IH]; intros w e NE; [reflexivity |].
  cbn [repeat fold_left]. rewrite IH by exact NE.
  unfold step. destruct (e_pc (w_exec w a)); try destruct (e_todo (w_exec w a)); try destruct (fails a);
    cbn [w_exec]; rewrite ?upd_other by exact NE; reflexivity.
Qed.

Lemma seq_sched_done fails (ts : list ctask) : forall k w,
  (forall i t, nth_error ts i = Some t -> (left_steps (w_exec w (k + N.of_nat i)) <= steps_needed t)%nat) ->
  forall i, (i < length ts)%nat -> e_pc (w_exec (fold_left (step fails) (seq_sched_from k ts) w) (k + N.of_nat i)) = PDone.
Proof.
  induction ts as [| t r IH]; intros k w H i LT; [cbn in LT; lia |].
  cbn [seq_sched_from]. rewrite fold_left_app.
  destruct i as [| i].
  - rewrite N.add_0_r. apply steps_keep_done. apply repeat_steps_done.
    specialize (H O t eq_refl). now rewrite N.add_0_r in H.
  - replace (k + N.of_nat (S i)) with (k + 1 + N.of_nat i) by lia. apply IH.
    + intros j t' HN. rewrite steps_other by lia.
      specialize (H (S j) t' HN). now replace (k + 1 + N.of_nat j) with (k + N.of_nat (S j)) by lia.
    + cbn in LT. lia.
Qed.

Lemma all_done_from_intro w m : forall k, (forall i, (i < m)%nat -> e_pc (w_exec w (k + N.of_nat i)) = PDone) -> all_done_from k m w = true.
Proof.
  induction m as [| m IH]; intros k H; [reflexivity |].
  cbn [all_done_from]. apply Bool.andb_true_iff. split.
  - specialize (H O ltac:(lia)). rewrite N.add_0_r in H. unfold is_done. now rewrite H.
  - apply IH. intros i LT. specialize (H (S i) ltac:(lia)). now replace (k + 1 + N.of_nat i) with (k + N.of_nat (S i)) by lia.
Qed.

(* the sequential schedule is complete; any schedule that extends a complete one is complete *)
Theorem seq_sched_complete ts : complete ts (conc_run ts (seq_sched ts)) = true.
Proof.
  unfold complete, conc_run, run_sched, seq_sched. apply all_done_from_intro. intros i LT.
  apply seq_sched_done; [| exact LT].
  intros j t HN. destruct (nth_task_error ts j t HN) as (NT & LTj).
  unfold init. cbn [w_exec]. apply N.ltb_lt in LTj. rewrite LTj. unfold left_steps. cbn [e_pc e_todo].
  rewrite NT. unfold steps_needed. lia.
Qed.

Theorem complete_extends ts s s' : complete ts (conc_run ts s) = true -> complete ts (conc_run ts (s ++ s')) = true.
Proof.
  intros C. unfold complete, conc_run, run_sched in *. rewrite fold_left_app. apply all_done_from_intro. intros i LT.
  apply steps_keep_done. now apply (all_done_from_spec _ _ _ C).
Qed.
