(* C13_TSpec.v — the property C13 for patch files given as TEXT, as a decidable predicate.

   From the property text: "The operations a hook writes as a stream of JSON or YAML
   documents are validated together - if any document is invalid none is applied and the
   execution fails - and are otherwise applied once each in document order".

   A patch file is described by how it is built, not by how the code reads it: a [shape] is
   the documents of a JSON stream (each a JSON value, with the white space in front of it)
   and the [tail] after the last of them.  A tail of white space: the text is a well-formed
   JSON stream of exactly these documents.  Anything else in the tail - a stray closing
   bracket, a document cut short, garbage, a lone comma, control bytes, YAML text, ... - and
   the text is NOT a JSON stream; it is then whatever it is as a YAML stream ([yaml]: the
   documents, or None when it is not well-formed YAML either; a YAML rendering of a stream
   is the shape with no JSON documents and the whole text as the tail).  A text that is
   neither is invalid as a whole: none of its documents is applied and the execution fails -
   never a prefix of the documents applied and the rest dropped.  A well-formed stream is
   judged by C13_Spec.P_run on its documents (all of them, once each, in order).

   The predicate knows nothing of decoders, scanners, bytes consumed or fallbacks. *)
From Coq Require Import List Bool.
From Verif Require Import Common Json C13_Model C13_Spec C13_TModel.
Import ListNotations.

Record shape := mkShape {
  sh_docs : list (text * text);   (* (white space, document) *)
  sh_tail : text
}.

Definition text_of (sh : shape) : text := flatten (sh_docs sh) (sh_tail sh).

Definition all_ws (w : text) : bool := forallb is_ws w.

(* the documents of the text when it is well-formed, None when it is broken *)
Definition wf_docs (tb : table) (yaml : option (list doc)) (sh : shape) : option (list doc) :=
  if all_ws (sh_tail sh) then Some (map (fun wv => meaning tb (snd wv)) (sh_docs sh)) else yaml.

Definition P_text (proj : json -> json) (c0 : cluster) (tb : table) (yaml : option (list doc)) (sh : shape)
           (r : outcome) : bool :=
  match wf_docs tb yaml sh with
  | Some ds => P_run proj c0 ds r
  | None =>
    (* broken text: nothing applied, the execution fails *)
    failed r && cluster_sameb (view proj (r_cluster r)) (view proj c0) && match r_calls r with [] => true | _ => false end
  end.

(* the same seen from outside the operator *)
Definition P_text_hook (proj : json -> json) (c0 : cluster) (tb : table) (yaml : option (list doc)) (sh : shape)
           (run_failed : bool) (cl : cluster) (calls : list call) : bool :=
  match wf_docs tb yaml sh with
  | Some ds => P_hook_run proj c0 ds run_failed cl calls
  | None => run_failed && cluster_sameb (view proj cl) (view proj c0) && match calls with [] => true | _ => false end
  end.

(* a shape describes its text honestly: the documents are single self-delimited JSON values
   that unmarshal into an operation spec, the white space is white space, and a tail that is
   not white space really is no continuation of a JSON stream *)
Definition doc_ok (wv : text * text) : bool := all_ws (fst wv) && complete (snd wv) && decodable (snd wv).
Definition broken_tail (tail : text) : bool := match json_path tail with None => true | Some _ => false end.
Definition shape_ok (sh : shape) : bool :=
  forallb doc_ok (sh_docs sh) && (all_ws (sh_tail sh) || broken_tail (sh_tail sh)).
