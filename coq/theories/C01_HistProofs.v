(* C01_HistProofs.v — for EVERY configuration (names, event types, jqFilter), every initial
   cluster and every history of object and namespace operations, the events the monitor hands
   over after the unlock are exactly the events of the changes of objects that match at that
   moment ([changes_only]); so HP holds outside the trigger of F24, and F24 costs nothing but
   the objects a namespace brings along.  The informer-set invariant is C02_DynProofs.DInv. *)
From Verif Require Import Common C01_Model C02_Model C02_Spec C02_Proofs C02_DynProofs C01_Hist C01_HistSpec.
Open Scope N_scope.

(* ================================================================== small list facts *)

Lemma flat_map_nil {A B} (l : list A) : flat_map (fun _ : A => @nil B) l = [].
Proof. induction l as [|x r IH]; [reflexivity | exact IH]. Qed.

(* over a duplicate-free list at most one element is equal to v *)
Lemma flat_map_pick {B} (X : list B) v : forall l, NoDup l ->
  flat_map (fun y => if N.eqb v y then X else []) l = if mem_N v l then X else [].
Proof.
  induction l as [|y r IH]; intros Hn; [reflexivity|].
  inversion Hn as [|? ? Hy Hr]; subst. cbn [flat_map]. unfold mem_N in *. cbn [existsb].
  destruct (N.eqb v y) eqn:E.
  - apply N.eqb_eq in E. subst y. cbn [orb].
    assert (Q : existsb (N.eqb v) r = false).
    { destruct (existsb (N.eqb v) r) eqn:M; [|reflexivity]. exfalso. apply Hy. now apply (mem_N_In v r). }
    rewrite (IH Hr), Q. apply app_nil_r.
  - cbn [orb app]. apply (IH Hr).
Qed.

Lemma flat_map_ext_in {A B} (f g : A -> list B) : forall l, (forall x, In x l -> f x = g x) -> flat_map f l = flat_map g l.
Proof.
  induction l as [|x r IH]; intros H; [reflexivity|]. cbn [flat_map].
  rewrite (H x (or_introl eq_refl)), IH; [reflexivity|]. intros y Hy. apply H. now right.
Qed.

Lemma flat_map_map {A B C} (f : A -> B) (g : B -> list C) l : flat_map g (map f l) = flat_map (fun x => g (f x)) l.
Proof. induction l as [|x r IH]; [reflexivity|]. cbn [map flat_map]. now rewrite IH. Qed.

(* ================================================================== one informer *)

(* the objects with the key of o are all inside or all outside a scope: the informer's cache
   (the cluster's objects of its scope) answers a lookup like the cluster itself *)
Lemma lookup_filter s o : in_scope s o = true -> forall objs,
  lookup o (filter (in_scope s) objs) = lookup o objs.
Proof.
  intros Ho. unfold lookup. induction objs as [|x r IH]; [reflexivity|]. cbn [filter find].
  destruct (same_key x o) eqn:K.
  - rewrite (in_scope_same_key s x o K), Ho. cbn [find]. now rewrite K.
  - destruct (in_scope s x); [cbn [find]; now rewrite K|]. exact IH.
Qed.

Lemma inf_fire_filter types flt k s o objs : in_scope s o = true ->
  inf_fire types flt k o (filter (in_scope s) objs) = inf_fire types flt k o objs.
Proof. intros Ho. unfold inf_fire. now rewrite (lookup_filter s o Ho). Qed.

(* ================================================================== the name scopes *)

Lemma uniq_nil_inv l : uniq l [] = [] -> l = [].
Proof.
  intros E. destruct (uniq_spec l []) as [_ U]. destruct l as [|a r]; [reflexivity|].
  assert (In a (uniq (a :: r) [])) by (apply U; split; [now left | intros []]).
  rewrite E in H. contradiction.
Qed.

Lemma mem_uniq v l : mem_N v (uniq l []) = mem_N v l.
Proof.
  destruct (uniq_spec l []) as [_ U].
  destruct (mem_N v l) eqn:M.
  - apply mem_N_In. apply U. split; [now apply mem_N_In | intros []].
  - destruct (mem_N v (uniq l [])) eqn:M'; [|reflexivity]. apply mem_N_In, U in M' as [M' _].
    apply mem_N_In in M'. congruence.
Qed.

(* exactly one of the per-name informers of a namespace holds a selected object, none a
   name that is not selected (names() is de-duplicated) *)
Lemma names_pick {B} (X : list B) names v :
  flat_map (fun nm : option N => if opt_ok nm v then X else []) (name_scopes names)
  = if name_sel names v then X else [].
Proof.
  unfold name_scopes. destruct (uniq names []) as [|x u] eqn:E.
  - apply uniq_nil_inv in E. subst names. cbn. apply app_nil_r.
  - rewrite <- E. rewrite flat_map_map. cbn [opt_ok].
    destruct (uniq_spec names []) as [Hn _].
    rewrite (flat_map_pick X v _ Hn), mem_uniq.
    destruct names as [|a r]; [cbn in E; discriminate | reflexivity].
Qed.

(* ================================================================== the whole monitor *)

Lemma mon_fire_spec types flt k o names objs nss m :
  W names objs m -> (forall x, In x (mkeys m) <-> ns_lab x nss = true) ->
  mon_fire types flt k o m = if dmatching names (objs, nss) o then inf_fire types flt k o objs else [].
Proof.
  intros (W1 & W2 & W3) I4. unfold mon_fire.
  set (X := inf_fire types flt k o objs).
  assert (Inner : forall e, In e (dm_vary m) ->
            flat_map (fun inf : informer => if in_scope (Some (fst e), fst inf) o then inf_fire types flt k o (snd inf) else []) (snd e)
            = if N.eqb (o_ns o) (fst e) then (if name_sel names (o_name o) then X else []) else []).
  { intros e He. unfold caches_ok in W3. rewrite Forall_forall in W3. rewrite (W3 e He).
    unfold informers_for. rewrite flat_map_map. cbn [fst snd].
    destruct (N.eqb (o_ns o) (fst e)) eqn:En.
    - rewrite <- (names_pick X names (o_name o)). apply flat_map_ext_in. intros nm _.
      rewrite in_scope_split. cbn [fst snd opt_ok]. rewrite En. cbn [andb].
      destruct (opt_ok nm (o_name o)) eqn:On; [|reflexivity].
      apply inf_fire_filter. rewrite in_scope_split. cbn [fst snd opt_ok]. now rewrite En, On.
    - transitivity (flat_map (fun _ : option N => @nil hevent) (name_scopes names)); [|apply flat_map_nil].
      apply flat_map_ext_in. intros nm _.
      rewrite in_scope_split. cbn [fst snd opt_ok]. now rewrite En. }
  rewrite (flat_map_ext_in _ _ (dm_vary m) Inner).
  set (Y := if name_sel names (o_name o) then X else []).
  transitivity (flat_map (fun y => if N.eqb (o_ns o) y then Y else []) (map fst (dm_vary m)));
    [symmetry; apply (flat_map_map fst (fun y => if N.eqb (o_ns o) y then Y else []))|].
  fold (mkeys m). rewrite (flat_map_pick Y (o_ns o) _ W2).
  unfold dmatching. cbn [snd]. fold (name_sel names (o_name o)).
  destruct (mem_N (o_ns o) (mkeys m)) eqn:M.
  - apply mem_N_In, I4 in M. rewrite M. reflexivity.
  - destruct (ns_lab (o_ns o) nss) eqn:L; [|reflexivity].
    apply I4, mem_N_In in L. congruence.
Qed.

(* ================================================================== one step, the whole history *)

Lemma hfire_spec i st op : DInv (h_names i) st -> hfire i st op = exp_change i (fst st) op.
Proof.
  destruct st as [[objs nss] m]. intros (I1 & I2 & I3 & I4). cbn [fst snd] in *.
  destruct op as [o|ns name|ns lab|ns]; cbn [hfire exp_change fst snd]; try reflexivity.
  - rewrite (mon_fire_spec _ _ _ o (h_names i) objs nss m I3 I4).
    destruct (dmatching (h_names i) (objs, nss) o); [|reflexivity].
    unfold inf_fire. destruct (lookup o objs) as [old|]; [|reflexivity]. reflexivity.
  - destruct (lookup (ns, name, 0) objs) as [old|]; [|reflexivity].
    rewrite (mon_fire_spec _ _ _ old (h_names i) objs nss m I3 I4). reflexivity.
Qed.

Lemma hrun_spec i : forall ops st, DInv (h_names i) st -> hrun i st ops = changes_from i (fst st) ops.
Proof.
  induction ops as [|op r IH]; intros st Hinv; [reflexivity|].
  cbn [hrun changes_from]. rewrite (hfire_spec i st op Hinv). f_equal.
  rewrite (IH _ (dstep_inv (h_names i) st (dop_of op) Hinv)). now rewrite dstep_fst.
Qed.

Lemma hist_init_inv i : DInv (h_names i) (hist_init i).
Proof.
  unfold hist_init. set (c := hcluster0 i).
  assert (K0 : keys_distinct (fst c)) by (apply fold_cl_set_keys; constructor).
  assert (N0 : NoDup (map fst (snd c))) by (apply fold_ns_set_nodup; constructor).
  destruct (create_mon_spec (h_names i) c N0) as (C1 & C2 & C3).
  assert (Sub : forall k, In k (mkeys (create_mon (h_names i) c)) -> ns_lab k (snd c) = true).
  { intros k Hk. rewrite C1 in Hk. now apply (matching_in _ N0). }
  destruct (start_mon_spec (h_names i) c _ N0 C2 C3 Sub) as [S1 S2].
  unfold DInv. cbn [fst snd]. split; [exact K0|]. split; [exact N0|]. split; [exact S1 | exact S2].
Qed.

(* THE statement about the code path: no hypothesis, every input *)
Theorem hist_events_exact i : hist_out i = changes_only i.
Proof. unfold hist_out, changes_only. rewrite (hrun_spec i _ _ (hist_init_inv i)). reflexivity. Qed.

(* ================================================================== the Spec *)

Lemma hevent_eqb_refl e : hevent_eqb e e = true.
Proof.
  destruct e as [[[n m] k] c]. unfold hevent_eqb. rewrite !N.eqb_refl. destruct k; reflexivity.
Qed.

Lemma same_per_object_refl l : same_per_object l l = true.
Proof.
  unfold same_per_object. apply forallb_forall. intros k _. apply list_eqb_refl. exact hevent_eqb_refl.
Qed.

Lemma no_brought_expected i : forall ops c, brings_along i c ops = false -> expected_from i c ops = changes_from i c ops.
Proof.
  induction ops as [|op r IH]; intros c H; [reflexivity|]. cbn [brings_along] in H.
  apply orb_false_iff in H as [H1 H2]. cbn [expected_from changes_from].
  destruct (exp_brought i c op) eqn:B; [|discriminate]. cbn [app]. now rewrite (IH _ H2).
Qed.

Theorem hist_P_partial i : HT i = false -> HP i (mkHOb (hist_out i) 0 false) = true.
Proof.
  intros HTf. unfold HP. cbn [ho_bad ho_before ho_out negb andb N.eqb].
  unfold expected. rewrite (no_brought_expected i _ _ HTf). fold (changes_only i).
  rewrite <- hist_events_exact. apply same_per_object_refl.
Qed.

(* F24 on a history: the namespace is created with two selected objects in it; the later change
   of one of them IS reported (as Modified), their appearance is not *)
Theorem hist_refuted_F24 : exists i, HT i = true /\ HP i (mkHOb (hist_out i) 0 false) = false.
Proof.
  exists (mkHistIn [] [Added; Modified; Deleted] false [] [] [HSet (1, 1, 1); HSet (1, 2, 1); HNs 1 true; HSet (1, 1, 2)]).
  split; vm_compute; reflexivity.
Qed.

(* ================================================================== the informer set *)

Lemma hist_states_inv i : forall ops st, DInv (h_names i) st ->
  DInv (h_names i) (fold_left (dstep (h_names i)) (map dop_of ops) st).
Proof.
  induction ops as [|op r IH]; intros st H; [exact H|]. cbn [map fold_left]. apply IH, dstep_inv, H.
Qed.

Theorem hist_informers_follow_matching i ops ns :
  let st := fold_left (dstep (h_names i)) (map dop_of ops) (hist_init i) in
  In ns (map fst (dm_vary (snd st))) <-> ns_lab ns (snd (fst st)) = true.
Proof.
  intros st. destruct (hist_states_inv i ops _ (hist_init_inv i)) as (_ & _ & _ & I4). exact (I4 ns).
Qed.
