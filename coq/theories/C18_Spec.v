(* C18_Spec.v — the property C18 as predicates over what is observable: the configured
   (I, B), the instants at which executions were requested and the instants at which
   they were allowed to start.  Written from the property text only:

     "For a hook configured with executionMinInterval I and executionBurst B, the number
      of its queued executions started within any time window of length T never exceeds
      B + T/I (rounded up), however many events arrive; hooks without settings are not
      throttled."

   Domain: I > 0 and B >= 1 (for I = 0 the bound T/I is undefined; B = 0 would forbid any
   execution at all — the code turns it into 1, which the correspondence pins down). *)
From Verif Require Import Common C18_Model.
Open Scope Z_scope.

(* T/I rounded up, for T >= 0 and I > 0 *)
Definition ceil_div (T I : Z) : Z := (T + I - 1) / I.

(* number of starts inside the closed window [s, s+T] *)
Definition in_window (s T x : Z) : bool := (s <=? x) && (x <=? s + T).
Definition count_in (s T : Z) (starts : list Z) : Z :=
  Z.of_nat (length (filter (in_window s T) starts)).

(* the property, Prop reading: every window of every length *)
Definition respects_limit (I B : Z) (starts : list Z) : Prop :=
  forall s T, 0 <= T -> count_in s T starts <= B + ceil_div T I.

(* decidable form used on observations: starts are listed in the order they were
   granted; for every pair i <= j the j-i+1 starts from the i-th to the j-th lie in a
   window of length starts[j]-starts[i]. *)
Fixpoint from_ok (I B x k : Z) (rest : list Z) : bool :=
  match rest with
  | [] => true
  | y :: r => (k + 1 <=? B + ceil_div (y - x) I) && from_ok I B x (k + 1) r
  end.
Fixpoint window_ok (I B : Z) (starts : list Z) : bool :=
  match starts with
  | [] => true
  | x :: r => from_ok I B x 1 r && window_ok I B r
  end.

Fixpoint sortedb (l : list Z) : bool :=
  match l with
  | x :: (y :: _) as r => (x <=? y) && sortedb r
  | _ => true
  end.

Fixpoint somes {A} (l : list (option A)) : list A :=
  match l with
  | [] => []
  | Some x :: r => x :: somes r
  | None :: r => somes r
  end.

(* P: [cfg] = settings of the hook (None = no settings), [arrivals] = request instants
   (non-decreasing: one clock, requests serialised), [starts] = for each request the
   instant it was allowed to start (None = refused, nothing started). *)
Definition P (cfg : option settings) (arrivals : list Z) (starts : list (option Z)) : bool :=
  match cfg with
  | None => list_eqb (option_eqb Z.eqb) starts (map Some arrivals)        (* not throttled *)
  | Some s =>
      if (0 <? s_interval s) && (1 <=? s_burst s) && sortedb arrivals
      then window_ok (s_interval s) (s_burst s) (somes starts)
      else true
  end.

(* wall-clock reading of the same sentence, used on the RateLimitWait probe: [n_started]
   executions were allowed to start within a measured wall-clock window of [wall] ns *)
Definition P_wall (cfg : option settings) (n_started wall : Z) : bool :=
  match cfg with
  | None => true
  | Some s =>
      if (0 <? s_interval s) && (1 <=? s_burst s)
      then n_started <=? s_burst s + ceil_div wall (s_interval s)
      else true
  end.

(* ---- operator level ----
   Observable: per hook the settings it was configured with, the instants (one clock, in
   the order they were seen) at which executions of the hook STARTED - whatever caused
   them: a first attempt, a retry of a failed run, any binding type, any queue - and the
   hooks a queue worker was seen waiting for in RateLimitWait.
     "the number of its queued executions started within any time window of length T never
      exceeds B + T/I (rounded up), however many events arrive"   -> [window_ok] on the starts
     "hooks without settings are not throttled"                    -> never seen waiting *)
Definition starts_of (h : N) (starts : list (N * Z)) : list Z :=
  map snd (filter (fun p => N.eqb (fst p) h) starts).

Definition P_hook (cfg : option settings) (starts : list Z) (throttled : bool) : bool :=
  match cfg with
  | None => negb throttled
  | Some s =>
      if (0 <? s_interval s) && (1 <=? s_burst s)
      then window_ok (s_interval s) (s_burst s) starts
      else true
  end.

Definition P_op (hs : hook_settings) (starts : list (N * Z)) (throttled : list N) : bool :=
  forallb (fun h => P_hook (settings_of hs h) (starts_of h starts) (mem_N h throttled)) (map fst hs).

(* ---- instants that are measured late ----
   A harness sees an execution some time AFTER it started (the hook process has to come up).
   Windows that begin at an instant [a] known to the observer - chosen so that every start
   observed at or after [a] really happened at or after [a] - and end at an observed start
   can be judged all the same: the k-th start observed at or after [a], seen at m, proves
   that k executions started within [a, m], a window of length m - a:
       k <= B + (m - a)/I rounded up.
   This is the property's sentence for these windows (never more); C18_late_observation_sound
   shows that observing late cannot make it fail. *)
Fixpoint anchored_from (I B a k : Z) (l : list Z) : bool :=
  match l with
  | [] => true
  | m :: r => (k <=? B + ceil_div (m - a) I) && anchored_from I B a (k + 1) r
  end.
Definition anchored_ok (I B a : Z) (starts : list Z) : bool :=
  anchored_from I B a 1 (filter (fun m => a <=? m) starts).

Definition P_hook_anchored (cfg : option settings) (anchors : list Z) (starts : list Z) : bool :=
  match cfg with
  | None => true
  | Some s =>
      if (0 <? s_interval s) && (1 <=? s_burst s)
      then sortedb starts && forallb (fun a => anchored_ok (s_interval s) (s_burst s) a starts) anchors
      else true
  end.

Definition P_timed (hs : hook_settings) (anchors : list Z) (starts : list (N * Z)) : bool :=
  forallb (fun h => P_hook_anchored (settings_of hs h) anchors (starts_of h starts)) (map fst hs).

(* ---- a queue shared with other hooks, held by one of them ----
   The sentence counts the executions of the hook that STARTED within a window; it does not
   mention the instants at which the events arrived or at which their tasks were queued.  So
   when a queue that the hook shares with other hooks is held for a while (a slow execution
   of another hook, a back-off) and is then given back at an instant f, the window [f, m] that
   begins there is a window like any other: however many tasks of the hook piled up behind the
   holder and whenever they were queued, at most B + (m - f)/I (rounded up) of its executions
   may start within it.  On real instants that is [window_ok] ([P_op]); on instants that are
   observed late it is [anchored_ok] with the anchor f, provided the observer knows that no
   execution of the hook was under way unseen at f.  Such an instant need not be one at which
   the WHOLE operator is idle: it is enough that every queue that carries tasks of the hook is
   empty or is blocked inside an execution the observer has seen and holds open.  Hence
   anchors that are valid for some hooks only: *)
Definition anchors_for (h : N) (anchors : list (Z * list N)) : list Z :=
  map fst (filter (fun p => mem_N h (snd p)) anchors).

Definition P_timed_for (hs : hook_settings) (anchors : list (Z * list N)) (starts : list (N * Z)) : bool :=
  forallb (fun h => P_hook_anchored (settings_of hs h) (anchors_for h anchors) (starts_of h starts)) (map fst hs).

(* ---- hooks of every shape ----
   "For a hook configured with executionMinInterval I and executionBurst B, the number of its
    queued executions started within any time window of length T never exceeds B + T/I".
   I and B are the two numbers written in the hook's `settings`, and the sentence names nothing
   else of the hook's configuration: how many kubernetes bindings the hook declares (each of
   them runs a Synchronization at start-up, the bindings of one group share one run, a binding
   with executeHookOnSynchronization: false runs none), how many schedule bindings, which
   groups and queues - none of it enters the bound.  So for a hook of ANY shape the windows are
   judged with the CONFIGURED B:
     - the windows that begin at the instant the operator is started (nothing ran before it):
       the Synchronization runs of the start-up, back to back, are queued executions like any
       other;
     - the windows that begin at an instant at which the operator was idle - in particular
       after an idle period of any length: however long nothing happened, the events that
       arrive then (one by one or all at once) start at most B + T/I executions within T.
   Observable: the settings written into each hook's configuration, the instant [boot] taken
   before the operator was started, instants [anchors] at which it was found idle, and the
   execution starts (hook, instant at which the start was seen - late, never early), in the
   order they were seen.  The judgement is the anchored one ([anchored_ok], sound for instants
   observed late: C18_late_observation_sound). *)
Definition P_shape (hs : hook_settings) (boot : Z) (anchors : list Z) (starts : list (N * Z)) : bool :=
  P_timed hs (boot :: anchors) starts.
