(* C12_FsSpec.v — the property for hooks that write their outputs in any way they like.

   The text: "A hook is started ... with environment variables pointing to ... empty metrics, patch,
   admission-response and conversion-response files whose names are unique per execution. ... after a zero
   exit the output files are parsed and applied and a malformed output fails the execution.  All temporary
   files of an execution are deleted when it ends, whatever the outcome."

   The contract is by PATH: the hook is told names.  So "the output files" are whatever is AT THOSE NAMES when
   the hook exits - not the files (inodes) the operator had put there before.  This file says so with the
   file system of C12_FsModel part 1 (the operating system's semantics, not the operator's): the execution
   starts from [contract_start] (five names, five different empty files), the hook does what it does
   ([fi_ops]), [at_exit] is what a reader opening the name then finds, and the predicate is C12_Spec.P for
   an execution whose outputs are these contents.  Where a name cannot be read at exit (the hook removed it,
   left a dangling link) the text says nothing about success; clean-up and "a non-zero exit is a failure"
   are demanded all the same ([P_unreadable]).  The patch file is YAML: [cls] says which abstract kind a
   byte string is. *)
From Verif Require Import Common Json JsonText C12_Model C12_Spec C12_FsModel.
Open Scope N_scope.

(* five names, unique, each an empty file of its own *)
Definition contract_start : fs :=
  mkFs (fun p => if p <? 5 then Some (NFile p) else None) (fun _ => []) 5.

Definition at_exit (ops : list op) (f : N) : option bytes := read_path (run_ops ops contract_start) f.

(* the execution as C12_Spec sees it: exit code and the four outputs found at the names at exit *)
Definition exit_input (cls : bytes -> fkind) (i : finput) : option input :=
  match at_exit (fi_ops i) file_metrics, at_exit (fi_ops i) file_patch,
        at_exit (fi_ops i) file_admission, at_exit (fi_ops i) file_conversion with
  | Some m, Some p, Some a, Some c =>
      Some (mkIn (fi_exit i) (FText m) (cls p) (FText a) (FText c) (fi_concurrent i) (fi_namelen i) (fi_env i))
  | _, _, _, _ => None
  end.

(* some output name cannot be read at exit: nothing is said about success after a zero exit *)
Definition P_unreadable (i : finput) (o : observation) : bool :=
  negb (ob_bad o)
  && (if ob_started o
      then (if Z.eqb (fi_exit i) 0 then true
            else negb (N.eqb (ob_status o) 0) && negb (ob_metric_applied o) && negb (ob_patch_applied o))
      else negb (N.eqb (ob_status o) 0))
  && N.eqb (ob_tmp_after o) 0.

Definition P_fs_logic (cls : bytes -> fkind) (i : finput) (o : observation) : bool :=
  match exit_input cls i with
  | Some si => P_logic si o
  | None => P_unreadable i o
  end.

Definition plain_input (i : finput) : input :=
  mkIn (fi_exit i) FEmpty FEmpty FEmpty FEmpty (fi_concurrent i) (fi_namelen i) (fi_env i).
Definition P_fs (cls : bytes -> fkind) (i : finput) (o : observation) : bool :=
  P_fs_logic cls i o && P_os (plain_input i) o.

(* ---------------------------------------------------------------- outputs named by variable *)
(* the file a contract variable stands for (C12_Spec.contract) *)
Definition contract_file (k : N) : option N :=
  match find (fun kf => fst kf =? k) contract with
  | Some kf => Some (snd kf)
  | None => None
  end.
(* a hook that produces outputs one after the other, each through a variable, in its way, in chunks *)
Definition spec_jobs (vs : list vjob) : list fjob :=
  flat_map (fun v => match contract_file (snd (fst v)) with
                     | Some g => [(fst (fst v), g, snd v)]
                     | None => []
                     end) vs.
Definition spec_finput (w : winput) : finput :=
  mkFI (wi_exit w) (wi_concurrent w) (wi_namelen w) (wi_env w) (jobs_ops (spec_jobs (wi_jobs w))).

Definition P_ways_logic (cls : bytes -> fkind) (w : winput) (o : observation) : bool := P_fs_logic cls (spec_finput w) o.
Definition P_ways (cls : bytes -> fkind) (w : winput) (o : observation) : bool := P_fs cls (spec_finput w) o.

(* the outputs of a case: at most one per variable, through the four output variables of the text *)
Definition output_vars : list N := [var_metrics; var_patch; var_admission; var_conversion].
Fixpoint nodup_N (l : list N) : bool :=
  match l with
  | [] => true
  | x :: r => negb (mem_N x r) && nodup_N r
  end.
Definition wf_jobs (vs : list vjob) : bool :=
  nodup_N (map (fun v => snd (fst v)) vs) && forallb (fun v => mem_N (snd (fst v)) output_vars) vs.
