(* C15_Corr.v — correspondence vocabulary for C15.  A case is an input together with what
   the implementation did on it; evaluated by vm_compute in the generated cases files.

   CSearch:  one rule set, a list of (from,to) queries asked on ONE shared ChainStorage
             (shared = true; the cache mutates) or on a fresh ChainStorage per query, and the
             chain (or nil) FindConversionChain returned for each.
   CHandler: one rule set registered by real hooks, one ConversionReview posted to the real
             router/handler wired to the real conversionEventHandler: the chain the hook
             manager answers for (src,desired), the scripted outcome of the k-th hook run
             (a failedMessage is the byte string the hook's response file denotes),
             the hook runs observed (rule of the hook that ran, objects it received) and the
             answer: result.status with the converted objects, or the bytes of
             result.message.  [dtext] is desiredAPIVersion as the request spelt it (the
             operator's own messages quote it).  No message is classified by the harness:
             every text is compared byte for byte with the model's (C15_Model.serve) and the
             relayed hook message is judged by the Spec.
   CSession: one rule set registered by real hooks (owners: the hook number of each declared
             rule), per hook its `settings` (None = no settings block; Some (interval ns, burst)),
             and SEVERAL ConversionReviews posted one after the other, without pause, to one
             operator: per request what CHandler records.  The model (C15_Model.serve_session)
             threads the hooks' limiters through all steps of all requests; it is run on the
             empty clock - by C15_session_state_irrelevant neither clock readings nor tokens
             influence the hook runs or the answers, so none is taken from the implementation
             and no timing tolerance exists.  Chains are asked on ONE ChainStorage (the hook
             manager's), like CSearch shared.  P judges every request by P_search and - when the
             settings allow every hook to run at all (Spec.settings_in_domain) - by P_handler.
   CParams:  one rule set registered by real hooks whose conversion bindings carry the further
             documented parameters (`group`, `includeSnapshotsFrom`) and that have `kubernetes` /
             `schedule` bindings beside them (hooks : list hookcfg, in the hook manager's order; [rules]
             is the same rule set in the order of the input), one ConversionReview; observed: the chain,
             per hook execution WHICH hook ran and WHAT IT READ in $BINDING_CONTEXT_PATH field by field
             (binding, type, keys of snapshots, groupName, fromVersion/toVersion, review.request.objects:
             C15_BindModel.rendered), and the answer.  Compared with C15_BindModel.serve_params
             (snapshot keys as a set: a JSON object), judged by P_search and C15_BindSpec.P_params:
             every executed hook read the conversion request of its step.
   CEnc:     CHandler, with the hooks' outputs AS ENCODED (C15_EncModel.eobj): every element of a step's
             convertedObjects is recorded by what it says about its apiVersion (an object whose
             apiVersion is a well-formed string / "" / a malformed text / missing / null / not a string;
             the element null; an element that is no object), in the outcome scripts, in what the next
             hook received (review.request.objects of its binding context, classified by the harness
             from the raw JSON) and in the answer's convertedObjects.  Compared with
             C15_EncModel.serve_e (ExtractAPIVersions with one fresh decoding per element), judged by
             P_search and C15_EncSpec.P_enc (an element without apiVersion is not at the desired version).
   CMulti:   SEVERAL CRDs served by one operator (C15_MultiModel): [decls] = every declared rule with the CRD
             (a number; its name is crd_text) of the binding that lists it, in the order the hook manager meets
             them (hooks in order, bindings, rules); real hooks, ONE hook manager with its ONE ChainStorage,
             one router; [reqs] = ConversionReviews posted one after the other to /<crd name>, alternating
             between the CRDs, per request its CRD and what CHandler records (the chain is what the hook
             manager's FindConversionChain(crd name, pair) answered; a hook that ran for a rule is recorded
             under that rule only if it is the hook and binding that declared the rule FOR THAT CRD).
             Compared with find_session on build decls (found / not found per request) and serve_multi
             (the request's own CRD's links); judged per request by C15_MultiSpec.P_request: P_search against
             the rules declared for the request's CRD, and P_handler.
   CMSearch: the ChainStorage alone with several CRDs (filled by Get(crd).Put(rule) in the order of [decls]) and
             a sequence of FindConversionChain(crd, pair) calls on it, with the chain (or nil) returned for each:
             found / not found compared with find_session, every answer judged by all_P_multi.
   CCrash:   the implementation panicked / the harness could not observe.

   Because Go iterates maps, WHICH valid chain is returned is not determined: chains are
   never compared, Coq judges them (Spec.valid_chain / Spec.reachable).  What is compared
   with the model is found / not found, and — given the implementation's chain — the
   complete run of the handler. *)
From Coq Require Import String.
From Verif Require Import Common C15_Model C15_Spec C15_BindModel C15_BindSpec C15_EncModel C15_EncSpec.
From Verif Require Import C15_MultiModel C15_MultiSpec.

Inductive case :=
| CSearch (rules : list rule) (shared : bool) (qs : list rule) (answers : list (option (list rule)))
| CHandler (rules : list rule) (src desired : version) (dtext : bytes) (chain : option (list rule))
           (req : list obj) (outs : list outcome) (trace : list invocation) (ans : review)
| CSession (rules : list rule) (owners : list N) (hsets : list (option hsettings)) (reqs : list sreq)
| CParams (rules : list rule) (hooks : list hookcfg) (src desired : version) (dtext : bytes)
          (chain : option (list rule)) (req : list obj) (outs : list outcome) (trace : list delivery) (ans : review)
| CEnc (rules : list rule) (src desired : version) (dtext : bytes) (chain : option (list rule))
       (req : list obj) (outs : list eoutcome) (trace : list einvocation) (ans : ereview)
| CMulti (decls : list (N * rule)) (mreqs : list (N * sreq))
| CMSearch (decls : list (N * rule)) (mqs : list (N * rule)) (answers : list (option (list rule)))
| CCrash
with sreq :=
| SReq (src desired : version) (dtext : bytes) (chain : option (list rule))
       (req : list obj) (outs : list outcome) (trace : list invocation) (ans : review).

Inductive mobs :=
| MSearch (found : list bool)
| MHandler (found : bool) (trace : list invocation) (ans : review)
| MSession (found : list bool) (res : list (list invocation * review))
| MParams (found : bool) (trace : list delivery) (ans : review)
| MEnc (found : bool) (trace : list einvocation) (ans : ereview)
| MMulti (found : list bool) (res : list (list invocation * review))
| MCrash.

Definition is_some {A} (o : option A) : bool := match o with Some _ => true | None => false end.
Definition chain_of (o : option (list rule)) : list rule := match o with Some c => c | None => [] end.

Definition sreq_query (q : sreq) : rule := match q with SReq src desired _ _ _ _ _ _ => (src, desired) end.
Definition sreq_squery (q : sreq) : squery :=
  match q with SReq _ desired dtext chain req outs _ _ => (dtext, desired, chain_of chain, outs, req) end.
Definition sreq_found (q : sreq) : bool := match q with SReq _ _ _ chain _ _ _ _ => is_some chain end.
Definition sreq_seen (q : sreq) : list invocation * review := match q with SReq _ _ _ _ _ _ trace ans => (trace, ans) end.

(* the CRD of every generated configuration (quoted by the "no hook found" error) *)
Definition crd_name : bytes := str "crontabs.stable.example.com".

(* the CRDs of the multi-CRD configurations, as the URL path and the "no hook found" error spell them *)
Definition crd_text (x : N) : bytes :=
  match x with
  | 0 => crd_name
  | 1 => str "backups.stable.example.com"
  | 2 => str "reports.stable.example.com"
  | _ => str "widgets.stable.example.com"
  end%N.

Definition mreq_pair (p : N * sreq) : N * rule := (fst p, sreq_query (snd p)).
Definition mreq_mquery (p : N * sreq) : mquery := (fst p, crd_text (fst p), sreq_query (snd p), sreq_squery (snd p)).

Definition model_obs (c : case) : mobs :=
  match c with
  | CSearch rules shared qs _ =>
    MSearch (map is_some (if shared then find_shared rules (base_cache rules) qs else find_fresh rules qs))
  | CHandler rules src desired dtext chain req outs _ _ =>
    let '(t, a) := serve dtext desired (chain_of chain) outs req in
    MHandler (is_some (snd (find rules (base_cache rules) (src, desired)))) t a
  | CSession rules owners hsets reqs =>
    MSession (map is_some (find_shared rules (base_cache rules) (map sreq_query reqs)))
             (serve_session rules owners (initial_limiters hsets, []) (map sreq_squery reqs))
  | CParams rules hooks src desired dtext chain req outs _ _ =>
    let '(t, a) := serve_params crd_name hooks dtext desired (chain_of chain) outs req in
    MParams (is_some (snd (find rules (base_cache rules) (src, desired)))) t a
  | CEnc rules src desired dtext chain req outs _ _ =>
    let '(t, a) := serve_e dtext desired (chain_of chain) outs (map wf req) in
    MEnc (is_some (snd (find rules (base_cache rules) (src, desired)))) t a
  | CMulti decls mreqs =>
    MMulti (map is_some (find_session (build decls) (map mreq_pair mreqs)))
           (serve_multi (build decls) (map mreq_mquery mreqs))
  | CMSearch decls mqs _ => MSearch (map is_some (find_session (build decls) mqs))
  | CCrash => MCrash
  end.

Definition inv_eqb (a b : invocation) : bool := rule_eqb (fst a) (fst b) && objs_eqb (snd a) (snd b).
Definition answer_eqb (a b : review) : bool :=
  match a, b with
  | RSuccess x, RSuccess y => objs_eqb x y
  | RFailure m, RFailure m' => bytes_eqb m m'
  | _, _ => false
  end.

Definition einv_eqb (a b : einvocation) : bool := rule_eqb (fst a) (fst b) && eobjs_eqb (snd a) (snd b).
Definition eanswer_eqb (a b : ereview) : bool :=
  match a, b with
  | ERSuccess x, ERSuccess y => eobjs_eqb x y
  | ERFailure m, ERFailure m' => bytes_eqb m m'
  | _, _ => false
  end.

Definition seen_eqb (a b : list invocation * review) : bool :=
  list_eqb inv_eqb (fst a) (fst b) && answer_eqb (snd a) (snd b).

(* a JSON object's keys are a set *)
Definition set_eqb (a b : list N) : bool := forallb (fun x => mem_N x b) a && forallb (fun x => mem_N x a) b.
Definition rtype_eqb (a b : rtype) : bool :=
  match a, b with
  | RtAbsent, RtAbsent | RtValidating, RtValidating | RtMutating, RtMutating | RtConversion, RtConversion
  | RtGroup, RtGroup | RtSchedule, RtSchedule | RtKubernetes, RtKubernetes => true
  | _, _ => false
  end.
Definition rendered_eqb (a b : rendered) : bool :=
  N.eqb (r_binding a) (r_binding b) && rtype_eqb (r_type a) (r_type b)
  && option_eqb set_eqb (r_snapshots a) (r_snapshots b) && option_eqb N.eqb (r_group a) (r_group b)
  && option_eqb rule_eqb (r_versions a) (r_versions b) && option_eqb objs_eqb (r_review a) (r_review b).
Definition delivery_eqb (a b : delivery) : bool := N.eqb (fst a) (fst b) && rendered_eqb (snd a) (snd b).

(* the two descriptions of the configuration name the same rules *)
Definition same_rules (rules : list rule) (hooks : list hookcfg) : bool :=
  forallb (declared rules) (hooks_rules hooks) && forallb (declared (hooks_rules hooks)) rules.

Definition agrees (c : case) : bool :=
  match c, model_obs c with
  | CSearch _ _ _ answers, MSearch found => list_eqb Bool.eqb found (map is_some answers)
  | CHandler _ _ _ _ chain _ _ trace ans, MHandler found t a =>
    Bool.eqb found (is_some chain) && list_eqb inv_eqb t trace && answer_eqb a ans
  | CSession _ _ _ reqs, MSession found res =>
    list_eqb Bool.eqb found (map sreq_found reqs) && list_eqb seen_eqb res (map sreq_seen reqs)
  | CParams rules hooks _ _ _ chain _ _ trace ans, MParams found t a =>
    same_rules rules hooks && Bool.eqb found (is_some chain) && list_eqb delivery_eqb t trace && answer_eqb a ans
  | CEnc _ _ _ _ chain _ _ trace ans, MEnc found t a =>
    Bool.eqb found (is_some chain) && list_eqb einv_eqb t trace && eanswer_eqb a ans
  | CMSearch _ _ answers, MSearch found => list_eqb Bool.eqb found (map is_some answers)
  | CMulti _ mreqs, MMulti found res =>
    list_eqb Bool.eqb found (map (fun p => sreq_found (snd p)) mreqs)
    && list_eqb seen_eqb res (map (fun p => sreq_seen (snd p)) mreqs)
  | _, _ => false
  end.

Definition P (c : case) : bool :=
  match c with
  | CSearch rules _ qs answers => all_P_search rules qs answers
  | CHandler rules src desired _ chain req outs trace ans =>
    P_search rules src desired chain && P_handler desired (chain_of chain) outs req trace ans
  | CSession rules _ hsets reqs =>
    forallb (fun q => match q with SReq src desired _ chain _ _ _ _ => P_search rules src desired chain end) reqs
    && (if settings_in_domain hsets then all_P_session (map sreq_squery reqs) (map sreq_seen reqs) else true)
  | CParams rules hooks src desired _ chain req outs trace ans =>
    P_search rules src desired chain && P_params hooks desired (chain_of chain) outs req trace ans
  | CEnc rules src desired _ chain req outs trace ans =>
    P_search rules src desired chain && P_enc desired (chain_of chain) outs (map wf req) trace ans
  | CMulti decls mreqs =>
    forallb (fun p => match p with
                      | (x, SReq src desired _ chain req outs trace ans) =>
                        P_request decls x src desired chain outs req trace ans
                      end) mreqs
  | CMSearch decls mqs answers => all_P_multi decls mqs answers
  | CCrash => false
  end.

(* Compact notation used by the generated cases files (Coq spends its time parsing
   numerals, so a case is written with as few of them as possible): a version is the single
   number 4*short + group (group 0 = written without group); a chain is the list of the
   positions of its rules in the declared list (a rule that is not declared has no position:
   the harness writes an out-of-range position, decoded to a rule no list contains). *)
Definition v (c : N) : version := (if N.eqb (N.modulo c 4) 0 then None else Some (N.modulo c 4), N.div c 4).
Definition r (a b : N) : rule := (v a, v b).
Definition bogus_rule : rule := ((None, 9999%N), (None, 9999%N)).
Definition rules_at (rules : list rule) (ix : list N) : list rule :=
  map (fun i => nth (N.to_nat i) rules bogus_rule) ix.
Definition chain_at (rules : list rule) (ix : list N) : option (list rule) :=
  match ix with [] => None | _ => Some (rules_at rules ix) end.
Definition o (id c : N) : obj := (id, v c).
Definition CS (rules : list rule) (shared : bool) (qs : list rule) (answers : list (list N)) : case :=
  CSearch rules shared qs (map (chain_at rules) answers).
Definition CH (rules : list rule) (src desired : N) (dtext : bytes) (chain : list N) (req : list obj) (outs : list outcome)
           (trace : list (N * list obj)) (ans : review) : case :=
  CHandler rules (v src) (v desired) dtext (chain_at rules chain) req outs
           (map (fun t => (nth (N.to_nat (fst t)) rules bogus_rule, snd t)) trace) ans.

(* session notation: settings are written in milliseconds; HSn = a negative burst *)
Definition HS (ms burst : N) : option hsettings := Some (Z.of_N ms * 1000000, Z.of_N burst)%Z.
Definition HSn (ms burst : N) : option hsettings := Some (Z.of_N ms * 1000000, - Z.of_N burst)%Z.
Definition HS0 : option hsettings := None.
Definition SQ (src desired : N) (dtext : bytes) (chain : list N) (req : list obj) (outs : list outcome)
           (trace : list (N * list obj)) (ans : review) (rules : list rule) : sreq :=
  SReq (v src) (v desired) dtext (chain_at rules chain) req outs
       (map (fun t => (nth (N.to_nat (fst t)) rules bogus_rule, snd t)) trace) ans.
Definition CSS (rules : list rule) (owners : list N) (hsets : list (option hsettings))
           (qs : list (list rule -> sreq)) : case :=
  CSession rules owners hsets (map (fun f => f rules) qs).

(* multi-CRD notation: a request is written like a session request; its chain and trace positions refer
   to the rules declared for ITS CRD (declared_for decls crd, in the order of decls) *)
Definition CM (decls : list (N * rule)) (qs : list (N * (list rule -> sreq))) : case :=
  CMulti decls (map (fun p => (fst p, snd p (declared_for decls (fst p)))) qs).

Definition CMS (decls : list (N * rule)) (mqs : list (N * rule)) (answers : list (list N)) : case :=
  CMSearch decls mqs (map (fun p => chain_at (declared_for decls (fst (fst p))) (snd p)) (combine mqs answers)).

(* params notation: a group is a number, 0 = no group; the type of a binding context is a code *)
Definition og (g : N) : option N := if N.eqb g 0 then None else Some g.
Definition GB (name g : N) : gbinding := (name, og g).
Definition CB (name g : N) (incl : list N) (rs : list rule) : cbinding := mkCB name (og g) incl rs.
Definition HK (kube sched : list gbinding) (conv : list cbinding) : hookcfg := mkHook kube sched conv.
Definition rt (c : N) : rtype :=
  match c with
  | 0 => RtAbsent | 1 => RtValidating | 2 => RtMutating | 3 => RtConversion | 4 => RtGroup | 5 => RtSchedule
  | _ => RtKubernetes
  end%N.
Definition RC (h binding ty : N) (snaps : option (list N)) (g : N) (vers : option rule) (review : option (list obj)) : delivery :=
  (h, mkR binding (rt ty) snaps (og g) vers review).
Definition CP (rules : list rule) (hooks : list hookcfg) (src desired : N) (dtext : bytes) (chain : list N)
           (req : list obj) (outs : list outcome) (trace : list delivery) (ans : review) : case :=
  CParams rules hooks (v src) (v desired) dtext (chain_at rules chain) req outs trace ans.

(* encoded elements: oW id c = an object whose apiVersion is the well-formed version c; oE "" ; oB the k-th
   malformed text made from version c; oM missing; oN null; oX not a string (k-th kind); ENull; ENonObj k *)
Definition oW (id c : N) : eobj := EObj id (AStr (SVer (v c))).
Definition oE (id : N) : eobj := EObj id (AStr SEmpty).
Definition oB (id k c : N) : eobj := EObj id (AStr (SBad k (v c))).
Definition oM (id : N) : eobj := EObj id AMissing.
Definition oN (id : N) : eobj := EObj id ANull.
Definition oX (id k : N) : eobj := EObj id (ANonString k).
Definition CE (rules : list rule) (src desired : N) (dtext : bytes) (chain : list N) (req : list obj) (outs : list eoutcome)
           (trace : list (N * list eobj)) (ans : ereview) : case :=
  CEnc rules (v src) (v desired) dtext (chain_at rules chain) req outs
       (map (fun t => (nth (N.to_nat (fst t)) rules bogus_rule, snd t)) trace) ans.

Definition mismatches (cs : list case) : list N := indices_where (fun c => negb (agrees c)) cs.
Definition spec_violations (cs : list case) : list N := indices_where (fun c => negb (P c)) cs.
