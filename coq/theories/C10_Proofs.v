(* C10_Proofs.v — lemmas and proofs for C10. *)
From Coq Require Import String.
From Verif Require Import Common Json C10_Model C10_Spec.

(* ---- generic list / bytes facts ---- *)

Lemma bytes_eqb_sym a b : bytes_eqb a b = bytes_eqb b a.
Proof.
  destruct (bytes_eqb a b) eqn:E1, (bytes_eqb b a) eqn:E2; try reflexivity.
  - apply bytes_eqb_eq in E1; subst. now rewrite bytes_eqb_refl in E2.
  - apply bytes_eqb_eq in E2; subst. now rewrite bytes_eqb_refl in E1.
Qed.

Lemma mem_bytes_In x l : mem_bytes x l = true <-> In x l.
Proof.
  unfold mem_bytes. rewrite existsb_exists. split.
  - intros [y [Hy E]]. apply bytes_eqb_eq in E. now subst.
  - intros H. exists x. split; [assumption|apply bytes_eqb_refl].
Qed.

Lemma mem_bytes_app x a b : mem_bytes x (a ++ b) = mem_bytes x a || mem_bytes x b.
Proof. unfold mem_bytes. apply existsb_app. Qed.

Lemma strs_map_JStr l : strs (map JStr l) = l.
Proof. induction l as [|x l IH]; simpl; [reflexivity|now rewrite IH]. Qed.

Lemma prefixb_app d x : prefixb d (d ++ x) = true.
Proof. induction d as [|a d IH]; simpl; [reflexivity|]. now rewrite bytes_eqb_refl, IH. Qed.

Lemma skipn_length_app A (d x : list A) : skipn (length d) (d ++ x) = x.
Proof. induction d as [|a d IH]; simpl; [reflexivity|exact IH]. Qed.

(* ---- MergeArrays ---- *)

Lemma merge_extra_fresh a1 : forall a2 seen,
  nodupb (merge_extra a1 a2 seen) = true
  /\ forallb (fun x => negb (mem_bytes x a1) && negb (mem_bytes x seen)) (merge_extra a1 a2 seen) = true.
Proof.
  induction a2 as [|x r IH]; intros seen; simpl; [split; reflexivity|].
  destruct (mem_bytes x a1) eqn:H1; simpl; [apply IH|].
  destruct (mem_bytes x seen) eqn:H2; simpl; [apply IH|].
  destruct (IH (x :: seen)) as [Hn Hf]. rewrite H1, H2. simpl.
  assert (Hx : mem_bytes x (merge_extra a1 r (x :: seen)) = false).
  { destruct (mem_bytes x (merge_extra a1 r (x :: seen))) eqn:E; [|reflexivity].
    apply mem_bytes_In in E. rewrite forallb_forall in Hf. specialize (Hf x E).
    apply andb_true_iff in Hf as [_ Hf]. simpl in Hf. now rewrite bytes_eqb_refl in Hf. }
  rewrite Hx, Hn. split; [reflexivity|].
  rewrite forallb_forall in *. intros y Hy. specialize (Hf y Hy).
  apply andb_true_iff in Hf as [Hf1 Hf2]. rewrite Hf1. simpl in Hf2.
  apply negb_true_iff in Hf2. apply orb_false_iff in Hf2 as [_ Hf2]. now rewrite Hf2.
Qed.

Lemma merge_extra_covers a1 : forall a2 seen n,
  In n a2 -> mem_bytes n a1 || mem_bytes n seen || mem_bytes n (merge_extra a1 a2 seen) = true.
Proof.
  induction a2 as [|x r IH]; intros seen n Hin; [contradiction|].
  simpl. destruct Hin as [->|Hin].
  - destruct (mem_bytes n a1) eqn:H1; [reflexivity|]. destruct (mem_bytes n seen) eqn:H2; [reflexivity|].
    simpl. now rewrite bytes_eqb_refl.
  - destruct (mem_bytes x a1 || mem_bytes x seen) eqn:Hx.
    + now apply IH.
    + specialize (IH (x :: seen) n Hin). simpl in IH. simpl.
      destruct (mem_bytes n a1); [reflexivity|]. destruct (mem_bytes n seen); simpl in *; [reflexivity|].
      now rewrite orb_false_r in IH.
Qed.

Lemma merge_arrays_covers a1 a2 n : In n a2 -> mem_bytes n (merge_arrays a1 a2) = true.
Proof.
  intros H. unfold merge_arrays. rewrite mem_bytes_app.
  pose proof (merge_extra_covers a1 a2 [] n H) as C. simpl in C. now rewrite orb_false_r in C.
Qed.

(* declared includes first, the rest fresh *)
Lemma incl_shape_merge d g :
  prefixb d (merge_arrays d g) = true
  /\ nodupb (skipn (length d) (merge_arrays d g)) = true
  /\ forallb (fun x => negb (mem_bytes x d)) (skipn (length d) (merge_arrays d g)) = true.
Proof.
  unfold merge_arrays. rewrite prefixb_app, skipn_length_app.
  destruct (merge_extra_fresh d g []) as [Hn Hf]. repeat split; try assumption.
  rewrite forallb_forall in *. intros x Hx. specialize (Hf x Hx). now apply andb_true_iff in Hf as [Hf _].
Qed.

Lemma incl_shape_same d :
  prefixb d d = true /\ nodupb (skipn (length d) d) = true
  /\ forallb (fun x => negb (mem_bytes x d)) (skipn (length d) d) = true.
Proof.
  rewrite <- (app_nil_r d) at 2 4 6. rewrite prefixb_app, skipn_length_app. repeat split.
Qed.

(* ---- reading the projection back ---- *)

Lemma has_intro k v j : jget k j = Some v -> has k v j = true.
Proof. intros H. unfold has. rewrite H. simpl. apply json_eqb_refl. Qed.

Lemma cfg_json_fields c :
  jget (bs "version") (cfg_json c) = Some (JStr (c_version c))
  /\ jget (bs "onStartup") (cfg_json c) = Some (jopt JNum (c_startup c))
  /\ get_arr (bs "schedule") (cfg_json c) = map sched_json (c_scheds c)
  /\ get_arr (bs "kubernetes") (cfg_json c) = map kube_json (c_kubes c)
  /\ get_arr (bs "kubernetesValidating") (cfg_json c) = map adm_json (c_validating c)
  /\ get_arr (bs "kubernetesMutating") (cfg_json c) = map adm_json (c_mutating c)
  /\ get_arr (bs "kubernetesCustomResourceConversion") (cfg_json c) = map conv_json (c_conv c).
Proof. destruct c. repeat split; reflexivity. Qed.

Lemma sched_json_fields s :
  jget (bs "name") (sched_json s) = Some (JStr (s_name s))
  /\ jget (bs "queue") (sched_json s) = Some (JStr (s_queue s))
  /\ jget (bs "allowFailure") (sched_json s) = Some (JBool (s_allow s))
  /\ jget (bs "group") (sched_json s) = Some (JStr (s_group s))
  /\ jget (bs "crontab") (sched_json s) = Some (JStr (s_crontab s))
  /\ get_arr (bs "includeSnapshotsFrom") (sched_json s) = map JStr (s_incl s).
Proof. destruct s. repeat split; reflexivity. Qed.

Lemma kube_json_fields k :
  jget (bs "name") (kube_json k) = Some (JStr (k_name k))
  /\ jget (bs "queue") (kube_json k) = Some (JStr (k_queue k))
  /\ jget (bs "allowFailure") (kube_json k) = Some (JBool (k_allow k))
  /\ jget (bs "group") (kube_json k) = Some (JStr (k_group k))
  /\ jget (bs "kind") (kube_json k) = Some (JStr (k_kind k))
  /\ jget (bs "jqFilter") (kube_json k) = Some (JStr (k_jq k))
  /\ jget (bs "events") (kube_json k) = Some (jstrs (k_events k))
  /\ jget (bs "keepFullObjectsInMemory") (kube_json k) = Some (JBool (k_keep k))
  /\ jget (bs "monitorKeepFullObjectsInMemory") (kube_json k) = Some (JBool (k_keep k))
  /\ jget (bs "executeHookOnSynchronization") (kube_json k) = Some (JBool (k_exec_sync k))
  /\ get_arr (bs "includeSnapshotsFrom") (kube_json k) = map JStr (k_incl k).
Proof. destruct k. repeat split; reflexivity. Qed.

Lemma kube_json_selects k :
  jget (bs "apiVersion") (kube_json k) = Some (JStr (k_api k))
  /\ jget (bs "names") (kube_json k) = Some (jopt jstrs (k_names k))
  /\ jget (bs "namespaces") (kube_json k) = Some (jopt jstrs (k_namespaces k))
  /\ jget (bs "labelSelector") (kube_json k) = Some (jopt (fun x => x) (k_lsel k))
  /\ jget (bs "fieldSelector") (kube_json k) = Some (jopt (fun x => x) (k_fsel k))
  /\ jget (bs "namespaceLabelSelector") (kube_json k) = Some (jopt (fun x => x) (k_ns_lsel k)).
Proof. destruct k. repeat split; reflexivity. Qed.

Lemma adm_json_fields a :
  jget (bs "name") (adm_json a) = Some (JStr (a_name a))
  /\ jget (bs "group") (adm_json a) = Some (JStr (a_group a))
  /\ get_arr (bs "includeSnapshotsFrom") (adm_json a) = map JStr (a_incl a).
Proof. destruct a. repeat split; reflexivity. Qed.

Lemma conv_json_fields v :
  jget (bs "name") (conv_json v) = Some (JStr (v_name v))
  /\ jget (bs "group") (conv_json v) = Some (JStr (v_group v))
  /\ get_arr (bs "includeSnapshotsFrom") (conv_json v) = map JStr (v_incl v).
Proof. destruct v. repeat split; reflexivity. Qed.

Local Opaque cfg_json sched_json kube_json adm_json conv_json.

(* ---- declared -> effective, item by item ---- *)

Lemma eff_incl_shape doc j :
  let d := get_strs (bs "includeSnapshotsFrom") j in
  prefixb d (eff_incl doc j) = true
  /\ nodupb (skipn (length d) (eff_incl doc j)) = true
  /\ forallb (fun x => negb (mem_bytes x d)) (skipn (length d) (eff_incl doc j)) = true.
Proof.
  unfold eff_incl. destruct (is_nil (get_str (bs "group") j)); [apply incl_shape_same|].
  destruct (is_nil (group_names doc (get_str (bs "group") j))); [apply incl_shape_same|apply incl_shape_merge].
Qed.

Lemma incl_ok_eff doc decl eff :
  get_arr (bs "includeSnapshotsFrom") eff = map JStr (eff_incl doc decl) -> incl_ok decl eff = true.
Proof.
  intros H. destruct (eff_incl_shape doc decl) as (H1 & H2 & H3). cbv zeta in H1, H2, H3.
  unfold incl_ok. replace (get_strs (bs "includeSnapshotsFrom") eff) with (eff_incl doc decl).
  - now rewrite H1, H2, H3.
  - unfold get_strs. now rewrite H, strs_map_JStr.
Qed.

Ltac projs := cbn [conv_sched conv_sched_v0 conv_kube conv_kube_v0 conv_adm conv_conv
                    s_name s_queue s_allow s_group s_incl s_crontab
                    k_name k_queue k_allow k_group k_incl k_events k_exec_sync k_wait_sync k_keep k_kind k_api k_jq
                    a_name a_group a_incl v_name v_group v_incl] in *.

Lemma sched_ok_v1 doc j : sched_ok true j (sched_json (conv_sched doc j)) = true.
Proof.
  destruct (sched_json_fields (conv_sched doc j)) as (H1 & H2 & H3 & H4 & H5 & H6). projs.
  unfold queue_of in *. unfold sched_ok.
  now rewrite (has_intro _ _ _ H1), (has_intro _ _ _ H2), (has_intro _ _ _ H3), (has_intro _ _ _ H4),
    (has_intro _ _ _ H5), (incl_ok_eff doc j _ H6).
Qed.

Lemma sched_ok_v0 j : sched_ok false j (sched_json (conv_sched_v0 j)) = true.
Proof.
  destruct (sched_json_fields (conv_sched_v0 j)) as (H1 & H2 & H3 & H4 & H5 & H6). projs.
  unfold queue_of in *. unfold sched_ok.
  now rewrite (has_intro _ _ _ H1), (has_intro _ _ _ H2), (has_intro _ _ _ H3), (has_intro _ _ _ H5).
Qed.

Lemma selects_ok_v1 doc j : selects_ok j (kube_json (conv_kube doc j)) = true.
Proof.
  destruct (kube_json_selects (conv_kube doc j)) as (S1 & S2 & S3 & S4 & S5 & S6).
  cbn [conv_kube k_api k_names k_namespaces k_lsel k_fsel k_ns_lsel] in *.
  unfold selects_ok, declared_names, declared_or_null.
  rewrite (has_intro _ _ _ S1).
  assert (E2 : has (bs "names") match jget (bs "nameSelector") j with
                                | Some ns => jstrs (get_strs (bs "matchNames") ns) | None => JNull end
                   (kube_json (conv_kube doc j)) = true).
  { apply has_intro. rewrite S2. unfold opt_names, jopt. now destruct (jget (bs "nameSelector") j). }
  rewrite E2.
  assert (E3 : has (bs "namespaces")
                 match match jget (bs "namespace") j with Some ns => jget (bs "nameSelector") ns | None => None end with
                 | Some ns => jstrs (get_strs (bs "matchNames") ns) | None => JNull end
                 (kube_json (conv_kube doc j)) = true).
  { apply has_intro. rewrite S3. unfold opt_names, jopt.
    destruct (jget (bs "namespace") j) as [ns|]; [|reflexivity]. now destruct (jget (bs "nameSelector") ns). }
  rewrite E3.
  assert (E4 : has (bs "labelSelector") match jget (bs "labelSelector") j with Some x => x | None => JNull end
                   (kube_json (conv_kube doc j)) = true).
  { apply has_intro. rewrite S4. unfold jopt. now destruct (jget (bs "labelSelector") j). }
  rewrite E4.
  assert (E5 : has (bs "fieldSelector") match jget (bs "fieldSelector") j with Some x => x | None => JNull end
                   (kube_json (conv_kube doc j)) = true).
  { apply has_intro. rewrite S5. unfold jopt. now destruct (jget (bs "fieldSelector") j). }
  rewrite E5.
  apply has_intro. rewrite S6. unfold jopt.
  destruct (jget (bs "namespace") j) as [ns|]; [|reflexivity]. now destruct (jget (bs "labelSelector") ns).
Qed.

Lemma kube_ok_v1 doc j : kube_ok true j (kube_json (conv_kube doc j)) = true.
Proof.
  pose proof (selects_ok_v1 doc j) as HS.
  destruct (kube_json_fields (conv_kube doc j)) as (H1 & H2 & H3 & H4 & H5 & H6 & H7 & H8 & H9 & H10 & H11). projs.
  unfold queue_of, kube_eff_name in *. unfold kube_ok, declared_events_v1.
  now rewrite (has_intro _ _ _ H1), (has_intro _ _ _ H2), (has_intro _ _ _ H3), (has_intro _ _ _ H4),
    (has_intro _ _ _ H5), (has_intro _ _ _ H6), (has_intro _ _ _ H7), (has_intro _ _ _ H8), (has_intro _ _ _ H9),
    (has_intro _ _ _ H10), (incl_ok_eff doc j _ H11), HS.
Qed.

Lemma v0_events_agree l :
  forallb (fun e => is_some (v0_event e)) l = true ->
  flat_map (fun e => match v0_event e with Some x => [x] | None => [] end) l = map legacy_event (strs l).
Proof.
  induction l as [|e l IH]; simpl; intros H; [reflexivity|].
  apply andb_true_iff in H as [He Hl]. rewrite (IH Hl).
  destruct e; try discriminate He. simpl in *. unfold legacy_event.
  destruct (bytes_eqb s (bs "add")); [reflexivity|].
  destruct (bytes_eqb s (bs "update")); [reflexivity|].
  destruct (bytes_eqb s (bs "delete")); [reflexivity|discriminate He].
Qed.

Lemma v0_events_declared j :
  check_kube_v0 j = true -> k_events (conv_kube_v0 j) = declared_events_v0 j.
Proof.
  intros Hc. unfold check_kube_v0 in Hc. repeat (apply andb_true_iff in Hc as [Hc ?]).
  unfold declared_events_v0. cbn [conv_kube_v0 k_events]. unfold get_arr in *.
  destruct (jget (bs "event") j) as [[| | | | |l|]|]; try reflexivity. now apply v0_events_agree.
Qed.

Lemma kube_ok_v0 j : check_kube_v0 j = true -> kube_ok false j (kube_json (conv_kube_v0 j)) = true.
Proof.
  intros Hc. pose proof (v0_events_declared j Hc) as He.
  destruct (kube_json_fields (conv_kube_v0 j)) as (H1 & H2 & H3 & H4 & H5 & H6 & H7 & H8 & H9 & H10 & H11).
  rewrite He in H7. projs. unfold kube_ok.
  now rewrite (has_intro _ _ _ H1), (has_intro _ _ _ H2), (has_intro _ _ _ H3),
    (has_intro _ _ _ H5), (has_intro _ _ _ H7), (has_intro _ _ _ H8), (has_intro _ _ _ H9).
Qed.

Lemma adm_named_ok df doc j : named_ok j (adm_json (conv_adm df doc j)) = true.
Proof.
  destruct (adm_json_fields (conv_adm df doc j)) as (H1 & H2 & H3). projs. unfold named_ok.
  now rewrite (has_intro _ _ _ H1), (has_intro _ _ _ H2), (incl_ok_eff doc j _ H3).
Qed.

Lemma conv_named_ok doc j : named_ok j (conv_json (conv_conv doc j)) = true.
Proof.
  destruct (conv_json_fields (conv_conv doc j)) as (H1 & H2 & H3). projs. unfold named_ok.
  now rewrite (has_intro _ _ _ H1), (has_intro _ _ _ H2), (incl_ok_eff doc j _ H3).
Qed.

Lemma forall2b_map A B (f : A -> B -> bool) (g : A -> B) l :
  (forall x, In x l -> f x (g x) = true) -> forall2b f l (map g l) = true.
Proof.
  induction l as [|x l IH]; simpl; intros H; [reflexivity|].
  rewrite (H x (or_introl eq_refl)), IH; [reflexivity|]. intros y Hy. apply H. now right.
Qed.

(* ---- group merge ---- *)

Lemma get_str_of k j s : jget k j = Some (JStr s) -> get_str k j = s.
Proof. intros H. unfold get_str. now rewrite H. Qed.

Lemma eff_group_names_v1 dn doc g :
  eff_group_names (cfg_json (convert_v1 dn doc)) g = group_names doc g.
Proof.
  unfold eff_group_names, group_names.
  destruct (cfg_json_fields (convert_v1 dn doc)) as (_ & _ & _ & Hk & _). rewrite Hk.
  cbn [convert_v1 c_kubes]. induction (get_arr (bs "kubernetes") doc) as [|j l IH]; simpl; [reflexivity|].
  destruct (kube_json_fields (conv_kube doc j)) as (H1 & _ & _ & H4 & _). projs.
  rewrite (get_str_of _ _ _ H4).
  destruct (bytes_eqb (get_str (bs "group") j) g); simpl; [rewrite (get_str_of _ _ _ H1)|]; now rewrite IH.
Qed.

Lemma group_cover doc j :
  is_nil (get_str (bs "group") j) = false ->
  forallb (fun n => mem_bytes n (eff_incl doc j)) (group_names doc (get_str (bs "group") j)) = true.
Proof.
  intros Hg. unfold eff_incl. rewrite Hg.
  destruct (group_names doc (get_str (bs "group") j)) as [|n0 ns] eqn:E; [reflexivity|].
  cbn [is_nil]. rewrite forallb_forall. intros n Hn. now apply merge_arrays_covers.
Qed.

Lemma member_ok dn doc j (b : json) :
  jget (bs "group") b = Some (JStr (get_str (bs "group") j)) ->
  get_arr (bs "includeSnapshotsFrom") b = map JStr (eff_incl doc j) ->
  group_member_ok (cfg_json (convert_v1 dn doc)) b = true.
Proof.
  intros Hg Hi. unfold group_member_ok. rewrite (get_str_of _ _ _ Hg).
  destruct (is_nil (get_str (bs "group") j)) eqn:E; [reflexivity|].
  rewrite eff_group_names_v1. unfold get_strs. rewrite Hi, strs_map_JStr. now apply group_cover.
Qed.

Lemma forallb_map_all A B (f : B -> bool) (g : A -> B) l :
  (forall x, f (g x) = true) -> forallb f (map g l) = true.
Proof. intros H. induction l as [|x l IH]; simpl; [reflexivity|]. now rewrite H, IH. Qed.

Lemma group_ok_v1 dn doc : group_ok (cfg_json (convert_v1 dn doc)) = true.
Proof.
  unfold group_ok, binding_keys. cbn [forallb].
  destruct (cfg_json_fields (convert_v1 dn doc)) as (_ & _ & Hs & Hk & Hv & Hm & Hc).
  rewrite Hs, Hk, Hv, Hm, Hc. cbn [convert_v1 c_scheds c_kubes c_validating c_mutating c_conv].
  rewrite !map_map, !andb_true_r. repeat (apply andb_true_iff; split); apply forallb_map_all; intros j.
  - destruct (sched_json_fields (conv_sched doc j)) as (_ & _ & _ & H4 & _ & H6). projs. now apply (member_ok dn doc j).
  - destruct (kube_json_fields (conv_kube doc j)) as (_ & _ & _ & H4 & _ & _ & _ & _ & _ & _ & H11). projs.
    now apply (member_ok dn doc j).
  - destruct (adm_json_fields (conv_adm (bs "Fail") doc j)) as (_ & H2 & H3). projs. now apply (member_ok dn doc j).
  - destruct (adm_json_fields (conv_adm (bs "Fail") doc j)) as (_ & H2 & H3). projs. now apply (member_ok dn doc j).
  - destruct (conv_json_fields (conv_conv doc j)) as (_ & H2 & H3). projs. now apply (member_ok dn doc j).
Qed.

Lemma group_ok_v0 doc : group_ok (cfg_json (convert_v0 doc)) = true.
Proof.
  unfold group_ok, binding_keys. cbn [forallb].
  destruct (cfg_json_fields (convert_v0 doc)) as (_ & _ & Hs & Hk & Hv & Hm & Hc).
  rewrite Hs, Hk, Hv, Hm, Hc. cbn [convert_v0 c_scheds c_kubes c_validating c_mutating c_conv].
  rewrite !map_map. cbn [map forallb]. rewrite !andb_true_r. apply andb_true_iff; split; apply forallb_map_all; intros j; unfold group_member_ok.
  - destruct (sched_json_fields (conv_sched_v0 j)) as (_ & _ & _ & H4 & _). projs. now rewrite (get_str_of _ _ _ H4).
  - destruct (kube_json_fields (conv_kube_v0 j)) as (_ & _ & _ & H4 & _). projs. now rewrite (get_str_of _ _ _ H4).
Qed.

(* ---- version detection ---- *)

Lemma detect_v1 doc : detect_version doc = VerV1 -> is_v1 doc = true.
Proof.
  unfold detect_version, is_v1, jget. destruct doc as [| | | | | |m]; try discriminate.
  destruct (assoc (bs "configVersion") m) as [[| | | |s| |]|]; try discriminate.
  destruct (bytes_eqb s (bs "v1")); [reflexivity|]. destruct (bytes_eqb s (bs "v0")); discriminate.
Qed.

Lemma detect_v0 doc : detect_version doc = VerV0 -> is_v1 doc = false.
Proof.
  unfold detect_version, is_v1, jget. destruct doc as [| | | | | |m]; try discriminate; try reflexivity.
  destruct (assoc (bs "configVersion") m) as [[| | | |s| |]|]; try discriminate; try reflexivity.
  destruct (bytes_eqb s (bs "v1")); [discriminate|reflexivity].
Qed.

Lemma is_v1_detect doc : is_v1 doc = true -> detect_version doc = VerV1.
Proof.
  unfold detect_version, is_v1, jget. destruct doc as [| | | | | |m]; try discriminate.
  destruct (assoc (bs "configVersion") m) as [[| | | |s| |]|]; try discriminate.
  intros H. now rewrite H.
Qed.

(* ---- a loaded document: declared bindings in order with the defaults, group merge ---- *)

Section Loaded.
  Variable cron_ok : bytes -> bool.
  Variable label_selector_ok : json -> bool.
  Variable duration_ns : bytes -> option Z.
  Variable webhook_ok : json -> bool.

  Notation load' := (load cron_ok label_selector_ok duration_ns webhook_ok).

  Lemma startup_json doc :
    jopt JNum (startup_of doc)
    = match jget (bs "onStartup") doc with Some (JNum z) => JNum z | _ => JNull end.
  Proof. unfold startup_of. destruct (jget (bs "onStartup") doc) as [[]|]; reflexivity. Qed.

  Lemma loaded_v1 doc : is_v1 doc = true -> loaded_ok doc (cfg_json (convert_v1 duration_ns doc)) = true.
  Proof.
    intros Hv. unfold loaded_ok. rewrite Hv.
    destruct (cfg_json_fields (convert_v1 duration_ns doc)) as (H1 & H2 & Hs & Hk & Hva & Hm & Hc).
    rewrite Hs, Hk, Hva, Hm, Hc, group_ok_v1.
    cbn [convert_v1 c_version c_startup c_scheds c_kubes c_validating c_mutating c_conv] in *.
    rewrite startup_json in H2. rewrite (has_intro _ _ _ H1), (has_intro _ _ _ H2), !map_map.
    rewrite !forall2b_map; [reflexivity| | | | |]; intros j _.
    - apply conv_named_ok.
    - apply adm_named_ok.
    - apply adm_named_ok.
    - apply kube_ok_v1.
    - apply sched_ok_v1.
  Qed.

  Lemma loaded_v0 doc :
    is_v1 doc = false -> checks_v0 cron_ok doc = true -> loaded_ok doc (cfg_json (convert_v0 doc)) = true.
  Proof.
    intros Hv Hc. unfold loaded_ok. rewrite Hv.
    destruct (cfg_json_fields (convert_v0 doc)) as (H1 & H2 & Hs & Hk & _).
    rewrite Hs, Hk, group_ok_v0.
    cbn [convert_v0 c_version c_startup c_scheds c_kubes] in *.
    rewrite startup_json in H2. rewrite (has_intro _ _ _ H1), (has_intro _ _ _ H2), !map_map.
    unfold checks_v0 in Hc. apply andb_true_iff in Hc as [_ Hck]. rewrite forallb_forall in Hck.
    rewrite !forall2b_map; [reflexivity| |].
    - intros j Hj. apply kube_ok_v0. now apply Hck.
    - intros j _. apply sched_ok_v0.
  Qed.

  Lemma loaded_spec doc c : load' doc = Loaded c -> loaded_ok doc (cfg_json c) = true.
  Proof.
    unfold load. destruct (detect_version doc) eqn:Hd; [| |discriminate].
    - destruct (check schema_v0 doc && checks_v0 cron_ok doc) eqn:E; [|discriminate].
      intros H; inversion H; subst. apply andb_true_iff in E as [_ E].
      apply loaded_v0; [now apply detect_v0|exact E].
    - destruct (check schema_v1 doc && checks_v1 cron_ok label_selector_ok duration_ns webhook_ok doc);
        [|discriminate].
      intros H; inversion H; subst. apply loaded_v1. now apply detect_v1.
  Qed.
End Loaded.

(* ---- rejections ---- *)

Lemma forallb_false_of A (f : A -> bool) l x : In x l -> f x = false -> forallb f l = false.
Proof.
  intros Hin Hf. destruct (forallb f l) eqn:E; [|reflexivity].
  rewrite forallb_forall in E. rewrite (E x Hin) in Hf. discriminate.
Qed.

Lemma assoc_In k m v : assoc k m = Some v -> In (k, v) m.
Proof.
  induction m as [|[k' v'] m IH]; simpl; [discriminate|].
  destruct (bytes_eqb k k') eqn:E.
  - intros H; inversion H; subst. apply bytes_eqb_eq in E; subst. now left.
  - intros H. right. now apply IH.
Qed.

Lemma jkeys_In k j : In k (jkeys j) -> exists m v, j = JObj m /\ In (k, v) m.
Proof.
  destruct j; simpl; try contradiction. intros H. apply in_map_iff in H as [[k' v] [E Hin]].
  simpl in E; subst. now exists m, v.
Qed.

Lemma not_mem_cons x y l : mem_bytes x (y :: l) = false -> bytes_eqb x y = false /\ mem_bytes x l = false.
Proof. unfold mem_bytes; simpl. intros H. now apply orb_false_iff in H. Qed.

(* an unknown top-level key fails the v1 / v0 schema *)
Lemma schema_v1_unknown_key m k v :
  In (k, v) m -> mem_bytes k top_keys_v1 = false -> check schema_v1 (JObj m) = false.
Proof.
  intros Hin Hk. unfold top_keys_v1 in Hk.
  repeat (apply not_mem_cons in Hk as [? Hk]).
  cbn [check schema_v1]. apply andb_false_iff; left. apply andb_false_iff; left. apply andb_false_iff; right.
  apply (forallb_false_of _ _ _ (k, v) Hin). cbn [fst snd].
  repeat match goal with H : bytes_eqb k _ = false |- _ => rewrite H; clear H end. reflexivity.
Qed.

Lemma schema_v0_unknown_key m k v :
  In (k, v) m -> mem_bytes k top_keys_v0 = false -> check schema_v0 (JObj m) = false.
Proof.
  intros Hin Hk. unfold top_keys_v0 in Hk.
  repeat (apply not_mem_cons in Hk as [? Hk]).
  cbn [check schema_v0]. apply andb_false_iff; left. apply andb_false_iff; left. apply andb_false_iff; right.
  apply (forallb_false_of _ _ _ (k, v) Hin). cbn [fst snd].
  repeat match goal with H : bytes_eqb k _ = false |- _ => rewrite H; clear H end. reflexivity.
Qed.

Section Rejections.
  Variable cron_ok : bytes -> bool.
  Variable label_selector_ok : json -> bool.
  Variable duration_ns : bytes -> option Z.
  Variable webhook_ok : json -> bool.

  Notation load' := (load cron_ok label_selector_ok duration_ns webhook_ok).
  Notation checks' := (checks_v1 cron_ok label_selector_ok duration_ns webhook_ok).

  Lemma rejects_unknown_top_field doc : unknown_top_field doc = true -> load' doc = Rejected.
  Proof.
    unfold unknown_top_field. intros H. apply existsb_exists in H as [k [Hin Hk]].
    apply negb_true_iff in Hk. destruct (jkeys_In _ _ Hin) as [m [v [-> Hm]]].
    unfold load. destruct (detect_version (JObj m)) eqn:Hd; [| |reflexivity].
    - rewrite (detect_v0 _ Hd) in Hk. now rewrite (schema_v0_unknown_key m k v Hm Hk).
    - rewrite (detect_v1 _ Hd) in Hk. now rewrite (schema_v1_unknown_key m k v Hm Hk).
  Qed.

  Lemma rejects_bad_version doc : bad_version doc = true -> load' doc = Rejected.
  Proof.
    unfold bad_version, jget. destruct doc as [| | | | | |m]; try discriminate.
    destruct (assoc (bs "configVersion") m) as [v|] eqn:Ha; [|discriminate].
    intros Hb. unfold load, detect_version. rewrite Ha.
    destruct v as [| | | |s| |]; try reflexivity.
    apply negb_true_iff in Hb. rewrite Hb.
    destruct (bytes_eqb s (bs "v0")); [|reflexivity].
    now rewrite (schema_v0_unknown_key m (bs "configVersion") (JStr s) (assoc_In _ _ _ Ha) eq_refl).
  Qed.

  (* the five include checks of checks_v1 *)
  Lemma checks_includes doc k j n :
    checks' doc = true -> In k binding_keys -> In j (get_arr k doc) ->
    In n (get_strs (bs "includeSnapshotsFrom") j) ->
    Nat.eqb (count_name n (declared_kube_names doc)) 1 = true.
  Proof.
    unfold checks_v1. intros Hc Hk Hj Hn.
    repeat (apply andb_true_iff in Hc as [Hc ?]).
    change (declared_kube_names doc) with (kube_names_v1 doc).
    assert (Hinc : forall l, includes_ok (kube_names_v1 doc) l = true -> In n l ->
                             Nat.eqb (count_name n (kube_names_v1 doc)) 1 = true).
    { intros l Hl Hin. unfold includes_ok in Hl. rewrite forallb_forall in Hl. exact (Hl n Hin). }
    unfold binding_keys in Hk. simpl in Hk.
    repeat match goal with H : forallb _ _ = true |- _ => rewrite forallb_forall in H end.
    destruct Hk as [<-|[<-|[<-|[<-|[<-|[]]]]]].
    - match goal with H : forall x, In x (get_arr (bs "schedule") doc) -> _ |- _ => specialize (H j Hj) end.
      unfold check_sched in *. match goal with H : _ && _ = true |- _ => apply andb_true_iff in H as [_ H]; eapply Hinc; eauto end.
    - match goal with H : forall x, In x (get_arr (bs "kubernetes") doc) -> includes_ok _ _ = true |- _ => specialize (H j Hj); eapply Hinc; eauto end.
    - match goal with H : forall x, In x (get_arr (bs "kubernetesValidating") doc) -> check_adm _ _ _ = true |- _ => specialize (H j Hj); unfold check_adm in H end.
      match goal with H : _ && _ && _ = true |- _ => apply andb_true_iff in H as [H _]; apply andb_true_iff in H as [H _]; eapply Hinc; eauto end.
    - match goal with H : forall x, In x (get_arr (bs "kubernetesMutating") doc) -> check_adm _ _ _ = true |- _ => specialize (H j Hj); unfold check_adm in H end.
      match goal with H : _ && _ && _ = true |- _ => apply andb_true_iff in H as [H _]; apply andb_true_iff in H as [H _]; eapply Hinc; eauto end.
    - match goal with H : forall x, In x (get_arr (bs "kubernetesCustomResourceConversion") doc) -> _ |- _ => specialize (H j Hj); unfold check_conv in H; eapply Hinc; eauto end.
  Qed.

  Lemma rejects_bad_include doc : bad_include doc = true -> load' doc = Rejected.
  Proof.
    unfold bad_include. intros H. apply andb_true_iff in H as [Hv H].
    apply existsb_exists in H as [k [Hk H]]. apply existsb_exists in H as [j [Hj H]].
    apply existsb_exists in H as [n [Hn H]]. apply negb_true_iff in H.
    unfold load. rewrite (is_v1_detect _ Hv).
    destruct (checks' doc) eqn:Hc; [|now rewrite andb_false_r].
    now rewrite (checks_includes doc k j n Hc Hk Hj Hn) in H.
  Qed.

  (* ---- inter-field rules ---- *)

  Lemma check_kube_clash j : name_field_clash_in j = true -> check_kube label_selector_ok j = false.
  Proof.
    unfold name_field_clash_in, declared_match_names, declared_field_exprs, on_metadata_name, check_kube.
    intros H. rewrite H. now rewrite andb_false_r.
  Qed.

  Lemma checks_kube_false doc j :
    In j (get_arr (bs "kubernetes") doc) -> check_kube label_selector_ok j = false -> checks' doc = false.
  Proof.
    intros Hj Hc. unfold checks_v1. do 7 (apply andb_false_iff; left). apply andb_false_iff; right.
    now apply (forallb_false_of _ _ _ j Hj).
  Qed.

  Lemma rejects_name_field_clash doc : name_field_clash doc = true -> load' doc = Rejected.
  Proof.
    unfold name_field_clash. intros H. apply andb_true_iff in H as [Hv H].
    apply existsb_exists in H as [j [Hj H]].
    unfold load. rewrite (is_v1_detect _ Hv).
    rewrite (checks_kube_false doc j Hj (check_kube_clash j H)). now rewrite andb_false_r.
  Qed.

  Lemma expr_bad_not_ok e : expr_opvals_bad e = true -> lexpr_opvals_ok e = false.
  Proof.
    unfold expr_opvals_bad, op_is, lexpr_opvals_ok, mem_bytes. cbn [existsb].
    set (op := get_str (bs "operator") e). set (vals := get_arr (bs "values") e).
    intros H. apply orb_true_iff in H as [H|H]; apply andb_true_iff in H as [Ho Hn].
    - rewrite orb_false_r in Ho. rewrite Ho. now rewrite Hn.
    - rewrite orb_false_r in Ho.
      destruct (bytes_eqb op (bs "In") || bytes_eqb op (bs "NotIn")) eqn:E.
      + (* an operator is one string *)
        exfalso. apply orb_true_iff in E. apply orb_true_iff in Ho.
        destruct E as [E|E]; destruct Ho as [Ho|Ho];
          apply bytes_eqb_eq in E; apply bytes_eqb_eq in Ho; rewrite E in Ho; discriminate.
      + rewrite Ho. now apply negb_true_iff in Hn.
  Qed.

  Lemma sel_bad_not_ok s : selector_opvals_bad s = true -> lsel_opvals_ok s = false.
  Proof.
    unfold selector_opvals_bad, lsel_opvals_ok. intros H. apply existsb_exists in H as [e [He H]].
    exact (forallb_false_of _ _ _ e He (expr_bad_not_ok e H)).
  Qed.

  (* a binding one of whose declared label selectors is bad fails both selector checks' conjunction *)
  Lemma opt_sels_false b :
    existsb selector_opvals_bad (declared_label_selectors b) = true ->
    opt_sel_ok label_selector_ok (bs "labelSelector") b
    && match jget (bs "namespace") b with Some ns => opt_sel_ok label_selector_ok (bs "labelSelector") ns | None => true end
    = false.
  Proof.
    unfold declared_label_selectors, opt_sel_ok. intros H. apply existsb_exists in H as [s [Hs H]].
    apply sel_bad_not_ok in H. apply in_app_or in Hs as [Hs|Hs].
    - destruct (jget (bs "labelSelector") b) as [s'|]; [|contradiction]. destruct Hs as [<-|[]]. now rewrite H.
    - destruct (jget (bs "namespace") b) as [ns|]; [|contradiction].
      destruct (jget (bs "labelSelector") ns) as [s'|]; [|contradiction]. destruct Hs as [<-|[]].
      rewrite H. now rewrite andb_false_r.
  Qed.

  Lemma rejects_bad_label_opvals doc : bad_label_opvals doc = true -> load' doc = Rejected.
  Proof.
    unfold bad_label_opvals. intros H. apply andb_true_iff in H as [Hv H].
    apply existsb_exists in H as [k [Hk H]]. apply existsb_exists in H as [b [Hb H]].
    apply opt_sels_false in H.
    unfold load. rewrite (is_v1_detect _ Hv).
    assert (E : checks' doc = false).
    { unfold selector_keys in Hk. cbn [In] in Hk. destruct Hk as [<-|[<-|[<-|[]]]].
      - apply (checks_kube_false doc b Hb). unfold check_kube.
        rewrite <- !andb_assoc. rewrite andb_assoc with (b1 := opt_sel_ok _ _ _). rewrite H.
        now rewrite andb_false_r.
      - unfold checks_v1. do 4 (apply andb_false_iff; left). apply andb_false_iff; right.
        apply (forallb_false_of _ _ _ b Hb). unfold check_adm. rewrite <- andb_assoc. rewrite H. now rewrite andb_false_r.
      - unfold checks_v1. apply andb_false_iff; left. apply andb_false_iff; right.
        apply (forallb_false_of _ _ _ b Hb). unfold check_adm. rewrite <- andb_assoc. rewrite H. now rewrite andb_false_r. }
    now rewrite E, andb_false_r.
  Qed.

  Lemma rejects_must_reject doc : must_reject doc = true -> load' doc = Rejected.
  Proof.
    unfold must_reject. intros H. repeat (apply orb_true_iff in H as [H|H]).
    - now apply rejects_bad_version.
    - now apply rejects_bad_include.
    - now apply rejects_unknown_top_field.
    - now apply rejects_name_field_clash.
    - now apply rejects_bad_label_opvals.
  Qed.
End Rejections.

Lemma get_arr_In k doc j :
  In j (get_arr k doc) -> exists m l, doc = JObj m /\ assoc k m = Some (JArr l) /\ In j l.
Proof.
  unfold get_arr, jget. destruct doc as [| | | | | |m]; try contradiction.
  destruct (assoc k m) as [[| | | | |l|]|] eqn:E; try contradiction. intros H. now exists m, l.
Qed.

Definition schedule_keys : list bytes :=
  [bs "name"; bs "crontab"; bs "allowFailure"; bs "includeSnapshotsFrom"; bs "queue"; bs "group"].
Definition kubernetes_keys : list bytes :=
  [bs "watchEvent"; bs "executeHookOnEvent"; bs "name"; bs "apiVersion"; bs "kind"; bs "includeSnapshotsFrom";
   bs "queue"; bs "jqFilter"; bs "keepFullObjectsInMemory"; bs "allowFailure"; bs "executeHookOnSynchronization";
   bs "waitForSynchronization"; bs "resynchronizationPeriod"; bs "nameSelector"; bs "labelSelector";
   bs "fieldSelector"; bs "group"; bs "namespace"].

Lemma schedule_item_unknown_key mi k v :
  In (k, v) mi -> mem_bytes k schedule_keys = false -> check schedule_item_s (JObj mi) = false.
Proof.
  intros Hin Hk. unfold schedule_keys in Hk. repeat (apply not_mem_cons in Hk as [? Hk]).
  cbn [check schedule_item_s obj]. apply andb_false_iff; left. apply andb_false_iff; left. apply andb_false_iff; right.
  apply (forallb_false_of _ _ _ (k, v) Hin). cbn [fst snd].
  repeat match goal with H : bytes_eqb k _ = false |- _ => rewrite H; clear H end. reflexivity.
Qed.

Lemma kubernetes_item_unknown_key mi k v :
  In (k, v) mi -> mem_bytes k kubernetes_keys = false -> check kubernetes_item_s (JObj mi) = false.
Proof.
  intros Hin Hk. unfold kubernetes_keys in Hk. repeat (apply not_mem_cons in Hk as [? Hk]).
  cbn [check kubernetes_item_s obj]. apply andb_false_iff; left. apply andb_false_iff; left. apply andb_false_iff; right.
  apply (forallb_false_of _ _ _ (k, v) Hin). cbn [fst snd].
  repeat match goal with H : bytes_eqb k _ = false |- _ => rewrite H; clear H end. reflexivity.
Qed.

Lemma schema_v1_schedule_item m l j :
  In (bs "schedule", JArr l) m -> In j l -> check schedule_item_s j = false -> check schema_v1 (JObj m) = false.
Proof.
  intros Hin Hj Hc. cbn [check schema_v1].
  apply andb_false_iff; left. apply andb_false_iff; left. apply andb_false_iff; right.
  apply (forallb_false_of _ _ _ _ Hin). cbn -[check schedule_item_s].
  apply andb_false_iff; right. now apply (forallb_false_of _ _ _ j Hj).
Qed.

Lemma schema_v1_kubernetes_item m l j :
  In (bs "kubernetes", JArr l) m -> In j l -> check kubernetes_item_s j = false -> check schema_v1 (JObj m) = false.
Proof.
  intros Hin Hj Hc. cbn [check schema_v1].
  apply andb_false_iff; left. apply andb_false_iff; left. apply andb_false_iff; right.
  apply (forallb_false_of _ _ _ _ Hin). cbn -[check kubernetes_item_s].
  apply andb_false_iff; right. now apply (forallb_false_of _ _ _ j Hj).
Qed.

Section Rejections2.
  Variable cron_ok : bytes -> bool.
  Variable label_selector_ok : json -> bool.
  Variable duration_ns : bytes -> option Z.
  Variable webhook_ok : json -> bool.

  Notation load' := (load cron_ok label_selector_ok duration_ns webhook_ok).

  Lemma rejects_unknown_binding_field doc j mi k v :
    is_v1 doc = true ->
    (In j (get_arr (bs "schedule") doc) /\ mem_bytes k schedule_keys = false
     \/ In j (get_arr (bs "kubernetes") doc) /\ mem_bytes k kubernetes_keys = false) ->
    j = JObj mi -> In (k, v) mi -> load' doc = Rejected.
  Proof.
    intros Hv H -> Hkv. unfold load. rewrite (is_v1_detect _ Hv).
    destruct H as [[Hj Hk]|[Hj Hk]]; destruct (get_arr_In _ _ _ Hj) as [m [l [-> [Ha Hl]]]].
    - now rewrite (schema_v1_schedule_item m l _ (assoc_In _ _ _ Ha) Hl (schedule_item_unknown_key mi k v Hkv Hk)).
    - now rewrite (schema_v1_kubernetes_item m l _ (assoc_In _ _ _ Ha) Hl (kubernetes_item_unknown_key mi k v Hkv Hk)).
  Qed.

  Lemma rejects_bad_crontab doc j :
    In j (get_arr (bs "schedule") doc) -> cron_ok (get_str (bs "crontab") j) = false -> load' doc = Rejected.
  Proof.
    intros Hj Hc. unfold load. destruct (detect_version doc); [| |reflexivity].
    - assert (E : checks_v0 cron_ok doc = false).
      { unfold checks_v0. apply andb_false_iff; left. apply (forallb_false_of _ _ _ j Hj).
        unfold check_sched_v0. now rewrite Hc, andb_false_r. }
      now rewrite E, andb_false_r.
    - assert (E : checks_v1 cron_ok label_selector_ok duration_ns webhook_ok doc = false).
      { unfold checks_v1. do 5 (apply andb_false_iff; left). apply andb_false_iff; right.
        apply (forallb_false_of _ _ _ j Hj). unfold check_sched. now rewrite Hc. }
      now rewrite E, andb_false_r.
  Qed.

  (* an invalid label selector of a kubernetes binding — its own or its namespace's *)
  Lemma rejects_invalid_selector doc j s :
    is_v1 doc = true -> In j (get_arr (bs "kubernetes") doc) ->
    (jget (bs "labelSelector") j = Some s
     \/ exists ns, jget (bs "namespace") j = Some ns /\ jget (bs "labelSelector") ns = Some s) ->
    label_selector_ok s = false -> load' doc = Rejected.
  Proof.
    intros Hv Hj Hs Hbad. unfold load. rewrite (is_v1_detect _ Hv).
    assert (E : checks_v1 cron_ok label_selector_ok duration_ns webhook_ok doc = false).
    { unfold checks_v1. do 7 (apply andb_false_iff; left). apply andb_false_iff; right.
      apply (forallb_false_of _ _ _ j Hj). unfold check_kube, opt_sel_ok.
      destruct Hs as [Hs|[ns [Hn Hs]]].
      - rewrite Hs, Hbad. now rewrite !andb_false_r.
      - rewrite Hn, Hs, Hbad. now rewrite !andb_false_r. }
    now rewrite E, andb_false_r.
  Qed.

  (* ... and of an admission binding *)
  Lemma rejects_invalid_admission_selector doc k j s :
    is_v1 doc = true -> k = bs "kubernetesValidating" \/ k = bs "kubernetesMutating" ->
    In j (get_arr k doc) ->
    (jget (bs "labelSelector") j = Some s
     \/ exists ns, jget (bs "namespace") j = Some ns /\ jget (bs "labelSelector") ns = Some s) ->
    label_selector_ok s = false -> load' doc = Rejected.
  Proof.
    intros Hv Hk Hj Hs Hbad. unfold load. rewrite (is_v1_detect _ Hv).
    assert (Hadm : check_adm label_selector_ok (kube_names_v1 doc) j = false).
    { unfold check_adm, opt_sel_ok. destruct Hs as [Hs|[ns [Hn Hs]]].
      - rewrite Hs, Hbad. now rewrite !andb_false_r.
      - rewrite Hn, Hs, Hbad. now rewrite !andb_false_r. }
    assert (E : checks_v1 cron_ok label_selector_ok duration_ns webhook_ok doc = false).
    { unfold checks_v1. destruct Hk as [-> | ->].
      - do 4 (apply andb_false_iff; left). apply andb_false_iff; right. now apply (forallb_false_of _ _ _ j Hj).
      - apply andb_false_iff; left. apply andb_false_iff; right. now apply (forallb_false_of _ _ _ j Hj). }
    now rewrite E, andb_false_r.
  Qed.

  (* ---- the contract on the model's own observation ---- *)

  Definition obs_of (r : result) : obs :=
    match r with Loaded c => OLoaded (cfg_json c) | Rejected => ORejected end.

  Lemma obs_eqb_refl o : obs_eqb o o = true.
  Proof. destruct o; simpl; auto using json_eqb_refl. Qed.

  Lemma contract doc : P (Some doc) false (obs_of (load' doc)) (obs_of (load' doc)) = true.
  Proof.
    unfold P. rewrite obs_eqb_refl. simpl.
    destruct (load' doc) as [c|] eqn:E; simpl.
    - rewrite (loaded_spec _ _ _ _ _ _ E). destruct (must_reject doc) eqn:M; [|reflexivity].
      rewrite (rejects_must_reject _ _ _ _ _ M) in E. discriminate.
    - now destruct (must_reject doc).
  Qed.
End Rejections2.

Lemma loaded_group_ok doc c : loaded_ok doc c = true -> group_ok c = true.
Proof. unfold loaded_ok. intros H. now apply andb_true_iff in H as [_ H]. Qed.

(* ---- concrete documents (non-vacuity, witnesses) ---- *)

Definition all_ok_cron (_ : bytes) := true.
Definition all_ok_sel (_ : json) := true.
Definition dur_3s (s : bytes) : option Z := if bytes_eqb s (bs "3s") then Some 3000000000%Z else None.

Definition jo (l : list (bytes * json)) : json := mkobj l.

(* HOOKS.md "Group binding context example" + settings *)
Definition doc_group : json :=
  jo [(bs "configVersion", JStr (bs "v1"));
      (bs "settings", jo [(bs "executionMinInterval", JStr (bs "3s")); (bs "executionBurst", JNum 1)]);
      (bs "schedule", JArr [jo [(bs "name", JStr (bs "periodic-checking")); (bs "crontab", JStr (bs "0 */3 * * *"));
                                (bs "group", JStr (bs "pods"))]]);
      (bs "kubernetes", JArr [jo [(bs "name", JStr (bs "monitor-pods")); (bs "kind", JStr (bs "Pod"));
                                  (bs "jqFilter", JStr (bs ".metadata.labels")); (bs "group", JStr (bs "pods"))];
                              jo [(bs "kind", JStr (bs "ConfigMap")); (bs "group", JStr (bs "pods"));
                                  (bs "executeHookOnEvent", JArr [])]])].

Lemma doc_group_loads :
  match load all_ok_cron all_ok_sel dur_3s all_ok_sel doc_group with
  | Loaded c =>
      map s_incl (c_scheds c) = [[bs "monitor-pods"; bs "kubernetes"]]
      /\ map s_queue (c_scheds c) = [bs "main"]
      /\ map k_name (c_kubes c) = [bs "monitor-pods"; bs "kubernetes"]
      /\ map k_events (c_kubes c) = [all3; []]
      /\ map k_keep (c_kubes c) = [true; true] /\ map k_exec_sync (c_kubes c) = [true; true]
      /\ c_settings c = Some (3000000000%Z, 1%Z)
  | Rejected => False
  end.
Proof. vm_compute. repeat split. Qed.

(* an include naming two bindings / no binding, an unknown version, a legacy document *)
Definition doc_ambiguous : json :=
  jo [(bs "configVersion", JStr (bs "v1"));
      (bs "kubernetes", JArr [jo [(bs "kind", JStr (bs "Pod"))]; jo [(bs "kind", JStr (bs "ConfigMap"))]]);
      (bs "schedule", JArr [jo [(bs "crontab", JStr (bs "* * * * *"));
                                (bs "includeSnapshotsFrom", JArr [JStr (bs "kubernetes")])]])].
Definition doc_v2 : json := jo [(bs "configVersion", JStr (bs "v2")); (bs "onStartup", JNum 1)].
Definition doc_v0 : json :=
  jo [(bs "onKubernetesEvent", JArr [jo [(bs "kind", JStr (bs "Pod"))]]);
      (bs "schedule", JArr [jo [(bs "crontab", JStr (bs "* * * * *")); (bs "whatever", JBool true)]])].

Lemma examples_reject_and_v0 :
  bad_include doc_ambiguous = true /\ bad_version doc_v2 = true
  /\ match load all_ok_cron all_ok_sel dur_3s all_ok_sel doc_v0 with
     | Loaded c => map k_events (c_kubes c) = [all3] /\ map k_keep (c_kubes c) = [true]
                   /\ map k_name (c_kubes c) = [bs "onKubernetesEvent"] /\ map s_name (c_scheds c) = [bs "schedule"]
     | Rejected => False
     end.
Proof. vm_compute. repeat split. Qed.
