(* C12_PlaceModel.v — WHERE a hook is started: "a hook is started in its own directory".  No proofs here.

   C12_FsModel has one flat directory (the operator's temp directory and "elsewhere"): enough for what is at
   the five paths.  The working directory of the hook process depends on HOW the hook file is present in the
   hooks tree, so this file extends the file-system model by directories and paths:

   1. THE TREE (the operating system's part, shared with C12_PlaceSpec): directories are numbers (0 = the root
      of the case's sandbox), an entry binds a name in a directory to a regular file (executable or not, with a
      content number), to a directory, or to a symbolic link whose target is a list of components, absolute
      (from the root) or relative (from the directory holding the link), ".." included.  [resolve] is namei:
      every symbolic link met on the way, also as the last component, is followed (what chdir, execve and open
      do).  Links nest at most [max_depth] deep (the kernel bounds the NUMBER of links followed in one walk by
      40; the generated layouts follow fewer than ten, where the two bounds agree).
   2. THE OPERATOR ([launch], mirrors Hook.Run in pkg/hook/hook.go with pkg/executor): the hook manager holds
      a PATH for the hook (Hook.Path = what filepath.Walk found: hooks root joined with names of real
      directories and the name of the entry, never resolved).  Run builds exec.Cmd{Path: h.Path,
      Dir: path.Dir(h.Path)}: the child does chdir(dir part of the path), execve(path): the entry point
      (argv[0], $0 of a script) is the path itself, the program is what the path resolves to, the working
      directory is what the DIRECTORY PART of the path resolves to - the target of a link at the last
      component plays no role for it.
   3. WHAT THE HOOK SEES THERE ([rel_read]): a name opened relative to the working directory (./settings).

   Not modelled: permissions of directories, hard links to one file from several directories (content numbers
   stand for files), mount points, the --config run of the hook manager (it runs in the hooks root, that is
   hook loading, not the execution contract). *)
From Verif Require Import Common.
Open Scope N_scope.

(* ------------------------------------------------------------------ 1. the tree *)

Inductive comp := CName (n : N) | CUp.
Inductive tnode :=
| TFile (x : bool) (i : N)                 (* a regular file: executable?, content number *)
| TDir (d : N)
| TLink (abs : bool) (t : list comp).      (* a symbolic link *)

Record tfs := mkT {
  t_entries : list (N * N * tnode);        (* directory, name, node; the first entry of a (directory, name) counts *)
  t_parent : list (N * N)                  (* directory -> its parent (".."); the root and unknown directories: themselves *)
}.

Definition entry (s : tfs) (d n : N) : option tnode :=
  match find (fun e => (fst (fst e) =? d) && (snd (fst e) =? n)) (t_entries s) with
  | Some e => Some (snd e)
  | None => None
  end.
Definition parent_of (s : tfs) (d : N) : N :=
  match find (fun e => fst e =? d) (t_parent s) with Some e => snd e | None => d end.

(* what a path names *)
Inductive rnode := RDir (d : N) | RFile (x : bool) (i : N).

Section Walk.
  Variable s : tfs.
  (* how the target of a link found in directory [c] is resolved *)
  Variable follow : N -> bool -> list comp -> option rnode.

  Fixpoint go (cur : N) (cs : list comp) : option rnode :=
    match cs with
    | [] => Some (RDir cur)
    | CUp :: r => go (parent_of s cur) r
    | CName n :: r =>
        match entry s cur n with
        | None => None                                                   (* ENOENT *)
        | Some (TDir d) => go d r
        | Some (TFile x i) => match r with [] => Some (RFile x i) | _ => None end
        | Some (TLink abs t) =>
            match follow cur abs t with
            | Some (RDir d) => go d r
            | Some (RFile x i) => match r with [] => Some (RFile x i) | _ => None end     (* ENOTDIR *)
            | None => None
            end
        end
    end.
End Walk.

Fixpoint resolve_from (depth : nat) (s : tfs) (cur : N) (cs : list comp) : option rnode :=
  go s (fun c abs t => match depth with
                       | O => None                                       (* ELOOP *)
                       | S k => resolve_from k s (if abs then 0 else c) t
                       end) cur cs.
Definition max_depth : nat := 40.
Definition names (p : list N) : list comp := map CName p.
(* an absolute path of plain names (a cleaned path, as filepath.Join / filepath.Abs produce) *)
Definition resolve (s : tfs) (p : list N) : option rnode := resolve_from max_depth s 0 (names p).

(* ------------------------------------------------------------------ 2. the operator *)

Record launched := mkL {
  l_started : bool;            (* execve succeeded: the program is a regular executable file *)
  l_argv0 : list N;            (* the entry point as the process sees it *)
  l_program : N;               (* content number of the file that runs *)
  l_cwd : N                    (* the directory the process is started in *)
}.
Definition not_launched : launched := mkL false [] 0 0.

(* path.Dir of a cleaned absolute path *)
Definition dir_part (p : list N) : list N := removelast p.

(* cmd.Dir = path.Dir(h.Path): os/exec's child does chdir(Dir) first (a failure fails the start), then
   execve(Path) *)
Definition launch (s : tfs) (p : list N) : launched :=
  match resolve s (dir_part p) with
  | Some (RDir d) =>
      match resolve s p with
      | Some (RFile true i) => mkL true p i d
      | _ => not_launched                   (* ENOENT, EACCES (a directory, no x bit), ELOOP *)
      end
  | _ => not_launched
  end.

(* ------------------------------------------------------------------ 3. what the hook sees *)

(* open("./<name>") in the working directory: the content number, None = no such file (or not a file) *)
Definition rel_read (s : tfs) (cwd name : N) : option N :=
  match resolve_from max_depth s cwd [CName name] with
  | Some (RFile _ i) => Some i
  | _ => None
  end.

(* one hook of a case: the path the hook manager holds = hooks root ++ relative names *)
Record pobs1 := mkPO {
  po_rel : list N;             (* the hook's name: path relative to the hooks root *)
  po_started : bool;           (* a hook process reported *)
  po_argv0 : list N;           (* its $0, as names below the sandbox root ([] when it is not a path below it) *)
  po_program : N;              (* which script it was *)
  po_cwd : N;                  (* the directory it ran in (999: none of the case's directories) *)
  po_settings : option N;      (* what ./settings held *)
  po_failed : bool;            (* Hook.Run returned an error *)
  po_tmp_after : N             (* entries of the temp directory after the run *)
}.

Record pinput := mkPI {
  pi_fs : tfs;
  pi_root : list N;            (* the hooks root (WorkingDir of the hook manager), as names below the sandbox root *)
  pi_settings : N              (* the name "settings" *)
}.

Definition hook_path (i : pinput) (rel : list N) : list N := pi_root i ++ rel.

(* the model's answer for the hook [rel] *)
Definition model_place (i : pinput) (rel : list N) : launched := launch (pi_fs i) (hook_path i rel).
Definition model_settings (i : pinput) (rel : list N) : option N :=
  let l := model_place i rel in
  if l_started l then rel_read (pi_fs i) (l_cwd l) (pi_settings i) else None.
