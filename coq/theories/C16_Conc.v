(* C16_Conc.v — batches arriving at the same time: the model takes the round's batches as
   atomic steps in some order.  Proved here, for ALL histories and rounds:
     - whether a batch fails does not depend on the state (so not on the order);
     - for every order of the round the model's observation satisfies C16_Spec.P_case;
     - after any history the series of a group are those its LAST accepted batch gave it;
     - for batches over pairwise different groups the grouped series do not depend on
       the order of the round. *)
From Coq Require Import Permutation Lia.
From Verif Require Import Common C16_Model C16_Spec C16_Corr C16_Proofs.
Local Open Scope N_scope.

(* ---- prefixes of in-domain, collision-free histories ---- *)
Lemma dom_from_app a b : forall u, dom_from u (a ++ b) = true -> dom_from u a = true.
Proof.
  induction a as [|[h ops] a IH]; intros u H; cbn [app dom_from] in *; [reflexivity|].
  destruct (forallb spec_valid ops).
  - destruct (dom_ops h u ops) as [u'|]; [|discriminate]. eapply IH; exact H.
  - eapply IH; exact H.
Qed.

Lemma T_from_app a b : forall r, T_F5a_from r (a ++ b) = false -> T_F5a_from r a = false.
Proof.
  induction a as [|[h ops] a IH]; intros r H; cbn [app T_F5a_from] in *; [reflexivity|].
  destruct (forallb spec_valid ops).
  - apply orb_false_iff in H as [H1 H2]. apply orb_false_iff. split; [exact H1 | eapply IH; exact H2].
  - eapply IH; exact H.
Qed.

Lemma in_domain_app a b : in_domain (a ++ b) = true -> in_domain a = true.
Proof. apply dom_from_app. Qed.
Lemma T_F5a_app a b : T_F5a (a ++ b) = false -> T_F5a a = false.
Proof. apply T_from_app. Qed.

(* ---- failure is decided by validation alone ---- *)
Lemma send_v0_some h st o : validate_op o = true -> o_group o = 0 -> exists st', send_v0_op h st o = Some st'.
Proof.
  destruct o as [g n a v ad s b l]. cbn [o_group]. intros Hv Hg. subst g.
  unfold validate_op in Hv. cbn [o_group o_name o_action o_value o_add o_set o_buckets] in Hv.
  unfold send_v0_op. cbn [o_group o_name o_action o_value o_add o_set o_buckets o_labels].
  destruct a, v, b, (N.eqb n 0), s, ad; cbn in Hv; try discriminate; eexists; reflexivity.
Qed.

Lemma send_v0_no_error h ops : forall st,
  Forall (fun o => validate_op o = true /\ o_group o = 0) ops -> snd (send_batch_v0 h st ops) = false.
Proof.
  induction ops as [|o ops IH]; intros st H; cbn [send_batch_v0]; [reflexivity|].
  inversion H as [|? ? [Hv Hg] H']; subst.
  destruct (send_v0_some h st o Hv Hg) as [st' E]. rewrite E. apply IH. exact H'.
Qed.

Lemma hook_batch_fails st h ops : snd (hook_batch st h ops) = negb (forallb spec_valid ops).
Proof.
  unfold hook_batch, send_batch, send_batch_ordered. rewrite forallb_validate.
  destruct (forallb spec_valid ops) eqn:Hv; cbn [negb]; [|reflexivity].
  apply send_v0_no_error. apply Forall_forall. intros o Ho.
  unfold ops_of_group in Ho. apply filter_In in Ho as [Hin Hg].
  split; [|apply N.eqb_eq; exact Hg].
  rewrite <- forallb_validate in Hv. rewrite forallb_forall in Hv. apply Hv. exact Hin.
Qed.

Lemma failure_state_independent st st' h ops : snd (hook_batch st h ops) = snd (hook_batch st' h ops).
Proof. rewrite !hook_batch_fails. reflexivity. Qed.

(* ---- every order of the round satisfies the predicate ---- *)
Lemma run_final_is bs : run_final bs = final_state bs.
Proof. reflexivity. Qed.

Lemma spec_final_is bs : spec_final bs = final_reg bs.
Proof. reflexivity. Qed.

Lemma final_same_series bs : in_domain bs = true -> T_F5a bs = false ->
  same_series (gather (final_state bs)) (project (final_reg bs)) = true.
Proof.
  intros Hd HT. unfold in_domain, T_F5a in *. rewrite <- (app_nil_r bs) in Hd, HT.
  destruct (reach_split bs init_state [] [] [] Inv_init Hd HT) as [u' [I _]].
  eapply Inv_same_series. exact I.
Qed.

Lemma bool_eqb_eq (x y : bool) : Bool.eqb x y = true <-> x = y.
Proof. destruct x, y; cbn; split; intros H; try reflexivity; discriminate. Qed.

Lemma conc_linearised history round il after :
  round <> [] -> In il (lperms round) ->
  in_domain (history ++ il ++ after) = true -> T_F5a (history ++ il ++ after) = false ->
  P_case history (run history) round (conc_run history round il) after (after_run history il after) = true.
Proof.
  intros Hne Hil Hd HT. unfold P_case.
  rewrite (refines_partial history (in_domain_app _ _ Hd) (T_F5a_app _ _ HT)). cbn [andb].
  assert (HC : P_conc (spec_final history) round (conc_run history round il) after (after_run history il after) = true).
  { unfold P_conc, conc_run, after_run. cbn [fst snd]. apply andb_true_iff. split.
    - apply list_eqb_eq; [exact bool_eqb_eq|]. apply map_ext. intros b. unfold batch_fails. apply hook_batch_fails.
    - apply existsb_exists. exists il. split; [exact Hil|]. cbv zeta.
      rewrite run_final_is, spec_final_is.
      replace (fold_left spec_step il (final_reg history)) with (final_reg (history ++ il))
        by (unfold final_reg; rewrite fold_left_app; reflexivity).
      rewrite app_assoc in Hd, HT. unfold in_domain, T_F5a in Hd, HT.
      destruct (reach_split (history ++ il) init_state [] [] after Inv_init Hd HT) as [u' [I [Hd' HT']]].
      apply andb_true_iff. split.
      + eapply Inv_same_series. exact I.
      + eapply run_sim; eassumption. }
  destruct round as [|b0 round0]; [contradiction|]. exact HC.
Qed.

(* ---- the last accepted batch that mentions a group decides what the group shows ---- *)
Lemma last_touch_snoc g bs b : last_touch g (bs ++ [b]) = if touches g b then Some b else last_touch g bs.
Proof.
  unfold last_touch. rewrite filter_app, map_app. cbn [filter]. destruct (touches g b); cbn [map].
  - apply last_last.
  - rewrite app_nil_r. reflexivity.
Qed.

Lemma last_touch_app g a b :
  last_touch g (a ++ b) = match last_touch g b with Some x => Some x | None => last_touch g a end.
Proof.
  induction b as [|x b IH] using rev_ind.
  - rewrite app_nil_r. reflexivity.
  - rewrite app_assoc, !last_touch_snoc. destruct (touches g x); [reflexivity | exact IH].
Qed.

Lemma final_state_snoc bs b : final_state (bs ++ [b]) = step_state (final_state bs) b.
Proof. unfold final_state. rewrite fold_left_app. reflexivity. Qed.

Lemma last_batch_wins bs :
  in_domain bs = true -> T_F5a bs = false ->
  forall g, g <> 0 -> forall e, egroup e = g ->
    (In e (tagged (final_state bs)) <-> In e (group_view g (last_touch g bs))).
Proof.
  induction bs as [|[h ops] bs IH] using rev_ind; intros Hd HT g Hg e He.
  - split; intros H; [vm_compute in H | cbn in H]; contradiction.
  - pose proof (in_domain_app _ _ Hd) as Hd'. pose proof (T_F5a_app _ _ HT) as HT'.
    rewrite last_touch_snoc. unfold touches. cbn [snd].
    destruct (forallb spec_valid ops) eqn:Hv; cbn [andb].
    + destruct (mem_N g (mentioned ops [])) eqn:Hm.
      * apply mem_N_In in Hm. cbn [group_view]. exact (group_replaced bs h ops g Hd HT Hv Hm e He).
      * assert (Hni : ~ In g (mentioned ops [])).
        { intros Hin. apply mem_N_In in Hin. rewrite Hin in Hm. discriminate. }
        rewrite (others_untouched bs h ops g Hd HT Hg Hni e He). apply IH; assumption.
    + rewrite final_state_snoc. unfold step_state. cbn [fst snd].
      rewrite (invalid_batch _ h ops Hv). cbn [fst]. apply IH; assumption.
Qed.

(* ---- batches over pairwise different groups: the order does not matter ---- *)
Lemma filter_perm {A} (f : A -> bool) (l1 l2 : list A) : Permutation l1 l2 -> Permutation (filter f l1) (filter f l2).
Proof.
  induction 1 as [|x l l' HP IH|x y l|l l' l'' H1 IH1 H2 IH2]; cbn [filter].
  - constructor.
  - destruct (f x); [constructor|]; exact IH.
  - destruct (f x), (f y); try apply Permutation_refl. apply perm_swap.
  - eapply Permutation_trans; eassumption.
Qed.

Lemma last_touch_perm g il1 il2 :
  Permutation il1 il2 -> (length (filter (touches g) il1) <= 1)%nat -> last_touch g il1 = last_touch g il2.
Proof.
  intros HP Hl. pose proof (filter_perm (touches g) _ _ HP) as HF. unfold last_touch.
  destruct (filter (touches g) il1) as [|x [|y l]].
  - apply Permutation_nil in HF. rewrite HF. reflexivity.
  - apply Permutation_length_1_inv in HF. rewrite HF. reflexivity.
  - cbn [length] in Hl. lia.
Qed.

Lemma conc_order_independent history il1 il2 :
  Permutation il1 il2 -> distinct_groups il1 ->
  in_domain (history ++ il1) = true -> T_F5a (history ++ il1) = false ->
  in_domain (history ++ il2) = true -> T_F5a (history ++ il2) = false ->
  forall e, egroup e <> 0 ->
    (In e (tagged (final_state (history ++ il1))) <-> In e (tagged (final_state (history ++ il2)))).
Proof.
  intros HP Hdist Hd1 HT1 Hd2 HT2 e He.
  rewrite (last_batch_wins _ Hd1 HT1 (egroup e) He e eq_refl).
  rewrite (last_batch_wins _ Hd2 HT2 (egroup e) He e eq_refl).
  rewrite !last_touch_app. rewrite (last_touch_perm (egroup e) il1 il2 HP (Hdist (egroup e))). reflexivity.
Qed.

(* each group of the round shows what the one batch of the round that mentions it gave,
   whatever the order; a group no batch of the round mentions shows what the history left *)
Lemma conc_group_view history il :
  in_domain (history ++ il) = true -> T_F5a (history ++ il) = false ->
  forall g, g <> 0 -> forall e, egroup e = g ->
    (In e (tagged (final_state (history ++ il)))
     <-> In e (group_view g (match last_touch g il with Some b => Some b | None => last_touch g history end))).
Proof.
  intros Hd HT g Hg e He. rewrite (last_batch_wins _ Hd HT g Hg e He), last_touch_app. reflexivity.
Qed.

(* deciding distinct_groups: only the groups that are mentioned at all need a look *)
Lemma filter_none {A} (f : A -> bool) (l : list A) : (forall x, In x l -> f x = false) -> filter f l = [].
Proof.
  induction l as [|x l IH]; intros H; cbn [filter]; [reflexivity|].
  rewrite (H x (or_introl eq_refl)). apply IH. intros y Hy. apply H. right. exact Hy.
Qed.

Lemma distinct_groups_dec bs :
  forallb (fun g => Nat.leb (length (filter (touches g) bs)) 1) (flat_map (fun b => mentioned (snd b) []) bs) = true ->
  distinct_groups bs.
Proof.
  intros H g. destruct (in_dec N.eq_dec g (flat_map (fun b => mentioned (snd b) []) bs)) as [Hin|Hni].
  - rewrite forallb_forall in H. apply Nat.leb_le. apply H. exact Hin.
  - rewrite filter_none; [cbn; lia|]. intros b Hb. unfold touches.
    destruct (mem_N g (mentioned (snd b) [])) eqn:E; [|apply andb_false_r].
    apply mem_N_In in E. exfalso. apply Hni. apply in_flat_map. exists b. split; assumption.
Qed.
