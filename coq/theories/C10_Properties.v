(* C10_Properties.v — the property theorems of C10 and nothing else.

   Model: C10_Model.load, the loader AFTER parsing (version detection, the v1/v0 schemas as
   data, ConvertAndCheck v1/v0 with defaults, CheckIncludeSnapshots, group merge, settings),
   following the code after the repairs of F15 (v0 keeps full objects), F22 (a zero-step crontab is
   rejected instead of looping forever: it is one of the strings the crontab oracle rejects), F17 (v0 without
   `event` watches all three events) and F18 (namespace.labelSelector of kubernetes bindings
   is validated).  Spec: C10_Spec.P.  Every theorem holds for ALL oracles (crontab parser,
   label-selector validator, duration parser, webhook validation): they are universally
   quantified function parameters, not axioms.

   PARTIAL, by construction: "loading never panics for any byte string" and "the same
   document as YAML or JSON loads identically" are statements about sigs.k8s.io/yaml,
   go-openapi and the Go converters on raw bytes; no Gallina model expresses them.  They are
   part of C10_Spec.P and are checked on the implementation by the differential / fault /
   raw-byte streams only.

   INTER-FIELD rules (C10_Interfield): the validity rules that relate two fields and that the OpenAPI
   schema cannot express - nameSelector.matchNames x a fieldSelector requirement on metadata.name (any
   operator, any position), includeSnapshotsFrom x the kubernetes binding names, label selector operator
   x values (written out in the model; label keys / values stay with the oracle) - are clauses of
   C10_Spec.interfield_valid and of must_reject; the loader rejects a schema-valid document with fine
   single fields iff a clause is broken.

   SEVERAL loads in one process (C10_Session: the package-level SchemasCache threaded through
   the loads of a session, the cached schema used for validation as in LoadAndValidate): the
   loader is a function of the document - C10_history_independent, C10_any_earlier_history,
   C10_loaded_again_same, and the Spec's session predicate (every load meets P, in-session =
   alone, one document one outcome) holds of the model: C10_session_contract.  On the
   implementation the session streams load every document in the session and alone in a fresh
   process. *)
From Coq Require Import String.
From Verif Require Import Common Json C10_Model C10_Spec C10_Proofs C10_Session C10_SessionProofs C10_Interfield.

(* every parsed document is either rejected or loaded (trivial in Gallina, stated for the record) *)
Theorem C10_total : forall co lo du wo doc,
  (exists c, load co lo du wo doc = Loaded c) \/ load co lo du wo doc = Rejected.
Proof. intros. destruct (load co lo du wo doc) as [c|]; [left; now exists c|now right]. Qed.
Print Assumptions C10_total.

(* a loaded document yields exactly the declared bindings, in declared order, with the
   documented defaults (names, queue main, allowFailure false, all three events,
   executeHookOnSynchronization / keepFullObjectsInMemory true, crontab, kind), declared
   includes first, and the group merge — [loaded_ok] is the Spec's reading of all that *)
Theorem C10_bindings_in_order_with_defaults : forall co lo du wo doc c,
  load co lo du wo doc = Loaded c -> loaded_ok doc (cfg_json c) = true.
Proof. exact loaded_spec. Qed.
Print Assumptions C10_bindings_in_order_with_defaults.

(* every binding with a group includes the snapshots of every kubernetes binding of that group *)
Theorem C10_group_merge : forall co lo du wo doc c,
  load co lo du wo doc = Loaded c -> group_ok (cfg_json c) = true.
Proof. intros co lo du wo doc c H. exact (loaded_group_ok _ _ (loaded_spec co lo du wo doc c H)). Qed.
Print Assumptions C10_group_merge.

(* ... after its own includeSnapshotsFrom, and what the merge adds contains no name twice and
   none of the declared ones *)
Theorem C10_group_merge_no_duplicates : forall doc j,
  let d := get_strs (bs "includeSnapshotsFrom") j in
  prefixb d (eff_incl doc j) = true
  /\ nodupb (skipn (length d) (eff_incl doc j)) = true
  /\ forallb (fun x => negb (mem_bytes x d)) (skipn (length d) (eff_incl doc j)) = true.
Proof. exact eff_incl_shape. Qed.
Print Assumptions C10_group_merge_no_duplicates.

Theorem C10_rejects_unknown_or_ambiguous_include : forall co lo du wo doc,
  bad_include doc = true -> load co lo du wo doc = Rejected.
Proof. exact rejects_bad_include. Qed.
Print Assumptions C10_rejects_unknown_or_ambiguous_include.

Theorem C10_rejects_unknown_version : forall co lo du wo doc,
  bad_version doc = true -> load co lo du wo doc = Rejected.
Proof. exact rejects_bad_version. Qed.
Print Assumptions C10_rejects_unknown_version.

Theorem C10_rejects_unknown_top_level_field : forall co lo du wo doc,
  unknown_top_field doc = true -> load co lo du wo doc = Rejected.
Proof. exact rejects_unknown_top_field. Qed.
Print Assumptions C10_rejects_unknown_top_level_field.

Theorem C10_rejects_unknown_binding_field : forall co lo du wo doc j mi k v,
  is_v1 doc = true ->
  (In j (get_arr (bs "schedule") doc) /\ mem_bytes k schedule_keys = false
   \/ In j (get_arr (bs "kubernetes") doc) /\ mem_bytes k kubernetes_keys = false) ->
  j = JObj mi -> In (k, v) mi -> load co lo du wo doc = Rejected.
Proof. exact rejects_unknown_binding_field. Qed.
Print Assumptions C10_rejects_unknown_binding_field.

Theorem C10_rejects_bad_crontab : forall co lo du wo doc j,
  In j (get_arr (bs "schedule") doc) -> co (get_str (bs "crontab") j) = false ->
  load co lo du wo doc = Rejected.
Proof. exact rejects_bad_crontab. Qed.
Print Assumptions C10_rejects_bad_crontab.

Theorem C10_rejects_invalid_selector : forall co lo du wo doc j s,
  is_v1 doc = true -> In j (get_arr (bs "kubernetes") doc) ->
  (jget (bs "labelSelector") j = Some s
   \/ exists ns, jget (bs "namespace") j = Some ns /\ jget (bs "labelSelector") ns = Some s) ->
  lo s = false -> load co lo du wo doc = Rejected.
Proof. exact rejects_invalid_selector. Qed.
Print Assumptions C10_rejects_invalid_selector.

Theorem C10_rejects_invalid_admission_selector : forall co lo du wo doc k j s,
  is_v1 doc = true -> k = bs "kubernetesValidating" \/ k = bs "kubernetesMutating" ->
  In j (get_arr k doc) ->
  (jget (bs "labelSelector") j = Some s
   \/ exists ns, jget (bs "namespace") j = Some ns /\ jget (bs "labelSelector") ns = Some s) ->
  lo s = false -> load co lo du wo doc = Rejected.
Proof. exact rejects_invalid_admission_selector. Qed.
Print Assumptions C10_rejects_invalid_admission_selector.

(* the Spec predicate P (for a document without injected fault) holds of the model's answer *)
Theorem C10_contract : forall co lo du wo doc,
  P (Some doc) false (obs_of (load co lo du wo doc)) (obs_of (load co lo du wo doc)) = true.
Proof. exact contract. Qed.
Print Assumptions C10_contract.

(* non-vacuity: the documentation's group example loads (with the defaults and the merge), an
   ambiguous include and an unsupported version meet the rejection hypotheses, and a legacy
   document loads with all three events and full objects kept *)
Example C10_hyp_met :
  (exists c, load all_ok_cron all_ok_sel dur_3s all_ok_sel doc_group = Loaded c
             /\ map s_incl (c_scheds c) = [[bs "monitor-pods"; bs "kubernetes"]])
  /\ bad_include doc_ambiguous = true /\ bad_version doc_v2 = true
  /\ (exists c, load all_ok_cron all_ok_sel dur_3s all_ok_sel doc_v0 = Loaded c
                /\ map k_events (c_kubes c) = [all3]).
Proof.
  pose proof doc_group_loads as H1. pose proof examples_reject_and_v0 as (H2 & H3 & H4).
  destruct (load all_ok_cron all_ok_sel dur_3s all_ok_sel doc_group) as [c|]; [|contradiction].
  destruct (load all_ok_cron all_ok_sel dur_3s all_ok_sel doc_v0) as [c0|]; [|contradiction].
  repeat split; try assumption.
  - exists c. split; [reflexivity|]. now destruct H1 as [H1 _].
  - exists c0. split; [reflexivity|]. now destruct H4 as [H4 _].
Qed.

(* ---- validity rules that relate TWO fields (C10_Interfield; the OpenAPI schema cannot express them) ---- *)

(* nameSelector.matchNames next to a fieldSelector requirement on metadata.name is rejected ... *)
Theorem C10_rejects_name_and_field_selector : forall co lo du wo doc,
  name_field_clash doc = true -> load co lo du wo doc = Rejected.
Proof. exact rejects_name_field_clash. Qed.
Print Assumptions C10_rejects_name_and_field_selector.

(* ... whatever the operator of that requirement (nothing is assumed about it), wherever it stands in
   matchExpressions, whichever kubernetes binding of the document it is, however many names *)
Theorem C10_rejects_name_and_field_selector_any_operator : forall co lo du wo doc b ns fs n names pre e post,
  is_v1 doc = true -> In b (get_arr (bs "kubernetes") doc) ->
  jget (bs "nameSelector") b = Some ns -> get_arr (bs "matchNames") ns = n :: names ->
  jget (bs "fieldSelector") b = Some fs -> get_arr (bs "matchExpressions") fs = pre ++ e :: post ->
  get_str (bs "field") e = bs "metadata.name" ->
  load co lo du wo doc = Rejected.
Proof. exact rejects_name_field_any_operator. Qed.
Print Assumptions C10_rejects_name_and_field_selector_any_operator.

(* a label selector requirement whose operator does not fit its values (In / NotIn without values,
   Exists / DoesNotExist with values) is rejected at every place a v1 binding can declare a label
   selector - for every oracle of label keys and values *)
Theorem C10_rejects_label_operator_values_misfit : forall co lo du wo doc,
  bad_label_opvals doc = true -> load co lo du wo doc = Rejected.
Proof. exact rejects_bad_label_opvals. Qed.
Print Assumptions C10_rejects_label_operator_values_misfit.

(* a schema-valid v1 document whose single fields are fine is rejected IFF some inter-field clause
   (name x field, include x binding names, operator x values) is broken ... *)
Theorem C10_load_rejects_iff_interfield_clause_broken : forall co lo du wo doc,
  is_v1 doc = true -> check schema_v1 doc = true -> single_field_ok co lo du wo doc = true ->
  (load co lo du wo doc = Rejected <-> interfield_valid doc = false).
Proof. exact load_rejects_iff_clause_broken. Qed.
Print Assumptions C10_load_rejects_iff_interfield_clause_broken.

(* ... and otherwise loaded with exactly the declared bindings *)
Theorem C10_loads_when_interfield_clauses_hold : forall co lo du wo doc,
  is_v1 doc = true -> check schema_v1 doc = true -> single_field_ok co lo du wo doc = true ->
  interfield_valid doc = true ->
  exists c, load co lo du wo doc = Loaded c /\ loaded_ok doc (cfg_json c) = true.
Proof. exact loads_when_clauses_hold. Qed.
Print Assumptions C10_loads_when_interfield_clauses_hold.

(* non-vacuity: nameSelector [app] + a second requirement `metadata.name <op> other`, for each of the five
   operator spellings, meets the hypotheses (v1, schema-valid, single fields fine), breaks the clause and is
   rejected; the neighbour `metadata.namespace != other` meets them, keeps every clause and loads with the
   declared names; `In` without values in a validating binding's namespace.labelSelector is rejected although
   the oracle accepts every key and value *)
Example C10_interfield_hyp_met :
  (forall op, In op [bs "="; bs "=="; bs "Equals"; bs "!="; bs "NotEquals"] ->
     is_v1 (doc_names_and_field (bs "metadata.name") op) = true
     /\ check schema_v1 (doc_names_and_field (bs "metadata.name") op) = true
     /\ single_field_ok all_ok_cron all_ok_sel dur_3s all_ok_sel (doc_names_and_field (bs "metadata.name") op) = true
     /\ name_field_clash (doc_names_and_field (bs "metadata.name") op) = true
     /\ interfield_valid (doc_names_and_field (bs "metadata.name") op) = false
     /\ load all_ok_cron all_ok_sel dur_3s all_ok_sel (doc_names_and_field (bs "metadata.name") op) = Rejected)
  /\ (is_v1 (doc_names_and_field (bs "metadata.namespace") (bs "!=")) = true
      /\ check schema_v1 (doc_names_and_field (bs "metadata.namespace") (bs "!=")) = true
      /\ single_field_ok all_ok_cron all_ok_sel dur_3s all_ok_sel (doc_names_and_field (bs "metadata.namespace") (bs "!=")) = true
      /\ interfield_valid (doc_names_and_field (bs "metadata.namespace") (bs "!=")) = true
      /\ match load all_ok_cron all_ok_sel dur_3s all_ok_sel (doc_names_and_field (bs "metadata.namespace") (bs "!=")) with
         | Loaded c => map k_names (c_kubes c) = [Some [bs "app"]] | Rejected => False end)
  /\ (is_v1 doc_in_without_values = true /\ check schema_v1 doc_in_without_values = true
      /\ single_field_ok all_ok_cron all_ok_sel dur_3s all_ok_sel doc_in_without_values = true
      /\ bad_label_opvals doc_in_without_values = true
      /\ load all_ok_cron all_ok_sel dur_3s all_ok_sel doc_in_without_values = Rejected).
Proof. exact interfield_examples. Qed.

(* ---- several loads in one process ---- *)

(* history independence: the k-th load of a session (one process, the schema cache shared) returns
   exactly - verdict and effective configuration - what the k-th document returns loaded alone *)
Theorem C10_history_independent : forall co lo du wo docs k d,
  nth_error docs k = Some d -> nth_error (session co lo du wo docs) k = Some (load co lo du wo d).
Proof. exact history_independence. Qed.
Print Assumptions C10_history_independent.

(* ... whatever the process loaded before the session began *)
Theorem C10_any_earlier_history : forall co lo du wo earlier docs,
  session_from co lo du wo (state_after co lo du wo [] earlier) docs = map (load co lo du wo) docs.
Proof. exact session_after_any_history. Qed.
Print Assumptions C10_any_earlier_history.

(* a hook loaded again gets what it got the first time *)
Theorem C10_loaded_again_same : forall co lo du wo pre d mid post,
  nth_error (session co lo du wo (pre ++ d :: mid ++ d :: post)) (length pre)
  = nth_error (session co lo du wo (pre ++ d :: mid ++ d :: post)) (length pre + S (length mid)).
Proof. exact loaded_again_same. Qed.
Print Assumptions C10_loaded_again_same.

(* the Spec's session predicate - every load meets P, each in-session load equals the load alone,
   one document has one outcome - holds of the model's session, for every list of documents *)
Theorem C10_session_contract : forall co lo du wo docs,
  P_session (model_session co lo du wo docs) = true.
Proof. exact session_contract. Qed.
Print Assumptions C10_session_contract.

(* non-vacuity: a session of five loads (v1, legacy, the v1 document again, an unsupported version,
   the legacy document again): the third and fifth loads hit the cache that the first two filled *)
Example C10_session_hyp_met :
  map (fun r => match r with Loaded _ => true | Rejected => false end)
      (session all_ok_cron all_ok_sel dur_3s all_ok_sel example_session) = [true; true; true; false; true]
  /\ map fst (state_after all_ok_cron all_ok_sel dur_3s all_ok_sel [] example_session) = [VerV0; VerV1]
  /\ nth_error example_session 2 = Some doc_group.
Proof. exact example_session_runs. Qed.
