(* C10_Properties.v — the property theorems of C10 and nothing else.

   Model: C10_Model.load, the loader AFTER parsing (version detection, the v1/v0 schemas as
   data, ConvertAndCheck v1/v0 with defaults, CheckIncludeSnapshots, group merge, settings),
   following the code after the repairs of F15 (v0 keeps full objects), F22 (a zero-step crontab is
   rejected instead of looping forever: it is one of the strings the crontab oracle rejects), F17 (v0 without
   `event` watches all three events) and F18 (namespace.labelSelector of kubernetes bindings
   is validated).  Spec: C10_Spec.P.  Every theorem holds for ALL oracles (crontab parser,
   label-selector validator, duration parser, webhook validation): they are universally
   quantified function parameters, not axioms.

   PARTIAL, by construction: "loading never panics for any byte string" and "the same
   document as YAML or JSON loads identically" are statements about sigs.k8s.io/yaml,
   go-openapi and the Go converters on raw bytes; no Gallina model expresses them.  They are
   part of C10_Spec.P and are checked on the implementation by the differential / fault /
   raw-byte streams only. *)
From Coq Require Import String.
From Verif Require Import Common Json C10_Model C10_Spec C10_Proofs.

(* every parsed document is either rejected or loaded (trivial in Gallina, stated for the record) *)
Theorem C10_total : forall co lo du wo doc,
  (exists c, load co lo du wo doc = Loaded c) \/ load co lo du wo doc = Rejected.
Proof. intros. destruct (load co lo du wo doc) as [c|]; [left; now exists c|now right]. Qed.
Print Assumptions C10_total.

(* a loaded document yields exactly the declared bindings, in declared order, with the
   documented defaults (names, queue main, allowFailure false, all three events,
   executeHookOnSynchronization / keepFullObjectsInMemory true, crontab, kind), declared
   includes first, and the group merge — [loaded_ok] is the Spec's reading of all that *)
Theorem C10_bindings_in_order_with_defaults : forall co lo du wo doc c,
  load co lo du wo doc = Loaded c -> loaded_ok doc (cfg_json c) = true.
Proof. exact loaded_spec. Qed.
Print Assumptions C10_bindings_in_order_with_defaults.

(* every binding with a group includes the snapshots of every kubernetes binding of that group *)
Theorem C10_group_merge : forall co lo du wo doc c,
  load co lo du wo doc = Loaded c -> group_ok (cfg_json c) = true.
Proof. intros co lo du wo doc c H. exact (loaded_group_ok _ _ (loaded_spec co lo du wo doc c H)). Qed.
Print Assumptions C10_group_merge.

(* ... after its own includeSnapshotsFrom, and what the merge adds contains no name twice and
   none of the declared ones *)
Theorem C10_group_merge_no_duplicates : forall doc j,
  let d := get_strs (bs "includeSnapshotsFrom") j in
  prefixb d (eff_incl doc j) = true
  /\ nodupb (skipn (length d) (eff_incl doc j)) = true
  /\ forallb (fun x => negb (mem_bytes x d)) (skipn (length d) (eff_incl doc j)) = true.
Proof. exact eff_incl_shape. Qed.
Print Assumptions C10_group_merge_no_duplicates.

Theorem C10_rejects_unknown_or_ambiguous_include : forall co lo du wo doc,
  bad_include doc = true -> load co lo du wo doc = Rejected.
Proof. exact rejects_bad_include. Qed.
Print Assumptions C10_rejects_unknown_or_ambiguous_include.

Theorem C10_rejects_unknown_version : forall co lo du wo doc,
  bad_version doc = true -> load co lo du wo doc = Rejected.
Proof. exact rejects_bad_version. Qed.
Print Assumptions C10_rejects_unknown_version.

Theorem C10_rejects_unknown_top_level_field : forall co lo du wo doc,
  unknown_top_field doc = true -> load co lo du wo doc = Rejected.
Proof. exact rejects_unknown_top_field. Qed.
Print Assumptions C10_rejects_unknown_top_level_field.

Theorem C10_rejects_unknown_binding_field : forall co lo du wo doc j mi k v,
  is_v1 doc = true ->
  (In j (get_arr (bs "schedule") doc) /\ mem_bytes k schedule_keys = false
   \/ In j (get_arr (bs "kubernetes") doc) /\ mem_bytes k kubernetes_keys = false) ->
  j = JObj mi -> In (k, v) mi -> load co lo du wo doc = Rejected.
Proof. exact rejects_unknown_binding_field. Qed.
Print Assumptions C10_rejects_unknown_binding_field.

Theorem C10_rejects_bad_crontab : forall co lo du wo doc j,
  In j (get_arr (bs "schedule") doc) -> co (get_str (bs "crontab") j) = false ->
  load co lo du wo doc = Rejected.
Proof. exact rejects_bad_crontab. Qed.
Print Assumptions C10_rejects_bad_crontab.

Theorem C10_rejects_invalid_selector : forall co lo du wo doc j s,
  is_v1 doc = true -> In j (get_arr (bs "kubernetes") doc) ->
  (jget (bs "labelSelector") j = Some s
   \/ exists ns, jget (bs "namespace") j = Some ns /\ jget (bs "labelSelector") ns = Some s) ->
  lo s = false -> load co lo du wo doc = Rejected.
Proof. exact rejects_invalid_selector. Qed.
Print Assumptions C10_rejects_invalid_selector.

Theorem C10_rejects_invalid_admission_selector : forall co lo du wo doc k j s,
  is_v1 doc = true -> k = bs "kubernetesValidating" \/ k = bs "kubernetesMutating" ->
  In j (get_arr k doc) ->
  (jget (bs "labelSelector") j = Some s
   \/ exists ns, jget (bs "namespace") j = Some ns /\ jget (bs "labelSelector") ns = Some s) ->
  lo s = false -> load co lo du wo doc = Rejected.
Proof. exact rejects_invalid_admission_selector. Qed.
Print Assumptions C10_rejects_invalid_admission_selector.

(* the Spec predicate P (for a document without injected fault) holds of the model's answer *)
Theorem C10_contract : forall co lo du wo doc,
  P (Some doc) false (obs_of (load co lo du wo doc)) (obs_of (load co lo du wo doc)) = true.
Proof. exact contract. Qed.
Print Assumptions C10_contract.

(* non-vacuity: the documentation's group example loads (with the defaults and the merge), an
   ambiguous include and an unsupported version meet the rejection hypotheses, and a legacy
   document loads with all three events and full objects kept *)
Example C10_hyp_met :
  (exists c, load all_ok_cron all_ok_sel dur_3s all_ok_sel doc_group = Loaded c
             /\ map s_incl (c_scheds c) = [[bs "monitor-pods"; bs "kubernetes"]])
  /\ bad_include doc_ambiguous = true /\ bad_version doc_v2 = true
  /\ (exists c, load all_ok_cron all_ok_sel dur_3s all_ok_sel doc_v0 = Loaded c
                /\ map k_events (c_kubes c) = [all3]).
Proof.
  pose proof doc_group_loads as H1. pose proof examples_reject_and_v0 as (H2 & H3 & H4).
  destruct (load all_ok_cron all_ok_sel dur_3s all_ok_sel doc_group) as [c|]; [|contradiction].
  destruct (load all_ok_cron all_ok_sel dur_3s all_ok_sel doc_v0) as [c0|]; [|contradiction].
  repeat split; try assumption.
  - exists c. split; [reflexivity|]. now destruct H1 as [H1 _].
  - exists c0. split; [reflexivity|]. now destruct H4 as [H4 _].
Qed.
