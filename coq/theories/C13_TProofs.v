(* C13_TProofs.v — proofs about the text level of a patch file (C13_TModel / C13_TSpec). *)
From Coq Require Import List NArith Bool Lia.
From Verif Require Import Common Json C13_Model C13_Spec C13_Proofs C13_TModel C13_TSpec.
Import ListNotations.

(* ---------- the decoder loop over pieces of text ---------- *)

Lemma stream_ws w : forall vals rest,
  all_ws w = true -> stream None [] vals (w ++ rest) = stream None [] vals rest.
Proof.
  induction w as [|c w IH]; intros vals rest H; [reflexivity|].
  cbn in H. apply andb_true_iff in H as [Hc Hw]. cbn [app stream]. rewrite Hc. now apply IH.
Qed.

Lemma stream_run_cont v : forall m k acc vals rest m' k',
  run m k v = Cont m' k' ->
  stream (Some (m, k)) acc vals (v ++ rest) = stream (Some (m', k')) (rev v ++ acc) vals rest.
Proof.
  induction v as [|c v IH]; intros m k acc vals rest m' k' H.
  - cbn in H. injection H as -> ->. reflexivity.
  - cbn [run] in H. cbn [app stream]. destruct (step m k c) as [m1 k1| | |] eqn:Hs; try discriminate.
    + rewrite (IH _ _ _ _ _ _ _ H). cbn [rev]. now rewrite <- app_assoc.
    + destruct v; discriminate.
Qed.

Lemma stream_run_done v : forall m k acc vals rest,
  run m k v = Done ->
  stream (Some (m, k)) acc vals (v ++ rest) = stream None [] (rev (rev v ++ acc) :: vals) rest.
Proof.
  induction v as [|c v IH]; intros m k acc vals rest H; [discriminate|].
  cbn [run] in H. cbn [app stream]. destruct (step m k c) as [m1 k1| | |] eqn:Hs; try discriminate.
  - rewrite (IH _ _ _ _ _ H). cbn [rev]. now rewrite <- app_assoc.
  - destruct v; [|discriminate]. reflexivity.
Qed.

(* one complete value in front: the loop reads exactly it and goes on behind it *)
Lemma stream_complete v vals rest :
  complete v = true -> stream None [] vals (v ++ rest) = stream None [] (v :: vals) rest.
Proof.
  destruct v as [|c r]; [discriminate|]. unfold complete. intros H.
  apply andb_true_iff in H as [Hw H]. apply negb_true_iff in Hw.
  cbn [app stream]. rewrite Hw.
  destruct (top_step c) as [m k| | |]; try discriminate.
  destruct (run m k r) eqn:Hr; try discriminate.
  rewrite (stream_run_done _ _ _ _ _ _ Hr). cbn [rev]. now rewrite rev_app_distr, rev_involutive.
Qed.

(* the values read so far are only carried along *)
Lemma stream_vals t : forall st acc vals base,
  stream st acc (vals ++ base) t = option_map (app (rev base)) (stream st acc vals t).
Proof.
  induction t as [|c r IH]; intros st acc vals base.
  - cbn [stream]. destruct st as [[m k]|].
    + destruct m; try reflexivity. destruct k; try reflexivity.
      destruct (n_accepting s); [|reflexivity]. cbn [option_map].
      change (rev acc :: vals ++ base) with ((rev acc :: vals) ++ base). now rewrite rev_app_distr.
    + cbn [option_map]. now rewrite rev_app_distr.
  - cbn [stream]. destruct st as [[m k]|].
    + destruct (step m k c) as [m1 k1| | |].
      * apply IH.
      * apply (IH None [] (rev (c :: acc) :: vals) base).
      * destruct (is_ws c); [apply (IH None [] (rev acc :: vals) base)|].
        destruct (top_step c); try reflexivity. apply (IH _ _ (rev acc :: vals) base).
      * reflexivity.
    + destruct (is_ws c); [apply IH|]. destruct (top_step c); try reflexivity. apply IH.
Qed.

Lemma json_values_ws w : all_ws w = true -> json_values w = Some [].
Proof.
  intros H. unfold json_values. rewrite <- (app_nil_r w). now rewrite stream_ws.
Qed.

Definition piece_ok (wv : text * text) : bool := all_ws (fst wv) && complete (snd wv).

(* the loop over doc1 .. dock tail: exactly the documents, in order, then whatever the tail gives *)
Lemma json_values_docs ds : forall tail,
  forallb piece_ok ds = true ->
  json_values (flatten ds tail) = option_map (app (map snd ds)) (json_values tail).
Proof.
  induction ds as [|[w v] ds IH]; intros tail H.
  - cbn [flatten map]. destruct (json_values tail); reflexivity.
  - cbn [forallb] in H. apply andb_true_iff in H as [Hp H]. unfold piece_ok in Hp. cbn [fst snd] in Hp.
    apply andb_true_iff in Hp as [Hw Hv].
    unfold json_values in *. cbn [flatten map snd]. rewrite (stream_ws _ _ _ Hw), (stream_complete _ _ _ Hv).
    rewrite (stream_vals _ None [] [] [v]). cbn [rev app]. rewrite (IH tail H).
    destruct (stream None [] [] tail); reflexivity.
Qed.

Lemma doc_ok_piece ds : forallb doc_ok ds = true ->
  forallb piece_ok ds = true /\ forallb decodable (map snd ds) = true.
Proof.
  induction ds as [|wv ds IH]; intros H; [split; reflexivity|].
  cbn [forallb map] in *. apply andb_true_iff in H as [Hd H]. destruct (IH H) as [H1 H2].
  unfold doc_ok in Hd. apply andb_true_iff in Hd as [Hd Hdec]. rewrite H1, H2, Hdec. unfold piece_ok. rewrite Hd. split; reflexivity.
Qed.

Lemma json_path_docs ds tail :
  forallb doc_ok ds = true ->
  json_path (flatten ds tail) = option_map (app (map snd ds)) (json_path tail).
Proof.
  intros H. destruct (doc_ok_piece ds H) as [Hp Hd]. unfold json_path. rewrite (json_values_docs ds tail Hp).
  destruct (json_values tail) as [vs|]; [|reflexivity]. cbn [option_map].
  rewrite forallb_app, Hd. cbn [andb]. now destruct (forallb decodable vs).
Qed.

Lemma json_path_ws w : all_ws w = true -> json_path w = Some [].
Proof. intros H. unfold json_path. now rewrite (json_values_ws w H). Qed.

(* ---------- faults ---------- *)

(* a byte no value starts with, where a value or the end of the input is due *)
Lemma bad_start_rejected c rest : bad_start c = true -> json_values (c :: rest) = None.
Proof.
  unfold bad_start, json_values. intros H. apply andb_true_iff in H as [Hw H]. apply negb_true_iff in Hw.
  cbn [stream]. rewrite Hw. now destruct (top_step c).
Qed.

Lemma broken_bad_start c rest : bad_start c = true -> broken_tail (c :: rest) = true.
Proof. intros H. unfold broken_tail, json_path. now rewrite (bad_start_rejected c rest H). Qed.

Lemma broken_after_ws w tail : all_ws w = true -> broken_tail tail = true -> broken_tail (w ++ tail) = true.
Proof.
  unfold broken_tail, json_path, json_values. intros Hw H. now rewrite (stream_ws w [] tail Hw).
Qed.

(* the scanner over p ++ s *)
Lemma run_app p : forall m k s, s <> [] ->
  run m k (p ++ s) = match run m k p with Cont m' k' => run m' k' s | _ => Err end.
Proof.
  induction p as [|c p IH]; intros m k s Hs; [reflexivity|].
  cbn [app run]. destruct (step m k c) as [m1 k1| | |]; try reflexivity.
  - now apply IH.
  - destruct p; cbn [app]; [destruct s; [contradiction|reflexivity] | reflexivity].
Qed.

(* inside a number at top level no byte ends a value "with" it *)
Lemma num_top_step ns c :
  match step (MNum ns) [] c with Cont (MNum _) [] => True | DoneBefore => True | Err => True | _ => False end.
Proof.
  cbn [step]. destruct ns; cbn [num_step num_end];
    repeat match goal with |- context [if ?b then _ else _] => destruct b end; exact I.
Qed.

Lemma num_top_never_done s : forall ns, run (MNum ns) [] s <> Done.
Proof.
  induction s as [|c s IH]; intros ns; [discriminate|].
  cbn [run]. pose proof (num_top_step ns c) as H.
  destruct (step (MNum ns) [] c) as [m k| | |]; try discriminate; try contradiction.
  destruct m; try contradiction. destruct k; try contradiction. apply IH.
Qed.

(* the input ends inside a value: io.ErrUnexpectedEOF *)
Definition open_state (m : mode) (k : list frame) : bool :=
  match m, k with MNum _, [] => false | _, _ => true end.

Lemma stream_eof_open m k acc vals : open_state m k = true -> stream (Some (m, k)) acc vals [] = None.
Proof. cbn [stream]. destruct m; try reflexivity. destruct k; [discriminate|reflexivity]. Qed.

(* a complete document cut ANYWHERE (inside a string, after a key, after a colon, inside a
   nested object, ...): a proper non-empty prefix is not a JSON stream *)
Lemma truncated_rejected p s :
  complete (p ++ s) = true -> p <> [] -> s <> [] -> json_values p = None.
Proof.
  destruct p as [|c p]; [contradiction|]. intros H _ Hs. unfold complete in H. cbn [app] in H.
  apply andb_true_iff in H as [Hw H]. apply negb_true_iff in Hw.
  unfold json_values. cbn [stream]. rewrite Hw.
  destruct (top_step c) as [m k| | |]; try discriminate.
  rewrite (run_app p m k s Hs) in H.
  destruct (run m k p) as [m' k'| | |] eqn:Hr; try discriminate.
  rewrite <- (app_nil_r p). rewrite (stream_run_cont p _ _ _ _ [] _ _ Hr).
  apply stream_eof_open. destruct m'; try reflexivity. destruct k'; [|reflexivity].
  exfalso. destruct (run (MNum s0) [] s) eqn:E; try discriminate. now apply (num_top_never_done s s0).
Qed.

Lemma broken_truncated p s : complete (p ++ s) = true -> p <> [] -> s <> [] -> broken_tail p = true.
Proof. intros H Hp Hs. unfold broken_tail, json_path. now rewrite (truncated_rejected p s H Hp Hs). Qed.

(* ---------- the run ---------- *)

Lemma cluster_sameb_refl proj c : cluster_sameb (view proj c) (view proj c) = true.
Proof. apply sameb_of_equiv, equiv_refl. Qed.

(* a well-formed JSON stream, whatever white space separates the documents: the run is the
   run of C13_Model on exactly these documents in order *)
Lemma wellformed_is_handle_run c tb yaml ds tail :
  forallb doc_ok ds = true -> all_ws tail = true ->
  handle_text_run c tb yaml (flatten ds tail) = handle_run c (map (fun wv => meaning tb (snd wv)) ds).
Proof.
  intros Hd Ht. unfold handle_text_run, parse_text. rewrite (json_path_docs ds tail Hd), (json_path_ws tail Ht).
  cbn [option_map]. now rewrite app_nil_r, map_map.
Qed.

(* doc1 .. dock fault rest: the JSON path fails whatever precedes the fault; the result is
   the YAML decoder's *)
Lemma broken_is_yaml c tb yaml ds tail :
  forallb doc_ok ds = true -> broken_tail tail = true ->
  handle_text_run c tb yaml (flatten ds tail) =
  match yaml with None => mkOutcome false c [] [] | Some ys => handle_run c ys end.
Proof.
  intros Hd Ht. unfold handle_text_run, parse_text. rewrite (json_path_docs ds tail Hd).
  unfold broken_tail in Ht. destruct (json_path tail); [discriminate|]. reflexivity.
Qed.

Lemma text_run_meets_spec proj c tb yaml sh :
  shape_ok sh = true -> P_text proj c tb yaml sh (handle_text_run c tb yaml (text_of sh)) = true.
Proof.
  unfold shape_ok, text_of. intros H. apply andb_true_iff in H as [Hd Ht]. unfold P_text, wf_docs.
  destruct (all_ws (sh_tail sh)) eqn:Hw.
  - rewrite (wellformed_is_handle_run c tb yaml _ _ Hd Hw). apply handle_run_meets_spec.
  - cbn [orb] in Ht. rewrite (broken_is_yaml c tb yaml _ _ Hd Ht). destruct yaml as [ys|].
    + apply handle_run_meets_spec.
    + cbn [failed r_parse_ok r_cluster r_calls negb orb andb]. now rewrite cluster_sameb_refl.
Qed.

Lemma text_hook_run_meets_spec proj c tb yaml sh :
  shape_ok sh = true ->
  let r := handle_text_run c tb yaml (text_of sh) in
  P_text_hook proj c tb yaml sh (failed r) (r_cluster r) (r_calls r) = true.
Proof.
  unfold shape_ok, text_of. intros H. apply andb_true_iff in H as [Hd Ht]. unfold P_text_hook, wf_docs.
  destruct (all_ws (sh_tail sh)) eqn:Hw.
  - rewrite (wellformed_is_handle_run c tb yaml _ _ Hd Hw). apply hook_run_meets_spec.
  - cbn [orb] in Ht. rewrite (broken_is_yaml c tb yaml _ _ Hd Ht). destruct yaml as [ys|].
    + apply hook_run_meets_spec.
    + cbn [failed r_parse_ok r_cluster r_calls negb orb andb]. now rewrite cluster_sameb_refl.
Qed.
