(* C07_LongProofs.v — proofs for C07_LongSpec: the lazily evaluated predicates ARE the predicates of
   C07_Spec; the count clauses follow from them; the combiner merges a run of ANY length. *)
From Verif Require Import Common C07_Model C07_Spec C07_Proofs C07_LongSpec.
Require Import Lia.

(* ------------------------------------------------------------------ the _lz forms *)
Lemma left_out_ok_lz_eq l : forall d, left_out_ok_lz l d = left_out_ok l d.
Proof.
  induction l as [|c r IH]; intros d; [reflexivity|].
  cbn [left_out_ok_lz left_out_ok]. rewrite IH.
  destruct d as [|c' d'].
  - cbn [orb]. destruct (may_leave_out c r); reflexivity.
  - rewrite IH. destruct (ctx_eqb c c'); cbn [andb].
    + destruct (left_out_ok r d'); cbn [orb]; [reflexivity|].
      destruct (may_leave_out c r); reflexivity.
    + cbn [orb]. destruct (may_leave_out c r); reflexivity.
Qed.

Lemma P_lz_eq i o : P_lz i o = P i o.
Proof. unfold P_lz, P. now rewrite left_out_ok_lz_eq. Qed.

Lemma P_set_lz_eq i o : P_set_lz i o = P_set i o.
Proof.
  unfold P_set_lz, P_set. destruct (wf_set i); [|reflexivity].
  destruct (queue_named (t_qn (s_t i)) (s_qs i)); [|reflexivity].
  destruct (named (t_qn (s_t i)) (so_queues o)); [|reflexivity]. now rewrite P_lz_eq.
Qed.

Lemma executed_with_lz_eq sp t rest qn o : executed_with_lz sp t rest qn o = executed_with sp t rest qn o.
Proof.
  unfold executed_with_lz, executed_with.
  destruct (st_runs o) as [|r [|]]; try reflexivity.
Qed.

Lemma P_step_lz_eq v0s qs st o : P_step_lz v0s qs st o = P_step v0s qs st o.
Proof. reflexivity. Qed.

Lemma P_session_lz_eq v0s steps : forall qs obs, P_session_lz v0s qs steps obs = P_session v0s qs steps obs.
Proof.
  induction steps as [|st r IH]; intros qs [|o ro]; cbn [P_session_lz P_session]; try reflexivity.
Qed.

(* ------------------------------------------------------------------ counts *)
Lemma len_N_length A (l : list A) : len_N l = N.of_nat (length l).
Proof. induction l as [|x l IH]; [reflexivity|]. cbn [len_N length]. rewrite IH. lia. Qed.

Lemma run_len_take_while A (f : A -> bool) l : run_len f l = N.of_nat (length (take_while f l)).
Proof.
  induction l as [|x l IH]; [reflexivity|]. cbn [run_len take_while].
  destruct (f x); [|reflexivity]. cbn [length]. rewrite IH. lia.
Qed.

Lemma followers_block stop t rest : followers stop t rest = N.of_nat (length (block stop t rest)).
Proof. apply run_len_take_while. Qed.

Lemma block_after_length stop t rest :
  length rest = (length (block stop t rest) + length (after_block stop t rest))%nat.
Proof.
  unfold block, after_block. rewrite <- app_length. now rewrite take_drop_while.
Qed.

Lemma list_eqb_length A (eqb : A -> A -> bool) : forall a b, list_eqb eqb a b = true -> length a = length b.
Proof.
  induction a as [|x a IH]; intros [|y b] H; cbn [list_eqb] in H; try discriminate; [reflexivity|].
  apply andb_true_iff in H as [_ H]. cbn [length]. now rewrite (IH b H).
Qed.

(* the count clause is a consequence of the property's predicate, for ANY observation *)
Lemma P_implies_P_count i o : P i o = true -> P_count i o = true.
Proof.
  unfold P, P_count. destruct (wf i) eqn:W; [|reflexivity]. intros H.
  destruct (wf_props i W) as (h & rest & Eq & _).
  apply andb_true_iff in H as [H _]. apply andb_true_iff in H as [_ Hq].
  apply list_eqb_length in Hq. rewrite Eq in Hq |- *. cbn [tl firstn] in Hq |- *.
  rewrite map_length, !app_length in Hq. cbn [length] in Hq.
  apply N.eqb_eq. rewrite followers_block, !len_N_length, Hq. cbn [length].
  pose proof (block_after_length (stop_of (i_stop i)) (i_t i) rest) as E. lia.
Qed.

Lemma P_count_holds i : P_count i (run_model i) = true.
Proof. apply P_implies_P_count, P_holds. Qed.

Lemma P_set_implies_P_set_count i o : P_set i o = true -> P_set_count i o = true.
Proof.
  unfold P_set, P_set_count. destruct (wf_set i); [|reflexivity]. intros H.
  apply andb_true_iff in H as [_ H].
  destruct (queue_named (t_qn (s_t i)) (s_qs i)) as [q|]; [|reflexivity].
  apply andb_true_iff in H as [_ H].
  destruct (named (t_qn (s_t i)) (so_queues o)) as [ids|]; [|reflexivity].
  now apply P_implies_P_count.
Qed.

Lemma P_set_count_holds i : P_set_count i (run_set i) = true.
Proof. apply P_set_implies_P_set_count, P_set_holds. Qed.

Lemma executed_with_count sp t rest qn o q' :
  executed_with sp t rest qn o = true -> queue_named qn (st_state o) = Some q' ->
  N.eqb (len_N q' + followers sp t rest + (if st_success o then 1 else 0)) (N.succ (len_N rest)) = true.
Proof.
  unfold executed_with. intros H Hq. rewrite Hq in H.
  destruct (st_runs o) as [|r [|]]; try discriminate.
  apply andb_true_iff in H as [_ H]. apply list_eqb_length in H.
  rewrite app_length in H.
  apply N.eqb_eq. rewrite followers_block, !len_N_length, H.
  pose proof (block_after_length sp t rest) as E.
  destruct (st_success o); cbn [length]; lia.
Qed.

Lemma P_step_implies_P_step_count v0s qs st o : P_step v0s qs st o = true -> P_step_count v0s qs st o = true.
Proof.
  unfold P_step, P_step_count. destruct (wf_state qs); [|reflexivity]. intros H.
  apply andb_true_iff in H as [_ H].
  destruct st as [qn ok|t ok]; [|reflexivity].
  destruct (queue_named qn qs) as [[|t rest]|]; try reflexivity.
  destruct (queue_named qn (st_state o)) as [q'|] eqn:Eq'; [|reflexivity].
  apply andb_true_iff in H as [_ H].
  destruct (N.eqb (t_ty t) 0 && N.eqb (t_qn t) qn); [|reflexivity]. cbn [andb].
  destruct (mem_N (t_hook t) v0s) eqn:Ev; cbn [negb andb]; [reflexivity|].
  unfold not_executed in *. cbn [orb] in *.
  destruct (synchronization t && negb (t_exec t)) eqn:En; cbn [negb]; [reflexivity|].
  now apply executed_with_count with (qn := qn) (o := o).
Qed.

Lemma P_session_implies_count v0s steps :
  forall qs obs, P_session v0s qs steps obs = true -> P_session_count v0s qs steps obs = true.
Proof.
  induction steps as [|st r IH]; intros qs [|o ro] H; cbn [P_session P_session_count] in *; try reflexivity.
  apply andb_true_iff in H as [H1 H2]. apply andb_true_iff. split.
  - now apply P_step_implies_P_step_count.
  - now apply IH.
Qed.

Lemma P_session_count_holds v0s steps qs :
  P_session_count v0s qs steps (run_session v0s qs steps) = true.
Proof. apply P_session_implies_count, P_session_holds. Qed.

(* ------------------------------------------------------------------ a run of ANY length is merged *)
(* [run] are tasks of the head's hook and type (none stopped at), [other] is not: the block behind the
   head is [run], whatever its length *)
Lemma block_of_run stop t run other tail :
  forallb (mergeable stop t) run = true -> mergeable stop t other = false ->
  block stop t (run ++ other :: tail) = run /\ after_block stop t (run ++ other :: tail) = other :: tail.
Proof.
  unfold block, after_block. induction run as [|x run IH]; intros Hall Ho.
  - cbn [app take_while drop_while]. now rewrite Ho.
  - cbn [forallb] in Hall. apply andb_true_iff in Hall as [Hx Hall].
    cbn [app take_while drop_while]. rewrite Hx.
    destruct (IH Hall Ho) as [E1 E2]. now rewrite E1, E2.
Qed.

Lemma block_of_run_end stop t run :
  forallb (mergeable stop t) run = true ->
  block stop t run = run /\ after_block stop t run = [].
Proof.
  unfold block, after_block. induction run as [|x run IH]; intros Hall; [split; reflexivity|].
  cbn [forallb] in Hall. apply andb_true_iff in Hall as [Hx Hall].
  cbn [take_while drop_while]. rewrite Hx. destruct (IH Hall) as [E1 E2]. now rewrite E1, E2.
Qed.

(* the combiner on a backlog [t; run...; other; tail...] with tasks [app] arriving meanwhile: one call
   delivers the contexts of the head and of the WHOLE run, compacted, all monitor ids, and leaves
   [t; other; tail...; app...] - for every length of [run] (no bound, no batch) *)
Lemma long_backlog_merged stop t run other tail app :
  t_meta t = true -> NoDup (map t_id (t :: (run ++ other :: tail) ++ app)) ->
  run <> [] ->
  forallb (mergeable stop t) run = true -> mergeable stop t other = false ->
  let p := combine_concurrent stop t (t :: run ++ other :: tail) app in
  (exists res, fst p = Some res
               /\ r_ctxs res = spec_compact (t_ctxs t ++ flat_map t_ctxs run)
               /\ r_mids res = t_mids t ++ flat_map t_mids run)
  /\ snd p = t :: other :: tail ++ app
  /\ (N.of_nat (length (t :: (run ++ other :: tail) ++ app)) - N.of_nat (length (snd p)))%N = len_N run.
Proof.
  intros Hm Hnd Hne Hall Ho. cbv zeta.
  destruct (block_of_run stop t run other tail Hall Ho) as [Eb Ea].
  pose proof (contexts_are_concat_compacted stop t (run ++ other :: tail) app Hm Hnd) as HC.
  cbv zeta in HC. rewrite Eb in HC. destruct HC as (Hnone & Hsome & _).
  pose proof (monitor_ids_concat stop t (run ++ other :: tail) app Hm Hnd) as HM.
  cbv zeta in HM. rewrite Eb in HM. destruct HM as (Hmid & _).
  pose proof (queue_remainder stop t (run ++ other :: tail) app Hm Hnd) as [HQ _].
  rewrite Ea in HQ.
  split; [|split].
  - destruct (fst (combine_concurrent stop t (t :: run ++ other :: tail) app)) as [res|] eqn:E.
    + exists res. split; [reflexivity|]. split; [now apply Hsome | now apply Hmid].
    + exfalso. apply Hne. now apply Hnone.
  - exact HQ.
  - rewrite HQ, len_N_length.
    change (t :: (other :: tail) ++ app) with ([t; other] ++ tail ++ app).
    change (t :: (run ++ other :: tail) ++ app) with ([t] ++ (run ++ other :: tail) ++ app).
    rewrite !app_length. cbn [length]. lia.
Qed.

(* the number of followers the model merges is the length of the maximal run, whatever it is *)
Lemma merged_count_is_run_length stop t rest app :
  t_meta t = true -> NoDup (map t_id (t :: rest ++ app)) ->
  (len_N (snd (combine_concurrent stop t (t :: rest) app)) + followers stop t rest)%N
  = len_N (t :: rest ++ app).
Proof.
  intros Hm Hnd.
  pose proof (queue_remainder stop t rest app Hm Hnd) as [HQ _]. rewrite HQ.
  rewrite followers_block, !len_N_length. cbn [length]. rewrite !app_length.
  pose proof (block_after_length stop t rest). lia.
Qed.
