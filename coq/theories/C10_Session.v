(* C10_Session.v — executable model of SEVERAL loads in one process (no proofs in this file).

   An operator loads the configs of all its hooks one after another at start-up, and a hook
   may be loaded again; every load goes through the same package-level state of
   pkg/hook/config.  As the code is, that state is

     schemas.go   var SchemasCache = map[string]*spec.Schema{}     filled by GetSchema(name):
                    if s, ok := SchemasCache[name]; ok { return s }
                    if _, ok := Schemas[name]; !ok { return nil }
                    SchemasCache[name], _ = LoadSchema(name); return SchemasCache[name]

   (Schemas, zeroStepRe, validBindingTypes are never written; the uuids of ScheduleID /
   MonitorConfigID are not observed).  The model keeps the cache as an association list
   version -> schema, threads it through the loads of a session, and uses the CACHED schema for
   validation, exactly as LoadAndValidate does:

     vu.Load(data)                                   detect_version      (VerBad: error, GetSchema not reached)
     ValidateConfig(vu.Obj, GetSchema(vu.Version))   get_schema + check  (nil schema: error)
     c.ConvertAndCheck(data)                         checks_vN / convert_vN

   The external validators stay oracles PER STRING / PER VALUE: one function for the whole
   session (robfig/cron.v2 has no state across Parse calls, neither have the others).
   That a session's k-th result is [load] of its k-th document is NOT built in here; it is
   C10_SessionProofs.session_is_map_load, proved from the invariant that every cache entry holds
   the schema of its version. *)
From Coq Require Import String.
From Verif Require Import Common Json C10_Model.

Definition vers_eqb (a b : vers) : bool :=
  match a, b with
  | VerV0, VerV0 | VerV1, VerV1 | VerBad, VerBad => true
  | _, _ => false
  end.

(* LoadSchema(name) for the names of the Schemas map ("v0", "v1"); any other name: no schema *)
Definition schema_of (v : vers) : option sch :=
  match v with
  | VerV0 => Some schema_v0
  | VerV1 => Some schema_v1
  | VerBad => None
  end.

(* SchemasCache *)
Definition cache := list (vers * sch).

Fixpoint cache_find (v : vers) (c : cache) : option sch :=
  match c with
  | [] => None
  | (v', s) :: r => if vers_eqb v v' then Some s else cache_find v r
  end.

(* GetSchema *)
Definition get_schema (c : cache) (v : vers) : option sch * cache :=
  match cache_find v c with
  | Some s => (Some s, c)
  | None =>
      match schema_of v with
      | None => (None, c)
      | Some s => (Some s, (v, s) :: c)
      end
  end.

Section Oracles.
  Variable cron_ok : bytes -> bool.
  Variable label_selector_ok : json -> bool.
  Variable duration_ns : bytes -> option Z.
  Variable webhook_ok : json -> bool.

  Definition checks_of (v : vers) (doc : json) : bool :=
    match v with
    | VerV1 => checks_v1 cron_ok label_selector_ok duration_ns webhook_ok doc
    | _ => checks_v0 cron_ok doc
    end.

  Definition convert_of (v : vers) (doc : json) : cfg :=
    match v with
    | VerV1 => convert_v1 duration_ns doc
    | _ => convert_v0 doc
    end.

  (* HookConfig.LoadAndValidate on the process state [c] *)
  Definition load_st (c : cache) (doc : json) : result * cache :=
    match detect_version doc with
    | VerBad => (Rejected, c)
    | v =>
        let (os, c') := get_schema c v in
        (match os with
         | None => Rejected                              (* "schema is not provided" *)
         | Some s => if check s doc && checks_of v doc then Loaded (convert_of v doc) else Rejected
         end, c')
    end.

  (* the documents of a session, loaded one after another, starting from process state [c] *)
  Fixpoint session_from (c : cache) (docs : list json) : list result :=
    match docs with
    | [] => []
    | d :: r => let (x, c') := load_st c d in x :: session_from c' r
    end.

  (* the state the process is left in *)
  Fixpoint state_after (c : cache) (docs : list json) : cache :=
    match docs with
    | [] => c
    | d :: r => state_after (snd (load_st c d)) r
    end.

  (* a fresh process: nothing cached *)
  Definition session (docs : list json) : list result := session_from [] docs.
End Oracles.

(* ---- what a session looks like to the Spec: each load seen in the session and alone ---- *)
From Verif Require Import C10_Spec.

Definition robs (r : result) : obs :=
  match r with Loaded c => OLoaded (cfg_json c) | Rejected => ORejected end.

Definition model_sobs (d : json) (r_in r_alone : result) : sobs :=
  mkSobs (Some d) false (robs r_in) (robs r_in) (robs r_alone) (robs r_alone).

Definition model_session (co : bytes -> bool) (lo : json -> bool) (du : bytes -> option Z) (wo : json -> bool)
           (docs : list json) : list sobs :=
  map (fun dr => model_sobs (fst dr) (snd dr) (load co lo du wo (fst dr)))
      (combine docs (session co lo du wo docs)).
