(* C12_Proofs.v *)
From Verif Require Import Common C12_Model C12_Spec C12_Corr.
Open Scope N_scope.

Lemma run_remaining i : o_remaining (run i) = 0.
Proof.
  unfold run. destruct (prepare _ 0) as [created ok]. destruct ok; simpl.
  - destruct (Z.eqb (i_exit i) 0); simpl; [|reflexivity].
    destruct (parses (i_metrics i)); simpl; [|reflexivity].
    destruct (parses (i_admission i)); simpl; [|reflexivity].
    destruct (parses (i_conversion i)); simpl; [|reflexivity].
    destruct (parses (i_patch i)); reflexivity.
  - apply N.sub_diag.
Qed.

Lemma run_success_iff i :
  o_started (run i) = true ->
  (o_success (run i) = true <-> (i_exit i = 0%Z /\ all_parse i = true)).
Proof.
  unfold run, all_parse. destruct (prepare _ 0) as [created ok]. destruct ok; simpl; [|discriminate].
  intros _. destruct (Z.eqb (i_exit i) 0) eqn:E; simpl.
  - apply Z.eqb_eq in E.
    destruct (parses (i_metrics i)), (parses (i_admission i)), (parses (i_conversion i)), (parses (i_patch i));
      simpl; split; intros H; try discriminate; try (split; [assumption | reflexivity]);
      try (destruct H as [_ H]; discriminate); reflexivity.
  - apply Z.eqb_neq in E. split; [discriminate | intros [H _]; contradiction].
Qed.

Lemma run_applied i :
  (o_metric_applied (run i) = true -> o_success (run i) = true /\ i_metrics i = FValid) /\
  (o_patch_applied (run i) = true -> o_success (run i) = true /\ i_patch i = FValid) /\
  (o_success (run i) = true -> o_metric_applied (run i) = has_content (i_metrics i)
                               /\ o_patch_applied (run i) = has_content (i_patch i)).
Proof.
  unfold run. destruct (prepare _ 0) as [created ok]. destruct ok; simpl;
    [|repeat split; discriminate].
  destruct (Z.eqb (i_exit i) 0); simpl; [|repeat split; discriminate].
  destruct (i_metrics i), (i_admission i), (i_conversion i), (i_patch i); simpl;
    repeat split; try discriminate; reflexivity.
Qed.

(* non-zero exit: a failure, nothing applied *)
Lemma run_nonzero_exit i : i_exit i <> 0%Z ->
  o_success (run i) = false /\ o_metric_applied (run i) = false /\ o_patch_applied (run i) = false.
Proof.
  intros H. unfold run. destruct (prepare _ 0) as [created ok]. destruct ok; simpl; [|auto].
  apply Z.eqb_neq in H. rewrite H. simpl. auto.
Qed.

(* the logic half of the property holds of the model for every input (the OS half is
   taken over from the implementation's observation, see C12_Corr.model_obs) *)
Theorem model_P_logic i o : P_logic i (model_obs (i, o)) = true.
Proof.
  unfold P_logic, model_obs. cbn [ob_bad ob_started ob_status ob_tmp_after ob_metric_applied ob_patch_applied].
  rewrite run_remaining. cbn [negb andb N.eqb].
  destruct (o_started (run i)) eqn:S.
  - pose proof (run_success_iff i S) as SI. pose proof (run_applied i) as (A1 & A2 & A3).
    destruct (o_success (run i)) eqn:Su.
    + destruct (proj1 SI eq_refl) as [E AP]. rewrite E, AP. cbn.
      destruct (A3 eq_refl) as [M Pp]. rewrite M, Pp. now rewrite !Bool.eqb_reflx.
    + cbn [N.eqb]. assert (F : (Z.eqb (i_exit i) 0 && all_parse i) = false).
      { destruct (Z.eqb (i_exit i) 0 && all_parse i) eqn:X; [|reflexivity].
        apply andb_true_iff in X as [X1 X2]. apply Z.eqb_eq in X1.
        assert (false = true) by (apply SI; auto). discriminate. }
      rewrite F. cbn.
      destruct (Z.eqb (i_exit i) 0) eqn:E; cbn; [reflexivity|].
      apply Z.eqb_neq in E. destruct (run_nonzero_exit i E) as (_ & M & Pp). now rewrite M, Pp.
  - assert (Su : o_success (run i) = false).
    { unfold run in *. destruct (prepare _ 0) as [c ok]. destruct ok; simpl in *; [|reflexivity].
      destruct (Z.eqb (i_exit i) 0); simpl in *; try discriminate.
      destruct (parses (i_metrics i)); simpl in *; try discriminate.
      destruct (parses (i_admission i)); simpl in *; try discriminate.
      destruct (parses (i_conversion i)); simpl in *; try discriminate.
      destruct (parses (i_patch i)); simpl in *; discriminate. }
    rewrite Su. reflexivity.
Qed.
