(* C12_Proofs.v *)
From Verif Require Import Common Json JsonText JsonText_Proofs C12_Model C12_Spec C12_Corr.
Open Scope N_scope.

(* ------------------------------------------------------------------ verdict algebra *)
Lemma vand_true a b : vand a b = Some true <-> a = Some true /\ b = Some true.
Proof.
  destruct a as [[|]|], b as [[|]|]; simpl; split; intros H; try discriminate;
    try (destruct H as [H1 H2]; discriminate); auto.
Qed.
Lemma vand_false a b : vand a b = Some false <-> a = Some false \/ b = Some false.
Proof.
  destruct a as [[|]|], b as [[|]|]; simpl; split; intros H; try discriminate; auto;
    destruct H as [H|H]; discriminate.
Qed.
Lemma vall_true l : vall l = Some true <-> forall x, In x l -> x = Some true.
Proof.
  induction l as [|a l IH]; simpl.
  - split; [intros _ x [] | reflexivity].
  - rewrite vand_true, IH. split.
    + intros [Ha Hl] x [<-|Hx]; auto.
    + intros H; split; [apply H; auto | intros x Hx; apply H; auto].
Qed.
Lemma vall_false l : vall l = Some false <-> exists x, In x l /\ x = Some false.
Proof.
  induction l as [|a l IH]; simpl.
  - split; [discriminate | intros [x [[] _]]].
  - rewrite vand_false, IH. split.
    + intros [Ha|[x [Hx E]]]; [exists a; auto | exists x; auto].
    + intros [x [[<-|Hx] E]]; [left; exact E | right; exists x; auto].
Qed.

Lemma bytes_eqb_false a b : bytes_eqb a b = false <-> a <> b.
Proof.
  split.
  - intros E H. apply bytes_eqb_eq in H. congruence.
  - intros H. destruct (bytes_eqb a b) eqn:E; [apply bytes_eqb_eq in E; contradiction | reflexivity].
Qed.
Lemma bytes_eqb_sym a b : bytes_eqb a b = bytes_eqb b a.
Proof.
  destruct (bytes_eqb a b) eqn:E.
  - apply bytes_eqb_eq in E. subst. symmetry. apply bytes_eqb_refl.
  - symmetry. apply bytes_eqb_false. apply bytes_eqb_false in E. congruence.
Qed.

(* ------------------------------------------------------------------ object -> struct on clean documents *)
Fixpoint distinctb (l : list bytes) : bool :=
  match l with
  | [] => true
  | x :: r => negb (existsb (bytes_eqb x) r) && distinctb r
  end.

Lemma distinct_type (sch : schema) : distinctb (map fst sch) = true ->
  forall n t t', In (n, t) sch -> In (n, t') sch -> t = t'.
Proof.
  induction sch as [|[n0 t0] sch IH]; simpl; intros D n t t' H1 H2; [contradiction|].
  apply andb_true_iff in D as [D1 D2]. apply negb_true_iff in D1.
  assert (NI : forall t1, In (n0, t1) sch -> False).
  { intros t1 Hin. assert (X : existsb (bytes_eqb n0) (map fst sch) = true).
    { apply existsb_exists. exists n0. split; [apply (in_map fst) in Hin; exact Hin | apply bytes_eqb_refl]. }
    congruence. }
  destruct H1 as [E1|H1], H2 as [E2|H2].
  - congruence.
  - inversion E1; subst. exfalso; eauto.
  - inversion E2; subst. exfalso; eauto.
  - eauto.
Qed.

Lemma find_field_some p sch f : find_field p sch = Some f -> In f sch /\ p (fst f) = true.
Proof.
  induction sch as [|g sch IH]; simpl; [discriminate|].
  destruct (p (fst g)) eqn:E; intros H.
  - inversion H; subst. auto.
  - destruct (IH H); auto.
Qed.
Lemma find_field_none p sch : find_field p sch = None -> forall f, In f sch -> p (fst f) = false.
Proof.
  induction sch as [|g sch IH]; simpl; intros H f Hf; [contradiction|].
  destruct (p (fst g)) eqn:E; [discriminate|]. destruct Hf as [<-|Hf]; auto.
Qed.

Definition clean_key (sch : schema) (k : bytes) : bool :=
  forallb (fun f => implb (bytes_eqb (fold_key (fst f)) (fold_key k)) (bytes_eqb (fst f) k)) sch.

Lemma field_of_clean sch k n t :
  clean_key sch k = true -> field_of sch k = Some (n, t) -> n = k /\ In (n, t) sch.
Proof.
  unfold field_of. intros C H.
  destruct (find_field (fun n0 => bytes_eqb n0 k) sch) as [f|] eqn:E1.
  - inversion H; subst. apply find_field_some in E1 as [I E]. simpl in E. apply bytes_eqb_eq in E. auto.
  - apply find_field_some in H as [I E]. simpl in E.
    unfold clean_key in C. rewrite forallb_forall in C. specialize (C _ I). simpl in C.
    rewrite E in C. simpl in C. apply bytes_eqb_eq in C. auto.
Qed.
Lemma field_of_none sch k : field_of sch k = None -> forall f, In f sch -> bytes_eqb (fst f) k = false.
Proof.
  unfold field_of. intros H f Hf.
  destruct (find_field (fun n0 => bytes_eqb n0 k) sch) as [g|] eqn:E1; [discriminate|].
  apply (find_field_none _ _ E1 f Hf).
Qed.

Lemma count_key_cons n k v m :
  count_key n ((k, v) :: m) = if bytes_eqb k n then S (count_key n m) else count_key n m.
Proof. unfold count_key. simpl. destruct (bytes_eqb k n); reflexivity. Qed.

Lemma count_zero_assoc n m : count_key n m = O -> assoc n m = None.
Proof.
  induction m as [|[k v] m IH]; [reflexivity|]. rewrite count_key_cons. simpl.
  rewrite (bytes_eqb_sym n k). destruct (bytes_eqb k n); [discriminate | exact IH].
Qed.
Lemma count_zero_notin n m : count_key n m = O -> forall kv, In kv m -> fst kv <> n.
Proof.
  induction m as [|[k v] m IH]; intros H kv Hin; [contradiction|]. rewrite count_key_cons in H.
  destruct (bytes_eqb k n) eqn:E; [discriminate|]. destruct Hin as [<-|Hin].
  - simpl. now apply bytes_eqb_false.
  - now apply IH.
Qed.

(* what decode_members does on a document whose keys are clean and unique: every documented
   member is stored into its own, still unset field *)
Lemma dm_gen (sch : schema) (D : distinctb (map fst sch) = true) : forall m st,
  forallb (fun kv => clean_key sch (fst kv)) m = true ->
  (forall f, In f sch -> (count_key (fst f) m <= 1)%nat) ->
  (forall kv f, In kv m -> In f sch -> fst f = fst kv -> sget st (fst kv) = VUnset) ->
  match decode_members sch m st with
  | Some st' => forall n t, In (n, t) sch ->
      match assoc n m with
      | Some v => store t VUnset v = Some (sget st' n)
      | None => sget st' n = sget st n
      end
  | None => exists n t v, In (n, t) sch /\ assoc n m = Some v /\ store t VUnset v = None
  end.
Proof.
  induction m as [|[k v] m IH]; intros st C U Z.
  - simpl. intros n t _. reflexivity.
  - simpl in C. apply andb_true_iff in C as [Ck C]. simpl in Ck.
    cbn [decode_members].
    destruct (field_of sch k) as [[n t]|] eqn:F.
    + destruct (field_of_clean sch k n t Ck F) as [-> I].
      assert (Z0 : sget st k = VUnset) by (apply (Z (k, v) (k, t)); simpl; auto).
      rewrite Z0.
      assert (Cnt : count_key k m = O).
      { specialize (U _ I). simpl in U. rewrite count_key_cons, bytes_eqb_refl in U. lia. }
      destruct (store t VUnset v) as [x|] eqn:S.
      * specialize (IH ((k, x) :: st) C).
        assert (U' : forall f, In f sch -> (count_key (fst f) m <= 1)%nat).
        { intros f Hf. specialize (U f Hf). rewrite count_key_cons in U. destruct (bytes_eqb k (fst f)); lia. }
        assert (Z' : forall kv f, In kv m -> In f sch -> fst f = fst kv -> sget ((k, x) :: st) (fst kv) = VUnset).
        { intros kv f Hkv Hf E. simpl.
          assert (NE : fst kv <> k) by (apply (count_zero_notin _ _ Cnt); assumption).
          assert (B : bytes_eqb k (fst kv) = false) by (apply bytes_eqb_false; congruence).
          rewrite B. apply (Z kv f); simpl; auto. }
        specialize (IH U' Z').
        destruct (decode_members sch m ((k, x) :: st)) as [st'|].
        -- intros n0 t0 I0. specialize (IH n0 t0 I0). simpl.
           destruct (bytes_eqb n0 k) eqn:E.
           ++ apply bytes_eqb_eq in E. subst n0.
              rewrite (distinct_type _ D _ _ _ I0 I).
              rewrite (count_zero_assoc _ _ Cnt) in IH. rewrite IH. simpl. rewrite bytes_eqb_refl. exact S.
           ++ destruct (assoc n0 m); [exact IH|]. rewrite IH. simpl.
              rewrite (bytes_eqb_sym k n0), E. reflexivity.
        -- destruct IH as (n0 & t0 & v0 & I0 & A0 & S0). exists n0, t0, v0. repeat split; auto.
           simpl. destruct (bytes_eqb n0 k) eqn:E; [|exact A0].
           apply bytes_eqb_eq in E. subst. rewrite (count_zero_assoc _ _ Cnt) in A0. discriminate.
      * exists k, t, v. repeat split; auto. simpl. now rewrite bytes_eqb_refl.
    + pose proof (field_of_none _ _ F) as NF.
      assert (U' : forall f, In f sch -> (count_key (fst f) m <= 1)%nat).
      { intros f Hf. specialize (U f Hf). rewrite count_key_cons in U. destruct (bytes_eqb k (fst f)); lia. }
      assert (Z' : forall kv f, In kv m -> In f sch -> fst f = fst kv -> sget st (fst kv) = VUnset).
      { intros kv f Hkv Hf E. apply (Z kv f); simpl; auto. }
      specialize (IH st C U' Z').
      destruct (decode_members sch m st) as [st'|].
      * intros n0 t0 I0. specialize (IH n0 t0 I0). simpl.
        specialize (NF _ I0). simpl in NF. now rewrite NF.
      * destruct IH as (n0 & t0 & v0 & I0 & A0 & S0). exists n0, t0, v0. repeat split; auto.
        simpl. specialize (NF _ I0). simpl in NF. now rewrite NF.
Qed.

(* ------------------------------------------------------------------ documented shape vs. what the decoder stores *)
Lemma map_opt_some A B (f : A -> option B) l :
  (forall x, In x l -> f x <> None) -> exists ys, map_opt f l = Some ys /\ length ys = length l.
Proof.
  induction l as [|a l IH]; intros H; [exists []; auto|].
  simpl. destruct (f a) as [y|] eqn:E; [|exfalso; apply (H a); simpl; auto].
  destruct IH as (ys & -> & L); [intros x Hx; apply H; simpl; auto|].
  exists (y :: ys). simpl. auto.
Qed.
Arguments map_opt_some {A B} f l _.
Lemma map_opt_none A B (f : A -> option B) l x : In x l -> f x = None -> map_opt f l = None.
Proof.
  induction l as [|a l IH]; intros Hin E; [contradiction|]. simpl.
  destruct Hin as [->|Hin]; [now rewrite E|].
  rewrite (IH Hin E). destruct (f a); reflexivity.
Qed.
Arguments map_opt_none {A B} f l x _ _.
Lemma map_opt_all A B (f : A -> option B) l ys : map_opt f l = Some ys -> forall x, In x l -> f x <> None.
Proof.
  intros H x Hx E. rewrite (map_opt_none f l x Hx E) in H. discriminate.
Qed.

Lemma elems_true ok (elem : json -> option bytes) l :
  (forall e, ok e = true -> elem e <> None) ->
  elems_verdict ok l = Some true -> exists ys, map_opt elem l = Some ys.
Proof.
  unfold elems_verdict. intros H. destruct (forallb ok l) eqn:E.
  - intros _. rewrite forallb_forall in E.
    destruct (map_opt_some elem l) as (ys & Hy & _); [intros x Hx; apply H, E, Hx | eauto].
  - destruct (forallb (fun e : json => ok e || is_null e) l); intros Q; discriminate Q.
Qed.
Lemma elems_false ok (elem : json -> option bytes) l :
  (forall e, ok e = false -> is_null e = false -> elem e = None) ->
  elems_verdict ok l = Some false -> map_opt elem l = None.
Proof.
  unfold elems_verdict. intros H. destruct (forallb ok l) eqn:E; [discriminate|].
  destruct (forallb (fun e => ok e || is_null e) l) eqn:E2; [discriminate|]. intros _.
  assert (X : exists e, In e l /\ (ok e || is_null e) = false).
  { clear E H. induction l as [|a l IH]; simpl in E2; [discriminate|].
    destruct (ok a || is_null a) eqn:Ea.
    - destruct (IH E2) as (e & I & Q). exists e; simpl; auto.
    - exists a; simpl; auto. }
  destruct X as (e & I & Q). apply orb_false_iff in Q as [Q1 Q2].
  apply (map_opt_none elem l e I). now apply H.
Qed.

Lemma has_type_false t old v : has_type t v = Some false -> store t old v = None.
Proof.
  destruct t, v; simpl; intros H; try discriminate; try reflexivity.
  - (* TNums, JArr *)
    rewrite (elems_false is_num num_elem l); [reflexivity| |exact H].
    intros e; destruct e; simpl; intros; try discriminate; reflexivity.
  - rewrite (elems_false is_str str_elem l); [reflexivity| |exact H].
    intros e; destruct e; simpl; intros; try discriminate; reflexivity.
  - (* TStrMap, JObj *)
    assert (X : map_opt map_elem m = None).
    { unfold elems_verdict in H.
      destruct (forallb is_str (map snd m)) eqn:E; [discriminate|].
      destruct (forallb (fun e => is_str e || is_null e) (map snd m)) eqn:E2; [discriminate|].
      clear E H. induction m as [|[k e] m IH]; simpl in E2; [discriminate|].
      simpl. unfold map_elem at 1. simpl.
      destruct (is_str e || is_null e) eqn:Ea.
      - rewrite (IH E2). destruct (str_elem e); reflexivity.
      - apply orb_false_iff in Ea as [E1 E3]. destruct e; simpl in *; try discriminate; reflexivity. }
    now rewrite X.
Qed.

(* a well-shaped value is stored, the field ends up set, strings and maps keep their content *)
Lemma has_type_true t v : has_type t v = Some true ->
  exists x, store t VUnset v = Some x /\ is_set x = true
            /\ (t = TStr -> exists s, v = JStr s /\ x = VStr s)
            /\ (t = TStrMap -> exists kv new, v = JObj kv /\ x = VMap new /\ map fst new = map fst kv).
Proof.
  destruct t, v; simpl; intros H; try discriminate.
  - eexists; repeat split; try discriminate. intros _. eauto.
  - eexists; repeat split; discriminate.
  - eexists; repeat split; discriminate.
  - eexists; repeat split; discriminate.
  - destruct (elems_true is_num num_elem l) as (ys & ->); [|exact H|].
    + intros e; destruct e; simpl; intros; discriminate.
    + simpl. eexists; repeat split; discriminate.
  - destruct (elems_true is_str str_elem l) as (ys & ->); [|exact H|].
    + intros e; destruct e; simpl; intros; discriminate.
    + simpl. eexists; repeat split; discriminate.
  - (* TStrMap *)
    assert (X : exists new, map_opt map_elem m = Some new /\ map fst new = map fst m).
    { unfold elems_verdict in H. destruct (forallb is_str (map snd m)) eqn:E;
        [|revert H; destruct (forallb (fun e : json => is_str e || is_null e) (map snd m)); intros H; discriminate H].
      clear H. induction m as [|[k e] m IH]; [exists []; auto|].
      simpl in E. apply andb_true_iff in E as [E1 E2]. destruct (IH E2) as (new & Hn & Hf).
      simpl. unfold map_elem at 1. simpl. destruct e; simpl in E1; try discriminate. simpl.
      rewrite Hn. exists ((k, s) :: new). simpl. now rewrite Hf. }
    destruct X as (new & -> & Hf). simpl.
    eexists; repeat split; try discriminate. intros _. eauto.
  - eexists; repeat split; discriminate.
Qed.

Lemma clean_doc_unpack (sch : schema) m : clean_doc sch m = true ->
  forallb (fun kv => clean_key sch (fst kv)) m = true
  /\ (forall f, In f sch -> (count_key (fst f) m <= 1)%nat).
Proof.
  unfold clean_doc. intros H. apply andb_true_iff in H as [H1 H2]. split; [exact H1|].
  intros f Hf. rewrite forallb_forall in H2. specialize (H2 f Hf). now apply Nat.leb_le.
Qed.

Lemma struct_decoded (sch : schema) (D : distinctb (map fst sch) = true) m :
  clean_doc sch m = true ->
  match decode_members sch m [] with
  | Some st => forall n t, In (n, t) sch ->
      match assoc n m with
      | Some v => store t VUnset v = Some (sget st n)
      | None => sget st n = VUnset
      end
  | None => exists n t v, In (n, t) sch /\ assoc n m = Some v /\ store t VUnset v = None
  end.
Proof.
  intros C. destruct (clean_doc_unpack sch m C) as [C1 C2].
  pose proof (dm_gen sch D m [] C1 C2) as G.
  assert (Z : forall (kv : bytes * json) (f : bytes * ftype), In kv m -> In f sch -> fst f = fst kv -> sget [] (fst kv) = VUnset)
    by reflexivity.
  specialize (G Z). destruct (decode_members sch m []) as [st|]; [|exact G].
  intros n t I. specialize (G n t I). destruct (assoc n m); exact G.
Qed.

Lemma typed_true_fields (sch : schema) m : typed_verdict sch m = Some true ->
  forall n t, In (n, t) sch -> forall v, assoc n m = Some v -> has_type t v = Some true.
Proof.
  unfold typed_verdict. rewrite vall_true. intros H n t I v A.
  apply H. apply in_map_iff. exists (n, t). split; [|exact I]. simpl. now rewrite A.
Qed.
Lemma typed_false_field (sch : schema) m : typed_verdict sch m = Some false ->
  exists n t v, In (n, t) sch /\ assoc n m = Some v /\ has_type t v = Some false.
Proof.
  unfold typed_verdict. rewrite vall_false. intros (x & Hx & E). apply in_map_iff in Hx as ([n t] & Hf & I).
  simpl in Hf. subst x. destruct (assoc n m) as [v|] eqn:A; [|discriminate]. exists n, t, v. auto.
Qed.

(* Some true: the decoder takes the document;  Some false: it does not *)
Lemma struct_true (sch : schema) (D : distinctb (map fst sch) = true) m :
  clean_doc sch m = true -> typed_verdict sch m = Some true ->
  exists st, decode_members sch m [] = Some st
    /\ forall n t, In (n, t) sch ->
       match assoc n m with
       | Some v => has_type t v = Some true /\ store t VUnset v = Some (sget st n)
       | None => sget st n = VUnset
       end.
Proof.
  intros C T. pose proof (struct_decoded sch D m C) as G.
  destruct (decode_members sch m []) as [st|].
  - exists st. split; [reflexivity|]. intros n t I. specialize (G n t I).
    destruct (assoc n m) as [v|] eqn:A; [|exact G]. split; [|exact G].
    apply (typed_true_fields sch m T n t I v A).
  - destruct G as (n & t & v & I & A & S). exfalso.
    pose proof (typed_true_fields sch m T n t I v A) as HT.
    destruct (has_type_true t v HT) as (x & Sx & _). congruence.
Qed.
Lemma struct_false (sch : schema) (D : distinctb (map fst sch) = true) m :
  clean_doc sch m = true -> typed_verdict sch m = Some false -> decode_members sch m [] = None.
Proof.
  intros C T. pose proof (struct_decoded sch D m C) as G.
  destruct (decode_members sch m []) as [st|]; [|reflexivity]. exfalso.
  destruct (typed_false_field sch m T) as (n & t & v & I & A & HF).
  specialize (G n t I). rewrite A in G. rewrite (has_type_false t VUnset v HF) in G. discriminate.
Qed.

(* ------------------------------------------------------------------ metrics: documented rules vs. ValidateMetricOperation *)
Lemma metric_distinct : distinctb (map fst metric_schema) = true. Proof. reflexivity. Qed.
Lemma admission_distinct : distinctb (map fst admission_schema) = true. Proof. reflexivity. Qed.
Lemma conversion_distinct : distinctb (map fst conversion_schema) = true. Proof. reflexivity. Qed.
Lemma metric_doc_is_schema : metric_doc = metric_schema. Proof. reflexivity. Qed.
Lemma admission_doc_is_schema : admission_doc = admission_schema. Proof. reflexivity. Qed.
Lemma conversion_doc_is_schema : conversion_doc = conversion_schema. Proof. reflexivity. Qed.

Section decoded_fields.
  Variable sch : schema.
  Variable m : list (bytes * json).
  Variable st : state.
  Hypothesis F : forall n t, In (n, t) sch ->
       match assoc n m with
       | Some v => has_type t v = Some true /\ store t VUnset v = Some (sget st n)
       | None => sget st n = VUnset
       end.

  Lemma field_set n t : In (n, t) sch -> is_set (sget st n) = has_key n m.
  Proof.
    intros I. specialize (F n t I). unfold has_key. destruct (assoc n m) as [v|].
    - destruct F as [HT S]. destruct (has_type_true t v HT) as (x & Sx & IS & _). congruence.
    - now rewrite F.
  Qed.

  Lemma field_str n : In (n, TStr) sch ->
    (assoc n m = None /\ sget st n = VUnset) \/ (exists s, assoc n m = Some (JStr s) /\ sget st n = VStr s).
  Proof.
    intros I. specialize (F n TStr I). destruct (assoc n m) as [v|]; [right|left; auto].
    destruct F as [HT S]. destruct (has_type_true TStr v HT) as (x & Sx & _ & Hs & _).
    destruct (Hs eq_refl) as (s & -> & ->). exists s. split; [reflexivity|]. congruence.
  Qed.

  Lemma field_map n : In (n, TStrMap) sch ->
    (assoc n m = None /\ sget st n = VUnset)
    \/ (exists kv new, assoc n m = Some (JObj kv) /\ sget st n = VMap new /\ map fst new = map fst kv).
  Proof.
    intros I. specialize (F n TStrMap I). destruct (assoc n m) as [v|]; [right|left; auto].
    destruct F as [HT S]. destruct (has_type_true TStrMap v HT) as (x & Sx & _ & _ & Hm).
    destruct (Hm eq_refl) as (kv & new & -> & -> & E). exists kv, new. repeat split; auto. congruence.
  Qed.
End decoded_fields.

Ltac in_schema := unfold metric_schema, admission_schema, conversion_schema; simpl; tauto.

Lemma eqb_excl a x y : x <> y -> bytes_eqb a x = true -> bytes_eqb a y = true -> False.
Proof. intros N E1 E2. apply bytes_eqb_eq in E1. apply bytes_eqb_eq in E2. congruence. Qed.

Lemma metric_rules_validate m st :
  (forall n t, In (n, t) metric_schema ->
       match assoc n m with
       | Some v => has_type t v = Some true /\ store t VUnset v = Some (sget st n)
       | None => sget st n = VUnset
       end) ->
  forall b, metric_rules m = Some b -> validate_op (op_of_state st) = b.
Proof.
  intros F b.
  assert (Hadd : is_set (sget st k_add) = has_key k_add m) by (apply (field_set metric_schema m st F k_add TNumPtr); in_schema).
  assert (Hset : is_set (sget st k_set) = has_key k_set m) by (apply (field_set metric_schema m st F k_set TNumPtr); in_schema).
  assert (Hval : is_set (sget st k_value) = has_key k_value m) by (apply (field_set metric_schema m st F k_value TNumPtr); in_schema).
  assert (Hbuc : is_set (sget st k_buckets) = has_key k_buckets m) by (apply (field_set metric_schema m st F k_buckets TNums); in_schema).
  assert (Hn := field_str metric_schema m st F k_name). assert (Hg := field_str metric_schema m st F k_group).
  assert (Ha := field_str metric_schema m st F k_action).
  set (hadd := has_key k_add m) in *. set (hset := has_key k_set m) in *.
  set (hval := has_key k_value m) in *. set (hbuc := has_key k_buckets m) in *.
  unfold metric_rules, validate_op, op_of_state, empty_key, doc_action, str_key.
  cbn [m_name m_group m_action m_add m_set m_value m_buckets m_labels].
  rewrite Hadd, Hset, Hval, Hbuc.
  fold hadd hset hval hbuc. unfold has_key.
  destruct (Hn ltac:(in_schema)) as [[An Sn]|(sn & An & Sn)];
  destruct (Hg ltac:(in_schema)) as [[Ag Sg]|(sg & Ag & Sg)];
  destruct (Ha ltac:(in_schema)) as [[Aa Sa]|(sa & Aa & Sa)];
  rewrite An, Ag, Aa, Sn, Sg, Sa; clear;
  try (destruct sn as [|cn ln]); try (destruct sg as [|cg lg]); try (destruct sa as [|ca la]);
  destruct hadd, hset, hval, hbuc;
  cbv beta iota delta [andb negb orb implb str_of is_nil];
  try (generalize (ca :: la); intros a;
       destruct (bytes_eqb a k_set) eqn:ES; destruct (bytes_eqb a k_add) eqn:EA;
       destruct (bytes_eqb a s_observe) eqn:EO; destruct (bytes_eqb a s_expire) eqn:EE;
       try (exfalso; apply (eqb_excl a k_set k_add); [discriminate | assumption | assumption]);
       try (exfalso; apply (eqb_excl a k_set s_observe); [discriminate | assumption | assumption]);
       try (exfalso; apply (eqb_excl a k_set s_expire); [discriminate | assumption | assumption]);
       try (exfalso; apply (eqb_excl a k_add s_observe); [discriminate | assumption | assumption]);
       try (exfalso; apply (eqb_excl a k_add s_expire); [discriminate | assumption | assumption]);
       try (exfalso; apply (eqb_excl a s_observe s_expire); [discriminate | assumption | assumption]);
       clear ES EA EO EE);
  cbv; intros Q; first [discriminate Q | (inversion Q; reflexivity)].
Qed.

(* one document: the text-side verdict, where there is one, is the decoder's (+ validation's) answer *)
Definition metric_doc_ok (d : json) : bool :=
  match decode_struct metric_schema d with Some st => validate_op (op_of_state st) | None => false end.

Lemma metric_doc_agree d b : doc_verdict metric_doc metric_rules d = Some b -> metric_doc_ok d = b.
Proof.
  rewrite metric_doc_is_schema. unfold doc_verdict, metric_doc_ok, decode_struct.
  destruct d as [| | | | | |m]; try discriminate; try (intros Q; inversion Q; reflexivity).
  destruct (clean_doc metric_schema m) eqn:C; [|discriminate].
  destruct (typed_verdict metric_schema m) as [[|]|] eqn:T; [| |discriminate].
  - intros R. destruct (struct_true metric_schema metric_distinct m C T) as (st & -> & F).
    apply (metric_rules_validate m st F b R).
  - intros Q; inversion Q. now rewrite (struct_false metric_schema metric_distinct m C T).
Qed.

Definition struct_ok (sch : schema) (d : json) : bool :=
  match decode_struct sch d with Some _ => true | None => false end.

Lemma plain_doc_agree (sch : schema) (D : distinctb (map fst sch) = true) d b :
  doc_verdict sch no_rules d = Some b -> struct_ok sch d = b.
Proof.
  unfold doc_verdict, struct_ok, decode_struct, no_rules.
  destruct d as [| | | | | |m]; try discriminate; try (intros Q; inversion Q; reflexivity).
  destruct (clean_doc sch m) eqn:C; [|discriminate].
  destruct (typed_verdict sch m) as [[|]|] eqn:T; [| |discriminate].
  - intros Q; inversion Q. now destruct (struct_true sch D m C T) as (st & -> & F).
  - intros Q; inversion Q. now rewrite (struct_false sch D m C T).
Qed.

(* a list of documents *)
Definition docs_ok (docs : list json) : bool :=
  match map_opt (fun d => option_map op_of_state (decode_struct metric_schema d)) docs with
  | Some ops => forallb validate_op ops
  | None => false
  end.

Lemma docs_ok_cons d docs : docs_ok (d :: docs) = metric_doc_ok d && docs_ok docs.
Proof.
  unfold docs_ok, metric_doc_ok. simpl.
  destruct (decode_struct metric_schema d) as [st|]; simpl; [|reflexivity].
  destruct (map_opt _ docs) as [ops|]; simpl; [reflexivity | now rewrite andb_false_r].
Qed.

Lemma docs_agree docs b :
  vall (map (doc_verdict metric_doc metric_rules) docs) = Some b -> docs_ok docs = b.
Proof.
  induction docs as [|d docs IH] in b |- *; simpl.
  - intros Q; inversion Q; reflexivity.
  - rewrite docs_ok_cons. destruct b.
    + rewrite vand_true. intros [H1 H2]. now rewrite (metric_doc_agree d true H1), (IH true H2).
    + rewrite vand_false. intros [H1|H2].
      * now rewrite (metric_doc_agree d false H1).
      * rewrite (IH false H2). apply andb_false_r.
Qed.

Lemma stream_nil : parse_stream [] = Some []. Proof. reflexivity. Qed.

Lemma metrics_ok_docs s :
  (metrics_decodes (FText s) && metrics_valid (FText s))
  = match parse_stream s with Some docs => docs_ok docs | None => false end.
Proof.
  unfold metrics_decodes, metrics_valid, metrics_ops, docs_ok. destruct s as [|c r]; [reflexivity|].
  destruct (parse_stream (c :: r)) as [docs|]; [|reflexivity].
  destruct (map_opt _ docs); reflexivity.
Qed.

Lemma metrics_agree k b : v_metrics k = Some b -> (metrics_decodes k && metrics_valid k) = b.
Proof.
  destruct k as [| | | |s]; simpl; try (intros Q; inversion Q; reflexivity).
  change (match metrics_ops s with Some _ => true | None => false end) with (metrics_decodes (FText s)).
  change (match metrics_ops s with Some ops => forallb validate_op ops | None => false end) with (metrics_valid (FText s)).
  rewrite metrics_ok_docs. destruct (parse_stream s) as [docs|].
  - apply docs_agree.
  - intros Q; inversion Q; reflexivity.
Qed.

(* one response document *)
Lemma single_agree (sch dsch : schema) (E : dsch = sch) (D : distinctb (map fst sch) = true) s b :
  single_verdict dsch s = Some b ->
  match s with
  | [] => true
  | _ => match parse_single s with Some d => struct_ok sch d | None => false end
  end = b.
Proof.
  subst dsch. unfold single_verdict. destruct s as [|c r]; [intros Q; inversion Q; reflexivity|].
  destruct (parse_single (c :: r)) as [d|]; [apply (plain_doc_agree sch D) | intros Q; inversion Q; reflexivity].
Qed.

Lemma admission_agree k b : v_admission k = Some b -> admission_parses k = b.
Proof.
  destruct k as [| | | |s]; simpl; try (intros Q; inversion Q; reflexivity).
  intros H. apply (single_agree admission_schema admission_doc admission_doc_is_schema admission_distinct) in H.
  unfold admission_ok. unfold struct_ok in H. exact H.
Qed.

Lemma conversion_agree k b : v_conversion k = Some b -> conversion_parses k = b.
Proof.
  destruct k as [| | | |s]; simpl; try (intros Q; inversion Q; reflexivity).
  intros H. apply (single_agree conversion_schema conversion_doc conversion_doc_is_schema conversion_distinct) in H.
  unfold conversion_ok. unfold struct_ok in H. exact H.
Qed.

Lemma patch_agree k b : v_patch k = Some b -> patch_parses k = b.
Proof. destruct k; simpl; intros Q; inversion Q; reflexivity. Qed.

(* ------------------------------------------------------------------ the probe metric *)
Lemma field_of_in (sch : schema) k f : field_of sch k = Some f -> In f sch.
Proof.
  unfold field_of. destruct (find_field (fun n0 => bytes_eqb n0 k) sch) as [g|] eqn:E1; intros H.
  - inversion H; subst. now apply find_field_some in E1 as [I _].
  - now apply find_field_some in H as [I _].
Qed.

Lemma store_str_inv old v s : store TStr old v = Some (VStr s) -> v = JStr s \/ (v = JNull /\ old = VStr s).
Proof. destruct v; simpl; intros H; try discriminate; inversion H; subst; auto. Qed.

(* the decoded name is a string that stands in the document *)
Lemma dm_name m : forall st0 st, decode_members metric_schema m st0 = Some st ->
  forall s, sget st k_name = VStr s ->
  sget st0 k_name = VStr s \/ exists kv, In kv m /\ snd kv = JStr s.
Proof.
  induction m as [|[k v] m IH]; intros st0 st H s Hs.
  - simpl in H. inversion H; subst. auto.
  - cbn [decode_members] in H. destruct (field_of metric_schema k) as [[n t]|] eqn:F.
    + destruct (store t (sget st0 n) v) as [x|] eqn:S; [|discriminate].
      destruct (IH _ _ H s Hs) as [H0|(kv & I & E)]; [|right; exists kv; simpl; auto].
      simpl in H0. destruct (bytes_eqb n k_name) eqn:En; [|auto].
      apply bytes_eqb_eq in En. subst n x.
      assert (t = TStr).
      { apply (distinct_type metric_schema metric_distinct k_name t TStr); [apply (field_of_in _ _ _ F) | in_schema]. }
      subst t. destruct (store_str_inv _ _ _ S) as [->|[-> E]]; [right; exists (k, JStr s); simpl; auto | auto].
    + destruct (IH _ _ H s Hs) as [H0|(kv & I & E)]; [auto | right; exists kv; simpl; auto].
Qed.

Lemma no_mention_name d st : decode_struct metric_schema d = Some st -> mentions d = false ->
  bytes_eqb (m_name (op_of_state st)) probe_name = false.
Proof.
  intros H M. unfold op_of_state. cbn [m_name].
  destruct (sget st k_name) as [|s| | | | | | |] eqn:Sn; try reflexivity.
  cbn [str_of]. destruct (bytes_eqb s probe_name) eqn:E; [|reflexivity]. exfalso.
  apply bytes_eqb_eq in E. subst s.
  destruct d as [| | | | | |m]; simpl in H; try discriminate.
  - inversion H; subst. discriminate.
  - destruct (dm_name m [] st H probe_name Sn) as [H0|(kv & I & E)]; [discriminate|].
    simpl in M. assert (X : existsb (fun kv0 => json_eqb (snd kv0) (JStr probe_name)) m = true).
    { apply existsb_exists. exists kv. split; [exact I|]. rewrite E. apply json_eqb_refl. }
    congruence.
Qed.

Definition good_probe (o : mop) : bool :=
  is_nil (m_group o)
  && (bytes_eqb (m_action o) k_set || bytes_eqb (m_action o) k_add)
  && forallb (fun kv => plain_label (fst kv)) (m_labels o).

Lemma metric_effect_yes ops :
  filter (fun o => bytes_eqb (m_name o) probe_name) ops <> [] ->
  (forall o, In o ops -> bytes_eqb (m_name o) probe_name = true -> good_probe o = true) ->
  metric_effect ops = TYes.
Proof.
  unfold metric_effect. intros NE G.
  destruct (filter (fun o => bytes_eqb (m_name o) probe_name) ops) as [|o cs] eqn:E; [contradiction|].
  assert (A : forallb good_probe (o :: cs) = true).
  { apply forallb_forall. intros x Hx. rewrite <- E in Hx. apply filter_In in Hx as [I N]. now apply G. }
  unfold good_probe in A. now rewrite A.
Qed.
Lemma metric_effect_no ops :
  (forall o, In o ops -> bytes_eqb (m_name o) probe_name = false) -> metric_effect ops = TNo.
Proof.
  unfold metric_effect. intros G.
  destruct (filter (fun o => bytes_eqb (m_name o) probe_name) ops) as [|o cs] eqn:E; [reflexivity|].
  assert (I : In o (filter (fun o => bytes_eqb (m_name o) probe_name) ops)) by (rewrite E; simpl; auto).
  apply filter_In in I as [I N]. rewrite (G o I) in N. discriminate.
Qed.

(* a plain probe document decodes to a "good" operation named after the probe *)
Lemma plain_probe_op m st :
  (forall n t, In (n, t) metric_schema ->
       match assoc n m with
       | Some v => has_type t v = Some true /\ store t VUnset v = Some (sget st n)
       | None => sget st n = VUnset
       end) ->
  metric_rules m = Some true -> plain_probe (JObj m) = true ->
  bytes_eqb (m_name (op_of_state st)) probe_name = true /\ good_probe (op_of_state st) = true.
Proof.
  intros F R PP.
  assert (Hadd : is_set (sget st k_add) = has_key k_add m) by (apply (field_set metric_schema m st F k_add TNumPtr); in_schema).
  assert (Hset : is_set (sget st k_set) = has_key k_set m) by (apply (field_set metric_schema m st F k_set TNumPtr); in_schema).
  assert (Hn := field_str metric_schema m st F k_name ltac:(in_schema)).
  assert (Hg := field_str metric_schema m st F k_group ltac:(in_schema)).
  assert (Ha := field_str metric_schema m st F k_action ltac:(in_schema)).
  assert (Hl := field_map metric_schema m st F k_labels ltac:(in_schema)).
  unfold plain_probe, doc_action, str_key in PP. unfold metric_rules, empty_key, doc_action, str_key in R.
  unfold good_probe, op_of_state. cbn [m_name m_group m_action m_labels].
  rewrite Hadd, Hset.
  set (hadd := has_key k_add m) in *. set (hset := has_key k_set m) in *.
  destruct Hn as [[An Sn]|(sn & An & Sn)]; rewrite An in PP; [discriminate|].
  rewrite Sn. cbn [str_of].
  destruct Hg as [[Ag Sg]|(sg & Ag & Sg)].
  2:{ unfold has_key in PP. rewrite Ag in PP. cbn in PP.
      destruct (match assoc k_action m with Some (JStr s) => Some s | _ => None end);
        [|destruct hadd; [|destruct hset]]; try discriminate PP;
        rewrite andb_false_r in PP; discriminate PP. }
  rewrite Sg. cbn [str_of is_nil]. rewrite andb_true_l.
  assert (L : forallb (fun kv => plain_label (fst kv)) (labels_of (sget st k_labels)) = true
              /\ exists a, match match assoc k_action m with Some (JStr s) => Some s | _ => None end with
                           | Some a0 => Some a0
                           | None => if hadd then Some k_add else if hset then Some k_set else None
                           end = Some a /\ bytes_eqb sn probe_name = true
                           /\ (bytes_eqb a k_set || bytes_eqb a k_add) = true).
  { destruct (match match assoc k_action m with Some (JStr s) => Some s | _ => None end with
              | Some a0 => Some a0
              | None => if hadd then Some k_add else if hset then Some k_set else None
              end) as [a|]; [|discriminate PP].
    apply andb_true_iff in PP as [PP P4]. apply andb_true_iff in PP as [PP P3]. apply andb_true_iff in PP as [P1 P2].
    split; [|exists a; auto].
    destruct Hl as [[Al Sl]|(kv & new & Al & Sl & El)].
    - now rewrite Sl.
    - rewrite Sl. cbn [labels_of]. rewrite Al in P4.
      clear - P4 El. revert kv P4 El. induction new as [|[k x] new IH]; intros [|[k' x'] kv] P4 El; simpl in *; try discriminate; [reflexivity|].
      inversion El; subst. apply andb_true_iff in P4 as [Q1 Q2]. rewrite Q1. simpl. now apply (IH kv). }
  destruct L as (L1 & a & DA & PN & AS). rewrite L1, andb_true_r. split; [exact PN|].
  unfold has_key in R. rewrite An, Ag, DA in R.
  destruct Ha as [[Aa Sa]|(sa & Aa & Sa)]; rewrite Aa in R, DA; rewrite Sa; cbn [str_of].
  - (* shortcut *)
    destruct hadd, hset; cbn [andb negb orb]; try discriminate DA; try reflexivity.
    exfalso. destruct sn, (assoc k_value m); cbn in R; discriminate R.
  - inversion DA; subst a.
    destruct hadd, hset; cbn [andb negb orb]; try exact AS;
      exfalso; destruct sn, sa, (assoc k_value m); cbn in R; discriminate R.
Qed.

Lemma map_opt_in A B (f : A -> option B) l ys : map_opt f l = Some ys ->
  (forall y, In y ys -> exists x, In x l /\ f x = Some y)
  /\ (forall x, In x l -> exists y, f x = Some y /\ In y ys).
Proof.
  revert ys. induction l as [|a l IH]; intros ys H; simpl in H.
  - inversion H; subst. split; intros ? [].
  - destruct (f a) as [y0|] eqn:E; [|discriminate]. destruct (map_opt f l) as [ys0|]; [|discriminate].
    inversion H; subst. destruct (IH ys0 eq_refl) as [I1 I2]. split.
    + intros y [<-|Hy]; [exists a; simpl; auto|]. destruct (I1 y Hy) as (x & Hx & Ex). exists x; simpl; auto.
    + intros x [<-|Hx]; [exists y0; simpl; auto|]. destruct (I2 x Hx) as (y & Ey & Hy). exists y; simpl; auto.
Qed.
Arguments map_opt_in {A B} f l ys _.

Lemma metrics_ops_docs s docs : parse_stream s = Some docs ->
  metrics_ops s = map_opt (fun d => option_map op_of_state (decode_struct metric_schema d)) docs.
Proof.
  unfold metrics_ops. destruct s as [|c r]; intros H; [|now rewrite H].
  rewrite stream_nil in H. inversion H; reflexivity.
Qed.

Lemma doc_true_fields d : doc_verdict metric_doc metric_rules d = Some true -> plain_probe d = true ->
  forall st, decode_struct metric_schema d = Some st ->
  bytes_eqb (m_name (op_of_state st)) probe_name = true /\ good_probe (op_of_state st) = true.
Proof.
  rewrite metric_doc_is_schema. destruct d as [| | | | | |m]; try discriminate.
  unfold doc_verdict. destruct (clean_doc metric_schema m) eqn:C; [|discriminate].
  destruct (typed_verdict metric_schema m) as [[|]|] eqn:T; try discriminate.
  intros R PP st H. destruct (struct_true metric_schema metric_distinct m C T) as (st' & H' & F).
  simpl in H. rewrite H' in H. inversion H; subst st'.
  apply (plain_probe_op m st F R PP).
Qed.

Lemma expect_agree k b : expect_metric k = Some b -> metrics_decodes k = true ->
  metrics_effect k = if b then TYes else TNo.
Proof.
  destruct k as [| | | |s]; simpl; try (intros Q; inversion Q; reflexivity).
  destruct (parse_stream s) as [docs|] eqn:PS.
  2:{ intros Q; inversion Q. unfold metrics_ops. destruct s; [reflexivity|]. now rewrite PS. }
  rewrite (metrics_ops_docs s docs PS).
  destruct (map_opt (fun d => option_map op_of_state (decode_struct metric_schema d)) docs) as [ops|] eqn:MO;
    [|intros _ Q; discriminate Q].
  destruct (map_opt_in _ docs ops MO) as [I1 I2]. intros H _.
  destruct (existsb mentions docs) eqn:EM; simpl in H.
  - destruct (vall (map (doc_verdict metric_doc metric_rules) docs)) as [[|]|] eqn:V; try discriminate.
    destruct (forallb (fun d => negb (mentions d) || plain_probe d) docs) eqn:FP; [|discriminate].
    inversion H; subst b. rewrite vall_true in V. rewrite forallb_forall in FP.
    assert (DV : forall d, In d docs -> doc_verdict metric_doc metric_rules d = Some true).
    { intros d Hd. apply V. now apply in_map. }
    apply metric_effect_yes.
    + apply existsb_exists in EM as (d & Hd & Md).
      destruct (I2 d Hd) as (o & Eo & Ho).
      destruct (decode_struct metric_schema d) as [st|] eqn:DS; [|discriminate]. simpl in Eo. inversion Eo; subst o.
      specialize (FP d Hd). rewrite Md in FP. simpl in FP.
      destruct (doc_true_fields d (DV d Hd) FP st DS) as [N _].
      intros E. assert (X : In (op_of_state st) (filter (fun o => bytes_eqb (m_name o) probe_name) ops))
        by (apply filter_In; auto).
      rewrite E in X. contradiction.
    + intros o Ho N. destruct (I1 o Ho) as (d & Hd & Ed).
      destruct (decode_struct metric_schema d) as [st|] eqn:DS; [|discriminate]. simpl in Ed. inversion Ed; subst o.
      specialize (FP d Hd). destruct (mentions d) eqn:Md; simpl in FP.
      * now destruct (doc_true_fields d (DV d Hd) FP st DS).
      * rewrite (no_mention_name d st DS Md) in N. discriminate.
  - inversion H; subst b. apply metric_effect_no. intros o Ho.
    destruct (I1 o Ho) as (d & Hd & Ed).
    destruct (decode_struct metric_schema d) as [st|] eqn:DS; [|discriminate]. simpl in Ed. inversion Ed; subst o.
    apply (no_mention_name d st DS).
    destruct (mentions d) eqn:Md; [|reflexivity].
    assert (existsb mentions docs = true) by (apply existsb_exists; eauto). congruence.
Qed.

(* ------------------------------------------------------------------ the execution *)
Definition model_ok (i : input) : bool :=
  metrics_decodes (i_metrics i) && admission_parses (i_admission i) && conversion_parses (i_conversion i)
  && patch_parses (i_patch i) && metrics_valid (i_metrics i).

Ltac run_cases i :=
  unfold run, failed; destruct (prepare _ 0) as [created ok]; destruct ok; cbn [negb];
  [ destruct (Z.eqb (i_exit i) 0) eqn:EX; cbn [negb];
    [ destruct (metrics_decodes (i_metrics i)) eqn:MD; cbn [negb];
      [ destruct (admission_parses (i_admission i)) eqn:AP; cbn [negb];
        [ destruct (conversion_parses (i_conversion i)) eqn:CP; cbn [negb];
          [ destruct (patch_parses (i_patch i)) eqn:PP; cbn [negb];
            [ destruct (metrics_valid (i_metrics i)) eqn:MV; cbn [negb] | ] | ] | ] | ] | ] | ].

Lemma run_remaining i : o_remaining (run i) = 0.
Proof. run_cases i; try reflexivity. apply N.sub_diag. Qed.

Lemma run_success_iff i :
  o_started (run i) = true ->
  (o_success (run i) = true <-> (i_exit i = 0%Z /\ model_ok i = true)).
Proof.
  unfold model_ok. run_cases i; cbn; intros S; try discriminate S;
    (split; [intros H; try discriminate H | intros [H1 H2]; try discriminate H2]);
    try (apply Z.eqb_eq in EX; auto; fail);
    try (apply Z.eqb_neq in EX; contradiction).
Qed.

(* a non-zero exit: a failure, nothing applied *)
Lemma run_nonzero_exit i : i_exit i <> 0%Z ->
  o_success (run i) = false /\ o_metric_applied (run i) = false /\ o_metric_unknown (run i) = false
  /\ o_patch_applied (run i) = false.
Proof.
  intros H. apply Z.eqb_neq in H. unfold run, failed. destruct (prepare _ 0) as [created ok].
  destruct ok; cbn [negb]; [|auto]. rewrite H. cbn. auto.
Qed.

Lemma run_applied i :
  (o_metric_applied (run i) = true -> o_success (run i) = true /\ metrics_effect (i_metrics i) = TYes) /\
  (o_metric_unknown (run i) = true -> o_success (run i) = true /\ metrics_effect (i_metrics i) = TMaybe) /\
  (o_patch_applied (run i) = true -> i_exit i = 0%Z /\ i_patch i = FValid /\ metrics_decodes (i_metrics i) = true) /\
  (o_success (run i) = true ->
     o_patch_applied (run i) = patch_has_content (i_patch i)
     /\ o_metric_applied (run i) = (match metrics_effect (i_metrics i) with TYes => true | _ => false end)
     /\ o_metric_unknown (run i) = (match metrics_effect (i_metrics i) with TMaybe => true | _ => false end)).
Proof.
  run_cases i; cbn; repeat split; try discriminate; auto;
    try (destruct (metrics_effect (i_metrics i)); intros; try discriminate; auto; fail).
  - now apply Z.eqb_eq.
  - destruct (i_patch i); simpl in *; try discriminate; reflexivity.
  - now apply Z.eqb_eq.
  - destruct (i_patch i); simpl in *; try discriminate; reflexivity.
Qed.

(* text-side verdicts of the four files against the model's five tests *)
Lemma all_wf_model i b : all_wf i = Some b -> model_ok i = b.
Proof.
  unfold all_wf, model_ok. cbn [vall fold_right]. destruct b.
  - rewrite !vand_true. intros (Hm & Hp & Ha & Hc & _).
    pose proof (metrics_agree _ _ Hm) as Em. apply andb_true_iff in Em as [E1 E2].
    now rewrite E1, E2, (admission_agree _ _ Ha), (conversion_agree _ _ Hc), (patch_agree _ _ Hp).
  - rewrite !vand_false. intros [Hm|[Hp|[Ha|[Hc|Q]]]]; [| | | |discriminate Q].
    + pose proof (metrics_agree _ _ Hm) as Em. apply andb_false_iff in Em as [E|E]; rewrite E; [reflexivity|].
      apply andb_false_r.
    + rewrite (patch_agree _ _ Hp). now rewrite andb_false_r.
    + rewrite (admission_agree _ _ Ha). now rewrite andb_false_r.
    + rewrite (conversion_agree _ _ Hc). now rewrite !andb_false_r.
Qed.

Lemma run_success_spec i b :
  o_started (run i) = true -> all_wf i = Some b ->
  (o_success (run i) = true <-> (i_exit i = 0%Z /\ b = true)).
Proof.
  intros S W. rewrite (run_success_iff i S), (all_wf_model i b W). reflexivity.
Qed.

Lemma run_started_success i : o_started (run i) = false -> o_success (run i) = false.
Proof. run_cases i; cbn; try discriminate; reflexivity. Qed.

(* ------------------------------------------------------------------ the hook's environment *)

(* the last entry with key k *)
Fixpoint lookup_last (l : env) (k : N) : option eval :=
  match l with
  | [] => None
  | (k', v) :: r => match lookup_last r k with
                    | Some x => Some x
                    | None => if k' =? k then Some v else None
                    end
  end.

Lemma lookup_last_none l k : lookup_last l k = None <-> existsb (fun e => fst e =? k) l = false.
Proof.
  induction l as [|[k' v] r IH]; cbn [lookup_last existsb fst]; [tauto|].
  destruct (lookup_last r k) eqn:L.
  - split; [discriminate|]. intros H. apply orb_false_iff in H as [_ H]. apply IH in H. discriminate.
  - rewrite (proj1 IH eq_refl), orb_false_r. destruct (k' =? k); split; auto; discriminate.
Qed.

(* os/exec's de-duplication: the child finds the LAST value of a variable *)
Lemma getenv_dedup l k : getenv (dedup_env l) k = lookup_last l k.
Proof.
  induction l as [|[k' v] r IH]; cbn [dedup_env lookup_last getenv]; [reflexivity|].
  destruct (existsb (fun e => fst e =? k') r) eqn:EX.
  - rewrite IH. destruct (lookup_last r k) eqn:L; [reflexivity|].
    destruct (N.eqb_spec k' k) as [->|NE]; [|reflexivity].
    apply lookup_last_none in L. congruence.
  - cbn [getenv]. destruct (N.eqb_spec k' k) as [->|NE].
    + apply lookup_last_none in EX. now rewrite EX.
    + rewrite IH. now destruct (lookup_last r k).
Qed.

Lemma lookup_last_app a b k :
  lookup_last (a ++ b) k = match lookup_last b k with Some x => Some x | None => lookup_last a k end.
Proof.
  induction a as [|[k' v] r IH]; cbn [app lookup_last].
  - now destruct (lookup_last b k).
  - rewrite IH. destruct (lookup_last b k); [reflexivity|]. reflexivity.
Qed.

(* every key occurs once in the child's environment *)
Lemma dedup_keys l k : In k (map fst (dedup_env l)) -> existsb (fun e => fst e =? k) l = true.
Proof.
  induction l as [|[k' v] r IH]; cbn [dedup_env map existsb fst]; [intros []|].
  destruct (existsb (fun e => fst e =? k') r) eqn:EX.
  - intros H. rewrite (IH H). apply orb_true_r.
  - cbn [map fst]. intros [<-|H]; [now rewrite N.eqb_refl | rewrite (IH H); apply orb_true_r].
Qed.

Lemma dedup_nodup l : NoDup (map fst (dedup_env l)).
Proof.
  induction l as [|[k v] r IH]; cbn [dedup_env]; [constructor|].
  destruct (existsb (fun e => fst e =? k) r) eqn:EX; [exact IH|].
  cbn [map fst]. constructor; [|exact IH]. intros H. apply dedup_keys in H. congruence.
Qed.

Lemma executor_env_nonempty p l : l <> [] -> executor_env p l = l.
Proof. unfold executor_env. cbn [app]. destruct l; [contradiction|reflexivity]. Qed.

Lemma hook_envs_nonempty inh : hook_envs inh <> [].
Proof. unfold hook_envs, per_exec_vars. destruct inh; discriminate. Qed.

(* a contract variable: one of the six set by Hook.Run *)
Definition is_contract_var (k : N) : bool := existsb (fun e => fst e =? k) per_exec_vars.

Lemma getenv_child e k :
  getenv (child_env e) k =
  match lookup_last per_exec_vars k with Some x => Some x | None => lookup_last (os_environ e) k end.
Proof.
  unfold child_env. rewrite getenv_dedup, (executor_env_nonempty _ _ (hook_envs_nonempty _)).
  unfold hook_envs. apply lookup_last_app.
Qed.

(* WHATEVER the operator's own environment holds - any variables, any values, duplicates - each of
   the six variables, as the hook finds it, is the path of this execution's own file *)
Theorem child_env_own e k f : In (k, Own f) per_exec_vars -> getenv (child_env e) k = Some (Own f).
Proof.
  intros H. rewrite getenv_child.
  cbn in H. repeat (destruct H as [H|H]; [inversion H; subst; reflexivity|]). destruct H.
Qed.

(* every other variable is inherited with the operator's (last) value, and only those *)
Theorem child_env_inherits e k : is_contract_var k = false ->
  getenv (child_env e) k = lookup_last (os_environ e) k.
Proof.
  intros H. rewrite getenv_child. apply lookup_last_none in H. now rewrite H.
Qed.

Theorem child_env_nodup e : NoDup (map fst (child_env e)).
Proof. apply dedup_nodup. Qed.

(* the `--config` call: the hook finds the operator's environment, nothing else *)
Theorem config_env_inherits e k : getenv (config_env e) k = lookup_last (os_environ e) k.
Proof.
  unfold config_env. rewrite getenv_dedup, app_nil_r. unfold executor_env. cbn [app].
  now destruct (os_environ e).
Qed.

Lemma written_own e k f c : In (k, Own f) per_exec_vars -> written (child_env e) k f c = c.
Proof. intros H. unfold written. rewrite (child_env_own e k f H). now rewrite N.eqb_refl. Qed.

(* the outputs the hook writes are the ones read back: nothing in the operator's environment can divert them *)
Theorem readback_id i : readback i = i.
Proof.
  unfold readback.
  rewrite !written_own by (cbn; tauto).
  now destruct i.
Qed.

Theorem exec_is_run i : exec i = run i.
Proof. unfold exec. now rewrite readback_id. Qed.

(* the outcome does not depend on the operator's environment *)
Theorem exec_env_irrelevant i e :
  exec (mkIn (i_exit i) (i_metrics i) (i_patch i) (i_admission i) (i_conversion i) (i_concurrent i) (i_namelen i) e)
  = exec i.
Proof. rewrite !exec_is_run. unfold run. cbn [i_exit i_metrics i_patch i_admission i_conversion i_namelen]. reflexivity. Qed.

Theorem no_foreign_written i : foreign_written i = false.
Proof.
  unfold foreign_written. cbn [existsb].
  rewrite (child_env_own _ var_metrics file_metrics), (child_env_own _ var_patch file_patch),
          (child_env_own _ var_admission file_admission), (child_env_own _ var_conversion file_conversion)
    by (cbn; tauto).
  reflexivity.
Qed.

(* the environment clause of the property holds of the model on every input *)
Lemma seen_view i ks k f :
  In k ks -> In (k, Own f) per_exec_vars -> seen (env_view i ks) k = Some (Own f).
Proof.
  intros Hk Hf. unfold env_view. induction ks as [|k0 r IH]; [destruct Hk|].
  cbn [map seen]. destruct (N.eqb_spec k0 k) as [->|NE].
  - now apply child_env_own.
  - destruct Hk as [->|Hk]; [contradiction|]. now apply IH.
Qed.

Lemma view_points_to_own i ks :
  incl [var_context; var_metrics; var_patch; var_admission; var_conversion] ks ->
  points_to_own (env_view i ks) = true.
Proof.
  intros INC. pose proof (seen_view i ks) as S.
  unfold points_to_own, contract. cbn [forallb fst snd].
  rewrite (S var_context file_context), (S var_metrics file_metrics), (S var_patch file_patch),
          (S var_admission file_admission), (S var_conversion file_conversion);
    try (apply INC; cbn; tauto); try (cbn; tauto).
Qed.

Theorem model_P_env i o : P_env (model_run_obs (i, o)) = true.
Proof.
  unfold P_env, model_run_obs. cbn [ob_envs].
  destruct (o_started (exec i)); [|reflexivity].
  apply forallb_forall. intros v Hv. apply repeat_spec in Hv. subst v.
  apply view_points_to_own. unfold query_vars. intros k Hk. apply in_or_app. left.
  cbn in Hk |- *. tauto.
Qed.

(* the logic half of the property holds of the model for every input
   (of the OS half the environment clause is [model_P_env]; the rest is taken over from the
   implementation's observation, see C12_Corr.model_run_obs) *)
Theorem model_P_logic i o : P_logic i (model_run_obs (i, o)) = true.
Proof.
  unfold P_logic, model_run_obs. rewrite exec_is_run.
  cbn [ob_bad ob_started ob_status ob_tmp_after ob_metric_applied ob_patch_applied].
  rewrite run_remaining. cbn [negb andb N.eqb]. rewrite andb_true_r.
  destruct (o_started (run i)) eqn:S.
  2:{ now rewrite (run_started_success i S). }
  pose proof (run_success_iff i S) as SI. pose proof (run_applied i) as (A1 & A2 & A3 & A4).
  destruct (o_success (run i)) eqn:Su.
  - destruct (proj1 SI eq_refl) as [E MO]. rewrite E. cbn [Z.eqb negb N.eqb andb].
    destruct (A4 eq_refl) as (Pa & Ma & Mu).
    assert (W : match all_wf i with Some b => Bool.eqb true b | None => true end = true).
    { destruct (all_wf i) as [b|] eqn:W; [|reflexivity]. rewrite <- (all_wf_model i b W), MO. reflexivity. }
    rewrite W. cbn [andb].
    assert (MD : metrics_decodes (i_metrics i) = true).
    { unfold model_ok in MO. destruct (metrics_decodes (i_metrics i)); [reflexivity | discriminate MO]. }
    assert (X : match expect_metric (i_metrics i) with
                | Some b => Bool.eqb (if o_metric_unknown (run i) then ob_metric_applied o else o_metric_applied (run i)) b
                | None => true end = true).
    { destruct (expect_metric (i_metrics i)) as [b|] eqn:EMt; [|reflexivity].
      rewrite Mu, Ma, (expect_agree _ _ EMt MD). destruct b; reflexivity. }
    rewrite X, Pa. cbn [andb]. unfold expect_patch, patch_has_content. apply Bool.eqb_reflx.
  - cbn [N.eqb]. destruct (Z.eqb (i_exit i) 0) eqn:E; cbn [negb andb].
    + destruct (all_wf i) as [b|] eqn:W; [|reflexivity].
      apply Z.eqb_eq in E. destruct b; [|reflexivity].
      assert (false = true) by (apply SI; split; [exact E | apply (all_wf_model i true W)]). discriminate.
    + apply Z.eqb_neq in E. destruct (run_nonzero_exit i E) as (_ & M & U & Pp). rewrite M, U, Pp.
      destruct (all_wf i) as [b|]; reflexivity.
Qed.

(* ------------------------------------------------------------------ whole classes of malformed texts fail the execution *)
Definition nothing_done (i : input) : Prop :=
  o_success (run i) = false /\ o_metric_applied (run i) = false /\ o_metric_unknown (run i) = false
  /\ o_patch_applied (run i) = false.

Lemma app_stray_nonnil (a w : bytes) c rest : a ++ w ++ c :: rest <> [].
Proof. destruct a; [destruct w|]; discriminate. Qed.

Lemma run_metrics_unreadable i s : i_metrics i = FText s -> s <> [] -> parse_stream s = None ->
  v_metrics (i_metrics i) = Some false /\ nothing_done i.
Proof.
  intros E NN PS. rewrite E. simpl. rewrite PS. split; [reflexivity|].
  assert (MD0 : metrics_decodes (i_metrics i) = false).
  { rewrite E. unfold metrics_decodes, metrics_ops. destruct s; [contradiction|]. now rewrite PS. }
  unfold nothing_done. run_cases i; cbn; try discriminate MD0; auto.
Qed.

Lemma run_admission_unreadable i s : i_admission i = FText s -> s <> [] -> parse_single s = None ->
  v_admission (i_admission i) = Some false /\ o_success (run i) = false /\ o_metric_applied (run i) = false
  /\ o_metric_unknown (run i) = false /\ o_patch_applied (run i) = false.
Proof.
  intros E NN PS. rewrite E. simpl. unfold single_verdict. destruct s as [|c r]; [contradiction|]. rewrite PS.
  split; [reflexivity|].
  assert (AP0 : admission_parses (i_admission i) = false).
  { rewrite E. unfold admission_parses, admission_ok. now rewrite PS. }
  run_cases i; cbn; try discriminate AP0; auto.
Qed.

Lemma run_conversion_unreadable i s : i_conversion i = FText s -> s <> [] -> parse_single s = None ->
  v_conversion (i_conversion i) = Some false /\ o_success (run i) = false /\ o_metric_applied (run i) = false
  /\ o_metric_unknown (run i) = false /\ o_patch_applied (run i) = false.
Proof.
  intros E NN PF. rewrite E. simpl. unfold single_verdict. destruct s as [|c r]; [contradiction|].
  rewrite PF. split; [reflexivity|].
  assert (CP0 : conversion_parses (i_conversion i) = false).
  { rewrite E. unfold conversion_parses, conversion_ok. now rewrite PF. }
  run_cases i; cbn; try discriminate CP0; auto.
Qed.

(* a metrics file in which an accepted stream of documents is followed by optional whitespace and
   then a stray } ] , or : - whatever comes after it - is malformed and fails the execution *)
Theorem metrics_stray_fails i a js w c rest :
  i_metrics i = FText (a ++ w ++ c :: rest) -> parse_stream a = Some js -> all_ws w = true -> stray c = true ->
  v_metrics (i_metrics i) = Some false /\ nothing_done i.
Proof.
  intros E PA W S. apply (run_metrics_unreadable i _ E (app_stray_nonnil a w c rest)).
  apply (stream_stray_rejected a js w c rest PA W S).
Qed.

(* a metrics / admission / conversion file cut anywhere inside a (printed) object or array *)
Theorem metrics_truncated_fails i j p q :
  i_metrics i = FText p -> wf_json j = true -> is_scalar j = false -> print_value j = p ++ q -> p <> [] -> q <> [] ->
  v_metrics (i_metrics i) = Some false /\ nothing_done i.
Proof.
  intros E WF SC PR NP NQ. apply (run_metrics_unreadable i p E NP).
  apply (truncation_rejected j p q WF SC PR NP NQ).
Qed.

Theorem admission_stray_fails i a j w c rest :
  i_admission i = FText (a ++ w ++ c :: rest) -> parse_single a = Some j -> all_ws w = true -> stray c = true ->
  v_admission (i_admission i) = Some false /\ o_success (run i) = false.
Proof.
  intros E PA W S.
  destruct (run_admission_unreadable i _ E (app_stray_nonnil a w c rest) (single_stray_rejected a j w c rest PA W S)) as (V & Su & _).
  auto.
Qed.

Theorem admission_truncated_fails i j p q :
  i_admission i = FText p -> wf_json j = true -> is_scalar j = false -> print_value j = p ++ q -> p <> [] -> q <> [] ->
  v_admission (i_admission i) = Some false /\ o_success (run i) = false.
Proof.
  intros E WF SC PR NP NQ.
  destruct (run_admission_unreadable i p E NP (proj1 (truncation_rejected j p q WF SC PR NP NQ))) as (V & Su & _).
  auto.
Qed.

Theorem conversion_truncated_fails i j p q :
  i_conversion i = FText p -> wf_json j = true -> is_scalar j = false -> print_value j = p ++ q -> p <> [] -> q <> [] ->
  v_conversion (i_conversion i) = Some false /\ o_success (run i) = false.
Proof.
  intros E WF SC PR NP NQ.
  destruct (run_conversion_unreadable i p E NP (proj1 (truncation_rejected j p q WF SC PR NP NQ))) as (V & Su & _).
  auto.
Qed.

(* a conversion response followed by optional whitespace and a stray } ] , or : (since fix 1bbc0df) *)
Theorem conversion_stray_fails i a j w c rest :
  i_conversion i = FText (a ++ w ++ c :: rest) -> parse_single a = Some j -> all_ws w = true -> stray c = true ->
  v_conversion (i_conversion i) = Some false /\ o_success (run i) = false.
Proof.
  intros E PA W S.
  destruct (run_conversion_unreadable i _ E (app_stray_nonnil a w c rest) (single_stray_rejected a j w c rest PA W S)) as (V & Su & _).
  auto.
Qed.

(* a stray closer or separator where the response document should start *)
Theorem conversion_leading_stray_fails i w c rest :
  i_conversion i = FText (w ++ c :: rest) -> all_ws w = true -> stray c = true ->
  v_conversion (i_conversion i) = Some false /\ o_success (run i) = false.
Proof.
  intros E W S.
  assert (NN : w ++ c :: rest <> []) by (destruct w; discriminate).
  destruct (run_conversion_unreadable i _ E NN (proj1 (proj2 (leading_stray_rejected w c rest W S)))) as (V & Su & _).
  auto.
Qed.

(* a valid metrics text, printed from well-formed documents the schema accepts, is well-formed
   and (with everything else in order) the execution succeeds *)
Theorem metrics_printed_succeeds i js :
  i_metrics i = FText (print_docs js) -> forallb wf_json js = true ->
  (forall d, In d js -> doc_verdict metric_doc metric_rules d = Some true) ->
  v_metrics (i_metrics i) = Some true
  /\ metrics_decodes (i_metrics i) = true /\ metrics_valid (i_metrics i) = true.
Proof.
  intros E WF DV.
  assert (V : v_metrics (i_metrics i) = Some true).
  { rewrite E. simpl. rewrite (roundtrip_stream js WF). apply vall_true. intros x Hx.
    apply in_map_iff in Hx as (d & <- & Hd). now apply DV. }
  split; [exact V|]. pose proof (metrics_agree _ _ V) as A. now apply andb_true_iff in A.
Qed.
