(* C09_CopyProofs.v — proofs about the value jq is run on (C09_Model, last part: deep_copy,
   jq_apply_filter, wobj_via / stored_via and the `_run` forms of the correspondence cases). *)
From Verif Require Import Common Json C09_Model C09_Spec C09_Proofs.

Local Arguments json_eqb : simpl never.
Local Arguments glue : simpl never.
Local Arguments render_item : simpl never.

(* ---- deepCopy gives back the object: every member at every depth ---- *)

Lemma deep_copy_canon j : canon_json j = true -> deep_copy j = j.
Proof.
  induction j as [| x | x | x | x | l IH | m IH] using json_ind2; intros Hc; try reflexivity.
  - cbn [deep_copy]. f_equal. cbn [canon_json] in Hc.
    induction IH as [|x l Hx _ IHl]; [reflexivity|].
    cbn [forallb] in Hc. apply andb_true_iff in Hc as [H1 H2].
    cbn [map]. now rewrite (Hx H1), (IHl H2).
  - cbn [deep_copy]. f_equal. cbn [canon_json] in Hc. apply andb_true_iff in Hc as [Hs Hm].
    rewrite (fold_obj_set_sorted _ (fun kv => deep_copy (snd kv)) m [] Hs (Forall_nil _)).
    cbn [app]. clear Hs.
    induction IH as [|[k v] m Hx _ IHm]; [reflexivity|].
    cbn [forallb] in Hm. apply andb_true_iff in Hm as [H1 H2]. cbn [snd] in Hx, H1.
    cbn [map fst snd]. now rewrite (Hx H1), (IHm H2).
Qed.

(* jq.ApplyFilter: the merged outputs of jq on the object itself *)
Lemma jq_apply_filter_object (jq : jq_fn) data :
  canon_json data = true -> jq_apply_filter jq data = glue (jq data).
Proof. intros H. unfold jq_apply_filter. now rewrite (deep_copy_canon _ H). Qed.

(* what applyFilter stores for an object of the informer path IS jq.ApplyFilter's result on it,
   next to the object itself *)
Lemma apply_filter_go_via (jq : jq_fn) w :
  en_ofr (apply_filter_go true (wobj_via jq w))
  = mkOfr true false (Some (w_obj w)) (FRVal (JObj (jq_apply_filter jq (w_obj w)))).
Proof. reflexivity. Qed.

Lemma apply_filter_via (jq : jq_fn) keep obj :
  ofr_of_item (stored_via jq keep obj)
  = mkOfr true (negb keep) (if keep then Some obj else None) (FRVal (JObj (jq_apply_filter jq obj))).
Proof. reflexivity. Qed.

(* `filterResult` equal to the jq result for that very object, `object` that very object: for
   every jq program, every object (whatever members it has) and every keepFullObjectsInMemory *)
Lemma filter_result_of_that_object (jq : jq_fn) keep obj m :
  canon_json obj = true -> jq obj = [JObj m] -> sorted_strict m = true ->
  jget k_filterResult (render_item (stored_via jq keep obj)) = Some (JObj m)
  /\ jget k_object (render_item (stored_via jq keep obj)) = (if keep then Some obj else None).
Proof.
  intros Hc Hjq Hm. unfold stored_via. rewrite (deep_copy_canon _ Hc), Hjq. split.
  - now apply filter_result_item.
  - apply object_iff_keep_item.
Qed.

(* the same inside an Event context *)
Lemma filter_result_of_that_object_event (jq : jq_fn) c keep obj m rest :
  is_event c = true -> c_objects c = stored_via jq keep obj :: rest ->
  canon_json obj = true -> jq obj = [JObj m] -> sorted_strict m = true ->
  jget k_filterResult (JObj (map_v1 c)) = Some (JObj m)
  /\ jget k_object (JObj (map_v1 c)) = (if keep then Some obj else None).
Proof.
  intros He Ho Hc Hjq Hm. unfold stored_via in Ho. rewrite (deep_copy_canon _ Hc), Hjq in Ho. split.
  - eapply filter_result_event; eassumption.
  - eapply object_iff_keep_event; eassumption.
Qed.

(* ---- the `_run` forms: a case sent through the copy is the case ---- *)

Lemma asked_self obj outs : asked obj outs obj = outs.
Proof. unfold asked. now rewrite json_eqb_refl. Qed.

Lemma item_run_id i : item_canon i = true -> item_run i = i.
Proof.
  destruct i as [[outs|] keep obj|o]; try reflexivity.
  cbn [item_canon]. intros H. cbn [item_run]. unfold stored_via.
  now rewrite (deep_copy_canon _ H), asked_self.
Qed.

Lemma map_id_on A (g : A -> A) (ok : A -> bool) l :
  (forall x, ok x = true -> g x = x) -> forallb ok l = true -> map g l = l.
Proof.
  intros Hg. induction l as [|x l IH]; [reflexivity|].
  cbn [forallb map]. intros H. apply andb_true_iff in H as [H1 H2]. now rewrite (Hg _ H1), (IH H2).
Qed.

Lemma ctx_run_id c : ctx_canon c = true -> ctx_run c = c.
Proof.
  unfold ctx_canon, ctx_run. intros H. apply andb_true_iff in H as [Ho Hs].
  rewrite (map_id_on _ item_run item_canon _ item_run_id Ho).
  rewrite (map_id_on _ (fun p => (fst p, map item_run (snd p))) (fun p => forallb item_canon (snd p)) (c_snapshots c)).
  - now destruct c.
  - intros [n l] Hl. cbn [fst snd] in *. now rewrite (map_id_on _ item_run item_canon _ item_run_id Hl).
  - exact Hs.
Qed.

Lemma wobj_run_id w : wobj_canon w = true -> wobj_run w = w.
Proof.
  unfold wobj_canon, wobj_run, wobj_via. intros H.
  rewrite (deep_copy_canon _ H), asked_self. now destruct w.
Qed.

Lemma flow_run_id f : flow_canon f = true -> flow_run f = f.
Proof.
  unfold flow_canon, flow_run. intros H. apply andb_true_iff in H as [Hi Ho].
  rewrite (map_id_on _ wobj_run wobj_canon _ wobj_run_id Hi).
  rewrite (map_id_on _ (fun op : wevent * wobj => (fst op, wobj_run (snd op))) (fun op => wobj_canon (snd op)) (f_ops f)).
  - now destruct f.
  - intros [t w] Hw. cbn [fst snd] in *. now rewrite (wobj_run_id _ Hw).
  - exact Ho.
Qed.

Lemma hcase_run_id hc : hcase_canon hc = true -> hcase_run hc = hc.
Proof.
  unfold hcase_canon, hcase_run. intros H. apply andb_true_iff in H as [Hk He].
  rewrite (map_id_on _ (fun p : binding * list wobj => (fst p, map wobj_run (snd p)))
                     (fun p => forallb wobj_canon (snd p)) (hk_kube hc)).
  - rewrite (map_id_on _ hevent_run (fun ev => match ev with HWatch _ _ w => wobj_canon w | _ => true end) (hk_evs hc)).
    + now destruct hc.
    + intros [n|n t w|k r|crd r a b] Hw; try reflexivity. cbn [hevent_run]. now rewrite (wobj_run_id _ Hw).
    + exact He.
  - intros [b ws] Hw. cbn [fst snd] in *. now rewrite (map_id_on _ wobj_run wobj_canon _ wobj_run_id Hw).
  - exact Hk.
Qed.

(* ---- the contract theorems hold of the path through the copy ---- *)

Lemma contract_via_copy v cs out :
  forallb ctx_canon cs = true ->
  render_list v (map ctx_run cs) = Some out -> T v cs = false -> P v cs (Some out) = true.
Proof.
  intros Hc. rewrite (map_id_on _ ctx_run ctx_canon _ ctx_run_id Hc). apply contract_partial.
Qed.

Lemma flow_contract_via_copy f :
  flow_canon f = true -> flow_wf f = true -> T_flow f = false ->
  P_flow f (Some (run_flow (flow_run f))) = true.
Proof. intros Hc. rewrite (flow_run_id _ Hc). apply flow_contract_partial. Qed.

Lemma hook_contract_via_copy hc :
  hcase_canon hc = true -> hook_wf hc = true -> T_hook hc = false -> T_same_type_name hc = false ->
  T_admission_same_name hc = false ->
  P_hook hc (Some (run_hook (hcase_run hc))) = true.
Proof. intros Hc. rewrite (hcase_run_id _ Hc). apply hook_contract_partial. Qed.

(* ---- witnesses ---- *)

Module WitCopy.
Import String.
Local Open Scope string_scope.

Definition k_managedFields : bytes := Eval compute in bs "managedFields".
Definition k_manager : bytes := Eval compute in bs "manager".

Definition managed (manager operation : string) : json :=
  JObj [(bs "apiVersion", JStr (bs "v1"));
        (bs "fieldsType", JStr (bs "FieldsV1"));
        (bs "fieldsV1", JObj [(bs "f:data", JObj [(bs ".", JObj []); (bs "f:foo", JObj [])])]);
        (k_manager, JStr (bs manager));
        (bs "operation", JStr (bs operation));
        (bs "time", JStr (bs "2024-05-01T10:00:00Z"))].

(* a ConfigMap as an API server returns it *)
Definition served_cm : json :=
  JObj [(bs "apiVersion", JStr (bs "v1"));
        (bs "data", JObj [(bs "foo", JStr (bs "bar"))]);
        (k_kind, JStr (bs "ConfigMap"));
        (k_metadata,
         JObj [(bs "annotations",
                JObj [(bs "kubectl.kubernetes.io/last-applied-configuration", JStr (bs "{""kind"":""ConfigMap""}"))]);
               (bs "creationTimestamp", JStr (bs "2024-05-01T10:00:00Z"));
               (bs "generation", JNum 1%Z);
               (k_managedFields, JArr [managed "kubectl-client-side-apply" "Update"; managed "helm" "Apply"]);
               (k_name, JStr (bs "cm-1"));
               (k_namespace, JStr (bs "default"));
               (bs "resourceVersion", JStr (bs "48213"));
               (bs "uid", JStr (bs "6c1e7d9a-3f0b-4a59-9d53-0e2f5a7c8b11"))])].

(* a jq program that reads metadata.managedFields: {"managers": [.metadata.managedFields[]?.manager]} *)
Definition jq_managers : jq_fn := fun input =>
  [JObj [(bs "managers",
          JArr (match jget k_metadata input with
                | Some md => match jget k_managedFields md with
                             | Some (JArr l) => flat_map (fun e => match jget k_manager e with Some x => [x] | None => [] end) l
                             | _ => []
                             end
                | None => []
                end))]].

Definition managers_result : list (bytes * json) :=
  [(bs "managers", JArr [JStr (bs "kubectl-client-side-apply"); JStr (bs "helm")])].

Lemma served_ok :
  canon_json served_cm = true
  /\ jq_managers served_cm = [JObj managers_result]
  /\ sorted_strict managers_result = true
  /\ render_item (stored_via jq_managers true served_cm)
     = JObj [(k_filterResult, JObj managers_result); (k_object, served_cm)].
Proof. vm_compute. repeat split. Qed.

(* a copy that leaves a member of the object out is not this model: jq would be run on another
   value, and the oracle of a correspondence case says so *)
Definition trimmed_cm : json :=
  match served_cm with
  | JObj m => JObj (map (fun kv => if bytes_eqb (fst kv) k_metadata
                                    then (fst kv, match snd kv with JObj md => JObj (obj_del k_managedFields md) | x => x end)
                                    else kv) m)
  | x => x
  end.

Lemma trimmed_differs :
  jq_managers trimmed_cm = [JObj [(bs "managers", JArr [])]]
  /\ asked served_cm [JObj managers_result] trimmed_cm = [JObj [(k_not_the_object, trimmed_cm)]]
  /\ asked served_cm [JObj managers_result] (deep_copy served_cm) = [JObj managers_result].
Proof. vm_compute. repeat split. Qed.

End WitCopy.
