(* C12_BoundProofs.v - first document ++ tail: for first documents of ANY length and ANY tail *)
From Coq Require Import Lia.
From Verif Require Import Common Json JsonText JsonText_Proofs C12_Model C12_Spec C12_Corr C12_Proofs.
From Verif Require Import C12_BoundModel C12_BoundSpec.
Open Scope N_scope.

(* ------------------------------------------------------------------ JsonText: bytes after an object *)
Lemma ext_ok_obj j t b : is_obj j = true -> ext_ok j t b = true.
Proof. destruct j; try discriminate; reflexivity. Qed.

Lemma parse_single_nonempty d j : parse_single d = Some j -> d <> [].
Proof. intros H E. subst. rewrite single_ws in H by reflexivity. discriminate. Qed.

Lemma parse_first_skip d j t0 : parse_first d = Some (j, t0) -> exists c r, skip_ws d = c :: r.
Proof.
  unfold parse_first, fuel_for. rewrite parse_value_S. destruct (skip_ws d) as [|c r]; [discriminate|].
  intros _. now exists c, r.
Qed.

(* exactly one document [d] (an object, any length), then [t]: one document iff [t] is white space *)
Lemma single_app d j t : parse_single d = Some j -> is_obj j = true ->
  parse_single (d ++ t) = if all_ws t then Some j else None.
Proof.
  intros H O. apply parse_single_first in H as [t0 [EF W0]].
  pose proof (parse_first_ext t _ _ _ EF (ext_ok_obj _ _ _ O)) as EF'.
  unfold parse_first in EF'. unfold parse_single, parse_single_res.
  destruct (parse_value (fuel_for (d ++ t)) (d ++ t)) as [[v' t']| |]; try discriminate.
  inversion EF'; subst. rewrite all_ws_app, W0. cbn [andb]. destruct (all_ws t); reflexivity.
Qed.

(* ... and as a stream: the document, then the stream that [t] is *)
Lemma stream_app d j t : parse_single d = Some j -> is_obj j = true ->
  parse_stream (d ++ t) = option_map (cons j) (parse_stream t).
Proof.
  intros H O. apply parse_single_first in H as [t0 [EF W0]].
  pose proof (parse_first_ext t _ _ _ EF (ext_ok_obj _ _ _ O)) as EF'.
  destruct (parse_first_skip _ _ _ EF) as [c [r ES]].
  rewrite parse_stream_step, (skip_ws_ext _ t _ _ ES), EF', (parse_stream_ws _ _ W0).
  destruct (parse_stream t); reflexivity.
Qed.

Lemma stray_byte_is c : stray_byte c = stray c.
Proof. reflexivity. Qed.

(* a tail that begins (after white space) with a stray closer or separator is no stream *)
Lemma stray_tail_no_stream t c r : skip_ws t = c :: r -> stray c = true -> parse_stream t = None.
Proof.
  intros ES C. destruct (skip_ws_suffix t) as [w [E W]]. rewrite ES in E.
  pose proof (stream_stray_rejected [] [] w c r (stream_ws [] eq_refl) W C) as H.
  cbn [app] in H. now rewrite E.
Qed.

(* ------------------------------------------------------------------ verdicts of  first ++ tail *)
Lemma vand_true_l v : vand (Some true) v = v.
Proof. destruct v as [[|]|]; reflexivity. Qed.

Lemma doc_verdict_obj sch rules d : doc_verdict sch rules d = Some true -> is_obj d = true.
Proof. destruct d; cbn; try discriminate; reflexivity. Qed.

Lemma single_verdict_app sch d j t :
  parse_single d = Some j -> doc_verdict sch no_rules j = Some true ->
  single_verdict sch (d ++ t) = Some (all_ws t).
Proof.
  intros H V. unfold single_verdict.
  destruct (d ++ t) eqn:E.
  - apply app_eq_nil in E as [E _]. now apply parse_single_nonempty in H.
  - rewrite <- E, (single_app _ _ t H (doc_verdict_obj _ _ _ V)). destruct (all_ws t); [exact V|reflexivity].
Qed.

Lemma v_metrics_app d j t :
  parse_single d = Some j -> doc_verdict metric_doc metric_rules j = Some true ->
  v_metrics (FText (d ++ t)) = v_metrics (FText t).
Proof.
  intros H V. unfold v_metrics. rewrite (stream_app _ _ t H (doc_verdict_obj _ _ _ V)).
  destruct (parse_stream t) as [docs|]; cbn [option_map]; [|reflexivity].
  cbn [map vall fold_right]. rewrite V. apply vand_true_l.
Qed.

Lemma patch_documented_ok j : patch_documented j = true -> patch_doc_ok j = true.
Proof.
  destruct j as [| | | | | |m]; try discriminate. cbn [patch_documented].
  destruct m as [|[k1 v1] [|[k2 v2] [|? ?]]]; try discriminate.
  intros H. apply Bool.orb_true_iff in H as [H|H];
    repeat (apply andb_true_iff in H as [H ?]).
  - destruct v1 as [| | | |s| |]; try discriminate. destruct v2; try discriminate.
    repeat match goal with X : bytes_eqb _ _ = true |- _ => apply bytes_eqb_eq in X end. subst. reflexivity.
  - destruct v2 as [| | | |s| |]; try discriminate. destruct v1; try discriminate.
    repeat match goal with X : bytes_eqb _ _ = true |- _ => apply bytes_eqb_eq in X end. subst. reflexivity.
Qed.

(* ------------------------------------------------------------------ the text side of a file  first ++ tail *)
Lemma patch_kind_app d j t : parse_single d = Some j -> patch_documented j = true ->
  patch_text_kind (d ++ t) =
    match parse_stream t with
    | Some docs => if forallb patch_doc_ok docs then FValid else FWrongType
    | None => FTruncated
    end.
Proof.
  intros H V. pose proof (patch_documented_ok _ V) as K.
  assert (O : is_obj j = true) by (destruct j; try discriminate; reflexivity).
  unfold patch_text_kind. rewrite (stream_app _ _ t H O).
  destruct (parse_stream t) as [docs|]; cbn [option_map]; [|reflexivity].
  cbn [forallb]. rewrite K. reflexivity.
Qed.

Lemma forallb_documented_ok docs : forallb patch_documented docs = true -> forallb patch_doc_ok docs = true.
Proof.
  induction docs as [|x r IH]; [reflexivity|]. cbn [forallb]. intros H.
  apply andb_true_iff in H as [H1 H2]. now rewrite (patch_documented_ok _ H1), (IH H2).
Qed.

(* with a well-formed first document, the text-side verdict on the four files of the execution is the verdict
   on the tail *)
Lemma all_wf_bound b v : first_wf b = Some true -> tail_verdict b = Some v -> all_wf (input_of b) = Some v.
Proof.
  destruct b as [f first tail ex]. unfold first_wf, tail_verdict, all_wf, input_of, b_text, b_first, b_tail.
  cbn [bi_file bi_first bi_tail bi_exit i_metrics i_patch i_admission i_conversion].
  set (d := bexpand first). set (t := bexpand tail).
  destruct (parse_single d) as [j|] eqn:PS; [|discriminate].
  destruct (f =? file_metrics) eqn:E1.
  { apply N.eqb_eq in E1. subst f. change (file_metrics =? file_patch) with false.
    change (file_metrics =? file_admission) with false. change (file_metrics =? file_conversion) with false.
    intros V T. rewrite (v_metrics_app _ _ t PS V), T. destruct v; reflexivity. }
  destruct (f =? file_admission) eqn:E2.
  { apply N.eqb_eq in E2. subst f. change (file_admission =? file_patch) with false.
    change (file_admission =? file_conversion) with false. cbn [orb].
    intros V T. inversion T; subst v. cbn [v_admission]. rewrite (single_verdict_app _ _ _ t PS V).
    destruct (all_ws t); reflexivity. }
  destruct (f =? file_conversion) eqn:E3.
  { apply N.eqb_eq in E3. subst f. change (file_conversion =? file_patch) with false. cbn [orb].
    intros V T. inversion T; subst v. cbn [v_conversion]. rewrite (single_verdict_app _ _ _ t PS V).
    destruct (all_ws t); reflexivity. }
  cbn [orb]. destruct (f =? file_patch) eqn:E4; [|discriminate].
  destruct (patch_documented j) eqn:PD; [|discriminate]. intros _.
  rewrite (patch_kind_app _ _ t PS PD).
  destruct (all_ws t) eqn:W.
  { intros T; inversion T; subst v. rewrite (stream_ws _ W). reflexivity. }
  destruct (skip_ws t) as [|c r] eqn:ES; [discriminate|].
  destruct (stray_byte c) eqn:SB.
  { intros T; inversion T; subst v. rewrite (stray_tail_no_stream _ _ _ ES SB). reflexivity. }
  destruct (parse_stream t) as [docs|]; [|discriminate].
  destruct (forallb patch_documented docs) eqn:FD; [|discriminate].
  intros T; inversion T; subst v. rewrite (forallb_documented_ok _ FD). reflexivity.
Qed.

(* an execution of the class is always started (default hook name: all five temp files can be created) *)
Lemma bound_started b : o_started (run (input_of b)) = true.
Proof.
  unfold run. change (i_namelen (input_of b)) with 0. cbn [N.eqb].
  change (prepare (name_lengths 4) 0) with (5, true). cbn [negb].
  unfold failed.
  repeat match goal with |- context [if ?c then _ else _] => destruct c end; reflexivity.
Qed.

(* ------------------------------------------------------------------ the model satisfies the clause *)
Theorem bound_model_P b o : P_bound b (model_bound_obs b o) = true.
Proof.
  unfold P_bound, model_bound_obs, model_run_obs. cbn [ob_started ob_status].
  rewrite exec_is_run.
  destruct (o_started (run (input_of b))) eqn:S; [|reflexivity].
  destruct (Z.eqb (bi_exit b) 0) eqn:EX; [|reflexivity]. cbn [andb].
  destruct (first_wf b) as [[|]|] eqn:FW; try reflexivity.
  destruct (tail_verdict b) as [v|] eqn:TV; [|reflexivity].
  pose proof (run_success_spec _ _ S (all_wf_bound _ _ FW TV)) as [H1 H2].
  apply Z.eqb_eq in EX.
  destruct (o_success (run (input_of b))) eqn:OS.
  - destruct (H1 eq_refl) as [_ ->]. reflexivity.
  - destruct v; [|reflexivity]. assert (X : false = true) by (apply H2; split; [exact EX|reflexivity]). discriminate X.
Qed.

(* the statement in the terms of the task: an execution that ended with exit code 0 whose file is a
   well-formed first document [d] of ANY length followed by [t] *)
Definition single_file (f : N) : bool := (f =? file_admission) || (f =? file_conversion).

Theorem bound_single_accepted_iff b :
  single_file (bi_file b) = true -> first_wf b = Some true -> bi_exit b = 0%Z ->
  (o_success (exec_bound b) = true <-> all_ws (b_tail b) = true).
Proof.
  intros SF FW EX. pose proof (bound_started b) as S. unfold exec_bound in *. rewrite exec_is_run in *.
  assert (TV : tail_verdict b = Some (all_ws (b_tail b))).
  { unfold tail_verdict, single_file in *. destruct (bi_file b =? file_metrics) eqn:E1.
    - apply N.eqb_eq in E1. rewrite E1 in SF. discriminate.
    - now rewrite SF. }
  rewrite (run_success_spec _ _ S (all_wf_bound _ _ FW TV)). split; [intros [_ H]; exact H|intros H; now split].
Qed.

(* for the two files that hold a sequence of documents: accepted iff the tail is *)
Theorem bound_stream_accepted_iff b v :
  first_wf b = Some true -> tail_verdict b = Some v -> bi_exit b = 0%Z ->
  (o_success (exec_bound b) = true <-> v = true).
Proof.
  intros FW TV EX. pose proof (bound_started b) as S. unfold exec_bound in *. rewrite exec_is_run in *.
  rewrite (run_success_spec _ _ S (all_wf_bound _ _ FW TV)). split; [intros [_ H]; exact H|intros H; now split].
Qed.

(* trailing white space changes nothing at all: the outcome is that of the first document alone *)
Lemma bexpand_nil : bexpand [] = [].
Proof. reflexivity. Qed.

Theorem bound_ws_tail_irrelevant b :
  first_wf b = Some true -> all_ws (b_tail b) = true ->
  o_success (exec_bound b) = o_success (exec_bound (first_only b)).
Proof.
  intros FW W. unfold exec_bound. rewrite !exec_is_run.
  assert (FW' : first_wf (first_only b) = Some true) by exact FW.
  assert (TV : exists v, tail_verdict b = Some v /\ tail_verdict (first_only b) = Some v).
  { unfold tail_verdict, first_only, b_tail. cbn [bi_file bi_tail]. rewrite bexpand_nil.
    fold (b_tail b). rewrite W.
    destruct (bi_file b =? file_metrics) eqn:E1.
    - exists true. unfold v_metrics. rewrite (stream_ws _ W), (stream_ws [] eq_refl). split; reflexivity.
    - destruct ((bi_file b =? file_admission) || (bi_file b =? file_conversion)) eqn:E23.
      + exists true. split; reflexivity.
      + destruct (bi_file b =? file_patch) eqn:E4.
        * exists true. split; reflexivity.
        * unfold first_wf in FW. destruct (parse_single (b_first b)); [|discriminate].
          apply Bool.orb_false_iff in E23 as [E2 E3]. rewrite E1, E2, E3, E4 in FW. discriminate. }
  destruct TV as [v [T1 T2]].
  pose proof (all_wf_bound _ _ FW T1) as A1. pose proof (all_wf_bound _ _ FW' T2) as A2.
  pose proof (bound_started b) as S1. pose proof (bound_started (first_only b)) as S2.
  pose proof (run_success_spec _ _ S1 A1) as R1. pose proof (run_success_spec _ _ S2 A2) as R2.
  change (i_exit (input_of (first_only b))) with (i_exit (input_of b)) in R2.
  destruct (o_success (run (input_of b))); destruct (o_success (run (input_of (first_only b)))); try reflexivity.
  - symmetry. apply R2. now apply R1.
  - apply R1. now apply R2.
Qed.

(* the same on the code side alone (no text-side verdict involved): admission.ResponseFromFile and
   conversion.ResponseFromFile on  d ++ t  for a first document d that is an object, of any length *)
Lemma admission_ok_app d j t : parse_single d = Some j -> is_obj j = true ->
  admission_ok (d ++ t) = admission_ok d && all_ws t.
Proof.
  intros H O. pose proof (parse_single_nonempty _ _ H) as NE. unfold admission_ok.
  destruct d as [|c r]; [congruence|]. change ((c :: r) ++ t) with (c :: (r ++ t)).
  change (c :: (r ++ t)) with ((c :: r) ++ t).
  destruct ((c :: r) ++ t) eqn:E; [discriminate|]. rewrite <- E.
  rewrite (single_app _ _ t H O), H. destruct (all_ws t); [now rewrite Bool.andb_true_r | now rewrite Bool.andb_false_r].
Qed.

Lemma conversion_ok_app d j t : parse_single d = Some j -> is_obj j = true ->
  conversion_ok (d ++ t) = conversion_ok d && all_ws t.
Proof.
  intros H O. pose proof (parse_single_nonempty _ _ H) as NE. unfold conversion_ok.
  destruct d as [|c r]; [congruence|].
  destruct ((c :: r) ++ t) eqn:E; [discriminate|]. rewrite <- E.
  rewrite (single_app _ _ t H O), H. destruct (all_ws t); [now rewrite Bool.andb_true_r | now rewrite Bool.andb_false_r].
Qed.

(* MetricOperationsFromFile on  d ++ t : the operation of d, then those of t *)
Lemma metrics_ops_app d j t : parse_single d = Some j -> is_obj j = true ->
  metrics_ops (d ++ t) =
    match option_map op_of_state (decode_struct metric_schema j), metrics_ops t with
    | Some o, Some os => Some (o :: os)
    | _, _ => None
    end.
Proof.
  intros H O. pose proof (parse_single_nonempty _ _ H) as NE. unfold metrics_ops.
  destruct (d ++ t) eqn:E; [apply app_eq_nil in E as [E _]; congruence|]. rewrite <- E.
  rewrite (stream_app _ _ t H O).
  destruct t as [|c r].
  - rewrite (stream_ws [] eq_refl). cbn [option_map map_opt].
    destruct (option_map op_of_state (decode_struct metric_schema j)); reflexivity.
  - destruct (parse_stream (c :: r)) as [docs|]; cbn [option_map map_opt].
    + reflexivity.
    + destruct (option_map op_of_state (decode_struct metric_schema j)); reflexivity.
Qed.
