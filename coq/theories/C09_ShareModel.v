(* C09_ShareModel.v — several kubernetes bindings that watch the SAME resource.

     pkg/kube_events_manager/factory.go            FactoryStore.Start: monitors with an equal FactoryIndex
                                                   (GVR, namespace, field selector, label selector) get ONE
                                                   client-go informer; every resourceInformer registers its
                                                   own handler on it
     pkg/kube_events_manager/resource_informer.go  OnAdd/OnUpdate/OnDelete -> handleWatchEvent, once per
                                                   registered handler, all of them with the same object

   One change of the cluster is ONE delivery (event type, object) of the shared informer and is
   handled by EVERY binding of the group: each runs its own handleWatchEvent - its own jqFilter
   (the jq oracle answers once per binding: [s_outs], by position), its own keepFullObjectsInMemory,
   its own executeHookOnEvent - on its own cachedObjects.  The code as it is does not write to the
   delivered object (applyFilter works on jq.ApplyFilter's copy, RemoveFullObject clears the
   binding's own ObjectAndFilterResult), so a share is the hook case ([hcase], C09_Model) in
   which the delivery is listed once per binding, in configuration order (the order in which the
   driver hands the KubeEvents of one delivery to the HookController), every binding lists the
   same objects at start, and the array is rendered after all of them handled all deliveries.
   No proofs in this file. *)
From Verif Require Import Common Json C09_Model.

(* an object as the shared informer delivers it, with the jq oracle's answer for every binding *)
Record sobj := mkSobj {
  s_ns : bytes; s_name : bytes; s_id : bytes;
  s_obj : json;
  s_outs : list (list json) }.

(* the object as the k-th binding's handler sees it: the SAME object, that binding's jq answer *)
Definition view (k : nat) (s : sobj) : wobj :=
  mkWobj (s_ns s) (s_name s) (s_id s) (s_obj s) (nth k (s_outs s) []).

Inductive sevent :=
| SSync (k : nat)                       (* the Synchronization context of the k-th binding joins the array *)
| SDeliver (t : wevent) (s : sobj).     (* one delivery of the shared informer *)

Record share := mkShare {
  sh_binds : list binding;              (* the bindings of the group, with their different options *)
  sh_initial : list sobj;               (* the objects every monitor lists at start *)
  sh_evs : list sevent }.

(* every registered handler is called with the delivery; k = position of the first binding of [bs] *)
Fixpoint deliver_from (k : nat) (bs : list binding) (t : wevent) (s : sobj) : list hevent :=
  match bs with
  | [] => []
  | b :: r => HWatch (b_name b) t (view k s) :: deliver_from (S k) r t s
  end.

Definition share_event (bs : list binding) (ev : sevent) : list hevent :=
  match ev with
  | SSync k => match nth_error bs k with Some b => [HSync (b_name b)] | None => [] end
  | SDeliver t s => deliver_from 0 bs t s
  end.

Definition share_events (bs : list binding) (evs : list sevent) : list hevent :=
  flat_map (share_event bs) evs.

(* every monitor lists the same objects; each binding stores its own view of them *)
Fixpoint kube_from (k : nat) (bs : list binding) (init : list sobj) : list (binding * list wobj) :=
  match bs with
  | [] => []
  | b :: r => (b, map (view k) init) :: kube_from (S k) r init
  end.

Definition share_hcase (sh : share) : hcase :=
  mkHcase (kube_from 0 (sh_binds sh) (sh_initial sh)) [] (share_events (sh_binds sh) (sh_evs sh)).

(* the deliveries as the k-th binding sees them *)
Definition deliveries_of (k : nat) (evs : list sevent) : list (wevent * wobj) :=
  flat_map (fun ev => match ev with SDeliver t s => [(t, view k s)] | SSync _ => [] end) evs.

(* the cache of a binding that is ALONE on the resource, after the same deliveries *)
Definition own_cache (b : binding) (k : nat) (sh : share) : cache :=
  run_cache b (map (view k) (sh_initial sh)) (deliveries_of k (sh_evs sh)).

(* the KubeEvent -> contexts of a binding that is ALONE on the resource, for the delivery (t, s)
   after the deliveries of [pre] *)
Definition own_contexts (b : binding) (k : nat) (init : list sobj) (pre : list sevent) (t : wevent) (s : sobj)
  : list (list bytes * ctx) :=
  match snd (handle b (run_cache b (map (view k) init) (deliveries_of k pre)) t (view k s)) with
  | Some kev => map (fun c => (map fst (ke_objs kev), c)) (convert_kube_event b kev)
  | None => []
  end.

(* binding names are unique among the kubernetes bindings of a hook (C02's F25 otherwise) *)
Definition names_distinct (bs : list binding) : Prop := NoDup (map b_name bs).
