(* C01_Spec.v — C01 for one informer as a predicate over the changes, the schedule and
   what is observable at the end: the events handed over (in order), the snapshots the
   readers were given, the unlock flag.  Written against a sequential reference, not
   against the LTS. *)
From Verif Require Import Common C01_Model.
Open Scope N_scope.

Record observation := mkOb {
  ob_out : list event;
  ob_views : list (N * cache_t);
  ob_cache : cache_t;
  ob_enabled : bool;
  ob_buflen : N;
  ob_out_before_e : N;
  ob_finished : N;
  ob_bad : bool
}.

Definition event_eqb (a b : event) : bool :=
  match a, b with (o1, k1, p1), (o2, k2, p2) => N.eqb o1 o2 && wkind_eqb k1 k2 && N.eqb p1 p2 end.
Definition pair_NN_eqb (a b : N * N) : bool := N.eqb (fst a) (fst b) && N.eqb (snd a) (snd b).
Definition cache_eqb : cache_t -> cache_t -> bool := list_eqb pair_NN_eqb.

(* sequential reference: the event each change produces when the changes are handled one
   after the other from an empty cache (None: suppressed or not listed) *)
Fixpoint ref_events (types : list wkind) (cache : cache_t) (chs : list change) : list (option event) :=
  match chs with
  | [] => []
  | c :: r => let (cache', ev) := w1 types c cache in ev :: ref_events types cache' r
  end.
Fixpoint ref_cache (types : list wkind) (cache : cache_t) (chs : list change) : cache_t :=
  match chs with
  | [] => cache
  | c :: r => ref_cache types (fst (w1 types c cache)) r
  end.

Fixpoint cat_some {A} (l : list (option A)) : list A :=
  match l with [] => [] | Some x :: r => x :: cat_some r | None :: r => cat_some r end.

Definition drop {A} (n : N) (l : list A) : list A := skipn (N.to_nat n) l.

(* out = the events of the changes j, j+1, ... for some j <= k *)
Fixpoint exists_j (refs : list (option event)) (out : list event) (j : nat) : bool :=
  list_eqb event_eqb out (cat_some (skipn j refs))
  || match j with O => false | S j' => exists_j refs out j' end.

Definition P (i : input) (k : N) (o : observation) : bool :=
  negb (ob_bad o)
  && N.eqb (ob_out_before_e o) 0                                    (* no Event before the unlock *)
  && (if ob_enabled o then true else match ob_out o with [] => true | _ => false end)
  && (if ob_enabled o && N.eqb (ob_finished o) (N.of_nat (length (i_changes i)))
      then (* quiescent after the unlock: nothing after the Synchronization view is missing, the
              order is kept, at most a replay of the recent past *)
           exists_j (ref_events (i_types i) [] (i_changes i)) (ob_out o) (N.to_nat k)
           && N.eqb (ob_buflen o) 0
           && cache_eqb (ob_cache o) (ref_cache (i_types i) [] (i_changes i))
      else true).

(* trigger of the recorded finding F23 (R2): a reader other than the binding's own
   Synchronization run (reader 0) reads the binding before its first unlock *)
Fixpoint foreign_before_unlock (ops : list op) : bool :=
  match ops with
  | [] => false
  | E :: _ => false
  | StartS r :: rest => negb (N.eqb r 0) || foreign_before_unlock rest
  | _ :: rest => foreign_before_unlock rest
  end.
Definition T (i : input) : bool := foreign_before_unlock (i_ops i).

(* ---- the same property without the ghost k, for runs whose interleaving is not known
   (stress runs with free-running goroutines): the delivered events are the events of the
   changes from some j on, and the Synchronization view the hook was given is the state after
   some k' >= j changes (so nothing between the view and the first delivered event is missing) *)
Fixpoint prefix_caches (types : list wkind) (cache : cache_t) (chs : list change) : list cache_t :=
  cache :: match chs with
           | [] => []
           | c :: r => prefix_caches types (fst (w1 types c cache)) r
           end.

Definition last_sync_view (vs : list (N * cache_t)) : cache_t :=
  fold_left (fun acc v => if N.eqb (fst v) 0 then snd v else acc) vs [].

Definition P_free (i : input) (o : observation) : bool :=
  negb (ob_bad o)
  && N.eqb (ob_out_before_e o) 0
  && (if ob_enabled o then true else match ob_out o with [] => true | _ => false end)
  && (if ob_enabled o && N.eqb (ob_finished o) (N.of_nat (length (i_changes i)))
      then let refs := ref_events (i_types i) [] (i_changes i) in
           let caches := prefix_caches (i_types i) [] (i_changes i) in
           let v := last_sync_view (ob_views o) in
           let idx := seq 0 (S (length (i_changes i))) in
           existsb (fun j => list_eqb event_eqb (ob_out o) (cat_some (skipn j refs))
                             && existsb (fun k' => Nat.leb j k' && cache_eqb v (nth k' caches [])) idx) idx
           && N.eqb (ob_buflen o) 0
           && cache_eqb (ob_cache o) (ref_cache (i_types i) [] (i_changes i))
      else true).
