(* C20_ConfigProofs.v — the hook set and WHAT the hooks' valid configurations declare (seeded change
   C20-8): the registry of C20_Model (binding index, by-name index, list of names) for every
   assignment of configurations to hooks, and the clause P_hook_set of C20_Spec. *)
From Coq Require Import Sorted.
From Verif Require Import Common C20_Model C20_Spec C20_Corr C20_Proofs C20_NameProofs C20_KindProofs.
Local Open Scope N_scope.

(* ------------------------------------------------------------------ *)
(* A. names and by-name index: the same loop as init / hooks_by_name,  *)
(*    whatever the configurations                                      *)
(* ------------------------------------------------------------------ *)

Lemma load_registry_names wd beh cfg paths : forall r aa,
  rg_names (load_registry wd beh cfg paths r) = names (load_all wd beh paths aa (rg_names r)).
Proof.
  induction paths as [|p rest IH]; intros r aa; cbn [load_registry load_all]; [reflexivity|].
  destruct (beh (rel wd p)); cbn [names]; try reflexivity.
  rewrite (IH _ (aa ++ [p])). reflexivity.
Qed.

Lemma load_registry_by_name wd beh cfg paths : forall r,
  rg_by_name (load_registry wd beh cfg paths r) = load_index wd beh paths (rg_by_name r).
Proof.
  induction paths as [|p rest IH]; intros r; cbn [load_registry load_index]; [reflexivity|].
  destruct (beh (rel wd p)); try reflexivity.
  rewrite IH. reflexivity.
Qed.

Lemma registry_names_by_name parent root cs beh cfg :
  rg_names (registry_of parent root cs beh cfg) = names (init parent root cs beh)
  /\ rg_by_name (registry_of parent root cs beh cfg) = hooks_by_name parent root cs beh.
Proof.
  unfold registry_of, init, hooks_by_name. split.
  - apply (load_registry_names _ _ _ _ empty_registry []).
  - apply (load_registry_by_name _ _ _ _ empty_registry).
Qed.

(* the hook set is one and the same for any two assignments of configurations *)
Lemma hook_set_independent_of_configs parent root cs beh cfg1 cfg2 :
  rg_names (registry_of parent root cs beh cfg1) = rg_names (registry_of parent root cs beh cfg2)
  /\ rg_by_name (registry_of parent root cs beh cfg1) = rg_by_name (registry_of parent root cs beh cfg2).
Proof.
  destruct (registry_names_by_name parent root cs beh cfg1) as [A1 B1].
  destruct (registry_names_by_name parent root cs beh cfg2) as [A2 B2].
  rewrite A1, A2, B1, B2. split; reflexivity.
Qed.

(* ------------------------------------------------------------------ *)
(* B. the by-name index holds the loaded names and nothing else        *)
(* ------------------------------------------------------------------ *)

Lemma load_index_dom wd beh paths : forall idx n p,
  In (n, p) (load_index wd beh paths idx) -> In (n, p) idx \/ In n (map (rel wd) paths).
Proof.
  induction paths as [|q rest IH]; intros idx n p H; cbn [load_index] in H; [left; exact H|].
  cbn [map]. destruct (beh (rel wd q)); try (left; exact H).
  destruct (IH _ _ _ H) as [[E|Hin]|Hin].
  - injection E as E _. right. left. exact E.
  - left. exact Hin.
  - right. right. exact Hin.
Qed.

Lemma index_only_discovered parent root cs beh n p :
  index_get (hooks_by_name parent root cs beh) n = Some p -> In n (discover parent root cs).
Proof.
  intros H. apply index_get_in in H. unfold hooks_by_name in H.
  destruct (load_index_dom _ _ _ _ _ _ H) as [[]|Hin]. exact Hin.
Qed.

(* after a successful Init: the registered names are exactly the discovered executables - as a
   list (so also in their order), and through the by-name index in both directions *)
Lemma hook_set_is_discovery parent root cs beh cfg :
  result (init parent root cs beh) = InitOk ->
  rg_names (registry_of parent root cs beh cfg) = discover parent root cs
  /\ (forall n, In n (discover parent root cs) <->
                exists p, index_get (rg_by_name (registry_of parent root cs beh cfg)) n = Some p)
  /\ (forall p, In p (get_executable_paths parent root cs) ->
        index_get (rg_by_name (registry_of parent root cs beh cfg)) (rel (working_dir parent root) p) = Some p).
Proof.
  intros Hok. destruct (registry_names_by_name parent root cs beh cfg) as [En Eb].
  destruct (init_ok_all parent root cs beh Hok) as [_ [Hn _]].
  rewrite En, Eb. split; [exact Hn | split].
  - intros n. split.
    + intros Hin. exists (working_dir parent root ++ slash :: n).
      apply index_holds_loaded. rewrite Hn. exact Hin.
    + intros [p Hp]. exact (index_only_discovered _ _ _ _ _ _ Hp).
  - apply index_complete. exact Hok.
Qed.

(* ------------------------------------------------------------------ *)
(* C. the index by binding type                                        *)
(* ------------------------------------------------------------------ *)

Lemma binding_eqb_eq a b : binding_eqb a b = true <-> a = b.
Proof. destruct a, b; cbn; split; intros H; try reflexivity; try discriminate. Qed.

Lemma binding_eqb_refl a : binding_eqb a a = true.
Proof. apply binding_eqb_eq. reflexivity. Qed.

Lemma existsb_filter f b l :
  existsb (binding_eqb b) (filter f l) = f b && existsb (binding_eqb b) l.
Proof.
  induction l as [|x l IH]; cbn [filter existsb]; [rewrite andb_false_r; reflexivity|].
  destruct (binding_eqb b x) eqn:E.
  - apply binding_eqb_eq in E. subst x. destruct (f b); cbn [existsb orb andb].
    + rewrite binding_eqb_refl. reflexivity.
    + exact IH.
  - destruct (f x); cbn [existsb]; rewrite ?E; cbn [orb]; exact IH.
Qed.

Lemma valid_binding_types_all b : existsb (binding_eqb b) valid_binding_types = true.
Proof. destruct b; reflexivity. Qed.

Lemma valid_binding_types_nodup : NoDup valid_binding_types.
Proof.
  unfold valid_binding_types.
  repeat (constructor; [cbn [In]; intros H; repeat (destruct H as [H|H]; [discriminate H|]); exact H|]).
  constructor.
Qed.

(* HookConfig.Bindings(): every declared type once *)
Lemma bindings_spec c b : existsb (binding_eqb b) (bindings c) = has_binding c b.
Proof. unfold bindings. rewrite existsb_filter, valid_binding_types_all. apply andb_true_r. Qed.

Lemma bindings_nodup c : NoDup (bindings c).
Proof. unfold bindings. apply NoDup_filter. exact valid_binding_types_nodup. Qed.

Lemma fold_append_in_order name l : forall m b,
  NoDup l ->
  fold_left (fun m b => append_in_order m b name) l m b
  = if existsb (binding_eqb b) l then m b ++ [name] else m b.
Proof.
  induction l as [|x l IH]; intros m b Hn; cbn [fold_left existsb]; [reflexivity|].
  inversion Hn as [|? ? Hni Hn']; subst. rewrite (IH _ _ Hn'). unfold append_in_order.
  destruct (binding_eqb b x) eqn:E; cbn [orb].
  - apply binding_eqb_eq in E. subst x.
    destruct (existsb (binding_eqb b) l) eqn:Ex; [|reflexivity].
    exfalso. apply Hni. apply existsb_exists in Ex as [y [Hy Ey]].
    apply binding_eqb_eq in Ey. subst y. exact Hy.
  - reflexivity.
Qed.

(* registering one hook: its name goes to the end of the list of every binding type it declares,
   the other lists stay as they are *)
Lemma register_in_order c name path r b :
  rg_in_order (register c name path r) b
  = if has_binding c b then rg_in_order r b ++ [name] else rg_in_order r b.
Proof.
  unfold register. cbn [rg_in_order].
  rewrite (fold_append_in_order name _ _ b (bindings_nodup c)), bindings_spec. reflexivity.
Qed.

Lemma load_registry_in_order wd beh cfg b paths : forall r,
  (forall p, In p paths -> beh (rel wd p) = BOk) ->
  rg_in_order (load_registry wd beh cfg paths r) b
  = rg_in_order r b ++ filter (fun n => has_binding (cfg n) b) (map (rel wd) paths).
Proof.
  induction paths as [|p rest IH]; intros r Hall; cbn [load_registry map filter]; [rewrite app_nil_r; reflexivity|].
  rewrite (Hall p (or_introl eq_refl)).
  rewrite IH by (intros q Hq; apply Hall; right; exact Hq).
  rewrite register_in_order.
  destruct (has_binding (cfg (rel wd p)) b); [rewrite <- app_assoc|]; reflexivity.
Qed.

(* whatever happens during Init: a hook listed under a binding type is in the hook set *)
Lemma load_registry_in_order_names wd beh cfg b paths : forall r,
  (forall n, In n (rg_in_order r b) -> In n (rg_names r)) ->
  forall n, In n (rg_in_order (load_registry wd beh cfg paths r) b) ->
            In n (rg_names (load_registry wd beh cfg paths r)).
Proof.
  induction paths as [|p rest IH]; intros r Hinv; cbn [load_registry]; [exact Hinv|].
  destruct (beh (rel wd p)); try exact Hinv.
  apply IH. intros n Hn. rewrite register_in_order in Hn. unfold register. cbn [rg_names].
  apply in_or_app.
  destruct (has_binding (cfg (rel wd p)) b).
  - apply in_app_or in Hn as [Hn|Hn]; [left; apply Hinv; exact Hn | right; exact Hn].
  - left. apply Hinv. exact Hn.
Qed.

Lemma in_order_subset_of_names parent root cs beh cfg b n :
  In n (rg_in_order (registry_of parent root cs beh cfg) b) -> In n (rg_names (registry_of parent root cs beh cfg)).
Proof.
  unfold registry_of. apply load_registry_in_order_names. intros m [].
Qed.

(* after a successful Init the list of a binding type holds exactly the discovered hooks whose
   configuration declares it, in load order *)
Lemma binding_index parent root cs beh cfg b :
  result (init parent root cs beh) = InitOk ->
  rg_in_order (registry_of parent root cs beh cfg) b
  = filter (fun n => has_binding (cfg n) b) (discover parent root cs).
Proof.
  intros Hok. destruct (init_ok_all parent root cs beh Hok) as [_ [_ Hall]].
  unfold registry_of. rewrite load_registry_in_order; [reflexivity|].
  intros p Hp. apply Hall. unfold discover. apply in_map. exact Hp.
Qed.

(* a hook whose valid configuration declares NO binding: in no binding list - and a member of the
   hook set like every other discovered file *)
Lemma no_binding_still_a_hook parent root cs beh cfg n :
  result (init parent root cs beh) = InitOk ->
  In n (discover parent root cs) -> cfg n = [] ->
  (forall b, ~ In n (rg_in_order (registry_of parent root cs beh cfg) b))
  /\ In n (rg_names (registry_of parent root cs beh cfg))
  /\ index_get (rg_by_name (registry_of parent root cs beh cfg)) n = Some (working_dir parent root ++ slash :: n).
Proof.
  intros Hok Hin Hc. destruct (hook_set_is_discovery parent root cs beh cfg Hok) as [En _].
  split; [|split].
  - intros b Hb. rewrite (binding_index _ _ _ _ _ _ Hok) in Hb. apply filter_In in Hb as [_ Hb].
    rewrite Hc in Hb. discriminate.
  - rewrite En. exact Hin.
  - destruct (registry_names_by_name parent root cs beh cfg) as [_ Eb]. rewrite Eb.
    apply index_holds_loaded. destruct (init_ok_all parent root cs beh Hok) as [_ [Hn _]].
    rewrite Hn. exact Hin.
Qed.

(* ------------------------------------------------------------------ *)
(* D. the clause P_hook_set holds of the model                         *)
(* ------------------------------------------------------------------ *)

Lemma io_status_ok r : result r = InitOk -> io_status (init_obs_of r) = 0.
Proof. intros H. unfold init_obs_of. rewrite H. reflexivity. Qed.

Lemma P_hook_set_model i : wf_children (i_children i) = true -> P_hook_set i (model_of i) = true.
Proof.
  intros Hwf. unfold P_hook_set, model_of. cbn [o_init o_index].
  destruct (i_with_init i); [|reflexivity].
  set (parent := i_parent i). set (root := i_root i). set (cs := i_children i).
  set (r := init parent root cs (beh_of i)).
  destruct (N.eqb (io_status (init_obs_of r)) 0) eqn:Est; [|reflexivity].
  pose proof (io_status_init_obs_of _ Est) as Hok.
  destruct (init_ok_all parent root cs (beh_of i) Hok) as [_ [Hn _]]. fold r in Hn.
  rewrite io_names_init_obs_of, Hn.
  pose proof (P_index_model i) as Hidx. unfold P_index in Hidx. fold parent root cs r in Hidx.
  rewrite Est in Hidx. apply andb_true_iff in Hidx as [_ Hidx].
  rewrite forallb_forall in Hidx.
  apply andb_true_iff. split.
  - apply forallb_forall. intros e He. cbn zeta.
    pose proof (is_hook_entry cs e Hwf He) as Hiff.
    destruct (entry_is_hook e) eqn:Hh.
    + assert (Hd : In (entry_path e) (discover parent root cs)).
      { apply discover_iff. apply Hiff. reflexivity. }
      apply andb_true_iff. split.
      * apply Nat.eqb_eq. apply count_nodup; [apply discover_nodup; exact Hwf | exact Hd].
      * apply Hidx. apply spec_hooks_iff. apply (discover_iff parent root). exact Hd.
    + apply Nat.eqb_eq. apply count_notin. intros Hin. apply discover_iff in Hin.
      apply Hiff in Hin. discriminate.
  - apply subset_spec. intros x Hx. apply spec_hooks_iff. apply (discover_iff parent root). exact Hx.
Qed.

Lemma PC_model xi :
  wf_children (map lstat (x_children xi)) = true -> PC xi (model_of (to_input xi)) = true.
Proof.
  intros Hwf. unfold PC. rewrite (PX_model xi Hwf). cbn [andb].
  apply P_hook_set_model. exact Hwf.
Qed.

(* the model's observation of the binding lists, when Init succeeds: for each binding type the
   discovered hooks that declare it *)
Lemma bound_obs_model i :
  i_with_init i = true ->
  result (init (i_parent i) (i_root i) (i_children i) (beh_of i)) = InitOk ->
  bound_obs_of i
  = map (fun b => filter (fun n => has_binding (cfg_of i n) b) (discover (i_parent i) (i_root i) (i_children i)))
        valid_binding_types.
Proof.
  intros Hi Hok. unfold bound_obs_of, registry_of_input. rewrite Hi.
  apply map_ext. intros b. apply binding_index. exact Hok.
Qed.
