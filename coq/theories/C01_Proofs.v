(* C01_Proofs.v — invariants of the informer LTS. *)
From Verif Require Import Common C01_Model C01_Spec C01_Corr.
Open Scope N_scope.

Lemma event_eqb_refl e : event_eqb e e = true.
Proof. destruct e as [[o k] p]. simpl. rewrite !N.eqb_refl. destruct k; reflexivity. Qed.
Lemma events_eqb_refl l : list_eqb event_eqb l l = true.
Proof. apply list_eqb_refl, event_eqb_refl. Qed.
Lemma cache_eqb_refl c : cache_eqb c c = true.
Proof. apply list_eqb_refl. intros [a b]. unfold pair_NN_eqb. simpl. now rewrite !N.eqb_refl. Qed.

Lemma ref_events_app types c0 a b :
  ref_events types c0 (a ++ b) = ref_events types c0 a ++ ref_events types (ref_cache types c0 a) b.
Proof.
  revert c0. induction a as [|x a IH]; intros c0; [reflexivity|]. simpl.
  destruct (w1 types x c0) as [c' ev] eqn:E. simpl. now rewrite IH.
Qed.
Lemma ref_cache_app types c0 a b :
  ref_cache types c0 (a ++ b) = ref_cache types (ref_cache types c0 a) b.
Proof. revert c0. induction a as [|x a IH]; intros c0; [reflexivity|]. simpl. apply IH. Qed.
Lemma ref_events_length types c0 l : length (ref_events types c0 l) = length l.
Proof. revert c0. induction l as [|x l IH]; intros c0; [reflexivity|]. simpl. destruct (w1 types x c0). simpl. now rewrite IH. Qed.

Lemma cat_some_app {A} (a b : list (option A)) : cat_some (a ++ b) = cat_some a ++ cat_some b.
Proof. induction a as [|[x|] a IH]; simpl; [reflexivity| now rewrite IH | exact IH]. Qed.

Lemma exists_j_intro refs out : forall k j, (j <= k)%nat ->
  out = cat_some (skipn j refs) -> exists_j refs out k = true.
Proof.
  induction k as [|k IH]; intros j Hj Ho; simpl.
  - assert (j = 0%nat) by lia. subst. simpl. now rewrite events_eqb_refl.
  - destruct (Nat.eq_dec j (S k)) as [->|Hne].
    + rewrite Ho, events_eqb_refl. reflexivity.
    + rewrite (IH j); [apply orb_true_r | lia | exact Ho].
Qed.

(* ghost-instrumented invariant: [pre] the changes picked up so far, their reference events
   split into hA (handled before the last Synchronization read taken while locked / frozen
   at the unlock), hB (handled since), and the one in flight *)
Inductive Inv (types : list wkind) (chs : list change) (s : state) (k : nat) : Prop :=
| mkInv (g_pre : list change) (g_hA g_hB : list (option event))
    (i_split : chs = g_pre ++ todo s)
    (i_done : done s = N.of_nat (length g_pre))
    (i_cache : cache s = ref_cache types [] g_pre)
    (i_refs : ref_events types [] g_pre = g_hA ++ g_hB ++ (match wpc s with Some e => [Some e] | None => [] end))
    (i_fin : finished s = N.of_nat (length g_hA + length g_hB))
    (i_k : (length g_hA <= k <= length g_pre)%nat)
    (i_flow : if enabled s then buf s = [] /\ out s = cat_some g_hB
              else out s = [] /\ buf s = cat_some g_hB)
    (i_obe : match out_before_e s with Some n => n = 0 /\ enabled s = true | None => enabled s = false end).

Lemma init_inv types chs : Inv types chs (init chs) 0.
Proof. apply (mkInv types chs (init chs) 0 [] [] []); simpl; auto. Qed.

(* the ghost k after an operation: the number of changes picked up at the last
   Synchronization read taken while the binding is locked *)
Definition next_k (s : state) (o : op) (k : nat) : nat :=
  match o with
  | StartS r => if negb (enabled s) && N.eqb r 0 then N.to_nat (done s) else k
  | _ => k
  end.

Lemma step_inv types chs s k o :
  Inv types chs s k ->
  (match o with StartS r => enabled s = true \/ r = 0 | _ => True end) ->
  Inv types chs (step types s o) (next_k s o k).
Proof.
  intros [pre hA hB Hs Hd Hc Hr Hf Hk Hfl Ho] Hdis. destruct o; simpl.
  - (* StartW *)
    destruct (wpc s) as [e|] eqn:W.
    { apply (mkInv _ _ _ _ pre hA hB); auto; rewrite ?W, ?T; auto. }
    destruct (todo s) as [|c rest] eqn:T.
    { apply (mkInv _ _ _ _ pre hA hB); auto; rewrite ?W, ?T; auto. }
    destruct (w1 types c (cache s)) as [cache' ev] eqn:E1.
    assert (Hre : ref_events types [] (pre ++ [c]) = (hA ++ hB) ++ [ev]).
    { rewrite ref_events_app, <- Hc. simpl. rewrite E1. simpl. rewrite Hr, app_nil_r. reflexivity. }
    assert (Hrc : ref_cache types [] (pre ++ [c]) = cache').
    { rewrite ref_cache_app, <- Hc. simpl. now rewrite E1. }
    destruct ev as [e|].
    + apply (mkInv _ _ _ _ (pre ++ [c]) hA hB); simpl; auto.
      * rewrite <- app_assoc. exact Hs.
      * rewrite app_length. simpl. lia.
      * rewrite Hre. now rewrite <- app_assoc.
      * rewrite app_length. simpl. lia.
    + apply (mkInv _ _ _ _ (pre ++ [c]) hA (hB ++ [None])); simpl; auto.
      * rewrite <- app_assoc. exact Hs.
      * rewrite app_length. simpl. lia.
      * rewrite Hre, app_nil_r. now rewrite <- app_assoc.
      * rewrite app_length. simpl. lia.
      * rewrite app_length. simpl. lia.
      * rewrite cat_some_app. simpl. rewrite app_nil_r. exact Hfl.
  - (* StepW *)
    destruct (wpc s) as [e|] eqn:W.
    2:{ apply (mkInv _ _ _ _ pre hA hB); auto; rewrite ?W, ?T; auto. }
    assert (Hr' : ref_events types [] pre = hA ++ (hB ++ [Some e]) ++ []).
    { rewrite Hr, app_nil_r. reflexivity. }
    assert (Hf' : finished s + 1 = N.of_nat (length hA + length (hB ++ [Some e]))).
    { rewrite app_length. simpl. lia. }
    destruct (enabled s) eqn:En.
    + destruct Hfl as [B O].
      apply (mkInv _ _ _ _ pre hA (hB ++ [Some e])); simpl; auto.
      split; [exact B|]. rewrite cat_some_app, O. reflexivity.
    + destruct Hfl as [O B].
      apply (mkInv _ _ _ _ pre hA (hB ++ [Some e])); simpl; auto.
      split; [exact O|]. rewrite cat_some_app, B. reflexivity.
  - (* StartS *)
    destruct (enabled s) eqn:En; simpl.
    + apply (mkInv _ _ _ _ pre hA hB); simpl; auto; rewrite ?En; auto.
    + destruct Hdis as [F|R0]; [discriminate|]. subst r. simpl.
      destruct Hfl as [O B].
      assert (L := ref_events_length types [] pre). rewrite Hr, !app_length in L.
      apply (mkInv _ _ _ _ pre (hA ++ hB) []); simpl; auto; rewrite ?En; auto.
      * rewrite Hr. now rewrite <- app_assoc.
      * rewrite app_length. f_equal. lia.
      * rewrite Hd, Nnat.Nat2N.id, app_length. lia.
  - (* StepS *)
    apply (mkInv _ _ _ _ pre hA hB); auto.
  - (* E *)
    destruct (enabled s) eqn:En; simpl.
    + apply (mkInv _ _ _ _ pre hA hB); simpl; auto.
      destruct (out_before_e s) as [n|]; [exact Ho | discriminate].
    + destruct Hfl as [O B].
      apply (mkInv _ _ _ _ pre hA hB); simpl; auto.
      * split; [reflexivity|]. now rewrite O, B.
      * destruct (out_before_e s) as [n|]; [destruct Ho; discriminate|]. rewrite O. split; reflexivity.
Qed.

(* ------------------------------------------------------------------ whole schedules *)

Fixpoint ghost_k (types : list wkind) (s : state) (ops : list op) (k : nat) : nat :=
  match ops with
  | [] => k
  | o :: r => ghost_k types (step types s o) r (next_k s o k)
  end.

(* the discipline of the theorem: no reader other than the Synchronization run (reader 0)
   reads the binding while it is locked *)
Fixpoint disciplined (types : list wkind) (s : state) (ops : list op) : Prop :=
  match ops with
  | [] => True
  | o :: r => (match o with StartS rd => enabled s = true \/ rd = 0 | _ => True end)
              /\ disciplined types (step types s o) r
  end.

Lemma step_enabled types s o :
  enabled (step types s o) = match o with E => true | _ => enabled s end.
Proof.
  destruct o; simpl; auto.
  - destruct (wpc s), (todo s); auto. destruct (w1 types c (cache s)) as [c' [e|]]; auto.
  - destruct (wpc s); auto. destruct (enabled s) eqn:En; simpl; auto.
  - destruct (enabled s); reflexivity.
Qed.

Lemma foreign_disciplined types : forall ops s,
  foreign_before_unlock ops = false \/ enabled s = true -> disciplined types s ops.
Proof.
  induction ops as [|o r IH]; intros s H; [exact I|]. simpl. split.
  - destruct o; auto. destruct H as [H|H]; [|now left]. simpl in H. apply orb_false_iff in H as [H _].
    right. apply negb_false_iff, N.eqb_eq in H. exact H.
  - apply IH. rewrite step_enabled. destruct H as [H|H].
    + destruct o; simpl in H; auto. apply orb_false_iff in H as [_ H]. now left.
    + destruct o; auto.
Qed.

Lemma exec_inv types chs : forall ops s k,
  Inv types chs s k -> disciplined types s ops ->
  Inv types chs (exec types s ops) (ghost_k types s ops k).
Proof.
  unfold exec. induction ops as [|o r IH]; intros s k H D; [exact H|].
  simpl in *. destruct D as [D1 D2]. apply IH; [|exact D2]. now apply step_inv.
Qed.

Lemma sync_k_ghost types : forall ops s k,
  sync_k types s ops (N.of_nat k) (enabled s) = N.of_nat (ghost_k types s ops k).
Proof.
  induction ops as [|o r IH]; intros s k; [reflexivity|]. simpl.
  destruct o; simpl next_k.
  - rewrite <- IH. now rewrite step_enabled.
  - rewrite <- IH. now rewrite step_enabled.
  - rewrite <- IH. rewrite step_enabled.
    destruct (negb (enabled s) && N.eqb r0 0); [|reflexivity]. now rewrite Nnat.N2Nat.id.
  - rewrite <- IH. now rewrite step_enabled.
  - rewrite <- IH. now rewrite step_enabled.
Qed.

Lemma inv_P types chs ops s k :
  Inv types chs s k -> wpc s = None \/ True ->
  P (mkIn types chs ops) (N.of_nat k) (obs_of s) = true.
Proof.
  intros [pre hA hB Hs Hd Hc Hr Hf Hk Hfl Ho] _.
  unfold P, obs_of. cbn [ob_bad ob_out ob_enabled ob_finished ob_buflen ob_cache ob_out_before_e i_types i_changes negb andb].
  assert (OBE : N.eqb (match out_before_e s with Some n => n | None => N.of_nat (length (out s)) end) 0 = true).
  { destruct (out_before_e s) as [n|]; [destruct Ho as [-> _]; reflexivity|].
    rewrite Ho in Hfl. destruct Hfl as [O _]. now rewrite O. }
  rewrite OBE. cbn [andb].
  destruct (enabled s) eqn:En.
  - cbn [andb]. destruct Hfl as [B O].
    destruct (N.eqb (finished s) (N.of_nat (length chs))) eqn:Fin; [|reflexivity].
    apply N.eqb_eq in Fin. rewrite Hf in Fin. apply Nnat.Nat2N.inj in Fin.
    assert (L := ref_events_length types [] pre). rewrite Hr, !app_length in L.
    assert (Lc : length chs = (length pre + length (todo s))%nat) by (rewrite Hs at 1; apply app_length).
    assert (W : wpc s = None).
    { destruct (wpc s); [simpl in L; lia | reflexivity]. }
    rewrite W in Hr, L. simpl in L. rewrite app_nil_r in Hr.
    assert (Tn : todo s = []) by (destruct (todo s); [reflexivity | simpl in Lc; lia]).
    rewrite Tn, app_nil_r in Hs. subst pre.
    rewrite Nnat.Nat2N.id.
    rewrite (exists_j_intro (ref_events types [] chs) (out s) k (length hA)); [| lia |].
    + rewrite B. cbn. rewrite Hc. apply cache_eqb_refl.
    + rewrite O, Hr. rewrite skipn_app, Nat.sub_diag, skipn_all. reflexivity.
  - destruct Hfl as [O _]. rewrite O. reflexivity.
Qed.

(* ------------------------------------------------------------------ the theorems *)

(* No Event is handed over before the unlock, for EVERY schedule (foreign readers included) *)
Theorem no_event_before_unlock types : forall ops s,
  (enabled s = false -> out s = []) ->
  enabled (exec types s ops) = false -> out (exec types s ops) = [].
Proof.
  unfold exec. induction ops as [|o r IH]; intros s H; [exact H|]. simpl. apply IH.
  intros En. rewrite step_enabled in En. destruct o; try discriminate; simpl in *.
  - destruct (wpc s), (todo s); auto. destruct (w1 types c (cache s)) as [c' [e|]]; simpl; auto.
  - destruct (wpc s); auto. rewrite En. simpl. auto.
  - auto.
  - auto.
Qed.

(* the cache always equals the sequential fold of the changes picked up so far, for EVERY
   schedule: snapshots show the latest state of the matching objects (C02) *)
Theorem cache_tracks_changes types chs : forall ops s pre,
  chs = pre ++ todo s -> cache s = ref_cache types [] pre ->
  exists pre', chs = pre' ++ todo (exec types s ops) /\ cache (exec types s ops) = ref_cache types [] pre'.
Proof.
  unfold exec. induction ops as [|o r IH]; intros s pre Hs Hc; [now exists pre|]. simpl.
  destruct o; simpl; try (apply (IH _ pre); assumption).
  - destruct (wpc s); [apply (IH _ pre); assumption|].
    destruct (todo s) as [|c rest] eqn:T; [apply (IH _ pre); simpl; rewrite ?T; assumption|].
    destruct (w1 types c (cache s)) as [cache' ev] eqn:E1.
    assert (Hrc : ref_cache types [] (pre ++ [c]) = cache').
    { rewrite ref_cache_app, <- Hc. simpl. now rewrite E1. }
    destruct ev; apply (IH _ (pre ++ [c])); simpl; auto; now rewrite <- app_assoc.
  - destruct (wpc s); [|apply (IH _ pre); assumption].
    destruct (enabled s); apply (IH _ pre); assumption.
  - destruct (enabled s); apply (IH _ pre); assumption.
Qed.

(* No change is lost: for every history of changes, every subset of event types and every
   lock-granularity schedule in which only the Synchronization run reads the still-locked
   binding, what the hook is handed after the unlock is exactly the sequence of events of
   the changes from some point j on, in order, where j is not later than its last
   Synchronization view (so nothing after the view is missing; at most the one change that
   was in flight is replayed); nothing before the unlock. *)
Theorem no_loss i : T i = false -> P i (k_of i) (obs_of (run i)) = true.
Proof.
  intros HT. destruct i as [types chs ops]. unfold T, k_of, run in *. cbn [i_types i_changes i_ops] in *.
  pose proof (foreign_disciplined types ops (init chs) (or_introl HT)) as D.
  pose proof (exec_inv types chs ops (init chs) 0 (init_inv types chs) D) as I1.
  pose proof (step_inv types chs _ _ StepW I1 I) as I2. simpl next_k in I2.
  change (step types (exec types (init chs) ops) StepW) with (finish types (exec types (init chs) ops)) in I2.
  pose proof (sync_k_ghost types ops (init chs) 0) as K. simpl in K. rewrite K.
  apply inv_P; auto.
Qed.
