(* C05_Properties.v — the property theorems of C05 and nothing else.
   Full statement of the property (every op sequence, no hypothesis):

     Definition C05_full_statement := forall ops, P ops (run ops) = true.

   It is FALSE of the faithful model (and of the code): C05_refuted.  What is proved
   at full strength is C05_refines_list_partial: P for every op sequence outside the
   trigger T of the recorded finding F14 (a namesake of the handled task queued ahead
   of it when the handler returns Success / Keep-with-after-tasks). *)
From Verif Require Import Common C05_Model C05_Spec C05_Proofs.

Definition C05_full_statement : Prop := forall ops, P ops (run ops) = true.

Theorem C05_refines_list_partial : forall ops, T ops = false -> P ops (run ops) = true.
Proof. exact refines_list_partial. Qed.
Print Assumptions C05_refines_list_partial.

Theorem C05_refuted : exists ops, T ops = true /\ P ops (run ops) = false.
Proof. exact refuted. Qed.
Print Assumptions C05_refuted.

Theorem C05_no_empty_slot_length : forall ops,
  Forall (fun o => exists l, o_items o = map Some l /\ o_len o = N.of_nat (length l)
                             /\ o_first o = hd_error l /\ o_crash o = false) (run ops).
Proof. exact no_empty_slot_length. Qed.
Print Assumptions C05_no_empty_slot_length.

Theorem C05_success_removes_exactly_once : forall l1 p l2 st h a t,
  Forall (fun y => tid y <> tid p) l1 ->
  items (fst (step (mkState (l1 ++ p :: l2) st (Some p)) (Return Success h a t)))
  = h ++ l1 ++ a ++ l2 ++ t.
Proof. exact success_removes_exactly_once. Qed.
Print Assumptions C05_success_removes_exactly_once.

Theorem C05_keep_keeps_position : forall l1 p l2 st h a t,
  Forall (fun y => tid y <> tid p) l1 ->
  items (fst (step (mkState (l1 ++ p :: l2) st (Some p)) (Return Keep h a t)))
  = h ++ l1 ++ p :: a ++ l2 ++ t.
Proof. exact keep_keeps_position. Qed.
Print Assumptions C05_keep_keeps_position.

Theorem C05_fail_repeat_keep_queue : forall s p h a t stt,
  running s = Some p -> stt = Fail \/ stt = Repeat ->
  items (fst (step s (Return stt h a t))) = items s.
Proof. exact fail_repeat_keep_queue. Qed.
Print Assumptions C05_fail_repeat_keep_queue.

(* non-vacuity: concrete non-trivial sequences meet the hypothesis T = false, and the
   hypotheses of the corollaries are met by a reachable state *)
Example C05_hyp_met :
  T [Start; AddLast (1,1); AddLast (2,2); AddAfter 9 (7,7); Remove 1;
     Return Success [(5,5)] [(3,3);(4,4)] [(6,6)]; Return Keep [] [(8,8)] []]%N = false
  /\ exec init [Start; AddLast (1,1); AddLast (2,2)]%N = mkState ([] ++ (1,1) :: [(2,2)])%N true (Some (1,1)%N).
Proof. split; vm_compute; reflexivity. Qed.

(* ---- observers (Iterate / String) overlapping operations of another goroutine ----
   XP extends P: an observer that runs while another goroutine performs k operations must be
   shown one of the k+1 lists an ordinary list passes through (never a mixture), with no empty
   slot; Length()/GetFirst()/GetLast()/Get() afterwards describe the list after the last
   operation.  XT is T carried over (finding F14); XWF delimits the overlapping operations the
   clause speaks about (worker-independent operations, optionally ended by the return of the
   handler in progress). *)
Theorem C05_observers_refine_list_partial : forall xs,
  XT xs = false -> XWF xs = true -> XP xs (xrun xs) = true.
Proof. exact observers_refine_list_partial. Qed.
Print Assumptions C05_observers_refine_list_partial.

(* the clause, ONE overlapping operation: the walk is the list before or the list after *)
Theorem C05_walk_one_op : forall rn w l o r l',
  chain_ok rn w false l [o] [r] l' = true <->
  spec_ok l rn o l' r = true /\ (w = l \/ w = l').
Proof. exact walk_one_op. Qed.
Print Assumptions C05_walk_one_op.

(* the clause, k overlapping operations: the walk is one of the k+1 lists of a chain of
   ordinary-list steps leading from the list before to the list after *)
Theorem C05_walk_k_ops : forall cs rn w l rs l',
  chain_ok rn w false l cs rs l' = true ->
  exists ms, chain_rel rn l cs rs ms l' /\ length ms = length cs /\ In w (l :: ms).
Proof. exact walk_k_ops_unseen. Qed.
Print Assumptions C05_walk_k_ops.

(* the model's observers are atomic (one linearisation point, at their start) *)
Theorem C05_iterate_atomic : forall s pos cs,
  x_walk (snd (xstep s (IterateDuring pos cs))) = map Some (items s)
  /\ fst (xstep s (IterateDuring pos cs)) = exec s cs.
Proof. exact iterate_atomic. Qed.
Print Assumptions C05_iterate_atomic.

(* sequences without observers: XP / xrun are P / run *)
Theorem C05_observers_conservative : forall ops,
  xrun (map Plain ops) = map plain_obs (run ops)
  /\ XP (map Plain ops) (map plain_obs (run ops)) = P ops (run ops).
Proof. exact observers_conservative. Qed.
Print Assumptions C05_observers_conservative.

(* non-vacuity: a sequence with overlapping observers meets XT = false and XWF = true; the
   clause is not trivially true: it rejects the torn walk [a c d d] of [a b c d] / Remove b and
   accepts both linearisations *)
Example C05_observers_hyp_met :
  let xs := [Plain Start; Plain (AddLast (1,1)); Plain (AddLast (2,2)); Plain (AddLast (3,3)); Plain (AddLast (4,4));
             IterateDuring 0 [Remove 2];
             IterateDuring 1 [AddFirst (5,5); Remove 3; RemoveLast; Return Success [(6,6)] [(7,7)] [(8,8)]];
             IterateDuring 2 [Filter [6;7]; AddAfter 9 (9,9)]]%N in
  XT xs = false /\ XWF xs = true
  /\ chain_ok None [(1,1);(3,3);(4,4);(4,4)]%N false [(1,1);(2,2);(3,3);(4,4)]%N [Remove 2%N] [Some (2,2)%N] [(1,1);(3,3);(4,4)]%N = false
  /\ chain_ok None [(1,1);(2,2);(3,3);(4,4)]%N false [(1,1);(2,2);(3,3);(4,4)]%N [Remove 2%N] [Some (2,2)%N] [(1,1);(3,3);(4,4)]%N = true
  /\ chain_ok None [(1,1);(3,3);(4,4)]%N false [(1,1);(2,2);(3,3);(4,4)]%N [Remove 2%N] [Some (2,2)%N] [(1,1);(3,3);(4,4)]%N = true
  /\ chain_ok None [(1,1);(3,3)]%N false [(1,1);(2,2);(3,3)]%N [Remove 2; AddLast (4,4)]%N [Some (2,2)%N; None] [(1,1);(3,3);(4,4)]%N = true.
Proof. repeat split; vm_compute; reflexivity. Qed.
