(* C05_Properties.v — the property theorems of C05 and nothing else.
   Full statement of the property (every op sequence, no hypothesis):

     Definition C05_full_statement := forall ops, P ops (run ops) = true.

   It is FALSE of the faithful model (and of the code): C05_refuted.  What is proved
   at full strength is C05_refines_list_partial: P for every op sequence outside the
   trigger T of the recorded finding F14 (a namesake of the handled task queued ahead
   of it when the handler returns Success / Keep-with-after-tasks). *)
From Verif Require Import Common C05_Model C05_Spec C05_Proofs.

Definition C05_full_statement : Prop := forall ops, P ops (run ops) = true.

Theorem C05_refines_list_partial : forall ops, T ops = false -> P ops (run ops) = true.
Proof. exact refines_list_partial. Qed.
Print Assumptions C05_refines_list_partial.

Theorem C05_refuted : exists ops, T ops = true /\ P ops (run ops) = false.
Proof. exact refuted. Qed.
Print Assumptions C05_refuted.

Theorem C05_no_empty_slot_length : forall ops,
  Forall (fun o => exists l, o_items o = map Some l /\ o_len o = N.of_nat (length l)
                             /\ o_first o = hd_error l /\ o_crash o = false) (run ops).
Proof. exact no_empty_slot_length. Qed.
Print Assumptions C05_no_empty_slot_length.

Theorem C05_success_removes_exactly_once : forall l1 p l2 st h a t,
  Forall (fun y => tid y <> tid p) l1 ->
  items (fst (step (mkState (l1 ++ p :: l2) st (Some p)) (Return Success h a t)))
  = h ++ l1 ++ a ++ l2 ++ t.
Proof. exact success_removes_exactly_once. Qed.
Print Assumptions C05_success_removes_exactly_once.

Theorem C05_keep_keeps_position : forall l1 p l2 st h a t,
  Forall (fun y => tid y <> tid p) l1 ->
  items (fst (step (mkState (l1 ++ p :: l2) st (Some p)) (Return Keep h a t)))
  = h ++ l1 ++ p :: a ++ l2 ++ t.
Proof. exact keep_keeps_position. Qed.
Print Assumptions C05_keep_keeps_position.

Theorem C05_fail_repeat_keep_queue : forall s p h a t stt,
  running s = Some p -> stt = Fail \/ stt = Repeat ->
  items (fst (step s (Return stt h a t))) = items s.
Proof. exact fail_repeat_keep_queue. Qed.
Print Assumptions C05_fail_repeat_keep_queue.

(* non-vacuity: concrete non-trivial sequences meet the hypothesis T = false, and the
   hypotheses of the corollaries are met by a reachable state *)
Example C05_hyp_met :
  T [Start; AddLast (1,1); AddLast (2,2); AddAfter 9 (7,7); Remove 1;
     Return Success [(5,5)] [(3,3);(4,4)] [(6,6)]; Return Keep [] [(8,8)] []]%N = false
  /\ exec init [Start; AddLast (1,1); AddLast (2,2)]%N = mkState ([] ++ (1,1) :: [(2,2)])%N true (Some (1,1)%N).
Proof. split; vm_compute; reflexivity. Qed.
