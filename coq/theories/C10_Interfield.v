(* C10_Interfield.v — the validity rules that relate TWO fields (of one binding, or a field of one
   binding and the names of the other bindings), which the OpenAPI schema cannot express and which
   ConvertAndCheck v1 checks after the schema:

     nameSelector.matchNames  x  a fieldSelector requirement on metadata.name      (C10_Spec.name_field_clash)
     includeSnapshotsFrom     x  the names of the kubernetes bindings               (C10_Spec.bad_include)
     labelSelector operator   x  values, at every place a label selector can stand  (C10_Spec.bad_label_opvals)

   [interfield_valid] (C10_Spec) is the conjunction of the three clauses, written from HOOKS.md.
   [single_field_ok] collects what ConvertAndCheck v1 checks about ONE field at a time (through the
   oracles: crontab, label keys / values, durations, webhook validation, apiVersion).  The loader
   rejects a schema-valid v1 document whose single fields are fine IFF some inter-field clause is
   broken: [load_rejects_iff_clause_broken]. *)
From Coq Require Import String.
From Verif Require Import Common Json C10_Model C10_Spec C10_Proofs.

Lemma existsb_false_In A (f : A -> bool) l x : existsb f l = false -> In x l -> f x = false.
Proof.
  induction l as [|y l IH]; simpl; [intros _ []|].
  intros H [->|Hin]; apply orb_false_iff in H as [H1 H2]; auto.
Qed.

Lemma existsb_negb_forallb A (f : A -> bool) l : existsb (fun x => negb (f x)) l = false -> forallb f l = true.
Proof.
  induction l as [|y l IH]; simpl; [reflexivity|].
  intros H. apply orb_false_iff in H as [H1 H2]. apply negb_false_iff in H1. now rewrite H1, IH.
Qed.

Lemma expr_not_bad_ok e : expr_opvals_bad e = false -> lexpr_opvals_ok e = true.
Proof.
  unfold expr_opvals_bad, op_is, lexpr_opvals_ok, mem_bytes. cbn [existsb].
  destruct (bytes_eqb (get_str (bs "operator") e) (bs "In")),
           (bytes_eqb (get_str (bs "operator") e) (bs "NotIn")),
           (bytes_eqb (get_str (bs "operator") e) (bs "Exists")),
           (bytes_eqb (get_str (bs "operator") e) (bs "DoesNotExist")),
           (is_nil (get_arr (bs "values") e)); cbn; congruence.
Qed.

Lemma sel_not_bad_ok s : selector_opvals_bad s = false -> lsel_opvals_ok s = true.
Proof.
  unfold selector_opvals_bad, lsel_opvals_ok. intros H. apply forallb_forall. intros e He.
  apply expr_not_bad_ok. exact (existsb_false_In _ _ _ e H He).
Qed.

Section Interfield.
  Variable cron_ok : bytes -> bool.
  Variable label_selector_ok : json -> bool.
  Variable duration_ns : bytes -> option Z.
  Variable webhook_ok : json -> bool.

  Notation load' := (load cron_ok label_selector_ok duration_ns webhook_ok).
  Notation checks' := (checks_v1 cron_ok label_selector_ok duration_ns webhook_ok).

  (* the label selectors of a binding pass what LabelSelectorAsSelector checks about keys and values *)
  Definition sels_oracle_ok (b : json) : bool := forallb label_selector_ok (declared_label_selectors b).

  (* what ConvertAndCheck v1 checks about one field at a time *)
  Definition single_field_ok (doc : json) : bool :=
    is_some (settings_of duration_ns doc)
    && forallb (fun j => api_version_ok (get_str (bs "apiVersion") j) && sels_oracle_ok j) (get_arr (bs "kubernetes") doc)
    && forallb (fun j => cron_ok (get_str (bs "crontab") j)) (get_arr (bs "schedule") doc)
    && forallb sels_oracle_ok (get_arr (bs "kubernetesValidating") doc)
    && forallb webhook_ok (get_arr (bs "kubernetesValidating") doc)
    && nodup_nonempty (map (get_str (bs "name")) (get_arr (bs "kubernetesValidating") doc))
    && forallb sels_oracle_ok (get_arr (bs "kubernetesMutating") doc).

  Lemma opt_sels_true b :
    existsb selector_opvals_bad (declared_label_selectors b) = false -> sels_oracle_ok b = true ->
    opt_sel_ok label_selector_ok (bs "labelSelector") b = true
    /\ match jget (bs "namespace") b with Some ns => opt_sel_ok label_selector_ok (bs "labelSelector") ns | None => true end = true.
  Proof.
    unfold sels_oracle_ok, declared_label_selectors, opt_sel_ok. intros Hb Ho.
    rewrite forallb_forall in Ho.
    assert (H : forall s, In s ((match jget (bs "labelSelector") b with Some s => [s] | None => [] end)
                                ++ (match jget (bs "namespace") b with
                                    | Some ns => match jget (bs "labelSelector") ns with Some s => [s] | None => [] end
                                    | None => []
                                    end)) -> lsel_opvals_ok s && label_selector_ok s = true).
    { intros s Hs. rewrite (Ho s Hs). rewrite (sel_not_bad_ok s (existsb_false_In _ _ _ s Hb Hs)). reflexivity. }
    clear Hb Ho. split.
    - destruct (jget (bs "labelSelector") b) as [s|]; [|reflexivity]. apply H. apply in_or_app. left. now left.
    - destruct (jget (bs "namespace") b) as [ns|]; [|reflexivity].
      destruct (jget (bs "labelSelector") ns) as [s|]; [|reflexivity]. apply H. apply in_or_app. right. now left.
  Qed.

  (* every clause holds and every single field is fine: ConvertAndCheck v1 finds nothing *)
  Lemma checks_of_clauses doc :
    is_v1 doc = true -> single_field_ok doc = true -> interfield_valid doc = true -> checks' doc = true.
  Proof.
    intros Hv Hs Hi.
    unfold interfield_valid in Hi. apply andb_true_iff in Hi as [Hi Hl]. apply andb_true_iff in Hi as [Hc Hi].
    apply negb_true_iff in Hc, Hi, Hl.
    unfold name_field_clash in Hc. unfold bad_include in Hi. unfold bad_label_opvals in Hl.
    rewrite Hv in Hc, Hi, Hl. cbn [andb] in Hc, Hi, Hl.
    change (declared_kube_names doc) with (kube_names_v1 doc) in Hi.
    assert (Hinc : forall k j, In k binding_keys -> In j (get_arr k doc) ->
                               includes_ok (kube_names_v1 doc) (get_strs (bs "includeSnapshotsFrom") j) = true).
    { intros k j Hk Hj. unfold includes_ok, include_ok. apply existsb_negb_forallb.
      exact (existsb_false_In _ _ _ j (existsb_false_In _ _ _ k Hi Hk) Hj). }
    assert (Hsel : forall k b, In k selector_keys -> In b (get_arr k doc) ->
                               existsb selector_opvals_bad (declared_label_selectors b) = false).
    { intros k b Hk Hb. exact (existsb_false_In _ _ _ b (existsb_false_In _ _ _ k Hl Hk) Hb). }
    unfold single_field_ok in Hs. repeat (apply andb_true_iff in Hs as [Hs ?]).
    repeat match goal with H : forallb _ _ = true |- _ => rewrite forallb_forall in H end.
    unfold checks_v1. repeat (apply andb_true_iff; split); try assumption;
      try (apply forallb_forall; intros j Hj);
      try (match goal with |- webhook_ok _ = true => now auto end).
    - (* CheckOnKubernetesEvent *)
      match goal with H : forall x, In x (get_arr (bs "kubernetes") doc) -> _ |- _ => specialize (H j Hj); apply andb_true_iff in H as [Ha Ho] end.
      destruct (opt_sels_true j (Hsel (bs "kubernetes") j (or_introl eq_refl) Hj) Ho) as [Hsel1 Hsel2].
      pose proof (existsb_false_In _ _ _ j Hc Hj) as Hcl.
      unfold name_field_clash_in, declared_match_names, declared_field_exprs, on_metadata_name in Hcl.
      unfold check_kube. rewrite Ha, Hsel1, Hsel2, Hcl. reflexivity.
    - apply (Hinc (bs "kubernetes") j); [right; now left|assumption].
    - (* CheckSchedule *)
      unfold check_sched. apply andb_true_iff; split; [auto|].
      apply (Hinc (bs "schedule") j); [now left|assumption].
    - (* CheckAdmission, validating *)
      match goal with H : forall x, In x (get_arr (bs "kubernetesValidating") doc) -> sels_oracle_ok x = true |- _ => specialize (H j Hj); rename H into Ho end.
      destruct (opt_sels_true j (Hsel (bs "kubernetesValidating") j (or_intror (or_introl eq_refl)) Hj) Ho) as [Hsel1 Hsel2].
      unfold check_adm. rewrite Hsel1, Hsel2, (Hinc (bs "kubernetesValidating") j); [reflexivity|right; right; now left|assumption].
    - (* CheckAdmission, mutating *)
      match goal with H : forall x, In x (get_arr (bs "kubernetesMutating") doc) -> sels_oracle_ok x = true |- _ => specialize (H j Hj); rename H into Ho end.
      destruct (opt_sels_true j (Hsel (bs "kubernetesMutating") j (or_intror (or_intror (or_introl eq_refl))) Hj) Ho) as [Hsel1 Hsel2].
      unfold check_adm. rewrite Hsel1, Hsel2, (Hinc (bs "kubernetesMutating") j); [reflexivity|right; right; right; now left|assumption].
    - (* CheckConversion *)
      unfold check_conv. apply (Hinc (bs "kubernetesCustomResourceConversion") j); [right; right; right; right; now left|assumption].
  Qed.

  Lemma rejects_interfield_invalid doc : is_v1 doc = true -> interfield_valid doc = false -> load' doc = Rejected.
  Proof.
    intros _ H. unfold interfield_valid in H.
    apply andb_false_iff in H as [H|H]; [apply andb_false_iff in H as [H|H]|]; apply negb_false_iff in H.
    - now apply rejects_name_field_clash.
    - now apply rejects_bad_include.
    - now apply rejects_bad_label_opvals.
  Qed.

  Lemma load_rejects_iff_clause_broken doc :
    is_v1 doc = true -> check schema_v1 doc = true -> single_field_ok doc = true ->
    (load' doc = Rejected <-> interfield_valid doc = false).
  Proof.
    intros Hv Hsch Hs. destruct (interfield_valid doc) eqn:I.
    - unfold load. rewrite (is_v1_detect _ Hv), Hsch, (checks_of_clauses doc Hv Hs I). cbn [andb]. split; discriminate.
    - split; [reflexivity|]. intros _. now apply rejects_interfield_invalid.
  Qed.

  (* ... and then it loads exactly the declared bindings (C10_Spec.loaded_ok) *)
  Lemma loads_when_clauses_hold doc :
    is_v1 doc = true -> check schema_v1 doc = true -> single_field_ok doc = true -> interfield_valid doc = true ->
    exists c, load' doc = Loaded c /\ loaded_ok doc (cfg_json c) = true.
  Proof.
    intros Hv Hsch Hs I. exists (convert_v1 duration_ns doc).
    assert (E : load' doc = Loaded (convert_v1 duration_ns doc)).
    { unfold load. now rewrite (is_v1_detect _ Hv), Hsch, (checks_of_clauses doc Hv Hs I). }
    split; [exact E|]. exact (loaded_spec _ _ _ _ _ _ E).
  Qed.

  (* the exclusion does not depend on the operator of the requirement nor on its position: any
     requirement on metadata.name, anywhere in matchExpressions, next to any non-empty matchNames *)
  Lemma rejects_name_field_any_operator doc b ns fs n names pre e post :
    is_v1 doc = true -> In b (get_arr (bs "kubernetes") doc) ->
    jget (bs "nameSelector") b = Some ns -> get_arr (bs "matchNames") ns = n :: names ->
    jget (bs "fieldSelector") b = Some fs -> get_arr (bs "matchExpressions") fs = pre ++ e :: post ->
    get_str (bs "field") e = bs "metadata.name" ->
    load' doc = Rejected.
  Proof.
    intros Hv Hb Hns Hn Hfs Hes He. apply rejects_name_field_clash.
    unfold name_field_clash. rewrite Hv. cbn [andb]. apply existsb_exists. exists b. split; [assumption|].
    unfold name_field_clash_in, declared_match_names, declared_field_exprs. rewrite Hns, Hn, Hfs, Hes.
    cbn [is_nil negb andb]. rewrite existsb_app. cbn [existsb]. unfold on_metadata_name. rewrite He.
    rewrite bytes_eqb_refl. cbn [orb]. now rewrite orb_true_r.
  Qed.
End Interfield.

(* ---- concrete documents (non-vacuity) ---- *)

Definition fexpr (f op v : bytes) : json := jo [(bs "field", JStr f); (bs "operator", JStr op); (bs "value", JStr v)].

(* a kubernetes binding with nameSelector.matchNames [app] and two field requirements, the second one
   on [field] with operator [op] *)
Definition doc_names_and_field (field op : bytes) : json :=
  jo [(bs "configVersion", JStr (bs "v1"));
      (bs "kubernetes",
       JArr [jo [(bs "kind", JStr (bs "Pod"));
                 (bs "nameSelector", jo [(bs "matchNames", JArr [JStr (bs "app")])]);
                 (bs "fieldSelector",
                  jo [(bs "matchExpressions",
                       JArr [fexpr (bs "status.phase") (bs "Equals") (bs "Running"); fexpr field op (bs "other")])])]])].

(* In without values, in the namespace.labelSelector of a validating binding *)
Definition doc_in_without_values : json :=
  jo [(bs "configVersion", JStr (bs "v1"));
      (bs "kubernetesValidating",
       JArr [jo [(bs "name", JStr (bs "a.b.c"));
                 (bs "namespace",
                  jo [(bs "labelSelector",
                       jo [(bs "matchExpressions", JArr [jo [(bs "key", JStr (bs "tier")); (bs "operator", JStr (bs "In"))]])])])]])].

Lemma interfield_examples :
  (* the clash with NotEquals / != : schema-valid, single fields fine, clause broken, rejected *)
  (forall op, In op [bs "="; bs "=="; bs "Equals"; bs "!="; bs "NotEquals"] ->
     is_v1 (doc_names_and_field (bs "metadata.name") op) = true
     /\ check schema_v1 (doc_names_and_field (bs "metadata.name") op) = true
     /\ single_field_ok all_ok_cron all_ok_sel dur_3s all_ok_sel (doc_names_and_field (bs "metadata.name") op) = true
     /\ name_field_clash (doc_names_and_field (bs "metadata.name") op) = true
     /\ interfield_valid (doc_names_and_field (bs "metadata.name") op) = false
     /\ load all_ok_cron all_ok_sel dur_3s all_ok_sel (doc_names_and_field (bs "metadata.name") op) = Rejected)
  (* the neighbour (another field, same operator): every clause holds, loaded with the declared selectors *)
  /\ (is_v1 (doc_names_and_field (bs "metadata.namespace") (bs "!=")) = true
      /\ check schema_v1 (doc_names_and_field (bs "metadata.namespace") (bs "!=")) = true
      /\ single_field_ok all_ok_cron all_ok_sel dur_3s all_ok_sel (doc_names_and_field (bs "metadata.namespace") (bs "!=")) = true
      /\ interfield_valid (doc_names_and_field (bs "metadata.namespace") (bs "!=")) = true
      /\ match load all_ok_cron all_ok_sel dur_3s all_ok_sel (doc_names_and_field (bs "metadata.namespace") (bs "!=")) with
         | Loaded c => map k_names (c_kubes c) = [Some [bs "app"]] | Rejected => False end)
  (* operator / values: the oracle for keys and values accepts everything, the rule itself rejects *)
  /\ (is_v1 doc_in_without_values = true /\ check schema_v1 doc_in_without_values = true
      /\ single_field_ok all_ok_cron all_ok_sel dur_3s all_ok_sel doc_in_without_values = true
      /\ bad_label_opvals doc_in_without_values = true
      /\ load all_ok_cron all_ok_sel dur_3s all_ok_sel doc_in_without_values = Rejected).
Proof.
  split; [|split].
  - intros op Hop. cbn [In] in Hop.
    destruct Hop as [<-|[<-|[<-|[<-|[<-|[]]]]]]; vm_compute; repeat split.
  - vm_compute. repeat split.
  - vm_compute. repeat split.
Qed.
