(* C11_StartProofs.v — where ScheduleManager.Start() falls in a history is of no account:
   proofs for C11_StartSpec and the statements in words. *)
From Coq Require Import Permutation Sorted.
From Verif Require Import Common C11_Model C11_Spec C11_Proofs C11_Hm C11_HmSpec C11_HmProofs C11_IdProofs C11_StartSpec.

(* ------------------------------------------------------------------ the step *)

Lemma smstart_step i s : sys_step i s OSmStart = (s, ([], [])).
Proof. reflexivity. Qed.

Lemma smstart_spec_step hooks st : spec_step hooks st OSmStart = st.
Proof. destruct st as [reg en]. reflexivity. Qed.

Definition run_ops (i : input) (ops : list op) (s : sys) : sys :=
  fold_left (fun s o => fst (sys_step i s o)) ops s.

(* the state after a history with Start() somewhere in it is the state after the history
   without it *)
Lemma start_position_irrelevant i pre post s :
  run_ops i (pre ++ OSmStart :: post) s = run_ops i (pre ++ post) s.
Proof. unfold run_ops. rewrite !fold_left_app. reflexivity. Qed.

Lemma start_position_irrelevant_spec hooks pre post st :
  fold_left (spec_step hooks) (pre ++ OSmStart :: post) st = fold_left (spec_step hooks) (pre ++ post) st.
Proof. rewrite !fold_left_app. cbn [fold_left]. now rewrite smstart_spec_step. Qed.

(* ------------------------------------------------------------------ S holds of the model *)

Lemma quiet_observe i s f : quiet (observe i s f) = true -> ch_pending (s_ch s) = [].
Proof.
  unfold quiet, observe, ch_pending. cbn [o_chlen o_parked].
  destruct (s_ch s) as [b p]. cbn [buf parked].
  destruct b as [|x b]; [|cbn; discriminate].
  destruct p as [|y p]; [reflexivity|cbn; discriminate].
Qed.

Lemma S_from_holds i : forall ops s st idle stopped,
  Rel i s st -> (idle = true -> ch_pending (s_ch s) = []) ->
  S_from i st idle stopped ops (run_from i s ops) = true.
Proof.
  induction ops as [|o ops IH]; intros s st idle stopped HR HQ; [reflexivity|].
  cbn [run_from]. pose proof (step_rel i s st o HR) as HR'.
  destruct (sys_step i s o) as [s' f] eqn:Es. cbn [fst] in HR'.
  cbn [S_from]. apply andb_true_iff. split.
  2: { apply IH; [exact HR' | apply quiet_observe]. }
  destruct o as [c id|c id|h|h|c|n| |ns| | |]; try reflexivity.
  destruct idle; [|reflexivity]. destruct stopped; [reflexivity|]. cbn [negb orb].
  cbn [sys_step] in Es. destruct (ch_drain_all (s_ch s)) as [r k] eqn:D. inversion Es; subst s' f.
  destruct (ch_drain_all_spec _ _ _ D) as [Hr _]. rewrite (HQ eq_refl) in Hr.
  apply perm_nil_r in Hr. subst r. cbn [app].
  destruct HR' as [HI' _]. cbn [with_ch s_sm] in HI'.
  unfold check_tick. apply forallb_forall. intros c _. cbn [observe o_recv snd].
  change (count_recv c (map snd (cron (s_sm s)))) with (count_ct c (map snd (cron (s_sm s)))).
  rewrite count_ct_map. change (count_fires c (cron (s_sm s))) with (cron_count c (s_sm s)).
  rewrite (inv_count_exact _ _ _ c HI'). apply Nat.eqb_refl.
Qed.

Lemma S_holds i : S i (run_model i) = true.
Proof. unfold S, run_model. apply S_from_holds; [apply rel_init | reflexivity]. Qed.

Lemma P_start_holds i : P_start i (run_model i) = true.
Proof. unfold P_start. now rewrite P_holds, S_holds. Qed.

Lemma P_op_start_holds i : P_op_start (load_input i) (run_op i) = true.
Proof.
  unfold P_op_start. rewrite P_op_holds. cbn [andb]. unfold run_op, run_hm.
  rewrite map_h_obs_run. apply S_holds.
Qed.

(* ------------------------------------------------------------------ in words *)

(* after ANY history with Start() anywhere in it - Add / Remove / Enable / Disable before it,
   Remove / Add / ticks after it: the strings one tick of the runner delivers (every entry
   it holds fires once) contain crontab c exactly once if c is parsable and has a registered
   id, not at all otherwise; the entry ids are distinct; and the manager, the links, the
   channel and the registry are what they are after the same history without the Start() *)
Lemma start_anywhere i pre post c :
  let ops := pre ++ OSmStart :: post in
  let s := run_ops i ops (sys_init i) in
  let st := fold_left (spec_step (i_hooks i)) ops (spec_init (i_hooks i)) in
  count_recv c (map snd (cron (s_sm s))) = (if fires (valid_of (i_invalid i)) (fst st) c then 1 else 0)%nat
  /\ NoDup (map fst (cron (s_sm s)))
  /\ s = run_ops i (pre ++ post) (sys_init i)
  /\ st = fold_left (spec_step (i_hooks i)) (pre ++ post) (spec_init (i_hooks i)).
Proof.
  cbv zeta. unfold run_ops.
  destruct (rel_fold i (pre ++ OSmStart :: post) _ _ (rel_init i)) as [HI _].
  split; [|split; [|split]].
  - change (count_recv c (map snd (cron (s_sm (fold_left (fun s o => fst (sys_step i s o)) (pre ++ OSmStart :: post) (sys_init i))))))
      with (count_ct c (map snd (cron (s_sm (fold_left (fun s o => fst (sys_step i s o)) (pre ++ OSmStart :: post) (sys_init i)))))).
    rewrite count_ct_map.
    exact (inv_count_exact _ _ _ c HI).
  - destruct HI as (_ & _ & H & _). exact H.
  - apply start_position_irrelevant.
  - apply start_position_irrelevant_spec.
Qed.

(* the last binding of a crontab registered BEFORE Start() is removed AFTER it: the crontab
   has no entry any more; registered again: exactly one.  [reg]: the registry (C11_Spec) *)
Lemma stops_and_restarts i ops c :
  let s := run_ops i ops (sys_init i) in
  let reg := fst (fold_left (spec_step (i_hooks i)) ops (spec_init (i_hooks i))) in
  (has_binding c reg = false -> forall e, ~ In (e, c) (cron (s_sm s)))
  /\ (valid_of (i_invalid i) c = true -> has_binding c reg = true ->
      exists e, In (e, c) (cron (s_sm s)) /\ cron_count c (s_sm s) = 1%nat).
Proof.
  cbv zeta. unfold run_ops.
  destruct (rel_fold i ops _ _ (rel_init i)) as [HI _].
  pose proof (inv_count_exact _ _ _ c HI) as Hc.
  set (s := fold_left (fun s o => fst (sys_step i s o)) ops (sys_init i)) in *.
  set (st := fold_left (spec_step (i_hooks i)) ops (spec_init (i_hooks i))) in *.
  split.
  - intros Hb e Hin. rewrite Hb, andb_false_r in Hc.
    unfold cron_count in Hc.
    assert (Hf : In (e, c) (filter (fun x => ct_eqb (snd x) c) (cron (s_sm s)))).
    { apply filter_In. split; [exact Hin|]. cbn [snd]. now apply bytes_eqb_eq. }
    destruct (filter (fun x => ct_eqb (snd x) c) (cron (s_sm s))); [contradiction | discriminate].
  - intros Hv Hb. rewrite Hv, Hb in Hc. cbn [andb] in Hc. pose proof Hc as Hc1.
    unfold cron_count in Hc.
    destruct (filter (fun x => ct_eqb (snd x) c) (cron (s_sm s))) as [|[e c'] r] eqn:F; [discriminate|].
    assert (Hin : In (e, c') (filter (fun x => ct_eqb (snd x) c) (cron (s_sm s)))) by (rewrite F; now left).
    apply filter_In in Hin as [Hin He]. cbn [snd] in He. apply bytes_eqb_eq in He. subst c'.
    exists e. split; [exact Hin | exact Hc1].
Qed.

(* ------------------------------------------------------------------ entry ids increase along the runner's list
   (the harness lists the entries of a running runner by entry id: that is the order of registration) *)
Definition ids_sorted (s : sm) : Prop := StronglySorted N.lt (map fst (cron s)).

Lemma sorted_snoc (l : list N) x :
  StronglySorted N.lt l -> (forall y, In y l -> (y < x)%N) -> StronglySorted N.lt (l ++ [x]).
Proof.
  induction l as [|a l IH]; intros Hs Hb; cbn [app].
  - constructor; constructor.
  - inversion Hs as [|? ? Hs' Hf]; subst. constructor.
    + apply IH; [exact Hs'|]. intros y Hy. apply Hb. now right.
    + apply Forall_app. split; [exact Hf|]. constructor; [apply Hb; now left | constructor].
Qed.

Lemma sorted_filter (f : N * ct -> bool) l :
  StronglySorted N.lt (map fst l) -> StronglySorted N.lt (map fst (filter f l)).
Proof.
  induction l as [|x l IH]; cbn [map filter]; intros H; [constructor|].
  inversion H as [|? ? Hs Hf]; subst. destruct (f x); cbn [map]; [|now apply IH].
  constructor; [now apply IH|]. rewrite Forall_forall in *. intros y Hy. apply Hf.
  apply in_map_iff in Hy as [z [<- Hz]]. apply filter_In in Hz as [Hz _]. now apply in_map.
Qed.

Lemma sorted_add valid s reg c i : Inv valid s reg -> ids_sorted s -> ids_sorted (sm_add valid s c i).
Proof.
  intros (_ & _ & _ & Hb) Hs. unfold ids_sorted, sm_add in *.
  destruct (entries s c) as [[eid ids]|] eqn:E.
  - destruct (mem_N i ids); [exact Hs|]. exact Hs.
  - destruct (valid c); cbn [cron]; [|exact Hs].
    rewrite map_app. cbn [map fst]. apply sorted_snoc; [exact Hs|].
    intros y Hy. apply in_map_iff in Hy as [[e c'] [<- Hin]]. cbn [fst].
    destruct (Hb e c' Hin) as [_ Hle]. lia.
Qed.

Lemma sorted_remove s c i : ids_sorted s -> ids_sorted (sm_remove s c i).
Proof.
  intros Hs. unfold ids_sorted, sm_remove in *.
  destruct (entries s c) as [[eid ids]|]; [|exact Hs].
  destruct (negb (mem_N i ids)); [exact Hs|].
  destruct (set_del i ids); cbn [cron]; [|exact Hs]. now apply sorted_filter.
Qed.

Lemma sorted_fold valid h : forall s reg, Inv valid s reg -> ids_sorted s ->
  ids_sorted (fold_left (sm_step valid) h s).
Proof.
  induction h as [|o h IH]; intros s reg HI Hs; [exact Hs|]. cbn [fold_left].
  apply (IH _ (reg_step reg o)); [apply Inv_step, HI|].
  destruct o as [c i|c i]; cbn [sm_step]; [eapply sorted_add; eassumption | now apply sorted_remove].
Qed.

(* after ANY history of operations (Start() anywhere) the runner's entries, in the order of
   registration, have strictly increasing ids *)
Lemma cron_ids_increase i ops :
  StronglySorted N.lt (map fst (cron (s_sm (run_ops i ops (sys_init i))))).
Proof.
  unfold run_ops. rewrite sys_sm_induced.
  apply (sorted_fold _ _ _ [] (Inv_init _)). constructor.
Qed.
