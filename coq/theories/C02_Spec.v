(* C02_Spec.v — C02 as predicates over what is observed. *)
From Verif Require Import Common C02_Model.
Open Scope N_scope.

Definition obj_eqb (a b : obj) : bool := same_key a b && N.eqb (snd a) (snd b).
Definition mem_obj (o : obj) (l : list obj) : bool := existsb (obj_eqb o) l.

Definition matching (i : snap_in) (o : obj) : bool :=
  (match si_namespaces i with [] => true | l => mem_N (o_ns o) l end)
  && (match si_names i with [] => true | l => mem_N (o_name o) l end).

Fixpoint strictly_sorted (l : list obj) : bool :=
  match l with
  | [] => true
  | x :: r => match r with [] => true | y :: _ => key_ltb x y && strictly_sorted r end
  end.

(* exactly the matching objects of the cluster, each once, ordered by namespace and name *)
Definition P_snap_list (i : snap_in) (snap : list obj) : bool :=
  strictly_sorted snap
  && forallb (fun o => matching i o && mem_obj o (final_cluster i)) snap
  && forallb (fun o => if matching i o then mem_obj o snap else true) (final_cluster i).

Definition P_snap (i : snap_in) (snap restart : list obj) (bad : bool) : bool :=
  negb bad && P_snap_list i snap && (if si_restart i then P_snap_list i restart else true).

(* the same over what the entries SHOW: every entry is what the binding's configuration shows
   of a matching cluster object in its CURRENT state (filter result and, when kept, the whole
   object - also for changes that touched nothing the filter selects), every matching object
   is shown, each once, ordered by namespace and name *)
Definition v_key_ltb (a b : view) : bool :=
  let '(ans, anm, _, _) := a in let '(bns, bnm, _, _) := b in
  N.ltb ans bns || (N.eqb ans bns && N.ltb anm bnm).
Fixpoint v_strictly_sorted (l : list view) : bool :=
  match l with
  | [] => true
  | x :: r => match r with [] => true | y :: _ => v_key_ltb x y && v_strictly_sorted r end
  end.
Definition optN_eqb (a b : option N) : bool :=
  match a, b with Some x, Some y => N.eqb x y | None, None => true | _, _ => false end.
Definition view_eqb (a b : view) : bool :=
  let '(ans, anm, af, ao) := a in let '(bns, bnm, bf, bo) := b in
  N.eqb ans bns && N.eqb anm bnm && optN_eqb af bf && optN_eqb ao bo.
Definition mem_view (v : view) (l : list view) : bool := existsb (view_eqb v) l.
Definition expected_view (i : snap_in) (o : obj) : view :=
  (o_ns o, o_name o,
   if si_filter i then Some (snd o mod 10) else None,
   if si_keep i then Some (snd o) else None).
Definition P_view_list (i : snap_in) (vs : list view) : bool :=
  v_strictly_sorted vs
  && forallb (fun v => existsb (fun o => matching i o && view_eqb v (expected_view i o)) (final_cluster i)) vs
  && forallb (fun o => if matching i o then mem_view (expected_view i o) vs else true) (final_cluster i).
Definition P_view (i : snap_in) (vs restart : list view) (bad : bool) : bool :=
  negb bad && P_view_list i vs && (if si_restart i then P_view_list i restart else true).

(* trigger of the recorded finding F26: an object is deleted between the informer's initial
   list and its start *)
Definition T_ghost (i : snap_in) : bool := match si_ghost i with Some _ => true | None => false end.

(* UpdateSnapshots: every binding is read at most once per execution, so its snapshot is
   identical everywhere it appears (also as `objects` of its Synchronization); the keys of
   `snapshots` are exactly the bindings the context's binding includes *)
Fixpoint nodup_N (l : list N) : bool :=
  match l with [] => true | x :: r => negb (mem_N x r) && nodup_N r end.

Definition all_pairs (os : list (list (N * N) * N)) (cs : list (N * bool)) : list (N * N) :=
  flat_map (fun oc => fst (fst oc) ++ (if N.eqb (snd (fst oc)) 0 then [] else [(fst (snd oc), snd (fst oc))]))
           (combine os cs).

Definition consistent (ps : list (N * N)) : bool :=
  forallb (fun p => forallb (fun q => if N.eqb (fst p) (fst q) then N.eqb (snd p) (snd q) else true) ps) ps.

Definition same_set (a b : list N) : bool := forallb (fun x => mem_N x b) a && forallb (fun x => mem_N x a) b.

Definition P_upd (i : upd_in) (os : list (list (N * N) * N)) (reads : list N) (bad : bool) : bool :=
  negb bad
  && N.eqb (N.of_nat (length os)) (N.of_nat (length (ui_ctxs i)))
  && nodup_N reads
  && consistent (all_pairs os (ui_ctxs i))
  && forallb (fun oc => let '(o, c) := oc in
                        same_set (map fst (fst o)) (includes_of (ui_bindings i) (fst c))
                        && nodup_N (map fst (fst o))
                        && forallb (fun kv => negb (N.eqb (snd kv) 0)) (fst o)
                        && Bool.eqb (negb (N.eqb (snd o) 0)) (is_kube (ui_bindings i) (fst c) && snd c))
             (combine os (ui_ctxs i)).

(* group: the snapshots of a group member cover every kubernetes binding of the group *)
Definition P_grp (keys objs : N) (bad : bool) : bool := negb bad && N.eqb objs 2 && N.leb 1 keys.
Definition T_grp (named : bool) : bool := negb named.

(* ---- bindings with namespace.labelSelector (dynamic namespaces) ----
   An object matches the binding NOW when its namespace exists and carries the label now, and
   its name is selected.  At every point where the cluster is quiet and a snapshot is read, the
   snapshot shows exactly the matching objects of the cluster as it is then - whatever happened
   before (namespaces that matched when the operator started or restarted, or started matching
   later, have stopped matching, match again, objects moved between namespaces, ...) - each
   once, ordered by namespace and name, each as the binding's configuration shows its CURRENT
   state. *)
Definition dmatching (names : list N) (c : dcl) (o : obj) : bool :=
  ns_lab (o_ns o) (snd c)
  && (match names with [] => true | l => mem_N (o_name o) l end).

Definition P_dsnap_list (names : list N) (c : dcl) (snap : list obj) : bool :=
  strictly_sorted snap
  && forallb (fun o => dmatching names c o && mem_obj o (fst c)) snap
  && forallb (fun o => if dmatching names c o then mem_obj o snap else true) (fst c).

Definition dexpected_view (i : dyn_in) (o : obj) : view :=
  (o_ns o, o_name o,
   if dn_filter i then Some (snd o mod 10) else None,
   if dn_keep i then Some (snd o) else None).
Definition P_dview_list (i : dyn_in) (c : dcl) (vs : list view) : bool :=
  v_strictly_sorted vs
  && forallb (fun v => existsb (fun o => dmatching (dn_names i) c o && view_eqb v (dexpected_view i o)) (fst c)) vs
  && forallb (fun o => if dmatching (dn_names i) c o then mem_view (dexpected_view i o) vs else true) (fst c).

(* the cluster at the read points of the history (operator restarts do not change the cluster) *)
Fixpoint read_clusters (c : dcl) (ops : list dop) : list dcl :=
  match ops with
  | [] => []
  | op :: r => let c' := dcl_apply c op in
               match op with DRead => c' :: read_clusters c' r | _ => read_clusters c' r end
  end.
Definition dyn_read_clusters (i : dyn_in) : list dcl := read_clusters (dyn_cluster1 i) (dn_ops i).

Fixpoint all2 {A B} (p : A -> B -> bool) (l : list A) (m : list B) : bool :=
  match l, m with
  | [], [] => true
  | a :: l', b :: m' => p a b && all2 p l' m'
  | _, _ => false
  end.

(* one snapshot per read point, each right for the cluster of its point *)
Definition P_dsnaps (i : dyn_in) (reads : list (list obj)) : bool :=
  all2 (P_dsnap_list (dn_names i)) (dyn_read_clusters i) reads.
Definition P_dyn (i : dyn_in) (reads : list (list view)) (bad : bool) : bool :=
  negb bad && all2 (P_dview_list i) (dyn_read_clusters i) reads.

(* trigger of the namespace-level ghost: a namespace found by the initial namespace list of
   CreateInformers stops matching before Start (before the namespace informer's own list) *)
Definition T_nsghost (i : dyn_in) : bool :=
  match dn_ghost_ns i with Some g => ns_lab g (snd (dyn_cluster0 i)) | None => false end.
