(* C01_CompProofs.v — the companion binding's events are exactly the changes of the objects in
   its named namespaces, for every configuration of both bindings and every history: nothing
   the namespaces do (and so nothing the other binding's informers do) shows. *)
From Verif Require Import Common C01_Model C02_Model C02_Spec C02_Proofs C02_DynProofs C01_Hist C01_HistSpec C01_HistProofs C01_Comp C01_CompSpec.
Open Scope N_scope.

Lemma ns_lab_fold_virt S : forall acc n,
  ns_lab n (fold_left (fun l p => ns_set (fst p) (snd p) l) (virt S) acc) = mem_N n S || ns_lab n acc.
Proof.
  induction S as [|s r IH]; intros acc n; [reflexivity|].
  cbn [virt map fold_left fst snd]. fold (virt r). rewrite IH, ns_lab_set.
  unfold mem_N. cbn [existsb].
  destruct (N.eqb n s) eqn:E; [now rewrite orb_true_r | reflexivity].
Qed.


Lemma dcl_obj_op c op : is_obj_op op = true ->
  dcl_apply c (dop_of op) = (obj_apply (fst c) op, snd c).
Proof. destruct op; cbn; intros H; try discriminate; reflexivity. Qed.

Lemma comp_changes i k : forall ops c,
  (forall n, ns_lab n (snd c) = mem_N n (k_nss k)) ->
  changes_from (comp_as_hist i k) c (filter is_obj_op ops) = cexpected_from k (fst c) ops.
Proof.
  induction ops as [|op r IH]; intros c Hn; [reflexivity|].
  cbn [filter cexpected_from]. destruct (is_obj_op op) eqn:O.
  - cbn [changes_from]. rewrite (dcl_obj_op c op O).
    rewrite (IH (obj_apply (fst c) op, snd c)) by exact Hn. cbn [fst]. f_equal.
    destruct op as [o|ns name|ns lab|ns]; try discriminate; cbn [exp_change cexp_change comp_as_hist h_names h_types h_filter].
    + unfold dmatching, comp_match, name_sel. rewrite Hn. reflexivity.
    + destruct (lookup (ns, name, 0) (fst c)) as [old|]; [|reflexivity].
      unfold dmatching, comp_match, name_sel. rewrite Hn. reflexivity.
  - destruct op; try discriminate; cbn [cexp_change obj_apply app]; apply IH, Hn.
Qed.

Theorem comp_events_exact i k : comp_out i k = cexpected i k.
Proof.
  unfold comp_out, cexpected. rewrite hist_events_exact. unfold changes_only.
  cbn [h_ops comp_as_hist].
  rewrite (comp_changes i k (h_ops i) (hcluster0 (comp_as_hist i k))).
  - reflexivity.
  - intros n. unfold hcluster0. cbn [snd h_nss comp_as_hist]. rewrite ns_lab_fold_virt. cbn [ns_lab]. apply orb_false_r.
Qed.

Theorem comp_P_holds i k : CP i k (mkHOb (comp_out i k) 0 false) = true.
Proof.
  unfold CP. cbn [ho_bad ho_before ho_out negb andb N.eqb].
  rewrite comp_events_exact. apply same_per_object_refl.
Qed.

(* namespace operations are invisible to the companion: removing them from (or adding them to) a
   history changes nothing of what it is given *)
Theorem comp_ignores_namespaces i k :
  cexpected i k = cexpected_from k (fst (hcluster0 i)) (filter is_obj_op (h_ops i)).
Proof.
  unfold cexpected. generalize (fst (hcluster0 i)). induction (h_ops i) as [|op r IH]; intros objs; [reflexivity|].
  cbn [cexpected_from filter]. destruct op as [o|ns name|ns lab|ns]; cbn [is_obj_op cexpected_from cexp_change obj_apply app];
    try (f_equal; apply IH); apply IH.
Qed.

(* both bindings together: outside the trigger of F24 (which concerns the first binding only) *)
Theorem hist2_P_partial i k : HT i = false ->
  HP2 i k (mkHOb (hist_out i) 0 false) (mkHOb (comp_out i k) 0 false) = true.
Proof. intros H. unfold HP2. now rewrite (hist_P_partial i H), comp_P_holds. Qed.
