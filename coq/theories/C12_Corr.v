From Verif Require Import Common Json JsonText C12_Model C12_Spec.
Open Scope N_scope.

Definition case := (input * observation)%type.

(* the model's outcome in the observation's vocabulary; the OS facts are taken from the
   implementation's observation (they are not modelled), and so is the presence of the probe
   metric where the model leaves it to prometheus ([o_metric_unknown]) *)
Definition model_obs (c : case) : observation :=
  let (i, o) := c in
  let m := run i in
  mkOb (o_started m) (ob_cwd_is_hook_dir o) (ob_env_ok o) (ob_context_matches o) (ob_files_empty o)
       (ob_paths_distinct o) (ob_tmp_during o)
       (if o_success m then 0 else 1)
       (o_remaining m)
       (if o_metric_unknown m then ob_metric_applied o else o_metric_applied m)
       (o_patch_applied m) false.

(* a not-started execution is retried without end in the harness (zero back-off); leaked
   files are compared as zero / non-zero only *)
Definition agrees (c : case) : bool :=
  let (i, o) := c in
  let m := model_obs c in
  Bool.eqb (ob_started m) (ob_started o)
  && N.eqb (ob_status m) (ob_status o)
  && (if ob_started o then N.eqb (ob_tmp_after m) (ob_tmp_after o)
      else Bool.eqb (N.eqb (ob_tmp_after m) 0) (N.eqb (ob_tmp_after o) 0))
  && Bool.eqb (ob_metric_applied m) (ob_metric_applied o)
  && Bool.eqb (ob_patch_applied m) (ob_patch_applied o)
  && (if ob_started o then N.eqb (ob_tmp_during o) (if i_concurrent i then 10 else 5) else true)
  && negb (ob_bad o).

Definition mismatches (cs : list case) : list N := indices_where (fun c => negb (agrees c)) cs.
Definition spec_violations (cs : list case) : list N := indices_where (fun c => negb (P (fst c) (snd c))) cs.
