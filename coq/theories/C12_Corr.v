From Verif Require Import Common Json JsonText C12_Model C12_Spec.
Open Scope N_scope.

Definition case := (input * observation)%type.

(* the model's outcome in the observation's vocabulary; the OS facts are taken from the
   implementation's observation (they are not modelled), and so is the presence of the probe
   metric where the model leaves it to prometheus ([o_metric_unknown]) *)
(* the variables the scripted hook is asked about: the six contract variables and every variable
   other variable of the operator's own environment *)
Definition query_vars (i : input) : list N :=
  [var_context; var_metrics; var_conversion; var_validating; var_admission; var_patch]
  ++ filter (fun k => 6 <=? k) (map fst (i_env i)).

Definition opt_eval_eqb (a b : option eval) : bool :=
  match a, b with
  | Some x, Some y => eval_eqb x y
  | None, None => true
  | _, _ => false
  end.
(* the observed view answers every queried variable as the model does (order-independent) *)
Fixpoint find_var (e : list (N * option eval)) (k : N) : option (option eval) :=
  match e with
  | [] => None
  | (k', v) :: r => if k' =? k then Some v else find_var r k
  end.
Definition view_agrees (m o : list (N * option eval)) : bool :=
  forallb (fun kv => match find_var o (fst kv) with Some v => opt_eval_eqb v (snd kv) | None => false end) m.
Fixpoint views_agree (ms os : list (list (N * option eval))) : bool :=
  match ms, os with
  | [], [] => true
  | m :: mr, o :: or => view_agrees m o && views_agree mr or
  | _, _ => false
  end.

Definition model_obs (c : case) : observation :=
  let (i, o) := c in
  let m := exec i in
  mkOb (o_started m) (ob_cwd_is_hook_dir o) (ob_env_ok o) (ob_context_matches o) (ob_files_empty o)
       (ob_paths_distinct o) (ob_tmp_during o)
       (if o_success m then 0 else 1)
       (o_remaining m)
       (if o_metric_unknown m then ob_metric_applied o else o_metric_applied m)
       (o_patch_applied m) false
       (if o_started m then repeat (env_view i (query_vars i)) (if i_concurrent i then 2 else 1) else [])
       (o_started m && foreign_written i).

(* a not-started execution is retried without end in the harness (zero back-off); leaked
   files are compared as zero / non-zero only *)
Definition agrees (c : case) : bool :=
  let (i, o) := c in
  let m := model_obs c in
  Bool.eqb (ob_started m) (ob_started o)
  && N.eqb (ob_status m) (ob_status o)
  && (if ob_started o then N.eqb (ob_tmp_after m) (ob_tmp_after o)
      else Bool.eqb (N.eqb (ob_tmp_after m) 0) (N.eqb (ob_tmp_after o) 0))
  && Bool.eqb (ob_metric_applied m) (ob_metric_applied o)
  && Bool.eqb (ob_patch_applied m) (ob_patch_applied o)
  && (if ob_started o then N.eqb (ob_tmp_during o) (if i_concurrent i then 10 else 5) else true)
  && views_agree (ob_envs m) (ob_envs o)
  && Bool.eqb (ob_foreign_touched m) (ob_foreign_touched o)
  && negb (ob_bad o).

Definition mismatches (cs : list case) : list N := indices_where (fun c => negb (agrees c)) cs.
Definition spec_violations (cs : list case) : list N := indices_where (fun c => negb (P (fst c) (snd c))) cs.
