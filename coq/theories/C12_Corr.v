From Verif Require Import Common Json JsonText C12_Model C12_Spec C12_ConcModel C12_ConcSpec C12_FsModel C12_FsSpec C12_PlaceModel C12_PlaceSpec C12_BoundModel C12_BoundSpec.
Open Scope N_scope.

(* three case classes: one execution driven through the operator (input, observation); many
   executions of Hook.Run at the same time (C12_ConcModel / C12_ConcSpec); one execution driven through
   the operator whose hook writes each output in a way of its own, in chunks (C12_FsModel / C12_FsSpec) *)
Definition run_case := (input * observation)%type.
(* a fourth class: the hooks of a tree of directories, files and symbolic links, found by the real discovery and
   run one after the other by Hook.Run; every hook process reports where it ran (C12_PlaceModel / C12_PlaceSpec) *)
Inductive case := CRun (c : run_case) | CConc (ci : cinput) (o : cobs) | CWays (w : winput) (o : observation)
                | CPlace (pi : pinput) (os : list pobs1) (bad : bool)
(* a fifth class: one execution driven through the operator whose hook leaves  first document ++ tail  in one of
   the four output files, the first document of a chosen length (C12_BoundModel / C12_BoundSpec) *)
                | CBound (b : binput) (o : observation).

(* the model's outcome in the observation's vocabulary; the OS facts are taken from the
   implementation's observation (they are not modelled), and so is the presence of the probe
   metric where the model leaves it to prometheus ([o_metric_unknown]) *)
(* the variables the scripted hook is asked about: the six contract variables and every variable
   other variable of the operator's own environment *)
Definition query_vars (i : input) : list N :=
  [var_context; var_metrics; var_conversion; var_validating; var_admission; var_patch]
  ++ filter (fun k => 6 <=? k) (map fst (i_env i)).

Definition opt_eval_eqb (a b : option eval) : bool :=
  match a, b with
  | Some x, Some y => eval_eqb x y
  | None, None => true
  | _, _ => false
  end.
(* the observed view answers every queried variable as the model does (order-independent) *)
Fixpoint find_var (e : list (N * option eval)) (k : N) : option (option eval) :=
  match e with
  | [] => None
  | (k', v) :: r => if k' =? k then Some v else find_var r k
  end.
Definition view_agrees (m o : list (N * option eval)) : bool :=
  forallb (fun kv => match find_var o (fst kv) with Some v => opt_eval_eqb v (snd kv) | None => false end) m.
Fixpoint views_agree (ms os : list (list (N * option eval))) : bool :=
  match ms, os with
  | [], [] => true
  | m :: mr, o :: or => view_agrees m o && views_agree mr or
  | _, _ => false
  end.

Definition model_run_obs (c : run_case) : observation :=
  let (i, o) := c in
  let m := exec i in
  mkOb (o_started m) (ob_cwd_is_hook_dir o) (ob_env_ok o) (ob_context_matches o) (ob_files_empty o)
       (ob_paths_distinct o) (ob_tmp_during o)
       (if o_success m then 0 else 1)
       (o_remaining m)
       (if o_metric_unknown m then ob_metric_applied o else o_metric_applied m)
       (o_patch_applied m) false
       (if o_started m then repeat (env_view i (query_vars i)) (if i_concurrent i then 2 else 1) else [])
       (o_started m && foreign_written i).

(* a not-started execution is retried without end in the harness (zero back-off); leaked
   files are compared as zero / non-zero only *)
Definition agrees_run (c : run_case) : bool :=
  let (i, o) := c in
  let m := model_run_obs c in
  Bool.eqb (ob_started m) (ob_started o)
  && N.eqb (ob_status m) (ob_status o)
  && (if ob_started o then N.eqb (ob_tmp_after m) (ob_tmp_after o)
      else Bool.eqb (N.eqb (ob_tmp_after m) 0) (N.eqb (ob_tmp_after o) 0))
  && Bool.eqb (ob_metric_applied m) (ob_metric_applied o)
  && Bool.eqb (ob_patch_applied m) (ob_patch_applied o)
  && (if ob_started o then N.eqb (ob_tmp_during o) (if i_concurrent i then 10 else 5) else true)
  && views_agree (ob_envs m) (ob_envs o)
  && Bool.eqb (ob_foreign_touched m) (ob_foreign_touched o)
  && negb (ob_bad o).

(* ------------------------------------------------------------------ the ways-of-writing class *)

(* the patch documents the harness writes (internal/c12: content("patch", kind)); YAML is outside the model,
   this table is the oracle [cls] of C12_FsModel / C12_FsSpec for the cases *)
Definition patch_valid_bytes : bytes :=
  [123; 34; 111; 112; 101; 114; 97; 116; 105; 111; 110; 34; 58; 34; 67; 114; 101; 97; 116; 101; 79; 114; 85; 112; 100; 97; 116; 101; 34; 44; 34; 111; 98; 106; 101; 99; 116; 34; 58; 123; 34; 97; 112; 105; 86; 101; 114; 115; 105; 111; 110; 34; 58; 34; 118; 49; 34; 44; 34; 107; 105; 110; 100; 34; 58; 34; 67; 111; 110; 102; 105; 103; 77; 97; 112; 34; 44; 34; 109; 101; 116; 97; 100; 97; 116; 97; 34; 58; 123; 34; 110; 97; 109; 101; 34; 58; 34; 99; 49; 50; 34; 44; 34; 110; 97; 109; 101; 115; 112; 97; 99; 101; 34; 58; 34; 100; 101; 102; 97; 117; 108; 116; 34; 125; 44; 34; 100; 97; 116; 97; 34; 58; 123; 34; 107; 34; 58; 34; 118; 34; 125; 125; 125; 10].
Definition patch_truncated_bytes : bytes :=
  [123; 34; 111; 112; 101; 114; 97; 116; 105; 111; 110; 34; 58; 34; 67; 114; 101; 97; 116; 101; 79; 114; 85; 112; 100; 97; 116; 101; 34; 44; 34; 111; 98; 106; 101; 99; 116; 34; 58; 123; 34; 97; 112; 105; 86; 101; 114].
Definition patch_wrongtype_bytes : bytes :=
  [123; 34; 111; 112; 101; 114; 97; 116; 105; 111; 110; 34; 58; 34; 78; 111; 83; 117; 99; 104; 79; 112; 101; 114; 97; 116; 105; 111; 110; 34; 44; 34; 107; 105; 110; 100; 34; 58; 53; 125; 10].
Definition patch_table : list (bytes * fkind) :=
  [(patch_valid_bytes, FValid); (patch_truncated_bytes, FTruncated); (patch_wrongtype_bytes, FWrongType)].
Definition cls_patch (b : bytes) : fkind :=
  match b with
  | [] => FEmpty
  | _ => match find (fun e => bytes_eqb (fst e) b) patch_table with
         | Some e => snd e
         | None => FText b          (* never generated: a text in the patch position is outside the model *)
         end
  end.

(* as [model_run_obs], with the execution of C12_FsModel: what the operator reads back is what is at the
   paths when the hook has done [fi_ops] *)
Definition model_fs_obs (cls : bytes -> fkind) (i : finput) (o : observation) : observation :=
  let m := exec_fs cls i in
  let ri := read_back cls i in
  mkOb (o_started m) (ob_cwd_is_hook_dir o) (ob_env_ok o) (ob_context_matches o) (ob_files_empty o)
       (ob_paths_distinct o) (ob_tmp_during o)
       (if o_success m then 0 else 1)
       (o_remaining m)
       (if o_metric_unknown m then ob_metric_applied o else o_metric_applied m)
       (o_patch_applied m) false
       (if o_started m then repeat (env_view ri (query_vars ri)) (if fi_concurrent i then 2 else 1) else [])
       (o_started m && foreign_written ri).
Definition model_ways_obs (c : winput * observation) : observation :=
  model_fs_obs cls_patch (finput_of (fst c)) (snd c).

Definition agrees_ways (w : winput) (o : observation) : bool :=
  let m := model_ways_obs (w, o) in
  Bool.eqb (ob_started m) (ob_started o)
  && N.eqb (ob_status m) (ob_status o)
  && (if ob_started o then N.eqb (ob_tmp_after m) (ob_tmp_after o)
      else Bool.eqb (N.eqb (ob_tmp_after m) 0) (N.eqb (ob_tmp_after o) 0))
  && Bool.eqb (ob_metric_applied m) (ob_metric_applied o)
  && Bool.eqb (ob_patch_applied m) (ob_patch_applied o)
  && (if ob_started o then N.eqb (ob_tmp_during o) (if wi_concurrent w then 10 else 5) else true)
  && views_agree (ob_envs m) (ob_envs o)
  && Bool.eqb (ob_foreign_touched m) (ob_foreign_touched o)
  && negb (ob_bad o).

(* ------------------------------------------------------------------ the concurrent class *)

(* The model's observation of execution number e of a case, in closed form.  That it IS what the
   transition system of C12_ConcModel yields for execution e under EVERY complete schedule is
   C12_conc_obs_schedule_independent (C12_ConcProofs.lts_agrees_closed). *)
Definition model_exec (e : N) (t : ctask) : cexec :=
  mkCE true true true true [5 * e; 5 * e + 1; 5 * e + 2; 5 * e + 3; 5 * e + 4] true
       (mkSeen true (ct_segs t) true None)
       (if ct_fail t then 1 else 0) (negb (ct_fail t)).
Fixpoint mapi_from {A B} (k : N) (f : N -> A -> B) (l : list A) : list B :=
  match l with [] => [] | x :: r => f k x :: mapi_from (k + 1) f r end.
Definition model_conc_obs (ci : cinput) : cobs :=
  mkCO (mapi_from 0 model_exec (ci_tasks ci)) 0 (held_expected ci) false.

Definition seen_agrees (m o : cseen) : bool :=
  Bool.eqb (sn_json m) (sn_json o)
  && same_contexts (sn_segs m) (sn_segs o)
  && Bool.eqb (sn_canonical m) (sn_canonical o).
(* where the harness hands over the bytes the hook process read (small files, a few per case), they
   are the model's rendering of the task's document *)
Definition raw_agrees (t : ctask) (o : cexec) : bool :=
  match sn_raw (ce_seen o) with
  | Some r => bytes_eqb r (render_doc (task_doc t))
  | None => true
  end.
Definition exec_agrees (m o : cexec) : bool :=
  Bool.eqb (ce_identified m) (ce_identified o) && Bool.eqb (ce_hook_ok m) (ce_hook_ok o)
  && Bool.eqb (ce_cwd_ok m) (ce_cwd_ok o) && Bool.eqb (ce_env_ok m) (ce_env_ok o)
  && list_eqb N.eqb (ce_paths m) (ce_paths o) && Bool.eqb (ce_files_empty m) (ce_files_empty o)
  && seen_agrees (ce_seen m) (ce_seen o)
  && (ce_status m =? ce_status o) && Bool.eqb (ce_patch_back m) (ce_patch_back o).
Definition agrees_conc (ci : cinput) (o : cobs) : bool :=
  let m := model_conc_obs ci in
  forallb2 exec_agrees (co_execs m) (co_execs o)
  && forallb2 raw_agrees (ci_tasks ci) (co_execs o)
  && (co_tmp_after m =? co_tmp_after o)
  && list_eqb N.eqb (co_held m) (co_held o)
  && negb (co_bad o).

(* ------------------------------------------------------------------ the placement class *)

Definition model_pobs (i : pinput) (o : pobs1) : pobs1 :=
  let l := model_place i (po_rel o) in
  mkPO (po_rel o) (l_started l) (l_argv0 l) (l_program l) (l_cwd l) (model_settings i (po_rel o)) (negb (l_started l)) 0.
(* a hook that was not started reports nothing: only started / failed / temp files are compared then *)
Definition agrees_place1 (i : pinput) (o : pobs1) : bool :=
  let m := model_pobs i o in
  Bool.eqb (po_started m) (po_started o)
  && Bool.eqb (po_failed m) (po_failed o)
  && (po_tmp_after m =? po_tmp_after o)
  && (if po_started o
      then list_eqb N.eqb (po_argv0 m) (po_argv0 o) && (po_program m =? po_program o)
           && (po_cwd m =? po_cwd o) && optN_eqb (po_settings m) (po_settings o)
      else true).
Definition agrees_place (i : pinput) (os : list pobs1) (bad : bool) : bool :=
  forallb (agrees_place1 i) os && negb bad.

(* ------------------------------------------------------------------ the first-document-and-tail class *)
Definition model_bound_obs (b : binput) (o : observation) : observation := model_run_obs (input_of b, o).
Definition agrees_bound (b : binput) (o : observation) : bool := agrees_run (input_of b, o).

Inductive mobs := MRun (o : observation) | MConc (o : cobs) | MPlace (os : list pobs1).
Definition model_obs (c : case) : mobs :=
  match c with
  | CRun c => MRun (model_run_obs c)
  | CConc ci _ => MConc (model_conc_obs ci)
  | CWays w o => MRun (model_ways_obs (w, o))
  | CPlace i os _ => MPlace (map (model_pobs i) os)
  | CBound b o => MRun (model_bound_obs b o)
  end.
Definition agrees (c : case) : bool :=
  match c with CRun c => agrees_run c | CConc ci o => agrees_conc ci o | CWays w o => agrees_ways w o
  | CPlace i os bad => agrees_place i os bad | CBound b o => agrees_bound b o end.
Definition holds (c : case) : bool :=
  match c with CRun c => P (fst c) (snd c) | CConc ci o => P_conc ci o | CWays w o => P_ways cls_patch w o
  | CPlace i os _ => P_place i os | CBound b o => P (input_of b) o && P_bound b o end.

Definition mismatches (cs : list case) : list N := indices_where (fun c => negb (agrees c)) cs.
Definition spec_violations (cs : list case) : list N := indices_where (fun c => negb (holds c)) cs.
