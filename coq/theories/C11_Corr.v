(* C11_Corr.v — correspondence vocabulary for C11.  A case is a configuration (hooks with
   schedule bindings sharing one real scheduleManager), a sequence of operations and what
   the implementation showed after each of them.  Evaluated by vm_compute in the generated
   cases files.

   Crontabs are the real strings (bytes).  A generated case binds each string of its table
   once ([let s0 := [42; 32; ...] in ...]) and refers to it by that name in the bindings,
   the operations and the observations; strings the implementation came up with that the
   input did not contain (a key of Entries, what a cron job sent) are appended to the table
   and to the alphabet by the harness, so that they are compared like all others.
   [i_invalid] lists the table's strings the real cron.Parse rejected.
   Coinciding firings (OStart): the harness starts the REAL job closures of the chosen cron
   entries in goroutines of their own while nobody receives, waits until each has returned
   or is parked, and reports len(ScheduleCh) and the number of parked goroutines after
   every operation; ODrain (and OTick / OTickAll before they fire) receives until every
   started job has returned and the channel is empty and reports the strings received.
   OSmStart: the harness calls the manager's Start() (at most once per case; only in cases whose
   crontabs are due months from now, so that the running scheduler never fires by the clock
   while the case runs).  From then on - as before - the cron entries are those of the runner
   THE MANAGER HOLDS at that moment (looked up again at every use), listed by entry id (the
   running runner keeps them sorted by next activation time); ticks run the jobs of those
   entries.  The predicate is P_start / P_op_start (C11_StartSpec): P resp. P_op, and one tick
   delivers every crontab with a registered id once and nothing else. *)
From Verif Require Import Common C11_Model C11_Spec C11_Hm C11_HmSpec C11_StartSpec C11_QModel C11_QSpec.

(* two case classes.
   CCtl: real ScheduleBindingsControllers sharing one real scheduleManager; a firing is handed
     to every controller by the harness (CanHandleEvent, then HandleEvent).
   COp: the REAL operator assembled around a fake cluster (VerifAssemble): hook files answering
     --config loaded by the real hook.Manager.Init, the real bootstrapMainQueue; OEnable h = the
     queued EnableScheduleBindings task of hook h is handled by the operator's real task handler,
     ODisable h = hook h's HookController.DisableScheduleBindings; every string the harness
     receives from the schedule channel (or is told to hand over: OFire) goes to the schedule
     event handler the operator registered with its ManagerEventsHandler (operator.go:163-191),
     which calls the real hook.Manager.HandleScheduleEvent; the tasks it returns are observed
     ([h_tasks]).  The controllers' own answers ([o_fire]) are asked as well, through
     HookController.CanHandleScheduleEvent / HandleScheduleEvent. *)
(* COp carries, besides the observations of the operations, the ids the REAL config loader gave
   the bindings, per hook and binding ([loaded]): the harness numbers the id STRINGS found in
   the loaded configurations - a string gets the number the model gives the first (hook,
   binding) that carries it (C11_Hm.hm_load) - and uses the same numbering for every id it sees
   in the manager's Entries; the strings themselves go to the schedule manager untouched (the
   hooks' own controllers pass them).  The input's hooks are the configurations as written:
   the model loads them itself ([load_input], [run_op]); the predicate is evaluated on the
   loaded case. *)
(* CQ (queues class): everything of COp, and the operator's REAL TaskQueueSet - "main" made by
     bootstrapMainQueue, one queue per queue name of the loaded schedule bindings, none of them
     started - and its REAL ManagerEventsHandler.Start() loop: every string handled is received by
     that loop, which calls the schedule event handler and moves the tasks into the queues; the
     CONTENTS of every queue are observed after every operation ([q_queues], by queue number). *)
Inductive case :=
| CCtl (c : input * list obs)
| COp (c : input * (list (list N) * list hobs))
| CQ (c : input * (list (list N) * list qobs)).

(* short constructors for the generated files *)
Definition Bd := mkB.
Definition Inf := mkInfo.

Fixpoint insert_sorted (x : N) (l : list N) : list N :=
  match l with
  | [] => [x]
  | y :: r => if N.leb x y then x :: l else y :: insert_sorted x r
  end.
Definition sort_ns (l : list N) : list N := fold_right insert_sorted [] l.

(* Entries: the id set is compared as a set (the harness prints it sorted) *)
Definition entry_eqb (a b : ct * option (N * list N)) : bool :=
  ct_eqb (fst a) (fst b)
  && option_eqb (fun x y => N.eqb (fst x) (fst y) && ns_eqb (sort_ns (snd x)) (sort_ns (snd y)))
                (snd a) (snd b).
Definition cron_eqb (a b : N * ct) : bool := N.eqb (fst a) (fst b) && ct_eqb (snd a) (snd b).
(* firing: the controller iterates a Go map, its answer is judged as a multiset *)
Definition fire_eqb (a b : bool * list info) : bool :=
  Bool.eqb (fst a) (fst b) && is_perm (snd a) (snd b).
(* what the consumer received: in which order parked senders are woken is the runtime's
   choice, the strings are judged as a multiset *)
Fixpoint ct_remove_first (x : ct) (l : list ct) : option (list ct) :=
  match l with
  | [] => None
  | y :: r => if ct_eqb x y then Some r
              else match ct_remove_first x r with Some r' => Some (y :: r') | None => None end
  end.
Fixpoint ct_perm (a b : list ct) : bool :=
  match a with
  | [] => match b with [] => true | _ :: _ => false end
  | x :: a' => match ct_remove_first x b with Some b' => ct_perm a' b' | None => false end
  end.
Definition obs_eqb (a b : obs) : bool :=
  list_eqb entry_eqb (o_entries a) (o_entries b)
  && list_eqb cron_eqb (o_cron a) (o_cron b)
  && list_eqb fire_eqb (o_fire a) (o_fire b)
  && ct_perm (o_recv a) (o_recv b)
  && N.eqb (o_chlen a) (o_chlen b) && N.eqb (o_parked a) (o_parked b).

(* tasks: a multiset (map order within a hook, arrival order of coinciding firings); when at
   most one string was handled the hooks come in the order of their paths *)
Definition Tk := mkSTask.
Definition hobs_eqb (a b : hobs) : bool :=
  obs_eqb (h_obs a) (h_obs b)
  && is_tperm (h_tasks a) (h_tasks b)
  && (negb (Nat.leb (length (o_recv (h_obs a))) 1)
      || list_eqb N.eqb (map st_hook (h_tasks a)) (map st_hook (h_tasks b))).

(* queue contents.  Within one firing the tasks of one hook come in the order of a Go map
   iteration: the implementation's queue is judged segment by segment - what an operation
   appended (the contents before must still be there, unchanged, in front) is cut into the
   segments the model says the handled strings made ([segs], per string; of each the tasks for
   this queue), each segment a permutation of the model's with the hooks in the model's order -
   and as a whole against the model's queue (same multiset). *)
Fixpoint segs_match (d : list stask) (es : list (list stask)) : bool :=
  match es with
  | [] => is_nil d
  | e :: r =>
      let x := firstn (length e) d in
      is_tperm x e && list_eqb N.eqb (map st_hook x) (map st_hook e) && segs_match (skipn (length e) d) r
  end.
Definition queue_agrees (segs : list (list stask)) (mq : queues) (p n : N * list stask) : bool :=
  N.eqb (fst p) (fst n)
  && match q_lookup (fst n) mq with Some ts => is_tperm (snd n) ts | None => false end
  && list_eqb stask_eqb (firstn (length (snd p)) (snd n)) (snd p)
  && segs_match (skipn (length (snd p)) (snd n)) (map (in_queue (fst n)) segs).
Fixpoint queues_agree (ms : list qobs) (sg : list (list (list stask))) (pq : queues) (os : list qobs) : bool :=
  match ms, sg, os with
  | [], [], [] => true
  | m :: ms', s :: sg', o :: os' =>
      Nat.eqb (length (q_queues m)) (length (q_queues o))
      && forallb2 (queue_agrees s (q_queues m)) pq (q_queues o)
      && queues_agree ms' sg' (q_queues o) os'
  | _, _, _ => false
  end.
(* the queues that exist, all empty, by queue number *)
Definition initial_queues (i : input) : queues :=
  map (fun q => (q, [])) (sort_ns (map fst (q_create (i_hooks i)))).

Definition model_obs (c : case) : list obs + ((list (list N) * list hobs) + (list (list N) * list qobs)) :=
  match c with
  | CCtl c => inl (run_model (fst c))
  | COp c => inr (inl (loaded_ids (fst c), run_op (fst c)))
  | CQ c => inr (inr (loaded_ids (fst c), run_qop (fst c)))
  end.
Definition agrees (c : case) : bool :=
  match c with
  | CCtl c => list_eqb obs_eqb (run_model (fst c)) (snd c)
  | COp c => list_eqb (list_eqb N.eqb) (loaded_ids (fst c)) (fst (snd c))
             && list_eqb hobs_eqb (run_op (fst c)) (snd (snd c))
  | CQ c => list_eqb (list_eqb N.eqb) (loaded_ids (fst c)) (fst (snd c))
            && list_eqb hobs_eqb (run_op (fst c)) (map q_hobs (snd (snd c)))
            && queues_agree (run_qop (fst c)) (run_q_segs (load_input (fst c)))
                            (initial_queues (load_input (fst c))) (snd (snd c))
  end.

Definition mismatches (cs : list case) : list N := indices_where (fun c => negb (agrees c)) cs.
Definition spec_violations (cs : list case) : list N :=
  indices_where (fun c => negb (match c with
                                | CCtl c => P_start (fst c) (snd c)
                                | COp c => P_op_start (load_input (fst c)) (snd (snd c))
                                | CQ c => P_q (load_input (fst c)) (snd (snd c))
                                end)) cs.
