(* C02_Hook.v — one HOOK with bindings of several TYPES, executed several times in one process.
   (added after seeded change C02-8)

   The hook configuration demands unique binding names within ONE binding type only: a kubernetes
   binding "pods" beside a schedule binding "pods", a schedule binding named like a validating
   binding, ... are legal.  Each binding has its own includeSnapshotsFrom list and group.

   pkg/hook/config/config_v1.go ConvertAndCheck (end): groupSnapshots[g] = the names of the
   kubernetes bindings with group g (g <> ""), in configuration order; for EVERY binding (of
   every type) whose group is a key of that map, IncludeSnapshotsFrom := MergeArrays(own list,
   groupSnapshots[group]).  MergeArrays (util.go): the own list as it is, then the entries of the
   second list that are not in it, each once.

   pkg/hook/controller/hook_controller.go getIncludeSnapshotsFrom(bindingType, bindingName):
   `switch bindingType` selects the list of bindings of THAT type, the first binding of that
   list with the name gives the list ([] when there is none).  The controller's binding lists are
   written by Init*Bindings and never afterwards: between two executions the controller keeps
   nothing else (the read cache of UpdateSnapshots is a local variable of one call; it is the
   subject of section (2) of C02_Model and of C02_one_read_per_binding).

   UpdateSnapshots, one context (type, name, Synchronization?): `snapshots` gets one key per entry
   of that list, the value is KubernetesController.SnapshotsFor(key): the snapshot of the first
   KUBERNETES binding with that name (nil - shown as an empty list - when there is none);
   `objects` is refreshed from SnapshotsFor(name) when the context is a kubernetes
   Synchronization.  In this class the cluster is quiet and every kubernetes binding watches
   objects of its own, so a value is identified by the binding whose objects it shows (0: none).

   No proofs here. *)
From Verif Require Import Common C02_Model.
Open Scope N_scope.

Inductive btype := TKube | TSched | TValid | TMut.

Definition btype_eqb (a b : btype) : bool :=
  match a, b with
  | TKube, TKube | TSched, TSched | TValid, TValid | TMut, TMut => true
  | _, _ => false
  end.

(* group 0: no group *)
Record hb := mkHB { hb_type : btype; hb_name : N; hb_incl : list N; hb_group : N }.

(* an event for a binding - binding type, binding name, Synchronization? - : a Synchronization / an
   Event of the kubernetes binding's monitor, the crontab of the schedule binding, an admission
   review arriving at the webhook of the validating / mutating binding; and likewise the binding
   context a binding controller hands to UpdateSnapshots for it *)
Definition hctx := (btype * N * bool)%type.

(* the hook's bindings and the executions of one process: each a list of (combined) contexts *)
Record hk_in := mkHkIn { hk_bindings : list hb; hk_rounds : list (list hctx) }.

Definition hb_is (t : btype) (n : N) (b : hb) : bool := btype_eqb (hb_type b) t && N.eqb (hb_name b) n.

(* ---- config_v1.go ---- *)
Definition group_members (bs : list hb) (g : N) : list N :=
  map hb_name (filter (fun b => btype_eqb (hb_type b) TKube && N.eqb (hb_group b) g) bs).

Fixpoint merge_new (seen a2 : list N) : list N :=
  match a2 with
  | [] => []
  | x :: r => if mem_N x seen then merge_new seen r else x :: merge_new (x :: seen) r
  end.
Definition merge_arrays (a1 a2 : list N) : list N := a1 ++ merge_new a1 a2.

Definition effective (bs : list hb) (b : hb) : list N :=
  merge_arrays (hb_incl b) (if N.eqb (hb_group b) 0 then [] else group_members bs (hb_group b)).

(* the binding lists the controller is initialised with *)
Definition load_config (bs : list hb) : list hb :=
  map (fun b => mkHB (hb_type b) (hb_name b) (effective bs b) (hb_group b)) bs.

(* ---- hook_controller.go ---- *)
Definition get_includes (cfg : list hb) (t : btype) (n : N) : list N :=
  match find (hb_is t n) cfg with Some b => hb_incl b | None => [] end.

(* SnapshotsFor: whose objects the answer shows *)
Definition shows (cfg : list hb) (n : N) : N := if existsb (hb_is TKube n) cfg then n else 0.

Definition snaps_of (cfg : list hb) (inc : list N) : list (N * N) :=
  fold_left (fun m k => set_kv k (shows cfg k) m) inc [].

(* ---- the binding controllers: event -> binding context ----
   kubernetes_bindings_controller.go HandleEvent: by monitor id, one monitor per kubernetes binding;
   schedule_bindings_controller.go: ScheduleLinks by schedule entry id, one per schedule binding;
   admission_bindings_controller.go: AdmissionLinks is keyed by the WEBHOOK ID alone, which
   hook_manager.go sets to the binding name (UpdateIds("", BindingName)) for validating and
   mutating bindings alike; EnableValidatingBindings files its links first, EnableMutatingBindings
   then overwrites: the review of a validating webhook whose binding shares its name with a
   mutating binding is delivered as a context of the MUTATING binding. *)
Definition delivered (cfg : list hb) (c : hctx) : hctx :=
  let '(t, n, sync) := c in
  match t with
  | TValid => if existsb (hb_is TMut n) cfg then (TMut, n, sync) else c
  | _ => c
  end.

Definition upd_out (cfg : list hb) (c : hctx) : list (N * N) * N :=
  let '(t, n, sync) := c in
  (snaps_of cfg (get_includes cfg t n), if btype_eqb t TKube && sync then shows cfg n else 0).

Definition hk_ctx_out (cfg : list hb) (c : hctx) : list (N * N) * N := upd_out cfg (delivered cfg c).

(* one execution = one call of UpdateSnapshots *)
Definition hk_exec (cfg : list hb) (r : list hctx) : list (list (N * N) * N) := map (hk_ctx_out cfg) r.

(* the process: the executions one after the other on one controller *)
Fixpoint hk_process (cfg : list hb) (rounds : list (list hctx)) : list (list (list (N * N) * N)) :=
  match rounds with
  | [] => []
  | r :: rs => hk_exec cfg r :: hk_process cfg rs
  end.

Definition hk_run (i : hk_in) : list (list (list (N * N) * N)) :=
  hk_process (load_config (hk_bindings i)) (hk_rounds i).

(* the binding type of every context as delivered *)
Definition hk_types (i : hk_in) : list (list btype) :=
  map (map (fun c => fst (fst (delivered (load_config (hk_bindings i)) c)))) (hk_rounds i).
