(* C06_Corr.v — two kinds of cases: operator-level scenarios (model Op_Model, spec C06_Spec.P)
   and runs of ONE hook's EnableKubernetesBindings task in an environment whose monitor
   creations fail (model C06_Enable, spec C06_EnableSpec.P_enable). *)
From Verif Require Import Common Op_Model Op_Corr C06_Spec C06_Enable C06_EnableSpec.
Open Scope N_scope.

Inductive case :=
| COp (c : Op_Corr.case)
| CEnable (h : hook) (F : fpattern)
          (atts : list attempt)                       (* what the real task handler did, run by run *)
          (probe : option (list (list N * list N)))   (* per binding: monitors whose Events came before / after its unlock *)
          (bad : bool).                               (* the harness could not complete the case *)

Inductive mobs := MOp (o : list sobs) | MEnable (atts : list attempt) (probe : list (list N * list N)).

Definition model_obs (c : case) : mobs :=
  match c with
  | COp c => MOp (Op_Corr.model_obs c)
  | CEnable h F _ _ _ => MEnable (fst (enable_task h F)) (enable_probe h F)
  end.

Definition call_eqb (a b : call) : bool :=
  match a, b with
  | AddOk x, AddOk y | AddFail x, AddFail y => N.eqb x y
  | _, _ => false
  end.

Definition attempt_eqb (a b : attempt) : bool :=
  list_eqb call_eqb (at_calls a) (at_calls b) && Bool.eqb (at_ok a) (at_ok b)
  && list_eqb task_eqb (at_head a) (at_head b)
  && list_eqb Bool.eqb (at_has a) (at_has b) && list_eqb Bool.eqb (at_link a) (at_link b).

Definition probe_eqb : list (list N * list N) -> list (list N * list N) -> bool :=
  list_eqb (pair_eqb (list_eqb N.eqb) (list_eqb N.eqb)).

Definition agrees (c : case) : bool :=
  match c with
  | COp c => Op_Corr.agrees c
  | CEnable h F atts probe bad =>
      negb bad && list_eqb attempt_eqb (fst (enable_task h F)) atts
      && match probe with Some pr => probe_eqb (enable_probe h F) pr | None => true end
  end.

Definition spec_ok (c : case) : bool :=
  match c with
  | COp c => C06_Spec.P c
  | CEnable h F atts probe bad => P_enable h atts probe
  end.

Definition mismatches (cs : list case) : list N := indices_where (fun c => negb (agrees c)) cs.
Definition spec_violations (cs : list case) : list N := indices_where (fun c => negb (spec_ok c)) cs.
