(* C17_Properties.v — the property theorems of C17 and nothing else (over Op_Model). *)
From Verif Require Import Common Op_Model Op_Corr Op_Proofs C17_Spec C17_Proofs C17_Locks C17_LocksProofs.

(* the property's decidable predicate (C17_Spec.P: after the Stop step no execution is new, a
   worker is stopped exactly when its queue is not in a handler; before it no worker is
   stopped) holds of the model's observations for EVERY configuration and action sequence *)
Theorem C17_P_holds : forall cfg acts, P (cfg, acts, Op_Corr.model_obs (cfg, acts, [])) = true.
Proof. exact P_holds. Qed.
Print Assumptions C17_P_holds.

(* once requested, shutdown stays in force whatever happens next *)
Theorem C17_stop_is_permanent : forall cfg acts s, stopped s = true -> stopped (exec cfg acts s) = true.
Proof. exact stop_is_permanent. Qed.
Print Assumptions C17_stop_is_permanent.

Theorem C17_stopped_iff_stop_requested : forall cfg s a, stopped (step cfg s a) = stopped s || is_stop a.
Proof. exact step_stopped. Qed.
Print Assumptions C17_stopped_iff_stop_requested.

(* After shutdown has been requested (including the Stop step itself) no queue starts
   another task: whatever the action — tick, cluster event, end of an execution, end of a
   back-off delay — a queue that is in a handler afterwards was in that very handler before. *)
Theorem C17_no_new_execution_after_stop : forall cfg s a q,
  Inv s -> In q (queues s) -> stopped s = true \/ a = Stop ->
  let q' := step_q cfg a (sched_on s) (unlocked s) (stopped s) (has_queue (queues s)) q in
  in_handler q' = true ->
  q_running q' = q_running q /\ hd_error (q_items q') = hd_error (q_items q) /\ in_handler q = true.
Proof. exact no_new_execution_after_stop. Qed.
Print Assumptions C17_no_new_execution_after_stop.

(* every queue worker terminates as soon as its current handler returns (and its result is
   not applied) *)
Theorem C17_handler_return_stops_worker : forall cfg s q ok,
  Inv s -> In q (queues s) -> stopped s = true ->
  let q' := step_q cfg (Finish (q_name q) ok) (sched_on s) (unlocked s) (stopped s) (has_queue (queues s)) q in
  in_handler q' = false /\ q_items q' = q_items q.
Proof. exact handler_return_stops_worker. Qed.
Print Assumptions C17_handler_return_stops_worker.

(* a queue waiting in a back-off delay when shutdown is requested: the end of the delay
   starts nothing, the queue keeps its tasks *)
Theorem C17_stop_during_delay : forall cfg s q,
  Inv s -> In q (queues s) -> stopped s = true -> q_delay q = true ->
  let q' := step_q cfg (Elapse (q_name q)) (sched_on s) (unlocked s) (stopped s) (has_queue (queues s)) q in
  is_running q' = false /\ q_items q' = q_items q.
Proof. exact stop_during_delay. Qed.
Print Assumptions C17_stop_during_delay.

(* the states these theorems speak about are all the reachable ones, and queues evolve by step_q *)
Theorem C17_reachable_invariant : forall cfg acts, Inv (exec cfg acts init).
Proof. exact reachable_inv. Qed.
Print Assumptions C17_reachable_invariant.

Theorem C17_queue_local : forall cfg s a,
  NoDup (names (queues s)) -> queues s <> [] ->
  queues (step cfg s a) =
  map (step_q cfg a (sched_on s) (unlocked s) (stopped s) (has_queue (queues s))) (queues s).
Proof. exact step_queue_local. Qed.
Print Assumptions C17_queue_local.

(* time passing is a stutter step: a tick of a crontab that no enabled binding uses (the way the
   harness renders "the operator is left alone for a while") changes nothing in any reachable
   state - an idle period of any length leaves the state as it is, so whatever holds before it
   (a stopped worker stays stopped, an empty queue starts nothing) holds after it *)
Theorem C17_time_is_stutter : forall cfg acts c,
  let s := exec cfg acts init in
  sched_tasks cfg (sched_on s) c = [] -> step cfg s (Tick c) = s.
Proof. intros cfg acts c s E. exact (time_is_stutter cfg s c (reachable_inv cfg acts) E). Qed.
Print Assumptions C17_time_is_stutter.

Theorem C17_idle_period_is_stutter : forall cfg acts c n,
  let s := exec cfg acts init in
  sched_tasks cfg (sched_on s) c = [] -> exec cfg (repeat (Tick c) n) s = s.
Proof. exact idle_period_is_stutter. Qed.
Print Assumptions C17_idle_period_is_stutter.

Example C17_idle_hyp_met :
  let cfg := [mkHook 1 false None [] [mkSb 1 1 0 false 1]] in
  let s := exec cfg [Boot; Tick 1]%N init in
  sched_tasks cfg (sched_on s) 999 = [] /\ queues s <> [].
Proof. vm_compute. split; [reflexivity | discriminate]. Qed.

(* ---- the locks on the way of Shutdown() (C17_Locks: the program is translated from the current
   source on every run and checked by lock_ok): for every program that passes the check, every pool
   of threads running its functions and every schedule, a thread that stands at an operation that
   may never return (an API call, a channel, a hook process) holds no lock - so Shutdown(), which has
   to get through mgr.m and tqs.m before it reaches the queues, never waits for such a thread *)
Theorem C17_blocked_threads_hold_no_lock : forall (p : program) (fs : list func) (sched : list nat),
  lock_ok p = true -> (forall f, In f fs -> In f (map snd p)) ->
  forall t, In t (sys_run (map start fs) sched) -> at_block t = true -> th_held t = [].
Proof. exact blocked_threads_hold_no_lock. Qed.
Print Assumptions C17_blocked_threads_hold_no_lock.

Theorem C17_lock_holders_can_move : forall (p : program) (fs : list func) (sched : list nat) (l : N),
  lock_ok p = true -> (forall f, In f fs -> In f (map snd p)) ->
  forall t, In t (sys_run (map start fs) sched) -> holds_any l t = true -> at_block t = false.
Proof. exact lock_holders_can_move. Qed.
Print Assumptions C17_lock_holders_can_move.

(* non-vacuity: AddMonitor as the code has it (list the objects, THEN lock, insert, unlock) beside
   PauseHandleEvents passes; AddMonitor holding the lock across the listing does not; and in a run of
   the former in which AddMonitor stands at its API call, Shutdown's read lock is free *)
Example C17_locks_hyp_met :
  let add := [LStep; LBlock 0; LLock 1; LStep; LUnlock 1] in
  let pause := [LRLock 1; LStep; LRUnlock 1] in
  lock_ok [(1, add); (2, pause)] = true /\
  lock_ok [(1, [LLock 1; LStep; LBlock 0; LStep; LUnlock 1]); (2, pause)] = false /\
  let ts := sys_run (map start [add; pause]) [0%nat; 1%nat] in
  map at_block ts = [true; false] /\ map (holds_any 1) ts = [false; true].
Proof. vm_compute. repeat split; reflexivity. Qed.

(* non-vacuity: shutdown with one execution open and a task waiting; afterwards a tick
   arrives and the execution ends: nothing else starts *)
Example C17_hyp_met :
  let cfg := [mkHook 1 false None [] [mkSb 1 1 0 false 1]] in
  let s := exec cfg [Boot; Tick 1; Tick 1; Stop; Tick 1; Finish 1 true]%N init in
  stopped s = true /\
  map (fun q => (q_name q, N.of_nat (length (q_items q)), is_running q)) (queues s) = [(0, 0, false); (1, 3, false)]%N.
Proof. vm_compute. split; reflexivity. Qed.

(* ... and shutdown while a queue waits in its back-off delay: the delay ends, nothing starts *)
Example C17_delay_met :
  let cfg := [mkHook 1 false None [] [mkSb 1 1 0 false 1]] in
  let s1 := exec cfg [Boot; Tick 1; Tick 1; FinishWait 1; Stop]%N init in
  let s2 := exec cfg [Elapse 1; Tick 1]%N s1 in
  (exists q, In q (queues s1) /\ q_delay q = true) /\ stopped s1 = true /\
  map (fun q => (q_name q, N.of_nat (length (q_items q)), is_running q)) (queues s2) = [(0, 0, false); (1, 3, false)]%N.
Proof. vm_compute. split; [eexists; split; [right; left; reflexivity | reflexivity] | split; reflexivity]. Qed.
