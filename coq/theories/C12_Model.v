(* C12_Model.v — model of one hook execution: Hook.Run (pkg/hook/hook.go) and
   handleRunHook (pkg/shell-operator/operator.go).  Statement order is the code's:
   register the deferred removal of whatever temp file gets created (repair of F21), prepare
   the five temp files in order (each can fail: a file name longer than NAME_MAX), run the hook,
   read metrics (MetricOperationsFromFile), admission response, conversion response, patch file;
   then parse+apply the patch, then SendBatch (ValidateOperations, then the registry).  No proofs here.

   The CONTENT of the metrics, admission-response and conversion-response files is part of the
   input ([FText s], any byte string); what the code makes of it is modelled down to
   encoding/json's rules for decoding an object into a struct:
     * the text is read with JsonText (RFC 8259 reader): metrics = json.Decoder until io.EOF
       (parse_stream), admission and conversion = Decode + Token()==io.EOF (parse_single: one
       document, only whitespace after it; conversion since fix 1bbc0df);
     * object -> struct: a key selects the field with exactly that name, else the field whose
       name is equal under Go's foldName (ASCII letters, plus U+017F -> S and U+212A -> K);
       unknown keys are skipped; duplicate keys are processed in text order (last wins, a map
       field is merged); `null` leaves a string/bool field as it is and sets a pointer, slice or map
       field to nil; a value of another JSON type than the field's is an error (the whole
       file is rejected); `null` as the document itself is a no-op (all fields zero);
     * then, for metrics, the shortcut transform of MetricOperationsFromReader and the rules of
       ValidateMetricOperation.
   NOT modelled (the harness generators stay away from it): YAML (the patch file is one of the
   four enum kinds only; [FText] in the patch position is outside the model), the base64 /
   byte-array forms of the admission `patch` field (type []byte: a JSON string or array is
   accepted here without looking inside), float64 overflow (1e999), invalid UTF-8, nesting
   deeper than 10000, and what prometheus does with a metric beyond "a family of that name
   appears" (see [metric_effect]).

   THE HOOK'S ENVIRONMENT is modelled from the operator's own environment [i_env] on: Hook.Run
   builds envs = os.Environ() ++ the six per-execution variables (hook.go), NewExecutor sets
   cmd.Env = append(cmd.Env, envs...) on a fresh exec.Command (executor.go; an empty result leaves
   cmd.Env nil = "inherit"), os/exec removes duplicates in favour of the LAST value (dedupEnv).
   What the hook finds under a variable is [getenv (child_env ...)]; the hook writes each output
   to the path it finds under the variable, the operator reads back ITS OWN files ([readback]):
   an output written through a variable that does not point to this execution's file is lost.
   [exec] = [run] on what is read back.  The `--config` call (hook_manager.go, no per-execution
   variables) is [config_env].  Not modelled: entries without '=', NUL bytes, case-insensitive
   platforms. *)
From Verif Require Import Common Json JsonText.
Open Scope N_scope.

Inductive fkind := FEmpty | FValid | FTruncated | FWrongType | FText (s : list N).

Record input := mkIn {
  i_exit : Z;
  i_metrics : fkind; i_patch : fkind; i_admission : fkind; i_conversion : fkind;
  i_concurrent : bool;
  i_namelen : N;           (* length of the sanitized hook name; 0 = the default short name *)
  i_env : list (N * N)     (* the operator's OWN environment (os.Environ(), in order): variable, value;
                              variables 0..5 are the six contract variables, others are unrelated *)
}.

Definition name_max : N := 255.
(* lengths of the five temp-file names, in creation order, for a sanitized hook name of length L:
   hook-L-binding-context-<uuid>.json, hook-L-metrics-<uuid>.json,
   hook-L-admission-response-<uuid>.json, hook-L-conversion-response-<uuid>.json,
   L-object-patch-<uuid> *)
Definition name_lengths (L : N) : list N := [L + 63; L + 55; L + 66; L + 67; L + 50].

(* files created before the first failure, and whether all were created *)
Fixpoint prepare (ls : list N) (created : N) : N * bool :=
  match ls with
  | [] => (created, true)
  | l :: r => if N.leb l name_max then prepare r (created + 1) else (created, false)
  end.


(* ------------------------------------------------------------------ the hook's environment *)

(* a value of a variable: the path of this execution's temp file number f (creation order:
   0 binding context, 1 metrics, 2 admission response, 3 conversion response, 4 object patch),
   a value from the operator's own environment (dense number), or - in observations only -
   anything else *)
Inductive eval := Own (f : N) | Foreign (v : N) | Unknown.
Definition env := list (N * eval).

Definition eval_eqb (a b : eval) : bool :=
  match a, b with
  | Own f, Own g => f =? g
  | Foreign v, Foreign w => v =? w
  | Unknown, Unknown => true
  | _, _ => false
  end.

Definition var_context : N := 0.      (* BINDING_CONTEXT_PATH *)
Definition var_metrics : N := 1.      (* METRICS_PATH *)
Definition var_conversion : N := 2.   (* CONVERSION_RESPONSE_PATH *)
Definition var_validating : N := 3.   (* VALIDATING_RESPONSE_PATH *)
Definition var_admission : N := 4.    (* ADMISSION_RESPONSE_PATH *)
Definition var_patch : N := 5.        (* KUBERNETES_PATCH_PATH *)
Definition file_context : N := 0.
Definition file_metrics : N := 1.
Definition file_admission : N := 2.
Definition file_conversion : N := 3.
Definition file_patch : N := 4.

(* hook.go:144-149, in this order *)
Definition per_exec_vars : env :=
  [(var_context, Own file_context); (var_metrics, Own file_metrics); (var_conversion, Own file_conversion);
   (var_validating, Own file_admission); (var_admission, Own file_admission); (var_patch, Own file_patch)].

(* os.Environ() of the operator process *)
Definition os_environ (e : list (N * N)) : env := map (fun kv => (fst kv, Foreign (snd kv))) e.

(* Hook.Run: envs = append(envs, os.Environ()...); then the six appends *)
Definition hook_envs (inherited : env) : env := inherited ++ per_exec_vars.

(* NewExecutor: cmd.Env = append(cmd.Env, envs...) with cmd.Env == nil; Cmd.environ(): a nil
   cmd.Env means the environment of the current process *)
Definition executor_env (process envs : env) : env :=
  match [] ++ envs with
  | [] => process
  | l => l
  end.

(* os/exec dedupEnv: of several entries with one key the LAST is kept (order of the kept ones preserved) *)
Fixpoint dedup_env (l : env) : env :=
  match l with
  | [] => []
  | (k, v) :: r => if existsb (fun e => fst e =? k) r then dedup_env r else (k, v) :: dedup_env r
  end.

(* getenv in the child: the entry with that key *)
Fixpoint getenv (e : env) (k : N) : option eval :=
  match e with
  | [] => None
  | (k', v) :: r => if k' =? k then Some v else getenv r k
  end.

(* the environment of a hook execution, given the operator's own environment *)
Definition child_env (e : list (N * N)) : env :=
  dedup_env (executor_env (os_environ e) (hook_envs (os_environ e))).

(* the environment of the `--config` call: execCommandOutput passes append(os.Environ(), envs...) with envs empty *)
Definition config_env (e : list (N * N)) : env :=
  dedup_env (executor_env (os_environ e) (os_environ e ++ [])).

(* the hook writes content c through variable k; the operator reads its own file f: it finds c
   only if the variable points to that file *)
Definition written (e : env) (k f : N) (c : fkind) : fkind :=
  match getenv e k with
  | Some (Own g) => if g =? f then c else FEmpty
  | _ => FEmpty
  end.

(* ------------------------------------------------------------------ encoding/json: object -> struct *)

(* foldName (Go >= 1.21): ASCII letters to upper case; a rune whose simple-fold orbit contains an
   ASCII letter becomes that (upper-case) letter: U+017F LATIN SMALL LETTER LONG S (C5 BF) -> S,
   U+212A KELVIN SIGN (E2 84 AA) -> K; other runes fold to non-ASCII runes, which can never be equal
   to the fold of an ASCII field name, so their bytes are left as they are. *)
Fixpoint fold_key (s : bytes) : bytes :=
  match s with
  | [] => []
  | c :: r =>
    if (97 <=? c) && (c <=? 122) then (c - 32) :: fold_key r
    else if c =? 197 then
      match r with
      | c2 :: r2 => if c2 =? 191 then 83 :: fold_key r2 else c :: fold_key r
      | [] => [c]
      end
    else if c =? 226 then
      match r with
      | c2 :: c3 :: r3 => if (c2 =? 132) && (c3 =? 170) then 75 :: fold_key r3 else c :: fold_key r
      | _ => c :: fold_key r
      end
    else c :: fold_key r
  end.

(* Go types of the struct fields that occur *)
Inductive ftype :=
| TStr        (* string *)
| TBool       (* bool *)
| TNumPtr     (* *float64 *)
| TNums       (* []float64 *)
| TStrs       (* []string *)
| TStrMap     (* map[string]string *)
| TBytes      (* []byte: base64 string or array of small numbers - content NOT modelled *)
| TRaws.      (* []runtime.RawExtension: an array of arbitrary values *)
Definition schema := list (bytes * ftype).

Inductive fval :=
| VUnset                                (* zero value: "", false, nil *)
| VStr (s : bytes) | VBool (b : bool) | VNum (lit : bytes)
| VNums (l : list bytes) | VStrs (l : list bytes) | VMap (m : list (bytes * bytes))
| VRaws (n : N) | VBytes.
Definition state := list (bytes * fval).   (* latest binding first *)

Fixpoint sget (st : state) (n : bytes) : fval :=
  match st with
  | [] => VUnset
  | (k, v) :: r => if bytes_eqb k n then v else sget r n
  end.

Fixpoint find_field (p : bytes -> bool) (sch : schema) : option (bytes * ftype) :=
  match sch with
  | [] => None
  | f :: r => if p (fst f) then Some f else find_field p r
  end.
(* byExactName, else byFoldedName (the first field with that folded name) *)
Definition field_of (sch : schema) (k : bytes) : option (bytes * ftype) :=
  match find_field (fun n => bytes_eqb n k) sch with
  | Some f => Some f
  | None => find_field (fun n => bytes_eqb (fold_key n) (fold_key k)) sch
  end.

Fixpoint map_opt {A B} (f : A -> option B) (l : list A) : option (list B) :=
  match l with
  | [] => Some []
  | x :: r => match f x, map_opt f r with
              | Some y, Some ys => Some (y :: ys)
              | _, _ => None
              end
  end.

Definition num_lit (j : json) : option bytes :=
  match j with JFlt t => Some t | JNum z => Some (print_Z z) | _ => None end.
Definition num_elem (j : json) : option bytes :=
  match j with JNull => Some [48] | _ => num_lit j end.                       (* null element: stays 0 *)
Definition str_elem (j : json) : option bytes :=
  match j with JNull => Some [] | JStr s => Some s | _ => None end.            (* null element: stays "" *)
Definition map_elem (kv : bytes * json) : option (bytes * bytes) :=
  match str_elem (snd kv) with Some s => Some (fst kv, s) | None => None end.

(* storing a JSON value into a field of type [t] holding [old]; None = UnmarshalTypeError *)
Definition store (t : ftype) (old : fval) (v : json) : option fval :=
  match v with
  | JNull => Some (match t with TStr | TBool => old | _ => VUnset end)
  | _ =>
    match t with
    | TStr => match v with JStr s => Some (VStr s) | _ => None end
    | TBool => match v with JBool b => Some (VBool b) | _ => None end
    | TNumPtr => option_map VNum (num_lit v)
    | TNums => match v with JArr l => option_map VNums (map_opt num_elem l) | _ => None end
    | TStrs => match v with JArr l => option_map VStrs (map_opt str_elem l) | _ => None end
    | TStrMap => match v with
                 | JObj kv => match map_opt map_elem kv with
                              | Some new => Some (VMap ((match old with VMap m => m | _ => [] end) ++ new))
                              | None => None
                              end
                 | _ => None
                 end
    | TRaws => match v with JArr l => Some (VRaws (N.of_nat (length l))) | _ => None end
    | TBytes => match v with JStr _ | JArr _ => Some VBytes | _ => None end
    end
  end.

Fixpoint decode_members (sch : schema) (m : list (bytes * json)) (st : state) : option state :=
  match m with
  | [] => Some st
  | (k, v) :: r =>
    match field_of sch k with
    | None => decode_members sch r st                       (* unknown key: the value is skipped *)
    | Some (n, t) =>
      match store t (sget st n) v with
      | Some x => decode_members sch r ((n, x) :: st)
      | None => None
      end
    end
  end.

Definition decode_struct (sch : schema) (j : json) : option state :=
  match j with
  | JObj m => decode_members sch m []
  | JNull => Some []          (* null into a struct: nothing happens *)
  | _ => None                 (* array, string, number, bool into a struct: UnmarshalTypeError *)
  end.

(* ------------------------------------------------------------------ the three JSON outputs *)

Definition k_name : bytes := [110; 97; 109; 101].
Definition k_add : bytes := [97; 100; 100].
Definition k_set : bytes := [115; 101; 116].
Definition k_value : bytes := [118; 97; 108; 117; 101].
Definition k_buckets : bytes := [98; 117; 99; 107; 101; 116; 115].
Definition k_labels : bytes := [108; 97; 98; 101; 108; 115].
Definition k_group : bytes := [103; 114; 111; 117; 112].
Definition k_action : bytes := [97; 99; 116; 105; 111; 110].
Definition s_observe : bytes := [111; 98; 115; 101; 114; 118; 101].
Definition s_expire : bytes := [101; 120; 112; 105; 114; 101].
(* struct MetricOperation, in declaration order *)
Definition metric_schema : schema :=
  [(k_name, TStr); (k_add, TNumPtr); (k_set, TNumPtr); (k_value, TNumPtr); (k_buckets, TNums);
   (k_labels, TStrMap); (k_group, TStr); (k_action, TStr)].

Definition k_allowed : bytes := [97; 108; 108; 111; 119; 101; 100].
Definition k_message : bytes := [109; 101; 115; 115; 97; 103; 101].
Definition k_warnings : bytes := [119; 97; 114; 110; 105; 110; 103; 115].
Definition k_patch : bytes := [112; 97; 116; 99; 104].
(* struct admission.Response *)
Definition admission_schema : schema :=
  [(k_allowed, TBool); (k_message, TStr); (k_warnings, TStrs); (k_patch, TBytes)].

Definition k_failedMessage : bytes := [102; 97; 105; 108; 101; 100; 77; 101; 115; 115; 97; 103; 101].
Definition k_convertedObjects : bytes :=
  [99; 111; 110; 118; 101; 114; 116; 101; 100; 79; 98; 106; 101; 99; 116; 115].
(* struct conversion.Response *)
Definition conversion_schema : schema := [(k_failedMessage, TStr); (k_convertedObjects, TRaws)].

Definition str_of (v : fval) : bytes := match v with VStr s => s | _ => [] end.
Definition is_set (v : fval) : bool := match v with VUnset => false | _ => true end.
Definition labels_of (v : fval) : list (bytes * bytes) := match v with VMap m => m | _ => [] end.

Record mop := mkMop {
  m_name : bytes; m_group : bytes; m_action : bytes;
  m_add : bool; m_set : bool; m_value : bool; m_buckets : bool;   (* non-nil *)
  m_labels : list (bytes * bytes)
}.

(* the decoded struct, then the "shortcut transforms" of MetricOperationsFromReader *)
Definition op_of_state (st : state) : mop :=
  let add := is_set (sget st k_add) in
  let set := is_set (sget st k_set) in
  let a0 := str_of (sget st k_action) in
  let v0 := is_set (sget st k_value) in
  let a1 := if set && negb add then k_set else a0 in
  let v1 := if set && negb add then true else v0 in
  let a2 := if add && negb set then k_add else a1 in
  let v2 := if add && negb set then true else v1 in
  mkMop (str_of (sget st k_name)) (str_of (sget st k_group)) a2 add set v2
        (is_set (sget st k_buckets)) (labels_of (sget st k_labels)).

Definition is_nil (s : bytes) : bool := match s with [] => true | _ => false end.

(* ValidateMetricOperation: true = no error *)
Definition validate_op (o : mop) : bool :=
  let a := m_action o in
  let is a' := bytes_eqb a a' in
  negb (is_nil a)
  && (if is_nil (m_group o) then is k_set || is k_add || is s_observe
      else is s_expire || is k_set || is k_add)
  && negb (is_nil (m_name o) && is_nil (m_group o))
  && negb (is_nil (m_name o) && negb (is_nil (m_group o)) && negb (is s_expire))
  && negb (is k_set && negb (m_value o))
  && negb (is k_add && negb (m_value o))
  && negb (is s_observe && negb (m_value o))
  && negb (is s_observe && negb (m_buckets o))
  && negb (m_set o && m_add o).

(* MetricOperationsFromFile: None = error.  (The code decodes and converts document by document and
   stops at the first error; only error / no error and the operations are observable, so the text is
   read as a whole first.) *)
Definition metrics_ops (s : bytes) : option (list mop) :=
  match s with
  | [] => Some []
  | _ => match parse_stream s with
         | None => None
         | Some docs => map_opt (fun d => option_map op_of_state (decode_struct metric_schema d)) docs
         end
  end.

(* admission.ResponseFromFile: Decode, then Token() must report io.EOF *)
Definition admission_ok (s : bytes) : bool :=
  match s with
  | [] => true
  | _ => match parse_single s with
         | Some d => match decode_struct admission_schema d with Some _ => true | None => false end
         | None => false
         end
  end.

(* conversion.ResponseFromFile: Decode, then Token() must report io.EOF (fix 1bbc0df) *)
Definition conversion_ok (s : bytes) : bool :=
  match s with
  | [] => true
  | _ => match parse_single s with
         | Some d => match decode_struct conversion_schema d with Some _ => true | None => false end
         | None => false
         end
  end.

(* ------------------------------------------------------------------ what the harness can see of the metrics *)

(* the metric family the harness looks for after the run *)
Definition probe_name : bytes :=
  [118; 101; 114; 105; 102; 95; 99; 49; 50; 95; 109; 101; 116; 114; 105; 99].   (* verif_c12_metric *)

Definition is_alpha_ (c : N) : bool := ((97 <=? c) && (c <=? 122)) || ((65 <=? c) && (c <=? 90)) || (c =? 95).
(* a label name prometheus registers: [a-zA-Z_][a-zA-Z0-9_]*, not starting with "__" *)
Definition plain_label (k : bytes) : bool :=
  match k with
  | [] => false
  | c :: r => is_alpha_ c && forallb (fun x => is_alpha_ x || is_digit x) r
              && negb (match k with a :: b :: _ => (a =? 95) && (b =? 95) | _ => false end)
  end.

Inductive tri := TNo | TYes | TMaybe.
(* After a successful SendBatch: is a family named [probe_name] in the hook metric registry?
   TNo: no operation carries that name.  TYes: every operation of that name is ungrouped, a set or
   an add, with registrable label names (the first of them creates the series).  TMaybe: prometheus
   decides (grouped series, histograms and their buckets, label names it refuses) - not modelled. *)
Definition metric_effect (ops : list mop) : tri :=
  let cands := filter (fun o => bytes_eqb (m_name o) probe_name) ops in
  match cands with
  | [] => TNo
  | _ => if forallb (fun o => is_nil (m_group o)
                              && (bytes_eqb (m_action o) k_set || bytes_eqb (m_action o) k_add)
                              && forallb (fun kv => plain_label (fst kv)) (m_labels o)) cands
         then TYes else TMaybe
  end.

(* ------------------------------------------------------------------ the four files *)

(* an empty file means "nothing to do"; a valid one parses; the others do not *)
Definition parses_kind (k : fkind) : bool := match k with FEmpty | FValid => true | _ => false end.

(* MetricOperationsFromFile returns no error *)
Definition metrics_decodes (k : fkind) : bool :=
  match k with FText s => match metrics_ops s with Some _ => true | None => false end | _ => parses_kind k end.
(* ValidateOperations (first thing SendBatch does) returns no error *)
Definition metrics_valid (k : fkind) : bool :=
  match k with
  | FText s => match metrics_ops s with Some ops => forallb validate_op ops | None => false end
  | _ => parses_kind k
  end.
Definition metrics_effect (k : fkind) : tri :=
  match k with
  | FText s => match metrics_ops s with Some ops => metric_effect ops | None => TNo end
  | FValid => TYes
  | _ => TNo
  end.
Definition admission_parses (k : fkind) : bool :=
  match k with FText s => admission_ok s | _ => parses_kind k end.
Definition conversion_parses (k : fkind) : bool :=
  match k with FText s => conversion_ok s | _ => parses_kind k end.
(* the patch file is YAML: outside the model, only the enum kinds are meaningful; a text counts as
   empty when it is empty and as malformed otherwise (never generated) *)
Definition patch_parses (k : fkind) : bool :=
  match k with FText s => is_nil s | _ => parses_kind k end.
Definition patch_has_content (k : fkind) : bool := match k with FValid => true | _ => false end.

Record outcome := mkOut {
  o_started : bool;          (* the hook process was started *)
  o_success : bool;          (* err == nil from handleRunHook *)
  o_remaining : N;           (* temp files of this execution left behind when it ended *)
  o_metric_applied : bool;   (* the probe family is in the registry ... *)
  o_metric_unknown : bool;   (* ... unless this says the model does not predict it ([TMaybe]) *)
  o_patch_applied : bool
}.

Definition failed (patch_applied : bool) : outcome := mkOut true false 0 false false patch_applied.

Definition run (i : input) : outcome :=
  let L := if N.eqb (i_namelen i) 0 then 4 else i_namelen i in
  let (created, ok) := prepare (name_lengths L) 0 in
  if negb ok then mkOut false false (created - created) false false false   (* early return: the deferred function removes the [created] files *)
  else
    (* the deferred function removes all five files, whatever happens *)
    if negb (Z.eqb (i_exit i) 0) then failed false
    (* Hook.Run *)
    else if negb (metrics_decodes (i_metrics i)) then failed false
    else if negb (admission_parses (i_admission i)) then failed false
    else if negb (conversion_parses (i_conversion i)) then failed false
    (* handleRunHook: the patch first ... *)
    else if negb (patch_parses (i_patch i)) then failed false
    (* ... then SendBatch, which validates all operations before it applies any *)
    else if negb (metrics_valid (i_metrics i)) then failed (patch_has_content (i_patch i))
    else mkOut true true 0
           (match metrics_effect (i_metrics i) with TYes => true | _ => false end)
           (match metrics_effect (i_metrics i) with TMaybe => true | _ => false end)
           (patch_has_content (i_patch i)).

(* what the operator finds in this execution's own output files after the hook has written its
   outputs to the paths in ITS environment *)
Definition readback (i : input) : input :=
  let e := child_env (i_env i) in
  mkIn (i_exit i)
       (written e var_metrics file_metrics (i_metrics i))
       (written e var_patch file_patch (i_patch i))
       (written e var_admission file_admission (i_admission i))
       (written e var_conversion file_conversion (i_conversion i))
       (i_concurrent i) (i_namelen i) (i_env i).

(* one execution, from the operator's environment to the task result *)
Definition exec (i : input) : outcome := run (readback i).

(* one of the hook's outputs landed in a file that is not of this execution *)
Definition foreign_written (i : input) : bool :=
  existsb (fun k => match getenv (child_env (i_env i)) k with Some (Foreign _) => true | _ => false end)
          [var_metrics; var_patch; var_admission; var_conversion].

(* what the hook finds under the variables [ks] *)
Definition env_view (i : input) (ks : list N) : list (N * option eval) :=
  map (fun k => (k, getenv (child_env (i_env i)) k)) ks.
