(* C12_Model.v — model of one hook execution: Hook.Run (pkg/hook/hook.go) and
   handleRunHook (pkg/shell-operator/operator.go).  Statement order is the code's:
   register the deferred removal of whatever temp file gets created (repair of F21), prepare
   the five temp files in order (each can fail: a file name longer than NAME_MAX), run the hook, read metrics, admission
   response, conversion response, patch file; then parse+apply the patch, then send the
   metrics.  No proofs here. *)
From Verif Require Import Common.
Open Scope N_scope.

Inductive fkind := FEmpty | FValid | FTruncated | FWrongType.

Record input := mkIn {
  i_exit : Z;
  i_metrics : fkind; i_patch : fkind; i_admission : fkind; i_conversion : fkind;
  i_concurrent : bool;
  i_namelen : N            (* length of the sanitized hook name; 0 = the default short name *)
}.

Definition name_max : N := 255.
(* lengths of the five temp-file names, in creation order, for a sanitized hook name of length L:
   hook-L-binding-context-<uuid>.json, hook-L-metrics-<uuid>.json,
   hook-L-admission-response-<uuid>.json, hook-L-conversion-response-<uuid>.json,
   L-object-patch-<uuid> *)
Definition name_lengths (L : N) : list N := [L + 63; L + 55; L + 66; L + 67; L + 50].

(* files created before the first failure, and whether all were created *)
Fixpoint prepare (ls : list N) (created : N) : N * bool :=
  match ls with
  | [] => (created, true)
  | l :: r => if N.leb l name_max then prepare r (created + 1) else (created, false)
  end.

(* an empty file means "nothing to do"; a valid one parses; the others do not *)
Definition parses (k : fkind) : bool := match k with FEmpty | FValid => true | _ => false end.
Definition has_content (k : fkind) : bool := match k with FValid => true | _ => false end.

Record outcome := mkOut {
  o_started : bool;          (* the hook process was started *)
  o_success : bool;          (* err == nil from handleRunHook *)
  o_remaining : N;           (* temp files of this execution left behind when it ended *)
  o_metric_applied : bool;
  o_patch_applied : bool
}.

Definition run (i : input) : outcome :=
  let L := if N.eqb (i_namelen i) 0 then 4 else i_namelen i in
  let (created, ok) := prepare (name_lengths L) 0 in
  if negb ok then mkOut false false (created - created) false false   (* early return: the deferred function removes the [created] files *)
  else
    (* the deferred function removes all five files, whatever happens *)
    if negb (Z.eqb (i_exit i) 0) then mkOut true false 0 false false
    else if negb (parses (i_metrics i)) then mkOut true false 0 false false
    else if negb (parses (i_admission i)) then mkOut true false 0 false false
    else if negb (parses (i_conversion i)) then mkOut true false 0 false false
    else if negb (parses (i_patch i)) then mkOut true false 0 false false
    else mkOut true true 0 (has_content (i_metrics i)) (has_content (i_patch i)).
