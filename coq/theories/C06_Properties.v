(* C06_Properties.v — the property theorems of C06 and nothing else (over Op_Model).
   The end-to-end clauses "each Synchronization is delivered exactly once" and "before any
   Event of that binding" combine these theorems with C04 (retry until success), C07
   (combining) and C01 (events are locked until the unlock); the correspondence checks them
   on the real operator through C06_Spec.P. *)
From Verif Require Import Common Op_Model Op_Proofs C06_Proofs.
From Verif Require Op_Corr Op_Spec C06_Spec C06_PProofs.
From Coq Require Import Permutation Sorted.

(* onStartup hooks: ascending ORDER, path order among equal ORDER, each exactly once *)
Theorem C06_startup_order : forall cfg,
  startup_hooks cfg = map fst (sort_by_order (startup_pairs cfg))
  /\ Permutation (sort_by_order (startup_pairs cfg)) (startup_pairs cfg)
  /\ StronglySorted ord_le (sort_by_order (startup_pairs cfg))
  /\ (forall o, filter (fun y => Z.eqb (snd y) o) (sort_by_order (startup_pairs cfg))
               = filter (fun y => Z.eqb (snd y) o) (startup_pairs cfg)).
Proof. exact startup_order. Qed.
Print Assumptions C06_startup_order.

(* the main queue starts with the onStartup tasks in that order, then per hook (path
   order) EnableKubernetesBindings before EnableScheduleBindings *)
Theorem C06_boot_main_shape : forall cfg,
  boot_main cfg = map startup_task (startup_hooks cfg) ++ flat_map enable_tasks cfg
  /\ (forall h, enable_tasks h =
        (match h_kube h with [] => [] | _ => [mkTask EnableKube (h_id h) BKube [] false 0 [] false no_queue 0] end)
        ++ (match h_sched h with [] => [] | _ => [mkTask EnableSched (h_id h) BSchedule [] false 0 [] false no_queue 0] end)).
Proof. exact boot_main_shape. Qed.
Print Assumptions C06_boot_main_shape.

(* before any other hook execution: for every action sequence (executions failing any
   number of times included), while an onStartup task is still queued nothing else has been
   enabled, every other queue is empty and idle, and main's head is an onStartup task *)
Theorem C06_startup_first : forall cfg,
  has_queue (boot_queues cfg) no_queue = false ->
  forall acts M Qs,
  let s := exec cfg acts init in
  queues s = M :: Qs -> existsb is_st (q_items M) = true ->
  sched_on s = [] /\ unlocked s = [] /\ mon_started s = [] /\ Forall idle_empty Qs
  /\ exists t rest, q_items M = t :: rest /\ is_st t = true.
Proof. exact startup_first. Qed.
Print Assumptions C06_startup_first.

(* Synchronization tasks: one per kubernetes binding, declared order, head of the main queue *)
Theorem C06_enable_kube_creates_syncs : forall fuel cfg qok t rest sh h,
  t_type t = EnableKube -> find_hook cfg (t_hook t) = Some h ->
  advance_q (S fuel) cfg qok (t :: rest) sh
  = advance_q fuel cfg qok (map (sync_task h) (h_kube h) ++ rest)
              (mkSh (s_sched_on sh) (s_unlocked sh) (s_mon_started sh ++ map kb_mon (h_kube h))).
Proof. exact enable_kube_creates_syncs. Qed.
Print Assumptions C06_enable_kube_creates_syncs.

(* none is delivered for executeHookOnSynchronization=false or a v0 hook: skipped, unlocked *)
Theorem C06_exempt_sync_not_executed : forall fuel cfg qok t rest sh,
  t_type t = HookRun -> is_sync t = true ->
  (match find_hook cfg (t_hook t) with Some h => h_v0 h | None => false end) = true \/ t_execsync t = false ->
  advance_q (S fuel) cfg qok (t :: rest) sh
  = advance_q fuel cfg qok rest (mkSh (s_sched_on sh) (s_unlocked sh ++ t_mids t) (s_mon_started sh)).
Proof. exact exempt_sync_not_executed. Qed.
Print Assumptions C06_exempt_sync_not_executed.

Theorem C06_combine_skips_exempt_sync : forall t rest,
  is_sync t = true ->
  Forall (fun x => is_sync x = true -> t_execsync x = true) (fst (take_block t rest)).
Proof. exact combine_skips_exempt_sync. Qed.
Print Assumptions C06_combine_skips_exempt_sync.

(* bindings without a group get their own Synchronization execution *)
Theorem C06_ungrouped_sync_not_combined : forall t, is_sync t = true -> t_group t = 0%N -> should_combine t = false.
Proof. exact ungrouped_sync_not_combined. Qed.
Print Assumptions C06_ungrouped_sync_not_combined.

(* a hook's schedules start producing tasks only after its EnableScheduleBindings task,
   which sits behind its EnableKubernetesBindings task (hence behind its Synchronizations,
   which are inserted at the head) *)
Theorem C06_enable_sched_step : forall fuel cfg qok t rest sh,
  t_type t = EnableSched ->
  advance_q (S fuel) cfg qok (t :: rest) sh
  = advance_q fuel cfg qok rest (mkSh (s_sched_on sh ++ [t_hook t]) (s_unlocked sh) (s_mon_started sh)).
Proof. exact enable_sched_step. Qed.
Print Assumptions C06_enable_sched_step.

(* non-vacuity: three onStartup hooks (equal ORDER twice), the first failing once *)
Example C06_hyp_met :
  let cfg := [mkHook 1 false (Some 1%Z) [mkKb 1 0 0 false true 1] []; mkHook 2 false (Some 0%Z) [] [mkSb 2 1 0 false 1];
              mkHook 3 false (Some 1%Z) [] []] in
  has_queue (boot_queues cfg) no_queue = false /\
  map h_id (startup_hooks cfg) = [2; 1; 3]%N /\
  let s := exec cfg [Boot; Finish 0 false; Tick 1; Finish 0 true]%N init in
  exists M Qs, queues s = M :: Qs /\ existsb is_st (q_items M) = true.
Proof. vm_compute. repeat split. eexists; eexists. split; reflexivity. Qed.

(* The whole decidable predicate C06_Spec.P (startup order and "nothing before onStartup",
   no exempt Synchronization shown, unlocking only by a main-queue Synchronization or by
   exemption, schedule tasks only with all the hook's monitors unlocked, Synchronization
   only in the main queue) holds of the model's own observations for EVERY well-formed
   configuration and EVERY action sequence (failures, back-off waits, shutdown at any point). *)
Theorem C06_P_holds : forall cfg acts,
  Op_Spec.wf_config cfg = true -> has_queue (boot_queues cfg) no_queue = false ->
  C06_Spec.P (cfg, acts, Op_Corr.model_obs (cfg, acts, [])) = true.
Proof. exact C06_PProofs.P_holds. Qed.
Print Assumptions C06_P_holds.

(* non-vacuity of its hypotheses: four hooks (one v0, one with an exempt and two grouped
   kubernetes bindings, named queues, schedules), a run with failing onStartup and
   Synchronization executions, back-off waits, events, ticks and a shutdown; at the end all
   five monitors are unlocked and every queue still holds tasks *)
Example C06_P_hyp_met :
  let cfg := [mkHook 1 false (Some 1%Z) [mkKb 1 0 2 false true 1; mkKb 2 3 0 true false 2; mkKb 3 0 2 false true 3]
                     [mkSb 4 3 0 false 1];
              mkHook 2 false (Some 0%Z) [] [mkSb 5 0 1 true 1; mkSb 6 4 0 false 2];
              mkHook 3 true None [mkKb 7 0 0 false true 7] [];
              mkHook 4 false (Some 1%Z) [mkKb 8 4 0 false true 8] []] in
  let acts := [Boot; Finish 0 false; Finish 0 true; FinishWait 0; Tick 1; Elapse 0; Finish 0 true; Finish 0 true;
               Finish 0 false; KubeEv 1 1; Finish 0 true; KubeEv 2 2; KubeEv 3 3; Tick 1; Finish 0 true;
               FinishWait 3; KubeEv 8 4; Tick 2; Elapse 3; Finish 3 true; Finish 4 false; Stop; Finish 4 true;
               Tick 1; Finish 0 true]%N in
  Op_Spec.wf_config cfg = true /\ has_queue (boot_queues cfg) no_queue = false /\
  let s := exec cfg acts init in
  stopped s = true /\ Op_Corr.sort_dedup (unlocked s) = [1; 2; 3; 7; 8]%N /\
  map (fun q => (q_name q, N.of_nat (length (q_items q)))) (queues s) = [(0, 2); (3, 1); (4, 1)]%N.
Proof. vm_compute. repeat split. Qed.

(* ---- the EnableKubernetesBindings task in an environment whose monitor creations fail
   (C06_Enable; Op_Model above treats this task as always succeeding) ---- *)
From Verif Require C06_Enable C06_EnableSpec C06_EnableProofs.

(* for EVERY hook with kubernetes bindings and EVERY finite failure pattern (any AddMonitor of
   any binding failing in any attempts) the task succeeds after at most [length F] failed runs;
   the failed runs return no task, the successful run creates every monitor (in config order,
   no failure) and returns exactly Op_Model's Synchronization tasks - one per kubernetes
   binding, config order, each with its own monitor id, executeHookOnSynchronization, group,
   allowFailure, for the main queue - and afterwards every binding's monitor is registered *)
Theorem C06_enable_retried_until_delivered : forall h F,
  h_kube h <> [] ->
  exists failed last stf,
    C06_Enable.enable_task h F = (failed ++ [last], stf)
    /\ (length failed <= length F)%nat
    /\ Forall C06_EnableProofs.failed_run failed
    /\ C06_Enable.at_ok last = true
    /\ C06_Enable.at_head last = map (sync_task h) (h_kube h)
    /\ C06_Enable.at_calls last = C06_EnableProofs.ok_calls (h_kube h)
    /\ (forall b, In b (h_kube h) -> C06_Enable.has_monitor stf (kb_mon b) = true).
Proof. exact C06_EnableProofs.enable_task_delivers. Qed.
Print Assumptions C06_enable_retried_until_delivered.

(* all the tasks that ever reach the queue from this task, whatever failed before: exactly the
   list Op_Model's EnableKube step inserts (C06_enable_kube_creates_syncs) *)
Theorem C06_enable_heads : forall h F,
  C06_Enable.heads_of (fst (C06_Enable.enable_task h F)) = map (sync_task h) (h_kube h).
Proof. exact C06_EnableProofs.enable_task_heads. Qed.
Print Assumptions C06_enable_heads.

(* what a failed run leaves behind: the monitors of the bindings before the failing one were
   created, linked and started (again) and stay - nothing is undone, no task is returned *)
Theorem C06_enable_failed_run_leaves : forall h F a st k,
  C06_EnableProofs.first_fail F a 0 (h_kube h) = Some k ->
  exists b st' att,
    nth_error (h_kube h) k = Some b /\ C06_Enable.handle_enable h F a st = (st', att)
    /\ C06_Enable.at_ok att = false /\ C06_Enable.at_head att = []
    /\ C06_Enable.at_calls att = C06_EnableProofs.ok_calls (firstn k (h_kube h)) ++ [C06_Enable.AddFail (kb_mon b)]
    /\ C06_Enable.k_made st' = C06_Enable.k_made st ++ map kb_mon (firstn k (h_kube h))
    /\ C06_Enable.k_mons st' = rev (map kb_mon (firstn k (h_kube h))) ++ C06_Enable.k_mons st.
Proof. exact C06_EnableProofs.enable_failed_run_leaves. Qed.
Print Assumptions C06_enable_failed_run_leaves.

(* the decidable predicate C06_EnableSpec.P_enable (the task succeeds in the end; exactly one
   Synchronization task per kubernetes binding reaches the main queue, with the binding's
   group and executeHookOnSynchronization; no Event of a binding before its unlock) holds of
   the model's own observations for EVERY hook with distinct monitor ids and EVERY pattern *)
Theorem C06_enable_P_holds : forall h F,
  NoDup (map kb_mon (h_kube h)) ->
  C06_EnableSpec.P_enable h (fst (C06_Enable.enable_task h F)) (Some (C06_Enable.enable_probe h F)) = true.
Proof. exact C06_EnableProofs.enable_P_holds. Qed.
Print Assumptions C06_enable_P_holds.

(* once the task is done, unlocking by the returned tasks lets every binding's Events flow *)
Theorem C06_enable_probe_events : forall h F,
  C06_Enable.enable_probe h F = map (fun b => ([], [kb_mon b])) (h_kube h).
Proof. exact C06_EnableProofs.enable_probe_events. Qed.
Print Assumptions C06_enable_probe_events.

(* non-vacuity: three bindings (two share a name and a group), the second one's monitor fails
   in attempt 0, the first one's in attempt 1, the third one's in attempts 1 and 2: three failed
   runs (calls: ok,FAIL / FAIL / ok,ok,FAIL), then success; monitor 11 was created three times *)
Example C06_enable_hyp_met :
  let h := mkHook 1 false None [mkKb 1 0 2 false true 11; mkKb 1 3 2 true false 12; mkKb 3 0 0 false true 13] [] in
  let F := [(0, 1); (1, 0); (1, 2); (2, 2)]%N in
  h_kube h <> [] /\ NoDup (map kb_mon (h_kube h)) /\
  C06_EnableProofs.first_fail F 2 0 (h_kube h) = Some 2%nat /\
  map C06_Enable.at_ok (fst (C06_Enable.enable_task h F)) = [false; false; false; true] /\
  map C06_Enable.at_calls (fst (C06_Enable.enable_task h F))
  = [[C06_Enable.AddOk 11; C06_Enable.AddFail 12]; [C06_Enable.AddFail 11];
     [C06_Enable.AddOk 11; C06_Enable.AddOk 12; C06_Enable.AddFail 13];
     [C06_Enable.AddOk 11; C06_Enable.AddOk 12; C06_Enable.AddOk 13]]%N /\
  C06_Enable.k_made (snd (C06_Enable.enable_task h F)) = [11; 11; 12; 11; 12; 13]%N.
Proof.
  cbv zeta. split; [discriminate|]. split.
  - repeat constructor; cbn; intuition discriminate.
  - vm_compute. repeat split.
Qed.
