(* C14_CtxSpec.v — the last clause of the property text, read for bindings with parameters:

     "... and a request is handed to the hook and binding that registered that path."

   Handing a request to a hook means that the hook process is SHOWN the request: shell-operator's
   interface to a hook is the binding context file.  The documentation of kubernetesValidating /
   kubernetesMutating says what it holds: "binding" = the binding's name, "type" = "Validating" (resp.
   "Mutating"), "review" = the AdmissionReview with the request (uid, object, operation, ...); `group`
   and `includeSnapshotsFrom` on such a binding only bring a "snapshots" field in - the hook never gets
   "type": "Group" for an admission request.  Written from that text only; data types are shared with
   the model.

   Observations per request: those of C14_Spec.P, plus what the hook process read in
   $BINDING_CONTEXT_PATH (None = no hook process ran), and the scripted run r is what the hook does
   ONCE IT HAS SEEN THE REQUEST (the harness' hook denies what it is not shown): the clauses of
   C14_Spec.P about the verdict are therefore clauses about a verdict on this request. *)
From Verif Require Import Common C14_Model C14_Spec C14_CtxModel.

Definition rtype_is (t : btype) (x : rtype) : bool :=
  match t, x with Validating, RtValidating | Mutating, RtMutating => true | _, _ => false end.

(* the hook that ran read THE REQUEST, under the binding and type that registered the path;
   nothing is shown to anybody when no hook ran *)
Definition handed (b : body) (who : ran) (shown : option rendered) : bool :=
  match who, shown with
  | Some (_, (t, name)), Some x =>
    match b with
    | BReview uid =>
      rtype_is t (r_type x)
      && bytes_eqb (r_binding x) name
      && match r_review x with Some u => N.eqb u uid | None => false end
      && match r_group x with None => true | Some _ => false end
    | _ => false
    end
  | None, None => true
  | _, _ => false
  end.

(* the "snapshots" field is there exactly when the binding asked for snapshots (includeSnapshotsFrom,
   or a group that has kubernetes bindings), and names kubernetes bindings of the hook only *)
Definition kube_names (cfg : phook) : list N := map fst (ph_kube cfg).

Definition snapshots_sound (hooks : list phook) (who : ran) (shown : option rendered) : bool :=
  match who, shown with
  | Some (h, _), Some x =>
    match r_snapshots x with
    | Some keys => forallb (fun k => mem_N k (kube_names (nth (N.to_nat h) hooks no_phook))) keys
    | None => true
    end
  | _, _ => true
  end.

Definition P_ctx (hooks : list phook) (regs : list reg) (path : bytes) (b : body) (r : run)
                 (a : answer) (who : ran) (shown : option rendered) : bool :=
  P regs path b r a who && handed b who shown && snapshots_sound hooks who shown.


(* configurations the loader accepts (CheckAdmission -> CheckIncludeSnapshots): every
   includeSnapshotsFrom entry names a `kubernetes` binding of the hook *)
Definition includes_ok (hooks : list phook) : Prop :=
  forall cfg, In cfg hooks ->
    forall pb, In pb (ph_val cfg ++ ph_mut cfg) -> forall k, In k (pb_include pb) -> In k (kube_names cfg).
