(* C11_QModel.v — executable model of WHERE the tasks of a firing end up: the queues of the
   operator's TaskQueueSet and the loop of the events handler that moves tasks into them.

     pkg/shell-operator/operator.go:832-838   bootstrapMainQueue: tqs.NewNamedQueue("main", ...)
     pkg/shell-operator/operator.go:900-911   initAndStartHookQueues: for every hook of
                                hooksInOrder[Schedule], for every schedule binding of its config:
                                  if op.TaskQueues.GetByName(binding.Queue) == nil {
                                     op.TaskQueues.NewNamedQueue(binding.Queue, ...) }
                                - from the static configs, whether or not the bindings are enabled
     pkg/shell-operator/manager_events_handler.go:68-103   ManagerEventsHandler.Start, per string
                                received from ScheduleManager.Ch():
                                  tailTasks = m.scheduleCb(crontab)            (C11_Hm.hm_handle)
                                  m.taskQueues.DoWithLock(func(tqs) {
                                    for _, resTask := range tailTasks {
                                      if q := tqs.Queues[resTask.GetQueueName()]; q == nil {
                                        log.Error("Possible bug!!! ...")       (the task is dropped)
                                      } else { q.AddLast(resTask) } } })
   The queue is looked up FOR EVERY TASK, by the name the task carries.  One firing of a crontab
   yields one task per binding with that crontab - of one hook or of several - and those bindings
   may name different queues: the tasks of ONE tailTasks list go to different queues.

   A queue is identified by the number of its name (0 = "main", the queue of a binding without a
   `queue:` setting); tqs.Queues is an association list in the order of creation (Go: a map; the
   harness lists it by queue number, C11_Corr compares by lookup).  Queues are not started: what
   is appended stays (the model of what the workers do with queued tasks is Op_Model).
   No proofs here. *)
From Verif Require Import Common C11_Model C11_Hm.

Definition queues := list (N * list stask).
Definition main_q : N := 0.

Definition q_has (q : N) (m : queues) : bool := existsb (fun p => N.eqb (fst p) q) m.
(* if GetByName(q) == nil { NewNamedQueue(q) } *)
Definition q_new (q : N) (m : queues) : queues := if q_has q m then m else m ++ [(q, [])].
(* bootstrapMainQueue, then initAndStartHookQueues *)
Definition q_create (hooks : list (list binding)) : queues :=
  fold_left (fun m b => q_new (b_queue b) m) (concat hooks) [(main_q, [])].

(* tqs.Queues[name] *)
Fixpoint q_lookup (q : N) (m : queues) : option (list stask) :=
  match m with
  | [] => None
  | (q', ts) :: r => if N.eqb q' q then Some ts else q_lookup q r
  end.

(* one task of tailTasks: q := tqs.Queues[resTask.GetQueueName()]; nil: dropped; else q.AddLast *)
Fixpoint q_add_last (t : stask) (m : queues) : queues :=
  match m with
  | [] => []
  | (q, ts) :: r => if N.eqb q (st_queue t) then (q, ts ++ [t]) :: r else (q, ts) :: q_add_last t r
  end.
(* for _, resTask := range tailTasks *)
Definition q_place (ts : list stask) (m : queues) : queues := fold_left (fun m t => q_add_last t m) ts m.

(* the loop: the strings [cs] are received one after the other; each one's tasks are made by the
   schedule event handler and moved before the next string is received *)
Definition q_handle (hooks : list (list binding)) (ls : list links) (cs : list ct) (m : queues) : queues :=
  fold_left (fun m c => q_place (hm_handle c hooks ls) m) cs m.

(* what is observed after every operation: everything C11_Hm observes, and the contents of every queue *)
Record qobs := mkQobs { q_hobs : hobs; q_queues : queues }.

Fixpoint run_q_from (i : input) (s : sys) (m : queues) (ops : list op) : list qobs :=
  match ops with
  | [] => []
  | o :: r =>
      let '(s', f) := sys_step i s o in
      let cs := hm_fired o (snd f) in
      let m' := q_handle (i_hooks i) (s_links s') cs m in
      mkQobs (mkHobs (observe i s' f) (hm_tasks (i_hooks i) (s_links s') cs)) m'
      :: run_q_from i s' m' r
  end.
Definition run_q (i : input) : list qobs := run_q_from i (sys_init i) (q_create (i_hooks i)) (i_ops i).
(* the operator-level run: hooks loaded, queues made, then the operations *)
Definition run_qop (i : input) : list qobs := run_q (load_input i).

(* the tasks each string handled by an operation yielded, string by string (for the comparison
   of C11_Corr: within one hook the controller iterates a Go map, so the implementation's order
   is judged segment by segment) *)
Fixpoint run_q_segs_from (i : input) (s : sys) (ops : list op) : list (list (list stask)) :=
  match ops with
  | [] => []
  | o :: r =>
      let '(s', f) := sys_step i s o in
      map (fun c => hm_handle c (i_hooks i) (s_links s')) (hm_fired o (snd f)) :: run_q_segs_from i s' r
  end.
Definition run_q_segs (i : input) : list (list (list stask)) := run_q_segs_from i (sys_init i) (i_ops i).
