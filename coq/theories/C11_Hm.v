(* C11_Hm.v — executable model of the path that turns a fired crontab into TASKS in the
   real operator, for hooks whose schedule bindings are enabled and disabled at different
   moments, interleaved with firings:

     pkg/hook/hook_manager.go   Init (lines 90-133): hooksInOrder[Schedule] = the hooks whose
                                config has at least one schedule binding, in the order of
                                their paths - filled ONCE, from the static configs;
                                HandleScheduleEvent (lines 304-316): on EVERY firing, for every
                                hook of hooksInOrder[Schedule]:
                                  if h.HookController.CanHandleScheduleEvent(crontab) {
                                     h.HookController.HandleScheduleEvent(crontab, createTaskFn) }
     pkg/hook/controller/hook_controller.go   CanHandleScheduleEvent / HandleScheduleEvent /
                                EnableScheduleBindings / DisableScheduleBindings: delegate to
                                the hook's scheduleBindingsController (C11_Model: can_handle,
                                handle_event, enable, disable), which answers from ScheduleLinks,
                                i.e. from the bindings enabled AT THAT MOMENT
     pkg/shell-operator/operator.go:163-191   the schedule event handler: one HookRun task per
                                BindingExecutionInfo (task_of_info), in the order of the calls
     pkg/shell-operator/operator.go:433-446   the EnableScheduleBindings task of a hook (queued by
                                bootstrapMainQueue for every hook that has schedule bindings,
                                one after the other in the main queue): GetHook(name).
                                HookController.EnableScheduleBindings()

   The hook manager keeps NO state about crontabs: what a firing yields is a function of
   the string and of the controllers' links at the moment of the firing ([hm_handle] takes
   nothing else).  The state of the whole (links per hook, schedule manager, channel) and
   its steps are those of C11_Model ([sys], [sys_step]); this file adds what the operator
   makes of every string the consumer of the schedule channel receives.
   Last part of the file: the ids under which the loaded hooks' bindings are registered
   (pkg/hook/config: ConvertSchedule / ScheduleID) - [hm_load], [load_input], [run_op].
   No proofs here. *)
From Verif Require Import Common C11_Model.

Definition is_nilb {A} (l : list A) : bool := match l with [] => true | _ :: _ => false end.

(* HandleScheduleEvent(crontab, createTaskFn) with the createTaskFn of operator.go:172-189.
   [h]: number of the hook at the head of [hooks] (hooks are numbered in the order of their
   paths, from 0); a hook without schedule bindings is not in hooksInOrder[Schedule] *)
Fixpoint hm_from (h : N) (c : ct) (hooks : list (list binding)) (ls : list links) : list stask :=
  match hooks, ls with
  | bs :: hr, m :: lr =>
      (if is_nilb bs then []
       else if can_handle c m                                  (* CanHandleScheduleEvent *)
            then map (task_of_info h) (handle_event c m)       (* HandleScheduleEvent: createTaskFn per info *)
            else [])
      ++ hm_from (N.succ h) c hr lr
  | _, _ => []
  end.
Definition hm_handle (c : ct) (hooks : list (list binding)) (ls : list links) : list stask :=
  hm_from 0 c hooks ls.

(* ManagerEventsHandler: the strings [cs] are received one after the other, the schedule
   event handler is called for each *)
Definition hm_tasks (hooks : list (list binding)) (ls : list links) (cs : list ct) : list stask :=
  flat_map (fun c => hm_handle c hooks ls) cs.

(* what is observed after every operation: everything C11_Model observes, and the tasks the
   operator's schedule event handler returned for the strings handled by this operation *)
Record hobs := mkHobs { h_obs : obs; h_tasks : list stask }.

(* the strings the schedule event handler is called with: OFire c hands c over directly;
   OTick / OTickAll / ODrain: what the consumer received (snd of sys_step's answer) *)
Definition hm_fired (o : op) (recv : list ct) : list ct :=
  match o with
  | OFire c => [c]
  | _ => recv
  end.

(* the operations are those of C11_Model.  OEnable h = hook h's EnableScheduleBindings task
   is handled (a hook without schedule bindings has no such task and no controller: nothing
   happens, as in [enable] with no bindings); ODisable h = HookController.DisableScheduleBindings *)
Fixpoint run_hm_from (i : input) (s : sys) (ops : list op) : list hobs :=
  match ops with
  | [] => []
  | o :: r =>
      let '(s', f) := sys_step i s o in
      mkHobs (observe i s' f) (hm_tasks (i_hooks i) (s_links s') (hm_fired o (snd f)))
      :: run_hm_from i s' r
  end.
Definition run_hm (i : input) : list hobs := run_hm_from i (sys_init i) (i_ops i).

(* ------------------------------------------------------------------ the ids of the bindings

   pkg/hook/config (config_v0.go / config_v1.go ConvertSchedule, util.go ScheduleID): when a
   hook's configuration is loaded every schedule binding gets
       ScheduleEntry{Crontab: <the configured string>, Id: ScheduleID()}
   and ScheduleID() draws a uuid: the id is made from NOTHING the binding is configured with -
   not its name (unnamed bindings are all called "schedule"), not its position in the hook's
   schedule list, not its crontab, not the hook.  Whatever two (hook, binding) have in common,
   their ids differ.  These ids are the keys of the hook's ScheduleLinks AND what the shared
   schedule manager counts the references to a crontab by (CronEntry.Ids).

   The model: loading numbers the bindings of all hooks in the order of the hooks' paths and,
   within a hook, of its schedule list, from [first_id] on (smaller numbers are left to ids
   passed to Add / Remove by hand): ONE ID PER (hook, binding).  Everything else a binding is
   configured with is kept.  The harness numbers the REAL id strings the config loader produced
   the same way (a string gets the number of the first (hook, binding) that carries it) and
   reports them per hook and binding ([loaded_ids] is compared with that). *)
Definition first_id : N := 11.
Definition set_id (n : N) (b : binding) : binding :=
  mkB n (b_crontab b) (b_name b) (b_group b) (b_af b) (b_snaps b) (b_queue b).
Fixpoint load_bs (n : N) (bs : list binding) : list binding :=
  match bs with
  | [] => []
  | b :: r => set_id n b :: load_bs (N.succ n) r
  end.
Fixpoint load_from (n : N) (hooks : list (list binding)) : list (list binding) :=
  match hooks with
  | [] => []
  | bs :: hr => load_bs n bs :: load_from (n + N.of_nat (length bs)) hr
  end.
Definition hm_load (hooks : list (list binding)) : list (list binding) := load_from first_id hooks.

(* the case as the operator sees it: the hooks' configurations loaded *)
Definition load_input (i : input) : input :=
  mkIn (hm_load (i_hooks i)) (i_invalid i) (i_alphabet i) (i_ops i).
(* per hook and binding: the id the loader produced *)
Definition loaded_ids (i : input) : list (list N) := map (map b_id) (i_hooks (load_input i)).
(* the operator-level run: hooks loaded, then the operations *)
Definition run_op (i : input) : list hobs := run_hm (load_input i).
