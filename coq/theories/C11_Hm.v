(* C11_Hm.v — executable model of the path that turns a fired crontab into TASKS in the
   real operator, for hooks whose schedule bindings are enabled and disabled at different
   moments, interleaved with firings:

     pkg/hook/hook_manager.go   Init (lines 90-133): hooksInOrder[Schedule] = the hooks whose
                                config has at least one schedule binding, in the order of
                                their paths - filled ONCE, from the static configs;
                                HandleScheduleEvent (lines 304-316): on EVERY firing, for every
                                hook of hooksInOrder[Schedule]:
                                  if h.HookController.CanHandleScheduleEvent(crontab) {
                                     h.HookController.HandleScheduleEvent(crontab, createTaskFn) }
     pkg/hook/controller/hook_controller.go   CanHandleScheduleEvent / HandleScheduleEvent /
                                EnableScheduleBindings / DisableScheduleBindings: delegate to
                                the hook's scheduleBindingsController (C11_Model: can_handle,
                                handle_event, enable, disable), which answers from ScheduleLinks,
                                i.e. from the bindings enabled AT THAT MOMENT
     pkg/shell-operator/operator.go:163-191   the schedule event handler: one HookRun task per
                                BindingExecutionInfo (task_of_info), in the order of the calls
     pkg/shell-operator/operator.go:433-446   the EnableScheduleBindings task of a hook (queued by
                                bootstrapMainQueue for every hook that has schedule bindings,
                                one after the other in the main queue): GetHook(name).
                                HookController.EnableScheduleBindings()

   The hook manager keeps NO state about crontabs: what a firing yields is a function of
   the string and of the controllers' links at the moment of the firing ([hm_handle] takes
   nothing else).  The state of the whole (links per hook, schedule manager, channel) and
   its steps are those of C11_Model ([sys], [sys_step]); this file adds what the operator
   makes of every string the consumer of the schedule channel receives.
   No proofs here. *)
From Verif Require Import Common C11_Model.

Definition is_nilb {A} (l : list A) : bool := match l with [] => true | _ :: _ => false end.

(* HandleScheduleEvent(crontab, createTaskFn) with the createTaskFn of operator.go:172-189.
   [h]: number of the hook at the head of [hooks] (hooks are numbered in the order of their
   paths, from 0); a hook without schedule bindings is not in hooksInOrder[Schedule] *)
Fixpoint hm_from (h : N) (c : ct) (hooks : list (list binding)) (ls : list links) : list stask :=
  match hooks, ls with
  | bs :: hr, m :: lr =>
      (if is_nilb bs then []
       else if can_handle c m                                  (* CanHandleScheduleEvent *)
            then map (task_of_info h) (handle_event c m)       (* HandleScheduleEvent: createTaskFn per info *)
            else [])
      ++ hm_from (N.succ h) c hr lr
  | _, _ => []
  end.
Definition hm_handle (c : ct) (hooks : list (list binding)) (ls : list links) : list stask :=
  hm_from 0 c hooks ls.

(* ManagerEventsHandler: the strings [cs] are received one after the other, the schedule
   event handler is called for each *)
Definition hm_tasks (hooks : list (list binding)) (ls : list links) (cs : list ct) : list stask :=
  flat_map (fun c => hm_handle c hooks ls) cs.

(* what is observed after every operation: everything C11_Model observes, and the tasks the
   operator's schedule event handler returned for the strings handled by this operation *)
Record hobs := mkHobs { h_obs : obs; h_tasks : list stask }.

(* the strings the schedule event handler is called with: OFire c hands c over directly;
   OTick / OTickAll / ODrain: what the consumer received (snd of sys_step's answer) *)
Definition hm_fired (o : op) (recv : list ct) : list ct :=
  match o with
  | OFire c => [c]
  | _ => recv
  end.

(* the operations are those of C11_Model.  OEnable h = hook h's EnableScheduleBindings task
   is handled (a hook without schedule bindings has no such task and no controller: nothing
   happens, as in [enable] with no bindings); ODisable h = HookController.DisableScheduleBindings *)
Fixpoint run_hm_from (i : input) (s : sys) (ops : list op) : list hobs :=
  match ops with
  | [] => []
  | o :: r =>
      let '(s', f) := sys_step i s o in
      mkHobs (observe i s' f) (hm_tasks (i_hooks i) (s_links s') (hm_fired o (snd f)))
      :: run_hm_from i s' r
  end.
Definition run_hm (i : input) : list hobs := run_hm_from i (sys_init i) (i_ops i).
