(* C01_Model.v — labelled transition system of ONE resource informer of a kubernetes
   binding, at lock granularity (pkg/kube_events_manager/resource_informer.go):

     handleWatchEvent   W1 : [cacheLock]   update/delete the cache entry, decide skip / fire
                        -- verifpoint "informer.w1" --
                        W23: [eventBufLock] enabled ? deliver the event : append it to the buffer
     getCachedObjects   S  : [eventBufLock [cacheLock.R copy the cache]  not enabled ? drop the buffer]
     enableKubeEventCb  E  : [eventBufLock] not enabled ? (enabled := true; deliver the buffer; drop it)

   (W23 and S are single critical sections after the repairs of R3 and R1.)
   The informer callback delivers changes one after the other; readers and the unlock run
   in other goroutines.  A schedule is a list of [op]s issued by the harness:
   StartW = the callback starts on the next change and runs up to the mark (or to its
   end when nothing is to be fired), StepW = it goes on to its end, StartS r = reader r
   takes a snapshot, E = unlock.  No proofs here.

   Beyond one informer: C01_Monitor (namespace.labelSelector: ONE namespace appearing ONCE
   against the unlock, at lock granularity), C01_Hist (namespace.labelSelector: the events of
   the whole monitor over HISTORIES of namespace create / relabel / delete and object
   create / modify / delete after the unlock), Op_Model + C01_OpSpec (the operator's task flow). *)
From Verif Require Import Common.
Open Scope N_scope.

Inductive wkind := Added | Modified | Deleted.
Definition wkind_eqb (a b : wkind) : bool :=
  match a, b with Added, Added | Modified, Modified | Deleted, Deleted => true | _, _ => false end.

Record change := mkCh { ch_oid : N; ch_kind : wkind; ch_proj : N }.
Definition event := (N * wkind * N)%type.          (* object, watch event, projection *)
Definition cache_t := list (N * N).                (* object -> projection, sorted by object *)

Inductive op := StartW | StepW | StartS (r : N) | StepS (r : N) | E.

Record input := mkIn { i_types : list wkind; i_changes : list change; i_ops : list op }.

Fixpoint cache_get (o : N) (c : cache_t) : option N :=
  match c with
  | [] => None
  | (k, v) :: r => if N.eqb k o then Some v else cache_get o r
  end.
Fixpoint cache_set (o v : N) (c : cache_t) : cache_t :=
  match c with
  | [] => [(o, v)]
  | (k, w) :: r => if N.eqb k o then (o, v) :: r
                   else if N.ltb o k then (o, v) :: (k, w) :: r
                   else (k, w) :: cache_set o v r
  end.
Fixpoint cache_del (o : N) (c : cache_t) : cache_t :=
  match c with
  | [] => []
  | (k, w) :: r => if N.eqb k o then r else (k, w) :: cache_del o r
  end.

Definition fires (types : list wkind) (k : wkind) : bool := existsb (wkind_eqb k) types.

(* W1: the cache critical section and the decision; the event to handle, if any *)
Definition w1 (types : list wkind) (c : change) (cache : cache_t) : cache_t * option event :=
  match ch_kind c with
  | Deleted => (cache_del (ch_oid c) cache,
                if fires types Deleted then Some (ch_oid c, Deleted, ch_proj c) else None)
  | k => let skip := match cache_get (ch_oid c) cache with
                     | Some p => N.eqb p (ch_proj c)
                     | None => false
                     end in
         (cache_set (ch_oid c) (ch_proj c) cache,
          if skip then None else if fires types k then Some (ch_oid c, k, ch_proj c) else None)
  end.

Record state := mkSt {
  todo : list change;          (* changes not yet picked up by the callback *)
  done : N;                    (* changes whose W1 is done *)
  cache : cache_t;
  buf : list event;
  enabled : bool;
  out : list event;            (* events handed to the event callback, in order *)
  wpc : option event;          (* Some e: the callback is parked at the mark with e in hand *)
  views : list (N * cache_t);  (* snapshots taken: reader, view *)
  finished : N;                (* changes whose handler has returned *)
  out_before_e : option N      (* number of delivered events when the first unlock started *)
}.

Definition init (chs : list change) : state := mkSt chs 0 [] [] false [] None [] 0 None.

Definition step (types : list wkind) (s : state) (o : op) : state :=
  match o with
  | StartW =>
      match wpc s, todo s with
      | None, c :: rest =>
          let (cache', ev) := w1 types c (cache s) in
          match ev with
          | Some e => mkSt rest (done s + 1) cache' (buf s) (enabled s) (out s) (Some e) (views s) (finished s) (out_before_e s)
          | None => mkSt rest (done s + 1) cache' (buf s) (enabled s) (out s) None (views s) (finished s + 1) (out_before_e s)
          end
      | _, _ => s
      end
  | StepW =>
      match wpc s with
      | Some e =>
          if enabled s
          then mkSt (todo s) (done s) (cache s) (buf s) true (out s ++ [e]) None (views s) (finished s + 1) (out_before_e s)
          else mkSt (todo s) (done s) (cache s) (buf s ++ [e]) false (out s) None (views s) (finished s + 1) (out_before_e s)
      | None => s
      end
  | StartS r =>
      mkSt (todo s) (done s) (cache s) (if enabled s then buf s else []) (enabled s) (out s) (wpc s)
           (views s ++ [(r, cache s)]) (finished s) (out_before_e s)
  | StepS _ => s
  | E =>
      let obe := match out_before_e s with None => Some (N.of_nat (length (out s))) | x => x end in
      if enabled s then mkSt (todo s) (done s) (cache s) (buf s) true (out s) (wpc s) (views s) (finished s) obe
      else mkSt (todo s) (done s) (cache s) [] true (out s ++ buf s) (wpc s) (views s) (finished s) obe
  end.

Definition exec (types : list wkind) (s : state) (ops : list op) : state := fold_left (step types) ops s.

(* the harness lets a parked callback finish at the end of the schedule *)
Definition finish (types : list wkind) (s : state) : state := step types s StepW.

Definition run (i : input) : state := finish (i_types i) (exec (i_types i) (init (i_changes i)) (i_ops i)).
