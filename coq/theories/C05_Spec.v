(* C05_Spec.v — the property C05 as a decidable predicate over what a user of the
   queue observes: the operations issued and, after each, the observation
   (Iterate, Length, GetFirst, GetLast, Get, the task the handler holds, the
   returned task).  It is written against an ordinary list and never mentions
   the model's step function. *)
From Verif Require Import Common C05_Model.

(* ---- ordinary-list vocabulary ---- *)

(* split at the first task with id [id] *)
Fixpoint split_id (id : N) (l : list task) : option (list task * task * list task) :=
  match l with
  | [] => None
  | x :: r => if N.eqb (tid x) id then Some ([], x, r)
              else match split_id id r with
                   | Some (a, y, b) => Some (x :: a, y, b)
                   | None => None
                   end
  end.

(* split at the first occurrence of the task [p] itself *)
Fixpoint split_task (p : task) (l : list task) : option (list task * list task) :=
  match l with
  | [] => None
  | x :: r => if task_eqb x p then Some ([], r)
              else match split_task p r with
                   | Some (a, b) => Some (x :: a, b)
                   | None => None
                   end
  end.

Definition tasks_eqb : list task -> list task -> bool := list_eqb task_eqb.
Definition otask_eqb : option task -> option task -> bool := option_eqb task_eqb.

(* [l'] is [l] with [t] inserted at some position *)
Fixpoint is_insertion (t : task) (l l' : list task) : bool :=
  match l' with
  | [] => false
  | y :: r' =>
      (task_eqb y t && tasks_eqb r' l) ||
      match l with
      | [] => false
      | x :: r => task_eqb x y && is_insertion t r r'
      end
  end.

(* multiset equality and order preservation, used when the anchor of after-tasks is
   gone: nothing lost, nothing invented, the old tasks keep their relative order *)
Definition count_task (x : task) (l : list task) : nat :=
  length (filter (task_eqb x) l).
Definition same_multiset (m r : list task) : bool :=
  forallb (fun x => Nat.eqb (count_task x m) (count_task x r)) (m ++ r).
Fixpoint subseq (l m : list task) : bool :=
  match l, m with
  | [], _ => true
  | _ :: _, [] => false
  | x :: l', y :: m' => if task_eqb x y then subseq l' m' else subseq l m'
  end.
(* [m] is [l] with every task of [a] inserted somewhere (any positions, any order) *)
Definition multi_ins (a l m : list task) : bool :=
  same_multiset m (a ++ l) && subseq l m.

(* strip a given prefix / suffix *)
Fixpoint strip_prefix (h l : list task) : option (list task) :=
  match h, l with
  | [], _ => Some l
  | x :: h', y :: l' => if task_eqb x y then strip_prefix h' l' else None
  | _ :: _, [] => None
  end.
Definition strip_suffix (t l : list task) : option (list task) :=
  match strip_prefix (rev t) (rev l) with Some r => Some (rev r) | None => None end.

(* ---- the per-operation rule of an ordinary list ---- *)

Definition spec_simple (l : list task) (running : option task) (o : op)
           (l' : list task) (ret : option task) : bool :=
  match o with
  | FilterDuring _ _ => false            (* not a simple operation: see spec_ok *)
  | AddFirst t => tasks_eqb l' (t :: l) && otask_eqb ret None
  | AddLast t => tasks_eqb l' (l ++ [t]) && otask_eqb ret None
  | AddAfter id t =>
      otask_eqb ret None &&
      match split_id id l with
      | Some (a, x, b) => tasks_eqb l' (a ++ x :: t :: b)
      | None => is_insertion t l l'          (* anchor absent: the task must not be lost *)
      end
  | AddBefore id t =>
      otask_eqb ret None &&
      match split_id id l with
      | Some (a, x, b) => tasks_eqb l' (a ++ t :: x :: b)
      | None => is_insertion t l l'
      end
  | Remove id =>
      match split_id id l with
      | Some (a, x, b) => tasks_eqb l' (a ++ b) && otask_eqb ret (Some x)
      | None => tasks_eqb l' l && otask_eqb ret None
      end
  | RemoveFirst =>
      match l with
      | [] => tasks_eqb l' [] && otask_eqb ret None
      | x :: r => tasks_eqb l' r && otask_eqb ret (Some x)
      end
  | RemoveLast =>
      match rev l with
      | [] => tasks_eqb l' [] && otask_eqb ret None
      | x :: r => tasks_eqb l' (rev r) && otask_eqb ret (Some x)
      end
  | Filter keep =>
      tasks_eqb l' (filter (fun x => mem_N (tid x) keep) l) && otask_eqb ret None
  | Start => tasks_eqb l' l && otask_eqb ret None
  | Return st h a t =>
      otask_eqb ret None &&
      match running with
      | None => tasks_eqb l' l
      | Some p =>
          match st with
          | Fail | Repeat => tasks_eqb l' l        (* failed / repeated task keeps its place *)
          | Success | Keep =>
              match split_task p l with
              | Some (l1, l2) =>
                  match st with
                  | Success => tasks_eqb l' (h ++ l1 ++ a ++ l2 ++ t)   (* removed exactly once *)
                  | _ => tasks_eqb l' (h ++ l1 ++ p :: a ++ l2 ++ t)    (* kept in place *)
                  end
              | None =>
                  (* the handled task was removed meanwhile: nothing else is removed,
                     after-tasks are not lost *)
                  match strip_prefix h l' with
                  | Some r => match strip_suffix t r with
                              | Some m => multi_ins a l m
                              | None => false
                              end
                  | None => false
                  end
              end
          end
      end
  end.

(* an operation issued by another goroutine while a Filter is in progress happens after it:
   every operation of the queue is atomic *)
Definition spec_ok (l : list task) (running : option task) (o : op)
           (l' : list task) (ret : option task) : bool :=
  match o with
  | FilterDuring keep c => spec_simple (filter (fun x => mem_N (tid x) keep) l) running (to_op c) l' ret
  | _ => spec_simple l running o l' ret
  end.

(* ---- an observation describes a proper list ---- *)

Fixpoint all_some (l : list (option task)) : option (list task) :=
  match l with
  | [] => Some []
  | Some x :: r => match all_some r with Some r' => Some (x :: r') | None => None end
  | None :: _ => None
  end.

Definition find_id (id : N) (l : list task) : option task :=
  match split_id id l with Some (_, x, _) => Some x | None => None end.

Definition obs_wellformed (o : obs) : option (list task) :=
  if o_crash o then None else
  match all_some (o_items o) with
  | None => None                                            (* an empty slot *)
  | Some l =>
      if N.eqb (o_len o) (N.of_nat (length l))              (* length = number of tasks *)
         && otask_eqb (o_first o) (hd_error l)
         && otask_eqb (o_last o) (hd_error (rev l))
         && list_eqb otask_eqb (o_gets o) (map (fun id => find_id id l) probe_ids)
      then Some l else None
  end.

(* P: every observation is a proper list and follows from the previous one by the
   ordinary-list rule.  The spec state is threaded through the observations. *)
Fixpoint P_from (l : list task) (running : option task) (ops : list op) (os : list obs) : bool :=
  match ops, os with
  | [], [] => true
  | o :: ops', ob :: os' =>
      match obs_wellformed ob with
      | None => false
      | Some l' => spec_ok l running o l' (o_ret ob) && P_from l' (o_running ob) ops' os'
      end
  | _, _ => false
  end.

Definition P (ops : list op) (os : list obs) : bool := P_from [] None ops os.

(* ---- trigger predicate of the known finding F14 ----
   A handler returns Success (or Keep with after-tasks) while the first task in the
   queue that carries the handled task's id is a *different* task (a duplicate id
   placed ahead of it, or the handled task removed and a namesake present): the code
   works by id, hence on the namesake.  Degenerate variant: the handled task is gone,
   no namesake is queued, and a Success result carries an after-task with the handled
   task's own id: it is inserted and then removed by remove(id). *)
Definition trigger_step (s : state) (o : op) : bool :=
  match o, running s with
  | Return st _ a _, Some p =>
      match st with
      | Fail | Repeat => false
      | Success | Keep =>
          match find_id (tid p) (items s) with
          | Some q => negb (task_eqb q p)
                      && match st with Success => true | _ => negb (match a with [] => true | _ => false end) end
          | None => existsb (fun x => N.eqb (tid x) (tid p)) a
                    && match st with Success => true | _ => false end
          end
      end
  | _, _ => false
  end.

Fixpoint T_from (s : state) (ops : list op) : bool :=
  match ops with
  | [] => false
  | o :: r => trigger_step s o || T_from (fst (step s o)) r
  end.

Definition T (ops : list op) : bool := T_from init ops.
