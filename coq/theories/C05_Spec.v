(* C05_Spec.v — the property C05 as a decidable predicate over what a user of the
   queue observes: the operations issued and, after each, the observation
   (Iterate, Length, GetFirst, GetLast, Get, the task the handler holds, the
   returned task).  It is written against an ordinary list and never mentions
   the model's step function. *)
From Verif Require Import Common C05_Model.

(* ---- ordinary-list vocabulary ---- *)

(* split at the first task with id [id] *)
Fixpoint split_id (id : N) (l : list task) : option (list task * task * list task) :=
  match l with
  | [] => None
  | x :: r => if N.eqb (tid x) id then Some ([], x, r)
              else match split_id id r with
                   | Some (a, y, b) => Some (x :: a, y, b)
                   | None => None
                   end
  end.

(* split at the first occurrence of the task [p] itself *)
Fixpoint split_task (p : task) (l : list task) : option (list task * list task) :=
  match l with
  | [] => None
  | x :: r => if task_eqb x p then Some ([], r)
              else match split_task p r with
                   | Some (a, b) => Some (x :: a, b)
                   | None => None
                   end
  end.

Definition tasks_eqb : list task -> list task -> bool := list_eqb task_eqb.
Definition otask_eqb : option task -> option task -> bool := option_eqb task_eqb.

(* [l'] is [l] with [t] inserted at some position *)
Fixpoint is_insertion (t : task) (l l' : list task) : bool :=
  match l' with
  | [] => false
  | y :: r' =>
      (task_eqb y t && tasks_eqb r' l) ||
      match l with
      | [] => false
      | x :: r => task_eqb x y && is_insertion t r r'
      end
  end.

(* multiset equality and order preservation, used when the anchor of after-tasks is
   gone: nothing lost, nothing invented, the old tasks keep their relative order *)
Definition count_task (x : task) (l : list task) : nat :=
  length (filter (task_eqb x) l).
Definition same_multiset (m r : list task) : bool :=
  forallb (fun x => Nat.eqb (count_task x m) (count_task x r)) (m ++ r).
Fixpoint subseq (l m : list task) : bool :=
  match l, m with
  | [], _ => true
  | _ :: _, [] => false
  | x :: l', y :: m' => if task_eqb x y then subseq l' m' else subseq l m'
  end.
(* [m] is [l] with every task of [a] inserted somewhere (any positions, any order) *)
Definition multi_ins (a l m : list task) : bool :=
  same_multiset m (a ++ l) && subseq l m.

(* strip a given prefix / suffix *)
Fixpoint strip_prefix (h l : list task) : option (list task) :=
  match h, l with
  | [], _ => Some l
  | x :: h', y :: l' => if task_eqb x y then strip_prefix h' l' else None
  | _ :: _, [] => None
  end.
Definition strip_suffix (t l : list task) : option (list task) :=
  match strip_prefix (rev t) (rev l) with Some r => Some (rev r) | None => None end.

(* ---- the per-operation rule of an ordinary list ---- *)

Definition spec_simple (l : list task) (running : option task) (o : op)
           (l' : list task) (ret : option task) : bool :=
  match o with
  | FilterDuring _ _ => false            (* not a simple operation: see spec_ok *)
  | AddFirst t => tasks_eqb l' (t :: l) && otask_eqb ret None
  | AddLast t => tasks_eqb l' (l ++ [t]) && otask_eqb ret None
  | AddAfter id t =>
      otask_eqb ret None &&
      match split_id id l with
      | Some (a, x, b) => tasks_eqb l' (a ++ x :: t :: b)
      | None => is_insertion t l l'          (* anchor absent: the task must not be lost *)
      end
  | AddBefore id t =>
      otask_eqb ret None &&
      match split_id id l with
      | Some (a, x, b) => tasks_eqb l' (a ++ t :: x :: b)
      | None => is_insertion t l l'
      end
  | Remove id =>
      match split_id id l with
      | Some (a, x, b) => tasks_eqb l' (a ++ b) && otask_eqb ret (Some x)
      | None => tasks_eqb l' l && otask_eqb ret None
      end
  | RemoveFirst =>
      match l with
      | [] => tasks_eqb l' [] && otask_eqb ret None
      | x :: r => tasks_eqb l' r && otask_eqb ret (Some x)
      end
  | RemoveLast =>
      match rev l with
      | [] => tasks_eqb l' [] && otask_eqb ret None
      | x :: r => tasks_eqb l' (rev r) && otask_eqb ret (Some x)
      end
  | Filter keep =>
      tasks_eqb l' (filter (fun x => mem_N (tid x) keep) l) && otask_eqb ret None
  | Start => tasks_eqb l' l && otask_eqb ret None
  | Return st h a t =>
      otask_eqb ret None &&
      match running with
      | None => tasks_eqb l' l
      | Some p =>
          match st with
          | Fail | Repeat => tasks_eqb l' l        (* failed / repeated task keeps its place *)
          | Success | Keep =>
              match split_task p l with
              | Some (l1, l2) =>
                  match st with
                  | Success => tasks_eqb l' (h ++ l1 ++ a ++ l2 ++ t)   (* removed exactly once *)
                  | _ => tasks_eqb l' (h ++ l1 ++ p :: a ++ l2 ++ t)    (* kept in place *)
                  end
              | None =>
                  (* the handled task was removed meanwhile: nothing else is removed,
                     after-tasks are not lost *)
                  match strip_prefix h l' with
                  | Some r => match strip_suffix t r with
                              | Some m => multi_ins a l m
                              | None => false
                              end
                  | None => false
                  end
              end
          end
      end
  end.

(* an operation issued by another goroutine while a Filter is in progress happens after it:
   every operation of the queue is atomic *)
Definition spec_ok (l : list task) (running : option task) (o : op)
           (l' : list task) (ret : option task) : bool :=
  match o with
  | FilterDuring keep c => spec_simple (filter (fun x => mem_N (tid x) keep) l) running (to_op c) l' ret
  | _ => spec_simple l running o l' ret
  end.

(* ---- an observation describes a proper list ---- *)

Fixpoint all_some (l : list (option task)) : option (list task) :=
  match l with
  | [] => Some []
  | Some x :: r => match all_some r with Some r' => Some (x :: r') | None => None end
  | None :: _ => None
  end.

Definition find_id (id : N) (l : list task) : option task :=
  match split_id id l with Some (_, x, _) => Some x | None => None end.

Definition obs_wellformed (o : obs) : option (list task) :=
  if o_crash o then None else
  match all_some (o_items o) with
  | None => None                                            (* an empty slot *)
  | Some l =>
      if N.eqb (o_len o) (N.of_nat (length l))              (* length = number of tasks *)
         && otask_eqb (o_first o) (hd_error l)
         && otask_eqb (o_last o) (hd_error (rev l))
         && list_eqb otask_eqb (o_gets o) (map (fun id => find_id id l) probe_ids)
      then Some l else None
  end.

(* P: every observation is a proper list and follows from the previous one by the
   ordinary-list rule.  The spec state is threaded through the observations. *)
Fixpoint P_from (l : list task) (running : option task) (ops : list op) (os : list obs) : bool :=
  match ops, os with
  | [], [] => true
  | o :: ops', ob :: os' =>
      match obs_wellformed ob with
      | None => false
      | Some l' => spec_ok l running o l' (o_ret ob) && P_from l' (o_running ob) ops' os'
      end
  | _, _ => false
  end.

Definition P (ops : list op) (os : list obs) : bool := P_from [] None ops os.

(* ---- trigger predicate of the known finding F14 ----
   A handler returns Success (or Keep with after-tasks) while the first task in the
   queue that carries the handled task's id is a *different* task (a duplicate id
   placed ahead of it, or the handled task removed and a namesake present): the code
   works by id, hence on the namesake.  Degenerate variant: the handled task is gone,
   no namesake is queued, and a Success result carries an after-task with the handled
   task's own id: it is inserted and then removed by remove(id). *)
Definition trigger_step (s : state) (o : op) : bool :=
  match o, running s with
  | Return st _ a _, Some p =>
      match st with
      | Fail | Repeat => false
      | Success | Keep =>
          match find_id (tid p) (items s) with
          | Some q => negb (task_eqb q p)
                      && match st with Success => true | _ => negb (match a with [] => true | _ => false end) end
          | None => existsb (fun x => N.eqb (tid x) (tid p)) a
                    && match st with Success => true | _ => false end
          end
      end
  | _, _ => false
  end.

Fixpoint T_from (s : state) (ops : list op) : bool :=
  match ops with
  | [] => false
  | o :: r => trigger_step s o || T_from (fst (step s o)) r
  end.

Definition T (ops : list op) : bool := T_from init ops.

(* ---- observers overlapping operations of another goroutine ----
   "The queue holds exactly the tasks an ordinary list would hold, in the same order": what an
   observer is SHOWN must be a list the queue really held at some moment between the observer's
   start and its end.  For an Iterate that overlaps the operations c1..ck of another goroutine
   (ordinary list before: l0, after: lk, both observed), the reported walk [w] must be one of
   the k+1 lists l0, l1, .., lk where every l(i) follows from l(i-1) by the ordinary-list rule
   of c(i) (spec_ok) - never a mixture.  The intermediate lists are not observed; they are
   searched for in the finite set of lists that differ from the previous one by one insertion
   of the operation's task, one deletion, or the operation's filter ([universe]; spec_ok judges). *)

Fixpoint all_ins (t : task) (l : list task) : list (list task) :=
  match l with
  | [] => [[t]]
  | x :: r => (t :: l) :: map (cons x) (all_ins t r)
  end.

Fixpoint all_dels (l : list task) : list (list task) :=
  match l with
  | [] => []
  | x :: r => r :: map (cons x) (all_dels r)
  end.

Definition universe (l : list task) (o : op) : list (list task) :=
  match o with
  | AddFirst t | AddLast t | AddAfter _ t | AddBefore _ t => all_ins t l
  | Remove _ | RemoveFirst | RemoveLast => l :: all_dels l
  | Filter keep => [filter (fun x => mem_N (tid x) keep) l]
  | _ => [l]
  end.

(* operations whose effect does not depend on the worker (they neither start it nor let a
   handler return) *)
Definition chain_mid_ok (o : op) : bool :=
  match o with
  | AddFirst _ | AddLast _ | AddAfter _ _ | AddBefore _ _
  | Remove _ | RemoveFirst | RemoveLast | Filter _ => true
  | _ => false
  end.

Definition is_return (o : op) : bool := match o with Return _ _ _ _ => true | _ => false end.
Definition is_some_task (o : option task) : bool := match o with Some _ => true | None => false end.

(* the overlapping operations this clause speaks about: any number of worker-independent
   operations, optionally ended by the return of the handler that is in progress (a single
   Return is always allowed) *)
Definition chain_wf (running : option task) (cs : list op) : bool :=
  forallb chain_mid_ok (removelast cs) &&
  match rev cs with
  | [] => true
  | o :: r => chain_mid_ok o ||
              (is_return o && (match r with [] => true | _ => false end || is_some_task running))
  end.

Fixpoint chain_ok (running : option task) (w : list task) (seen : bool) (l : list task)
         (cs : list op) (rs : list (option task)) (l' : list task) : bool :=
  match cs, rs with
  | [], [] => tasks_eqb l l' && (seen || tasks_eqb w l)
  | o :: cs', r :: rs' =>
      let seen1 := seen || tasks_eqb w l in
      match cs' with
      | [] => spec_ok l running o l' r && (seen1 || tasks_eqb w l')
              && match rs' with [] => true | _ => false end
      | _ => existsb (fun m => spec_ok l running o m r && chain_ok running w seen1 m cs' rs' l')
                     (universe l o)
      end
  | _, _ => false
  end.

Definition xspec_ok (l : list task) (running : option task) (x : xop) (ob : xobs) (l' : list task) : bool :=
  match x with
  | Plain o =>
      spec_ok l running o l' (o_ret (x_obs ob))
      && match x_walk ob, x_rets ob with [], [] => true | _, _ => false end
  | IterateDuring _ cs =>
      match all_some (x_walk ob) with
      | None => false                                   (* the walk showed an empty slot *)
      | Some w =>
          chain_wf running cs
          && chain_ok running w false l cs (x_rets ob) l'
          && otask_eqb (o_ret (x_obs ob)) None
      end
  end.

(* XP: P, with the observers.  Length() / GetFirst() / GetLast() / Get() after the walk are
   judged by obs_wellformed against the list after the last operation. *)
Fixpoint XP_from (l : list task) (running : option task) (xs : list xop) (os : list xobs) : bool :=
  match xs, os with
  | [], [] => true
  | x :: xs', ob :: os' =>
      match obs_wellformed (x_obs ob) with
      | None => false
      | Some l' => xspec_ok l running x ob l' && XP_from l' (o_running (x_obs ob)) xs' os'
      end
  | _, _ => false
  end.

Definition XP (xs : list xop) (os : list xobs) : bool := XP_from [] None xs os.

(* trigger of F14 and the domain of the observer clause, along the model's states *)
Definition xstate_after (s : state) (x : xop) : state := fst (xstep s x).

Fixpoint XT_from (s : state) (xs : list xop) : bool :=
  match xs with
  | [] => false
  | x :: r =>
      match x with Plain o => trigger_step s o | IterateDuring _ cs => T_from s cs end
      || XT_from (xstate_after s x) r
  end.
Definition XT (xs : list xop) : bool := XT_from init xs.

Fixpoint XWF_from (s : state) (xs : list xop) : bool :=
  match xs with
  | [] => true
  | x :: r =>
      match x with Plain _ => true | IterateDuring _ cs => chain_wf (running s) cs end
      && XWF_from (xstate_after s x) r
  end.
Definition XWF (xs : list xop) : bool := XWF_from init xs.
