(* C12_PlaceProofs.v — the working directory of a hook is the directory it was found in, for ALL trees *)
From Verif Require Import Common C12_PlaceModel C12_PlaceSpec.
Open Scope N_scope.

Section GoLemmas.
  Variable s : tfs.
  Variable follow : N -> bool -> list comp -> option rnode.

  (* a path in two pieces: the second piece starts where the first one ends *)
  Lemma go_app : forall p q cur,
    go s follow cur (p ++ q) =
    match go s follow cur p with
    | Some (RDir d) => go s follow d q
    | Some (RFile x i) => match q with [] => Some (RFile x i) | _ => None end
    | None => None
    end.
  Proof.
    induction p as [|c p IH]; intros q cur.
    - reflexivity.
    - destruct c as [n|].
      + cbn [app go]. destruct (entry s cur n) as [[x i|d|ab t]|].
        * destruct p as [|c' p']; [destruct q; reflexivity|reflexivity].
        * apply IH.
        * destruct (follow cur ab t) as [[d|x i]|].
          -- apply IH.
          -- destruct p as [|c' p']; [destruct q; reflexivity|reflexivity].
          -- reflexivity.
        * reflexivity.
      + cbn [app go]. apply IH.
  Qed.

  (* descending through real directories is a walk that follows no link *)
  Lemma go_descend : forall ns r d,
    descend s r ns = Some d -> go s follow r (names ns) = Some (RDir d).
  Proof.
    induction ns as [|n ns IH]; intros r d H.
    - cbn in H. injection H as <-. reflexivity.
    - cbn [descend] in H. cbn [names map go]. destruct (entry s r n) as [[x i|d'|ab t]|]; try discriminate.
      apply IH. exact H.
  Qed.
End GoLemmas.

Lemma resolve_from_unfold : forall k s cur cs,
  resolve_from k s cur cs =
  go s (fun c abs t => match k with O => None | S k' => resolve_from k' s (if abs then 0 else c) t end) cur cs.
Proof. destruct k; reflexivity. Qed.

Lemma names_app : forall a b, names (a ++ b) = names a ++ names b.
Proof. intros. apply map_app. Qed.

(* the hooks root resolves to r (through links or not), the directories below are real: the path of the
   directory resolves to the directory *)
Lemma resolve_root_descend : forall s R r ns d,
  resolve s R = Some (RDir r) -> descend s r ns = Some d -> resolve s (R ++ ns) = Some (RDir d).
Proof.
  intros s R r ns d HR HD. unfold resolve in *. rewrite names_app.
  rewrite resolve_from_unfold in *. rewrite go_app. rewrite HR. apply go_descend. exact HD.
Qed.

Lemma dir_part_last : forall p n, dir_part (p ++ [n]) = p.
Proof. intros. unfold dir_part. apply removelast_last. Qed.

(* the model: a started hook runs in what the directory part of its path resolves to *)
Lemma launch_cwd : forall s p, l_started (launch s p) = true -> resolve s (dir_part p) = Some (RDir (l_cwd (launch s p))).
Proof.
  intros s p. unfold launch. destruct (resolve s (dir_part p)) as [[d|x i]|]; try discriminate.
  destruct (resolve s p) as [[d'|[|] i]|]; try discriminate. reflexivity.
Qed.

Lemma launch_started_iff : forall s p,
  l_started (launch s p) = true <->
  (exists d i, resolve s (dir_part p) = Some (RDir d) /\ resolve s p = Some (RFile true i)).
Proof.
  intros s p. unfold launch. split.
  - destruct (resolve s (dir_part p)) as [[d|x i]|]; try discriminate.
    destruct (resolve s p) as [[d'|[|] i]|]; try discriminate. intros _. exists d, i. split; reflexivity.
  - intros [d [i [H1 H2]]]. rewrite H1, H2. reflexivity.
Qed.

Lemma launch_argv0 : forall s p, l_started (launch s p) = true -> l_argv0 (launch s p) = p.
Proof.
  intros s p. unfold launch. destruct (resolve s (dir_part p)) as [[d|x i]|]; try discriminate.
  destruct (resolve s p) as [[d'|[|] i]|]; try discriminate. reflexivity.
Qed.

(* THE theorem: whatever the entry [n] of the directory is bound to *)
Theorem place_cwd_is_own_dir : forall s R r ns d n,
  resolve s R = Some (RDir r) -> descend s r ns = Some d ->
  l_started (launch s (R ++ ns ++ [n])) = true ->
  l_cwd (launch s (R ++ ns ++ [n])) = d.
Proof.
  intros s R r ns d n HR HD HS. apply launch_cwd in HS.
  rewrite app_assoc in HS. rewrite dir_part_last in HS.
  rewrite (resolve_root_descend s R r ns d HR HD) in HS. injection HS as HS. rewrite app_assoc. symmetry. exact HS.
Qed.

(* the link's target plays no role: two trees that differ ONLY in what the hook's entry is bound to -
   more generally, any two trees in which the directory part resolves alike *)
Theorem place_cwd_target_irrelevant : forall s s' R r r' ns d n,
  resolve s R = Some (RDir r) -> descend s r ns = Some d ->
  resolve s' R = Some (RDir r') -> descend s' r' ns = Some d ->
  l_started (launch s (R ++ ns ++ [n])) = true -> l_started (launch s' (R ++ ns ++ [n])) = true ->
  l_cwd (launch s (R ++ ns ++ [n])) = l_cwd (launch s' (R ++ ns ++ [n])).
Proof.
  intros s s' R r r' ns d n H1 H2 H3 H4 H5 H6.
  rewrite (place_cwd_is_own_dir s R r ns d n H1 H2 H5), (place_cwd_is_own_dir s' R r' ns d n H3 H4 H6). reflexivity.
Qed.

(* two hooks in different directories linked to ONE shared script run in different directories *)
Theorem place_shared_script_own_dirs : forall s R r ns1 ns2 d1 d2 n1 n2,
  resolve s R = Some (RDir r) -> descend s r ns1 = Some d1 -> descend s r ns2 = Some d2 -> d1 <> d2 ->
  l_started (launch s (R ++ ns1 ++ [n1])) = true -> l_started (launch s (R ++ ns2 ++ [n2])) = true ->
  l_cwd (launch s (R ++ ns1 ++ [n1])) <> l_cwd (launch s (R ++ ns2 ++ [n2])).
Proof.
  intros s R r ns1 ns2 d1 d2 n1 n2 HR H1 H2 Hne S1 S2.
  rewrite (place_cwd_is_own_dir s R r ns1 d1 n1 HR H1 S1), (place_cwd_is_own_dir s R r ns2 d2 n2 HR H2 S2). exact Hne.
Qed.

(* the model's observation of one hook *)
Definition model_pobs_of (i : pinput) (rel : list N) : pobs1 :=
  let l := model_place i rel in
  mkPO rel (l_started l) (l_argv0 l) (l_program l) (l_cwd l) (model_settings i rel) (negb (l_started l)) 0.

Lemma optN_eqb_refl : forall a, optN_eqb a a = true.
Proof. destruct a; cbn; [apply N.eqb_refl|reflexivity]. Qed.

Lemma rel_split : forall rel : list N, rel <> [] -> rel = removelast rel ++ [last rel 0].
Proof. intros rel H. apply app_removelast_last. exact H. Qed.

(* the model satisfies the predicate for every tree and every hook of the tree *)
Theorem place_model_P : forall i rel d,
  rel <> [] -> own_dir i rel = Some d -> P_place1 i (model_pobs_of i rel) = true.
Proof.
  intros i rel d Hne Hown. unfold P_place1. cbn [model_pobs_of po_rel po_started po_cwd po_settings po_failed po_tmp_after].
  rewrite Hown. rewrite N.eqb_refl, Bool.andb_true_r.
  destruct (l_started (model_place i rel)) eqn:HS; [|reflexivity].
  unfold own_dir, hooks_root_dir in Hown.
  destruct (resolve (pi_fs i) (pi_root i)) as [[r|x k]|] eqn:HR; try discriminate.
  assert (Hcwd : l_cwd (model_place i rel) = d).
  { unfold model_place, hook_path in *. rewrite (rel_split rel Hne) in HS |- *.
    apply (place_cwd_is_own_dir (pi_fs i) (pi_root i) r (removelast rel) d (last rel 0) HR Hown HS). }
  unfold model_settings. rewrite HS, Hcwd, N.eqb_refl, optN_eqb_refl. reflexivity.
Qed.

(* what a walk through real directories finds has an own directory *)
Lemma found_has_own_dir : forall k s d rel,
  In rel (found k s d) -> rel <> [] /\ exists d', descend s d (removelast rel) = Some d'.
Proof.
  induction k as [|k IH]; intros s d rel H; [destruct H|].
  cbn [found] in H. apply in_flat_map in H. destruct H as [e [_ H]].
  destruct (fst (fst e) =? d); [|destruct H].
  destruct (entry s d (snd (fst e))) as [[x i|sub|ab t]|] eqn:HE.
  - destruct H as [<-|[]]. split; [discriminate|]. exists d. reflexivity.
  - apply in_map_iff in H. destruct H as [rel' [<- H]]. apply IH in H. destruct H as [Hne [d' HD]].
    split; [discriminate|]. exists d'.
    destruct rel' as [|a rel']; [contradiction|].
    change (removelast (snd (fst e) :: a :: rel')) with (snd (fst e) :: removelast (a :: rel')).
    cbn [descend]. rewrite HE. exact HD.
  - destruct H as [<-|[]]. split; [discriminate|]. exists d. reflexivity.
  - destruct H.
Qed.

(* no hypothesis about the hook left: every hook a walk below the hooks root can find *)
Theorem place_found_model_P : forall k i r rel,
  hooks_root_dir i = Some r -> In rel (found k (pi_fs i) r) -> P_place1 i (model_pobs_of i rel) = true.
Proof.
  intros k i r rel HR H. apply found_has_own_dir in H. destruct H as [Hne [d HD]].
  apply (place_model_P i rel d Hne). unfold own_dir. rewrite HR. exact HD.
Qed.

(* the same for the model's observation as the correspondence builds it (C12_Corr.model_pobs) *)
From Verif Require C12_Corr.
Lemma place_corr_model_P : forall i o d,
  po_rel o <> [] -> own_dir i (po_rel o) = Some d -> P_place1 i (C12_Corr.model_pobs i o) = true.
Proof. intros i o d H1 H2. exact (place_model_P i (po_rel o) d H1 H2). Qed.

Lemma place_corr_agrees_model : forall i o, C12_Corr.agrees_place1 i (C12_Corr.model_pobs i o) = true.
Proof.
  intros i o. unfold C12_Corr.agrees_place1. cbn [C12_Corr.model_pobs po_rel po_started po_failed po_tmp_after po_argv0 po_program po_cwd po_settings].
  rewrite !Bool.eqb_reflx, !N.eqb_refl, optN_eqb_refl, (list_eqb_refl N.eqb N.eqb_refl).
  destruct (l_started (model_place i (po_rel o))); reflexivity.
Qed.

Lemma place_corr_found_model_P : forall k i r o,
  hooks_root_dir i = Some r -> In (po_rel o) (found k (pi_fs i) r) -> P_place1 i (C12_Corr.model_pobs i o) = true.
Proof. intros k i r o HR H. exact (place_found_model_P k i r (po_rel o) HR H). Qed.
