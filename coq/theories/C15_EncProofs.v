(* C15_EncProofs.v — the handler over encoded hook outputs (C15_EncModel) meets C15_EncSpec.P_enc for
   ALL chains, outcomes and lists of elements: induction over the list (extraction) and over the chain. *)
From Coq Require Import Lia.
From Verif Require Import Common C15_Model C15_Spec C15_Proofs C15_EncModel C15_EncSpec.

Lemma astr_eqb_eq a b : astr_eqb a b = true <-> a = b.
Proof.
  destruct a as [v| |k v], b as [w| |j w]; cbn [astr_eqb]; try (split; [discriminate | discriminate]).
  - rewrite version_eqb_eq. split; [now intros -> | now intros [= ->]].
  - split; reflexivity.
  - rewrite andb_true_iff, N.eqb_eq, version_eqb_eq. split; [now intros [-> ->] | now intros [= -> ->]].
Qed.
Lemma astr_eqb_refl a : astr_eqb a a = true.
Proof. now apply astr_eqb_eq. Qed.

Lemma eobj_eqb_refl o : eobj_eqb o o = true.
Proof.
  destruct o as [i [s| | |k]| |k]; cbn [eobj_eqb afield_eqb]; rewrite ?N.eqb_refl; try reflexivity.
  destruct s as [v| |k v]; cbn [sver_eqb]; rewrite ?N.eqb_refl, ?version_eqb_refl; reflexivity.
Qed.
Lemma eobjs_eqb_refl l : eobjs_eqb l l = true.
Proof. apply list_eqb_refl, eobj_eqb_refl. Qed.

(* ---------------------------------------------------------------- one decoding per object *)

(* the decoded apiVersion is the desired one exactly for the elements that ARE at the desired version *)
Lemma api_version_at_desired desired o :
  astr_eqb (api_version o) (SVer desired) = at_desired desired o.
Proof.
  destruct o as [i [s| | |k]| |k]; cbn [api_version unmarshal_into at_desired astr_eqb]; try reflexivity.
Qed.

(* a fresh decoding never depends on another element *)
Lemma api_version_own o : forall prev, (exists i s, o = EObj i (AStr s)) -> unmarshal_into prev o = api_version o.
Proof. intros prev (i & s & ->). reflexivity. Qed.

Lemma extract_e_from_seen seen objs :
  (forall o, In o objs -> In (api_version o) seen) -> extract_e_from seen objs = [].
Proof.
  induction objs as [|o objs IH]; intros H; cbn [extract_e_from]; [reflexivity|].
  assert (existsb (astr_eqb (api_version o)) seen = true) as ->.
  { apply existsb_exists. exists (api_version o). split; [apply H; now left | apply astr_eqb_refl]. }
  apply IH. intros x Hx. apply H. now right.
Qed.

Lemma extract_e_from_all objs : forall seen o, In o objs ->
  In (api_version o) seen \/ In (api_version o) (extract_e_from seen objs).
Proof.
  induction objs as [|x objs IH]; intros seen o Ho; [destruct Ho|]. cbn [extract_e_from].
  destruct (existsb (astr_eqb (api_version x)) seen) eqn:E.
  - destruct Ho as [-> | Ho]; [|now apply IH].
    left. apply existsb_exists in E. destruct E as (v & Hv & Ev). apply astr_eqb_eq in Ev. now subst.
  - destruct Ho as [-> | Ho]; [right; now left|].
    destruct (IH (api_version x :: seen) o Ho) as [[<- | H] | H]; [right; now left | now left | right; now right].
Qed.

(* the handler's test "all objects are at the desired version" is the per-element statement, for every list *)
Lemma is_done_e_all_at desired objs : is_done_e desired objs = all_at_e desired objs.
Proof.
  unfold is_done_e, all_at_e, extract_e. destruct objs as [|o objs]; [reflexivity|].
  destruct (forallb (at_desired desired) (o :: objs)) eqn:E.
  - rewrite forallb_forall in E. cbn [extract_e_from existsb].
    assert (forall x, In x (o :: objs) -> api_version x = SVer desired) as Hall.
    { intros x Hx. apply astr_eqb_eq. rewrite api_version_at_desired. now apply E. }
    rewrite extract_e_from_seen.
    + rewrite (Hall o (or_introl eq_refl)). apply astr_eqb_refl.
    + intros x Hx. left. rewrite (Hall o (or_introl eq_refl)). symmetry. apply Hall. now right.
  - destruct (extract_e_from [] (o :: objs)) as [|v [|v' l]] eqn:Ex; try reflexivity.
    destruct (astr_eqb v (SVer desired)) eqn:Ev; [|reflexivity]. apply astr_eqb_eq in Ev. subst v.
    rewrite <- E. symmetry. apply forallb_forall. intros x Hx.
    destruct (extract_e_from_all (o :: objs) [] x Hx) as [[] | H]. rewrite Ex in H.
    destruct H as [H | []]. rewrite <- api_version_at_desired, <- H. apply astr_eqb_refl.
Qed.

Theorem done_iff_every_element desired objs :
  is_done_e desired objs = true <-> objs <> [] /\ forall o, In o objs -> at_desired desired o = true.
Proof.
  rewrite is_done_e_all_at. unfold all_at_e. destruct objs as [|o objs].
  - split; [discriminate | intros [H _]; now contradiction H].
  - rewrite forallb_forall. split; [intros H; split; [discriminate | exact H] | intros [_ H]; exact H].
Qed.

(* ---------------------------------------------------------------- the loop over the chain *)

Lemma last_out_e_cons outs i t : t <> [] -> last_out_e outs (i :: t) = last_out_e (tl outs) t.
Proof.
  intros Hne. unfold last_out_e. cbn [length]. destruct t as [|j t]; [now contradiction Hne|].
  cbn [length]. rewrite !Nat.sub_succ, !Nat.sub_0_r. apply nth_tl.
Qed.

Definition estop_ok (desired : version) (chain : list rule) (outs : list eoutcome)
           (t : list einvocation) (s : estop) : Prop :=
  match s with
  | EStFailed m =>
    match last_out_e outs t with
    | EExitFail | EBadResponse => m = MHookFailed
    | ENoResponse => m = MPropError
    | EResp (c :: x) _ => m = MHook (c :: x)
    | EResp [] _ => False
    end
  | EStDone o => last_out_e outs t = EResp [] o /\ is_done_e desired o = true
  | EStNotDone => exists o, last_out_e outs t = EResp [] o /\ is_done_e desired o = false
                            /\ length t = length chain
  end.

Lemma steps_e_spec desired : forall chain outs objs t s,
  steps_e desired chain outs objs = (t, s) ->
  map fst t = firstn (length t) chain
  /\ feeds_e objs outs t = true
  /\ (chain <> [] -> t <> [])
  /\ (t = [] -> s = EStNotDone /\ chain = [])
  /\ (t <> [] ->
      (forall k, S k < length t -> exists o, nth k outs EExitFail = EResp [] o /\ is_done_e desired o = false)
      /\ estop_ok desired chain outs t s).
Proof.
  pose proof eobjs_eqb_refl as Hrefl.
  induction chain as [|r rest IH]; intros outs objs t s E; cbn [steps_e] in E.
  - inversion E; subst. split; [reflexivity|]. split; [reflexivity|]. split; [intros H; now contradiction H|].
    split; [intros _; now split | intros H; now contradiction H].
  - assert (forall m, (t, s) = ([(r, objs)], EStFailed m) ->
              match hd EExitFail outs with
              | EExitFail | EBadResponse => m = MHookFailed
              | ENoResponse => m = MPropError
              | EResp (c :: x) _ => m = MHook (c :: x)
              | EResp [] _ => False end ->
              map fst t = firstn (length t) (r :: rest) /\ feeds_e objs outs t = true
              /\ (r :: rest <> [] -> t <> []) /\ (t = [] -> s = EStNotDone /\ r :: rest = [])
              /\ (t <> [] -> (forall k, S k < length t -> exists o, nth k outs EExitFail = EResp [] o /\ is_done_e desired o = false)
                             /\ estop_ok desired (r :: rest) outs t s)) as Gfail.
    { intros m E' Hm. inversion E'; subst. cbn [map fst length firstn feeds_e]. rewrite Hrefl.
      repeat split; try discriminate.
      - intros k Hk. cbn in Hk. lia.
      - unfold estop_ok, last_out_e. cbn [length Nat.sub]. rewrite <- hd_nth. exact Hm. }
    destruct (hd EExitFail outs) as [| | |[|c m] objs'] eqn:Eh.
    5: { apply (Gfail (MHook (c :: m))); [now symmetry | reflexivity]. }
    + apply (Gfail MHookFailed); [now symmetry | reflexivity].
    + apply (Gfail MHookFailed); [now symmetry | reflexivity].
    + apply (Gfail MPropError); [now symmetry | reflexivity].
    + destruct (is_done_e desired objs') eqn:Ed.
      * inversion E; subst. cbn [map fst length firstn feeds_e]. rewrite Hrefl.
        repeat split; try discriminate.
        -- intros k Hk. cbn in Hk. lia.
        -- unfold last_out_e. cbn [length Nat.sub]. now rewrite <- hd_nth.
        -- assumption.
      * destruct (steps_e desired rest (tl outs) objs') as [t' s'] eqn:Es. inversion E; subst.
        destruct (IH _ _ _ _ Es) as (H1 & H2 & H3 & H4 & H5).
        cbn [map fst length firstn]. rewrite H1.
        split; [reflexivity|]. split.
        { cbn [feeds_e]. rewrite Hrefl. cbn [andb]. destruct t' as [|i t']; [reflexivity|].
          rewrite Eh. cbn [ok_out_e]. exact H2. }
        split; [discriminate|]. split; [discriminate|]. intros _.
        destruct t' as [|i t'].
        { destruct (H4 eq_refl) as [-> ->]. split.
          - intros k Hk. cbn in Hk. lia.
          - cbn [estop_ok]. exists objs'. unfold last_out_e. cbn [length Nat.sub]. rewrite <- hd_nth.
            repeat split; assumption. }
        destruct (H5 ltac:(discriminate)) as [Hall Hstop]. split.
        { intros k Hk. destruct k as [|k].
          - exists objs'. rewrite <- hd_nth. now split.
          - rewrite nth_tl. apply Hall. cbn [length] in *. lia. }
        unfold estop_ok in *. rewrite last_out_e_cons by discriminate.
        destruct s as [m | o | ]; [exact Hstop | exact Hstop |].
        destruct Hstop as (o & Ho1 & Ho2 & Ho3). exists o. repeat split; try assumption.
        cbn [length] in *. lia.
Qed.

Lemma extract_e_nonempty o req : extract_e (o :: req) <> [].
Proof. unfold extract_e. cbn [extract_e_from existsb]. discriminate. Qed.

(* what serve_e answers, read off the loop's result *)
Definition answer_of (dtext : bytes) (req : list eobj) (s : estop) : ereview :=
  match s with
  | EStFailed m => ERFailure (msg_text dtext m)
  | EStNotDone => ERFailure (msg_text dtext MNotSuccessful)
  | EStDone objs => if N.eqb (N.of_nat (length req)) (N.of_nat (length objs)) then ERSuccess objs
                    else ERFailure (msg_text [] (MCount (N.of_nat (length objs)) (N.of_nat (length req))))
  end.

Lemma steps_e_failed_msg desired chain outs req t m : steps_e desired chain outs req = (t, EStFailed m) ->
  m = MHookFailed \/ m = MPropError \/ exists c x, m = MHook (c :: x).
Proof.
  intros Es. destruct (steps_e_spec _ _ _ _ _ _ Es) as (_ & _ & _ & H4 & H5).
  assert (t <> []) as Hne by (intros ->; destruct (H4 eq_refl); discriminate).
  destruct (H5 Hne) as [_ Hstop]. unfold estop_ok in Hstop.
  destruct (last_out_e outs t) as [| | |[|c x] objs'].
  - now left.
  - now left.
  - right. now left.
  - destruct Hstop.
  - right. right. now exists c, x.
Qed.

Lemma serve_e_cases dtext desired chain outs req t r : serve_e dtext desired chain outs req = (t, r) ->
  (req = [] /\ t = [] /\ r = ERFailure (msg_text dtext MNotSuccessful))
  \/ (req <> [] /\ exists s, steps_e desired chain outs req = (t, s) /\ r = answer_of dtext req s).
Proof.
  unfold serve_e, event_handler_e. destruct req as [|o req].
  - cbn. intros E; inversion E. left. repeat split.
  - destruct (extract_e (o :: req)) as [|v vs] eqn:Ex; [now apply extract_e_nonempty in Ex|].
    intros E. right. split; [discriminate|].
    destruct (steps_e desired chain outs (o :: req)) as [t' s] eqn:Es. exists s.
    destruct s as [m | objs |].
    + destruct (steps_e_failed_msg _ _ _ _ _ _ Es) as [-> | [-> | (c & x & ->)]]; inversion E; subst; split; reflexivity.
    + inversion E; subst. split; reflexivity.
    + inversion E; subst. split; reflexivity.
Qed.

Theorem serve_e_meets_spec dtext desired chain outs req t r :
  serve_e dtext desired chain outs req = (t, r) -> P_enc desired chain outs req t r = true.
Proof.
  intros E. apply serve_e_cases in E. destruct E as [(-> & -> & ->) | (Hreq & s & Es & ->)].
  - unfold P_enc, in_order_e, runs_to_end_e, verdict_ok_e. cbn. destruct chain; reflexivity.
  - destruct (steps_e_spec _ _ _ _ _ _ Es) as (Hord & Hfeeds & H3 & H4 & H5).
    unfold P_enc. rewrite Hfeeds. unfold in_order_e. rewrite Hord, list_eqb_rule_refl. cbn [andb].
    destruct t as [|i t'].
    + destruct (H4 eq_refl) as [-> ->]. unfold runs_to_end_e, verdict_ok_e. cbn [answer_of]. destruct req; reflexivity.
    + destruct (H5 ltac:(discriminate)) as [_ Hstop]. unfold estop_ok in Hstop.
      unfold runs_to_end_e, verdict_ok_e.
      assert (nonempty (i :: t') = true) as -> by reflexivity.
      assert ((match chain with [] => true | _ :: _ => match req with [] => true | _ :: _ => true end end) = true) as ->
          by (destruct chain, req; reflexivity).
      rewrite andb_true_r.
      destruct s as [m | o |].
      * cbn [answer_of]. destruct (last_out_e outs (i :: t')) as [| | |[|c x] objs'] eqn:El.
        -- reflexivity.
        -- reflexivity.
        -- reflexivity.
        -- destruct Hstop.
        -- subst m. cbn [msg_text andb]. apply bytes_eqb_eq. reflexivity.
      * destruct Hstop as [-> Hd]. rewrite is_done_e_all_at in Hd. rewrite Hd. cbn [orb andb].
        cbn [answer_of]. destruct (N.eqb (N.of_nat (length req)) (N.of_nat (length o))) eqn:Ec.
        -- rewrite eobjs_eqb_refl, Hd. apply N.eqb_eq in Ec. rewrite <- Ec, N.eqb_refl. reflexivity.
        -- rewrite N.eqb_sym, Ec. reflexivity.
      * destruct Hstop as (o & -> & Hd & Hlen). rewrite is_done_e_all_at in Hd. cbn [answer_of].
        rewrite Hd, Hlen, Nat.eqb_refl. reflexivity.
Qed.

(* Success only with every element at the desired version *)
Theorem success_every_element dtext desired chain outs req t objs :
  serve_e dtext desired chain outs req = (t, ERSuccess objs) ->
  length objs = length req /\ forall o, In o objs -> at_desired desired o = true.
Proof.
  intros E. apply serve_e_cases in E. destruct E as [(_ & _ & E) | (Hreq & s & Es & E)]; [discriminate|].
  destruct s as [m | o |]; cbn [answer_of] in E; try discriminate.
  destruct (N.eqb (N.of_nat (length req)) (N.of_nat (length o))) eqn:Ec; [|discriminate].
  inversion E; subst o. apply N.eqb_eq, Nat2N.inj in Ec.
  destruct (steps_e_spec _ _ _ _ _ _ Es) as (_ & _ & _ & H4 & H5).
  assert (t <> []) as Hne by (intros ->; destruct (H4 eq_refl); discriminate).
  destruct (H5 Hne) as [_ [_ Hd]]. apply done_iff_every_element in Hd. split; [now symmetry | apply Hd].
Qed.

(* an output holding an element that is not at the desired version never ends the chain early and is
   never answered Success: if the step that produced it was the last one invoked, it was the last rule
   of the chain and the answer is Failed *)
Theorem unversioned_element_not_cut dtext desired chain outs req t r k objs o :
  serve_e dtext desired chain outs req = (t, r) -> k < length t ->
  nth k outs EExitFail = EResp [] objs -> In o objs -> at_desired desired o = false ->
  length t = S k -> length chain = S k /\ exists message, r = ERFailure message.
Proof.
  intros E Hk Eo Hin Hat El. apply serve_e_cases in E.
  destruct E as [(_ & -> & _) | (Hreq & s & Es & ->)]; [cbn in Hk; lia|].
  destruct (steps_e_spec _ _ _ _ _ _ Es) as (_ & _ & _ & _ & H5).
  assert (t <> []) as Hne by (destruct t; [cbn in Hk; lia | discriminate]).
  destruct (H5 Hne) as [_ Hstop].
  assert (is_done_e desired objs = false) as Hnd.
  { destruct (is_done_e desired objs) eqn:Ed; [|reflexivity].
    apply done_iff_every_element in Ed. destruct Ed as [_ Ed]. rewrite (Ed o Hin) in Hat. discriminate. }
  assert (last_out_e outs t = EResp [] objs) as Elast.
  { unfold last_out_e. now rewrite El, Nat.sub_succ, Nat.sub_0_r. }
  unfold estop_ok in Hstop. rewrite Elast in Hstop. destruct s as [m | o' |]; cbn [answer_of].
  - destruct Hstop.
  - destruct Hstop as [Eo' Hd]. inversion Eo'; subst o'. congruence.
  - destruct Hstop as (o' & _ & _ & Hlen). split; [lia | eexists; reflexivity].
Qed.

(* ... and when the chain has a further rule, its hook is invoked and receives exactly that output *)
Theorem unversioned_element_next_step dtext desired chain outs req t r k objs o :
  serve_e dtext desired chain outs req = (t, r) -> k < length t ->
  nth k outs EExitFail = EResp [] objs -> In o objs -> at_desired desired o = false ->
  S k < length chain -> S k < length t.
Proof.
  intros E Hk Eo Hin Hat Hc.
  destruct (le_lt_dec (length t) (S k)) as [Hle | Hlt]; [|exact Hlt].
  assert (length t = S k) as El by lia.
  destruct (unversioned_element_not_cut _ _ _ _ _ _ _ _ _ _ E Hk Eo Hin Hat El) as [Hlen _]. lia.
Qed.
