(* C20_Spec.v — property C20 as a decidable predicate over what is observable:
   the directory tree handed to the operator, what each hook file does on --config,
   and (a) the paths discovery returned, (b) for an Init run: the --config executions
   in order, whether Init failed and which hook its error names, GetHookNames(),
   (c) the by-name index: what GetHook(name) leads to, for every loaded name and for the
   relative path of every discovered file.
   Written from the property text; it enumerates ALL files of the tree and filters
   them by the stated conditions — it never mentions the walk, its skip rules or the
   sort of the model.  Only the tree type is shared with C20_Model. *)
From Verif Require Import Common C20_Model.
Local Open Scope N_scope.

(* ---- vocabulary of the statement ---- *)

Fixpoint is_prefix (a b : bytes) : bool :=
  match a, b with
  | [], _ => true
  | x :: a', y :: b' => N.eqb x y && is_prefix a' b'
  | _ :: _, [] => false
  end.
Definition ends_with (suffix name : bytes) : bool := is_prefix (rev suffix) (rev name).

(* "name starts with a dot" *)
Definition hidden (name : bytes) : bool := is_prefix [46] name.
(* "ends in .yaml, .json, .md or .txt" *)
Definition excluded_ending (name : bytes) : bool :=
  ends_with [46; 121; 97; 109; 108] name || ends_with [46; 106; 115; 111; 110] name
  || ends_with [46; 109; 100] name || ends_with [46; 116; 120; 116] name.
(* "carries an execute bit": owner, group or other x *)
Definition has_exec_bit (mode : N) : bool := N.testbit mode 6 || N.testbit mode 3 || N.testbit mode 0.
(* "a sub-directory named lib" *)
Definition named_lib (name : bytes) : bool := bytes_eqb name [108; 105; 98].

(* every file of a tree: (names of the directories passed below the hooks directory,
   own name, mode) *)
Definition entry := (list bytes * bytes * N)%type.
Fixpoint files (anc : list bytes) (t : tree) : list entry :=
  match t with
  | File n m => [(anc, n, m)]
  | Dir n cs => flat_map (files (anc ++ [n])) cs
  end.
Definition all_files (cs : list tree) : list entry := flat_map (files []) cs.

(* the path of an entry relative to the hooks directory *)
Fixpoint join (comps : list bytes) : bytes :=
  match comps with
  | [] => []
  | [c] => c
  | c :: r => c ++ 47 :: join r
  end.
Definition entry_path (e : entry) : bytes := let '(anc, n, _) := e in join (anc ++ [n]).

(* the conditions of the statement *)
Definition entry_is_hook (e : entry) : bool :=
  let '(anc, n, m) := e in
  has_exec_bit m && negb (hidden n) && negb (excluded_ending n)
  && forallb (fun d => negb (named_lib d) && negb (hidden d)) anc.

(* Prop reading: p is a hook of the hooks directory with entries cs *)
Definition is_hook (cs : list tree) (p : bytes) : Prop :=
  exists e, In e (all_files cs) /\ entry_is_hook e = true /\ p = entry_path e.

Definition spec_hooks (cs : list tree) : list bytes :=
  map entry_path (filter entry_is_hook (all_files cs)).

(* ---- inputs and observations ---- *)

Record input := mkInput {
  i_parent : bytes;                 (* path of the directory containing the hooks directory *)
  i_root : bytes;                   (* name of the hooks directory itself *)
  i_children : list tree;           (* its entries *)
  i_beh : list (bytes * N);         (* relative path -> 1 (--config run fails) | 2 (invalid config); absent = valid config *)
  i_with_init : bool                (* an Init run was made *)
}.

Record init_obs := mkInitObs {
  io_asked : list bytes;            (* full paths that were executed with --config, in order *)
  io_status : N;                    (* 0 = Init returned nil; 1 = "cannot get config for hook"; 2 = "creating hook"; 3 = other error *)
  io_named : bytes;                 (* the hook the error message names ('...' after "hook") *)
  io_names : list bytes             (* GetHookNames() *)
}.

Record obs := mkObs {
  o_paths : list bytes;             (* RecursiveGetExecutablePaths(workingDir), as returned *)
  o_init : option init_obs;
  o_index : list (bytes * bytes)    (* after an Init run: (name, Path of GetHook(name), "" when nil) for every name of
                                       GetHookNames() and then for the relative path of every discovered file *)
}.

Definition wd_of (i : input) : bytes := i_parent i ++ 47 :: i_root i.

Definition beh_code (i : input) (name : bytes) : N :=
  match find (fun kv => bytes_eqb (fst kv) name) (i_beh i) with
  | Some kv => snd kv
  | None => 0
  end.
Definition misbehaves (i : input) (name : bytes) : bool :=
  N.eqb (beh_code i name) 1 || N.eqb (beh_code i name) 2.

(* ---- list predicates ---- *)

Definition mem_bytes (x : bytes) (l : list bytes) : bool := existsb (bytes_eqb x) l.
Definition subset (a b : list bytes) : bool := forallb (fun x => mem_bytes x b) a.
Fixpoint nodupb (l : list bytes) : bool :=
  match l with [] => true | x :: r => negb (mem_bytes x r) && nodupb r end.
(* lexical order, no two equal: each element bytewise smaller than the next *)
Fixpoint strictly_sorted (l : list bytes) : bool :=
  match l with
  | x :: ((y :: _) as r) => bytes_ltb x y && strictly_sorted r
  | _ => true
  end.

(* path relative to the hooks directory: wd ++ "/" ++ r  |->  r *)
Definition strip_wd (wd p : bytes) : option bytes :=
  if is_prefix (wd ++ [47]) p then Some (skipn (S (length wd)) p) else None.
Fixpoint strip_all (wd : bytes) (ps : list bytes) : option (list bytes) :=
  match ps with
  | [] => Some []
  | p :: r => match strip_wd wd p, strip_all wd r with
              | Some x, Some xs => Some (x :: xs)
              | _, _ => None
              end
  end.

(* the error names hook h: the quoted name is h itself or a path ending in /h *)
Definition names_hook (h named : bytes) : bool :=
  bytes_eqb named h || ends_with (47 :: h) named.

(* ---- P ---- *)

(* discovery: exactly the hooks of the statement, each once *)
Definition P_paths (i : input) (o : obs) : bool :=
  match strip_all (wd_of i) (o_paths o) with
  | None => false
  | Some rels => nodupb rels && subset rels (spec_hooks (i_children i)) && subset (spec_hooks (i_children i)) rels
  end.

(* the Init run: hooks asked for --config once each, in lexical order of their
   relative paths; all of them when none misbehaves (and then they are the loaded
   hooks, in that order); up to and including the first misbehaving one otherwise,
   and then Init fails with an error naming it *)
Fixpoint split_first_bad (i : input) (l : list bytes) : option (bytes * list bytes) :=
  match l with
  | [] => None
  | x :: r => if misbehaves i x then Some (x, r) else split_first_bad i r
  end.

Definition P_init (i : input) (io : init_obs) : bool :=
  let expected := spec_hooks (i_children i) in
  match strip_all (wd_of i) (io_asked io) with
  | None => false
  | Some asked =>
      strictly_sorted asked && subset asked expected &&
      match split_first_bad i asked with
      | None =>
          subset expected asked && N.eqb (io_status io) 0 && list_eqb bytes_eqb (io_names io) asked
      | Some (h, after) =>
          match after with [] => true | _ => false end          (* nothing is asked after the failure *)
          && negb (N.eqb (io_status io) 0)                       (* initialization fails *)
          && names_hook h (io_named io)                          (* ... naming the hook *)
          && forallb (fun e => if bytes_ltb e h then mem_bytes e asked else true) expected
                                                                 (* every hook ordered before it was asked *)
      end
  end.

(* "each hook is named by its path relative to the hooks directory": in the by-name index
   a name leads to the file at that relative path and to no other; every loaded hook is
   found under its name; and when Init succeeds every hook of the statement is found
   under its relative path (so the index holds as many hooks as were discovered) *)
Definition is_nil (b : bytes) : bool := match b with [] => true | _ => false end.
Definition bound_to (idx : list (bytes * bytes)) (name path : bytes) : bool :=
  existsb (fun kv => bytes_eqb (fst kv) name && bytes_eqb (snd kv) path) idx.
Definition found_in (idx : list (bytes * bytes)) (name : bytes) : bool :=
  existsb (fun kv => bytes_eqb (fst kv) name && negb (is_nil (snd kv))) idx.

Definition P_index (i : input) (io : init_obs) (idx : list (bytes * bytes)) : bool :=
  let wd := wd_of i in
  forallb (fun kv => is_nil (snd kv) || bytes_eqb (snd kv) (wd ++ 47 :: fst kv)) idx
  && forallb (found_in idx) (io_names io)
  && (if N.eqb (io_status io) 0
      then forallb (fun e => bound_to idx e (wd ++ 47 :: e)) (spec_hooks (i_children i))
      else true).

Definition P (i : input) (o : obs) : bool :=
  P_paths i o &&
  match o_init o with
  | None => negb (i_with_init i) && match o_index o with [] => true | _ => false end
  | Some io => i_with_init i && P_init i io && P_index i io (o_index o)
  end.

(* ---- domain: what a file system can hold ---- *)
(* names are non-empty single path elements and the entries of one directory have
   distinct names *)
Definition name_ok (n : bytes) : bool := negb (mem_N 47 n) && match n with [] => false | _ => true end.
Fixpoint wf_tree (t : tree) : bool :=
  name_ok (tree_name t) &&
  match t with
  | File _ _ => true
  | Dir _ cs => nodupb (map tree_name cs) && forallb wf_tree cs
  end.
Definition wf_children (cs : list tree) : bool := nodupb (map tree_name cs) && forallb wf_tree cs.

(* ==================================================================== *)
(* ---- the FILE-NAME rule, one file at a time (seeded change C20-6) ---- *)
(* ==================================================================== *)
(* "whose name neither starts with a dot nor ends in .yaml, .json, .md or .txt": a condition
   on the byte string of the name.  [excluded_ending] above reads it as written ("ends in");
   [has_excluded_extension] reads it through the file's EXTENSION - the part of the name from
   its LAST dot on (empty when the name has no dot).  C20_NameProofs shows that the two
   readings agree on every name and that the model's filepath.Ext computes exactly this
   extension. *)
Fixpoint last_dot_suffix (n : bytes) : bytes :=
  match n with
  | [] => []
  | x :: r => match last_dot_suffix r with
              | [] => if N.eqb x 46 then x :: r else []
              | s => s
              end
  end.

(* the letters of the four extensions, and the extensions *)
Definition ext_letters : list bytes :=
  [[121; 97; 109; 108]; [106; 115; 111; 110]; [109; 100]; [116; 120; 116]].       (* yaml json md txt *)
Definition excluded_exts : list bytes := map (cons 46) ext_letters.               (* .yaml .json .md .txt *)

Definition has_excluded_extension (n : bytes) : bool := mem_bytes (last_dot_suffix n) excluded_exts.

(* the conditions of the statement that concern the file itself (not its directory) *)
Definition file_ok (n : bytes) (m : N) : bool :=
  has_exec_bit m && negb (hidden n) && negb (excluded_ending n).

(* how often a path occurs in a list *)
Definition count (x : bytes) (l : list bytes) : nat := length (filter (bytes_eqb x) l).

(* every file of the tree, one by one: it is among the discovered paths exactly once when it
   meets the conditions of the statement and not at all otherwise *)
Definition P_each_file (i : input) (o : obs) : bool :=
  match strip_all (wd_of i) (o_paths o) with
  | None => false
  | Some rels =>
      forallb (fun e => Nat.eqb (count (entry_path e) rels) (if entry_is_hook e then 1 else 0))
              (all_files (i_children i))
  end.

(* "every discovered file is asked for --config exactly once": file by file - a file that is
   not a hook is never run; a hook is run exactly once when Init succeeds and at most once when
   Init fails (the hooks after the failing one are not reached) *)
Definition P_each_file_init (i : input) (io : init_obs) : bool :=
  match strip_all (wd_of i) (io_asked io) with
  | None => false
  | Some asked =>
      forallb (fun e => let k := count (entry_path e) asked in
                        if entry_is_hook e
                        then (if N.eqb (io_status io) 0 then Nat.eqb k 1 else Nat.leb k 1)
                        else Nat.eqb k 0)
              (all_files (i_children i))
  end.

Definition P_files (i : input) (o : obs) : bool :=
  P_each_file i o && match o_init o with None => true | Some io => P_each_file_init i io end.

(* ==================================================================== *)
(* ---- the KIND of an entry: "mode bits" include the file type (seeded change C20-7) ---- *)
(* ==================================================================== *)
(* "the files under the hooks directory that carry an execute bit": every entry that is not a
   directory, as the entry itself is (a symbolic link is an entry of its own; its mode is
   lrwxrwxrwx whatever it points to, and it is not a sub-directory even when it points to one).
   The entries of the on-disk tree, with their kind: *)
Inductive xkind :=
| KRegular (mode : N)
| KSymlink (t : target)
| KFifo (mode : N).

Definition xentry := (list bytes * bytes * xkind)%type.
Fixpoint xfiles (anc : list bytes) (x : xtree) : list xentry :=
  match x with
  | XFile n m => [(anc, n, KRegular m)]
  | XDir n cs => flat_map (xfiles (anc ++ [n])) cs
  | XLink n t => [(anc, n, KSymlink t)]
  | XFifo n m => [(anc, n, KFifo m)]
  end.
Definition all_xfiles (xs : list xtree) : list xentry := flat_map (xfiles []) xs.

Definition xentry_path (e : xentry) : bytes := let '(anc, n, _) := e in join (anc ++ [n]).

(* the permission bits the entry carries: a symbolic link carries rwxrwxrwx *)
Definition perm_bits (k : xkind) : N :=
  match k with KRegular m => m | KSymlink _ => 511 | KFifo m => m end.

(* the conditions of the statement, for an entry of any kind *)
Definition xentry_is_hook (e : xentry) : bool :=
  let '(anc, n, k) := e in
  has_exec_bit (perm_bits k) && negb (hidden n) && negb (excluded_ending n)
  && forallb (fun d => negb (named_lib d) && negb (hidden d)) anc.

(* what running the entry with --config does (the operating system's part: execve follows links,
   refuses directories, FIFOs and files without an execute bit, finds nothing behind a dangling
   link): 0 = prints a valid configuration, 1 = the run fails, 2 = prints an invalid configuration *)
Definition exec_code (t : target) : N :=
  match t with
  | TFile m c => if has_exec_bit m then c else 1
  | TDir | TDangling | TFifo => 1
  end.

Record xinput := mkXInput {
  x_parent : bytes;
  x_root : bytes;
  x_children : list xtree;
  x_beh : list (bytes * N);         (* regular files: relative path -> 1 | 2, absent = valid config *)
  x_with_init : bool
}.

Definition script_code (tbl : list (bytes * N)) (name : bytes) : N :=
  match find (fun kv => bytes_eqb (fst kv) name) tbl with
  | Some kv => snd kv
  | None => 0
  end.

Definition run_code (xi : xinput) (e : xentry) : N :=
  match snd e with
  | KRegular _ => script_code (x_beh xi) (xentry_path e)
  | KSymlink t => exec_code t
  | KFifo _ => 1
  end.
Definition bad_code (c : N) : bool := N.eqb c 1 || N.eqb c 2.

(* the same input as the walk and the --config round see it: entries with their Lstat mode, and
   for every entry what its --config run does *)
Definition to_input (xi : xinput) : input :=
  mkInput (x_parent xi) (x_root xi) (map lstat (x_children xi))
          (map (fun e => (xentry_path e, run_code xi e)) (all_xfiles (x_children xi)))
          (x_with_init xi).

(* every entry, whatever its kind: discovered exactly once iff it meets the conditions *)
Definition PX_each (xi : xinput) (o : obs) : bool :=
  match strip_all (wd_of (to_input xi)) (o_paths o) with
  | None => false
  | Some rels =>
      forallb (fun e => Nat.eqb (count (xentry_path e) rels) (if xentry_is_hook e then 1 else 0))
              (all_xfiles (x_children xi))
  end.

(* asked for --config exactly once (at most once when Init fails), never when it is not a hook;
   and a hook whose --config run fails or prints an invalid configuration - be it a link to
   something that cannot be run - makes initialization fail *)
Definition PX_each_init (xi : xinput) (io : init_obs) : bool :=
  match strip_all (wd_of (to_input xi)) (io_asked io) with
  | None => false
  | Some asked =>
      forallb (fun e => let k := count (xentry_path e) asked in
                        if xentry_is_hook e
                        then (if N.eqb (io_status io) 0 then Nat.eqb k 1 && negb (bad_code (run_code xi e))
                              else Nat.leb k 1)
                        else Nat.eqb k 0)
              (all_xfiles (x_children xi))
  end.

Definition PX_kinds (xi : xinput) (o : obs) : bool :=
  PX_each xi o && match o_init o with None => true | Some io => PX_each_init xi io end.

(* the whole predicate on an on-disk tree: P and P_files on what the walk sees (order, the failing
   hook is named, the index) and the clauses by kind *)
Definition PX (xi : xinput) (o : obs) : bool :=
  P (to_input xi) o && P_files (to_input xi) o && PX_kinds xi o.

(* ==================================================================== *)
(* ---- the hook set does not depend on WHAT a valid configuration declares (seeded change C20-8) ---- *)
(* ==================================================================== *)
(* "At start the set of hooks is exactly the files under the hooks directory that carry an execute
   bit, ...": a condition on the file, its name and its place - nothing else.  A hook "whose
   --config run fails or prints an invalid configuration makes initialization fail"; a VALID
   configuration, whatever it declares (no binding at all, one, many), changes nothing.  So after a
   successful Init, file by file: a file that meets the conditions is in GetHookNames() exactly
   once and GetHook finds it under its relative path, bound to that very file; a file that does not
   meet them is not in GetHookNames(); and GetHookNames() holds nothing but hooks of the statement.
   The predicate never looks at the scenario (i_beh): the answer to --config is not an input of it. *)
Definition P_hook_set (i : input) (o : obs) : bool :=
  match o_init o with
  | None => true
  | Some io =>
      if N.eqb (io_status io) 0
      then forallb (fun e => let p := entry_path e in
                      if entry_is_hook e
                      then Nat.eqb (count p (io_names io)) 1 && bound_to (o_index o) p (wd_of i ++ 47 :: p)
                      else Nat.eqb (count p (io_names io)) 0)
                   (all_files (i_children i))
           && subset (io_names io) (spec_hooks (i_children i))
      else true
  end.

(* the whole predicate with the configurations in the input *)
Definition PC (xi : xinput) (o : obs) : bool := PX xi o && P_hook_set (to_input xi) o.
