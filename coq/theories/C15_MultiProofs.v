(* C15_MultiProofs.v — proofs about the operator that serves several CRDs (C15_MultiModel). *)
From Coq Require Import String Lia.
From Verif Require Import Common C15_Model C15_Spec C15_Proofs C15_MultiModel C15_MultiSpec.

(* ------------------------------------------------------------------ the storage as a map *)

Lemma st_get_put st x r y :
  st_get (st_put st x r) y =
  if N.eqb x y then
    match st_get st x with
    | None => Some ([r], cache_put [] r [r])
    | Some (rs, c) => Some (rs ++ [r], cache_put c r [r])
    end
  else st_get st y.
Proof.
  induction st as [|[z [rs c]] st IH]; cbn [st_put st_get].
  - destruct (N.eqb x y); reflexivity.
  - destruct (N.eqb z x) eqn:Ezx; cbn [st_get].
    + apply N.eqb_eq in Ezx. subst z. destruct (N.eqb x y); reflexivity.
    + rewrite IH. destruct (N.eqb x y) eqn:Exy; [|reflexivity].
      apply N.eqb_eq in Exy. subst y. now rewrite Ezx.
Qed.

Lemma st_get_set st x c' y :
  st_get (st_set_cache st x c') y =
  if N.eqb x y then match st_get st x with Some (rs, _) => Some (rs, c') | None => None end
  else st_get st y.
Proof.
  induction st as [|[z [rs c]] st IH]; cbn [st_set_cache st_get].
  - destruct (N.eqb x y); reflexivity.
  - destruct (N.eqb z x) eqn:Ezx; cbn [st_get].
    + apply N.eqb_eq in Ezx. subst z. destruct (N.eqb x y); reflexivity.
    + rewrite IH. destruct (N.eqb x y) eqn:Exy; [|reflexivity].
      apply N.eqb_eq in Exy. subst y. now rewrite Ezx.
Qed.

Lemma base_cache_snoc rs r : base_cache (rs ++ [r]) = cache_put (base_cache rs) r [r].
Proof. unfold base_cache. now rewrite fold_left_app. Qed.

Lemma declared_for_snoc decls d x :
  declared_for (decls ++ [d]) x = declared_for decls x ++ (if N.eqb (fst d) x then [snd d] else []).
Proof.
  unfold declared_for. rewrite filter_app, map_app. cbn [filter]. now destruct (N.eqb (fst d) x).
Qed.

(* what a storage holds when its CRDs have the rules R *)
Definition st_ok (R : N -> list rule) (st : storage) : Prop :=
  forall x, st_get st x = match R x with [] => None | _ => Some (R x, base_cache (R x)) end.

Lemma st_put_ok R st d : st_ok R st ->
  st_ok (fun y => R y ++ (if N.eqb (fst d) y then [snd d] else [])) (st_put st (fst d) (snd d)).
Proof.
  intros H y. rewrite st_get_put. destruct (N.eqb (fst d) y) eqn:E.
  - apply N.eqb_eq in E. subst y. rewrite (H (fst d)). destruct (R (fst d)) as [|r0 rs]; cbn [app].
    + reflexivity.
    + change (r0 :: rs ++ [snd d]) with ((r0 :: rs) ++ [snd d]). now rewrite base_cache_snoc.
  - rewrite app_nil_r. apply H.
Qed.

Lemma build_from_ok decls : forall acc st, st_ok (declared_for acc) st ->
  st_ok (declared_for (acc ++ decls)) (fold_left (fun st d => st_put st (fst d) (snd d)) decls st).
Proof.
  induction decls as [|d decls IH]; intros acc st H; cbn [fold_left].
  - now rewrite app_nil_r.
  - change (d :: decls) with ([d] ++ decls). rewrite app_assoc. apply IH.
    intros x. rewrite declared_for_snoc. apply (@st_put_ok _ st d H).
Qed.

Lemma build_ok decls : st_ok (declared_for decls) (build decls).
Proof. unfold build. apply (@build_from_ok decls [] []). intros x. reflexivity. Qed.

(* the operator's Chain for a CRD is the one a lone operator for that CRD starts with *)
Lemma view_build decls x :
  view (build decls) x = (declared_for decls x, base_cache (declared_for decls x)).
Proof. unfold view. rewrite (build_ok decls x). now destruct (declared_for decls x). Qed.

(* ------------------------------------------------------------------ one request: only its CRD's Chain is read and written *)

Lemma find_nil q : find [] [] q = ([], None).
Proof. reflexivity. Qed.

Lemma find_m_answer st x q : snd (find_m st x q) = snd (find (fst (view st x)) (snd (view st x)) q).
Proof.
  unfold find_m, view. destruct (st_get st x) as [[rs c]|]; [|reflexivity].
  cbn [fst snd]. now destruct (find rs c q).
Qed.

Lemma find_m_view_same st x q :
  view (fst (find_m st x q)) x = (fst (view st x), fst (find (fst (view st x)) (snd (view st x)) q)).
Proof.
  unfold find_m, view. destruct (st_get st x) as [[rs c]|] eqn:E.
  - cbn [fst snd]. destruct (find rs c q) as [c' a]. cbn [fst]. now rewrite st_get_set, N.eqb_refl, E.
  - cbn [fst]. now rewrite E.
Qed.

Lemma find_m_view_other st x q y : x <> y -> view (fst (find_m st x q)) y = view st y.
Proof.
  intros Hne. unfold find_m, view. destruct (st_get st x) as [[rs c]|]; [|reflexivity].
  destruct (find rs c q) as [c' a]. cbn [fst]. rewrite st_get_set.
  now apply N.eqb_neq in Hne as ->.
Qed.

(* ------------------------------------------------------------------ a session, projected on one CRD *)

Fixpoint answers_for {A} (x : N) (reqs : list (N * rule)) (answers : list A) : list A :=
  match reqs, answers with
  | (y, _) :: reqs', a :: as' => if N.eqb y x then a :: answers_for x reqs' as' else answers_for x reqs' as'
  | _, _ => []
  end.

Definition queries_for (x : N) (reqs : list (N * rule)) : list rule :=
  map snd (filter (fun d => N.eqb (fst d) x) reqs).

Lemma session_projection : forall reqs st x,
  answers_for x reqs (find_session st reqs) =
  find_shared (fst (view st x)) (snd (view st x)) (queries_for x reqs).
Proof.
  induction reqs as [|[y q] reqs IH]; intros st x; [reflexivity|].
  cbn [find_session]. destruct (find_m st y q) as [st' a] eqn:E. cbn [answers_for].
  unfold queries_for. cbn [filter fst]. destruct (N.eqb y x) eqn:Eyx.
  - apply N.eqb_eq in Eyx. subst y. cbn [map snd find_shared].
    pose proof (find_m_answer st x q) as Ha. pose proof (find_m_view_same st x q) as Hv.
    rewrite E in Ha, Hv. cbn [fst snd] in Ha, Hv.
    destruct (find (fst (view st x)) (snd (view st x)) q) as [c' a'] eqn:Ef. cbn [fst snd] in Ha, Hv. subst a'.
    f_equal. rewrite IH, Hv. reflexivity.
  - apply N.eqb_neq in Eyx. pose proof (@find_m_view_other st y q x Eyx) as Hv. rewrite E in Hv. cbn [fst] in Hv.
    rewrite IH, Hv. reflexivity.
Qed.

(* THE theorem of this file: in every session of one operator that serves any CRDs with any declared
   rules, the answers given to the requests for CRD x are the answers a lone operator that knows only
   x's rules gives to those requests alone *)
Theorem multi_is_single decls reqs x :
  answers_for x reqs (find_session (build decls) reqs) =
  find_shared (declared_for decls x) (base_cache (declared_for decls x)) (queries_for x reqs).
Proof. rewrite session_projection, view_build. reflexivity. Qed.

(* the requests for other CRDs can be dropped altogether, and so can the other CRDs' declarations *)
Lemma answers_for_all_x x (reqs : list (N * rule)) {A} (answers : list A) :
  (forall d, In d reqs -> fst d = x) -> length answers = length reqs -> answers_for x reqs answers = answers.
Proof.
  revert answers. induction reqs as [|[y q] reqs IH]; intros [|a answers] H Hl; try reflexivity; try discriminate.
  cbn [answers_for]. pose proof (H (y, q) (or_introl eq_refl)) as Hy. cbn [fst] in Hy. subst y.
  rewrite N.eqb_refl. f_equal.
  apply IH; [intros d Hd; apply H; now right | cbn [length] in Hl; lia].
Qed.

Lemma find_session_length : forall reqs st, length (find_session st reqs) = length reqs.
Proof.
  induction reqs as [|[y q] reqs IH]; intros st; [reflexivity|]. cbn [find_session].
  destruct (find_m st y q). cbn [length]. now rewrite IH.
Qed.

Definition only (x : N) (l : list (N * rule)) : list (N * rule) := filter (fun d => N.eqb (fst d) x) l.

Lemma only_idem x l : only x (only x l) = only x l.
Proof.
  unfold only. induction l as [|d l IH]; [reflexivity|]. cbn [filter].
  destruct (N.eqb (fst d) x) eqn:E; [cbn [filter]; rewrite E; now f_equal | exact IH].
Qed.

Theorem multi_is_alone decls reqs x :
  answers_for x reqs (find_session (build decls) reqs) = find_session (build (only x decls)) (only x reqs).
Proof.
  rewrite multi_is_single.
  rewrite <- (@answers_for_all_x x (only x reqs) _ (find_session (build (only x decls)) (only x reqs))).
  - rewrite multi_is_single. unfold queries_for, declared_for. fold (only x (only x reqs)). fold (only x (only x decls)).
    now rewrite !only_idem.
  - intros d Hd. unfold only in Hd. apply filter_In in Hd. now apply N.eqb_eq.
  - apply find_session_length.
Qed.

(* ------------------------------------------------------------------ every request of every session meets the Spec *)

Lemma P_search_nil A B : P_search [] A B None = true.
Proof. unfold P_search. now destruct (in_domain [] A B). Qed.

Definition st_inv (g : N -> N) (decls : list decl) (st : storage) : Prop :=
  forall x, match st_get st x with
            | None => declared_for decls x = []
            | Some (rs, c) => rs = declared_for decls x /\ cache_inv (g x) rs c
            end.

Lemma st_inv_build g decls : (forall x, rules_dom (g x) (declared_for decls x)) -> st_inv g decls (build decls).
Proof.
  intros Hd x. rewrite (build_ok decls x). destruct (declared_for decls x) as [|r rs] eqn:E; [reflexivity|].
  split; [reflexivity|]. rewrite <- E. apply cache_inv_base, Hd.
Qed.

Theorem multi_meets_spec g decls : (forall x, rules_dom (g x) (declared_for decls x)) ->
  forall reqs, (forall x q, In (x, q) reqs -> dom (g x) (r_from q) /\ dom (g x) (r_to q)) ->
  forall st, st_inv g decls st -> all_P_multi decls reqs (find_session st reqs) = true.
Proof.
  intros Hrd. induction reqs as [|[x q] reqs IH]; intros Hq st Hinv; [reflexivity|].
  cbn [find_session]. destruct (find_m st x q) as [st' a] eqn:E. cbn [all_P_multi].
  destruct (Hq x q ltac:(now left)) as [Hf Ht].
  unfold find_m in E. pose proof (Hinv x) as Hx. destruct (st_get st x) as [[rs c]|] eqn:Eg.
  - destruct Hx as [-> Hc]. destruct (find (declared_for decls x) c q) as [c' a'] eqn:Ef.
    injection E as <- <-.
    pose proof (@P_search_find (g x) _ c q (Hrd x) Hf Ht Hc) as HP. rewrite Ef in HP. cbn [snd] in HP.
    unfold r_from, r_to in HP. rewrite HP. cbn [andb].
    apply IH; [intros y q' Hy; apply Hq; now right|].
    intros y. rewrite st_get_set. destruct (N.eqb x y) eqn:Exy.
    + apply N.eqb_eq in Exy. subst y. rewrite Eg. split; [reflexivity|].
      pose proof (@find_inv (g x) _ q c (Hrd x) Hf Hc) as [Hc' _]. now rewrite Ef in Hc'.
    + apply Hinv.
  - injection E as <- <-. rewrite Hx, P_search_nil. cbn [andb].
    apply IH; [intros y q' Hy; apply Hq; now right | exact Hinv].
Qed.

Theorem multi_session_meets_spec g decls : (forall x, rules_dom (g x) (declared_for decls x)) ->
  forall reqs, (forall x q, In (x, q) reqs -> dom (g x) (r_from q) /\ dom (g x) (r_to q)) ->
  all_P_multi decls reqs (find_session (build decls) reqs) = true.
Proof. intros Hrd reqs Hq. apply (@multi_meets_spec g decls Hrd reqs Hq). now apply st_inv_build. Qed.

(* ------------------------------------------------------------------ applying the chain with the CRD's own links *)

Lemma steps_m_linked rules desired : forall chain outs objs, forallb (has_link rules) chain = true ->
  steps_m rules desired chain outs objs = (fst (steps desired chain outs objs), Some (snd (steps desired chain outs objs))).
Proof.
  induction chain as [|r rest IH]; intros outs objs H; [reflexivity|].
  cbn [forallb] in H. apply andb_true_iff in H. destruct H as [Hr Hrest].
  cbn [steps_m steps]. rewrite Hr. destruct (hd OExitFail outs) as [| | |[|c m] objs']; try reflexivity.
  destruct (is_done desired objs'); [reflexivity|].
  rewrite (IH (tl outs) objs' Hrest). destruct (steps desired rest (tl outs) objs') as [t s]. reflexivity.
Qed.

(* a chain of rules declared for the CRD is served exactly as C15_Model.serve says: the other CRDs'
   hooks and links play no part *)
Theorem serve_m_linked crd rules dtext desired chain outs req : forallb (has_link rules) chain = true ->
  serve_m crd rules dtext desired chain outs req = serve dtext desired chain outs req.
Proof.
  intros H. unfold serve_m, serve, event_handler. destruct (extract req) as [|v vs]; [reflexivity|].
  rewrite (steps_m_linked rules desired chain outs req H).
  destruct (steps desired chain outs req) as [t s]. cbn [fst snd].
  destruct s as [m| |]; [destruct m|..]; reflexivity.
Qed.

Theorem serve_m_meets_spec crd rules dtext desired chain outs req t r : forallb (has_link rules) chain = true ->
  serve_m crd rules dtext desired chain outs req = (t, r) -> P_handler desired chain outs req t r = true.
Proof. intros H E. rewrite (serve_m_linked crd rules dtext desired chain outs req H) in E. now apply serve_meets_spec in E. Qed.

(* an undeclared rule in the chain that is reached: nothing more runs and the answer is a Failure *)
Theorem serve_m_no_link crd rules dtext desired r rest outs req : has_link rules r = false -> extract req <> [] ->
  serve_m crd rules dtext desired (r :: rest) outs req = ([], RFailure (no_hook_text_m crd)).
Proof.
  intros H Hne. unfold serve_m. destruct (extract req) as [|v vs]; [congruence|].
  cbn [steps_m]. rewrite H. reflexivity.
Qed.

(* the chains the operator itself finds consist of rules declared for the request's CRD *)
Theorem multi_chain_linked g decls st x q p : (forall x, rules_dom (g x) (declared_for decls x)) ->
  dom (g x) (r_from q) -> st_inv g decls st -> snd (find_m st x q) = Some p ->
  forallb (has_link (declared_for decls x)) p = true.
Proof.
  intros Hrd Hf Hinv E. unfold find_m in E. pose proof (Hinv x) as Hx.
  destruct (st_get st x) as [[rs c]|]; [|discriminate]. destruct Hx as [-> Hc].
  pose proof (@find_inv (g x) _ q c (Hrd x) Hf Hc) as [_ Hp].
  destruct (find (declared_for decls x) c q) as [c' a]. cbn [snd] in E, Hp. subst a.
  destruct (Hp p eq_refl) as (_ & Hall & _). apply forallb_forall. intros r Hr.
  rewrite Forall_forall in Hall. unfold has_link. apply existsb_exists. exists r. split; [now apply Hall|].
  apply rule_eqb_refl.
Qed.
