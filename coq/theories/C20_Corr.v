(* C20_Corr.v — correspondence vocabulary for C20: a case is an input (tree on disk +
   --config scenario) together with what the implementation did.  Evaluated by
   vm_compute in the generated cases files.  The file names of the trees are arbitrary byte
   strings (streams names-* of the harness put them around every excluded extension); besides
   P, [spec_violations] evaluates P_files, which judges every file of the tree on its own, the clauses
   by entry kind (PX_kinds) and P_hook_set (GetHookNames / GetHook against the discovery, whatever the
   hooks' valid configurations declare).  The --config code of a file also carries the SHAPE of the valid
   configuration it prints (10 + shape, C20_Model.shape_bindings); the model's index by binding type is
   compared with GetHooksInOrder for each of the six binding types. *)
From Verif Require Import Common C20_Model C20_Spec.
Local Open Scope N_scope.

(* a case: the tree AS IT IS ON DISK (regular files, directories, symbolic links with what they
   resolve to, FIFOs) and the scenario; the model runs on what Lstat shows of it ([to_input]) *)
Definition case := (xinput * obs * list (list bytes))%type.
(* the third component: after an Init run GetHooksInOrder(b) for each b of validBindingTypes, in that
   order ([] when no Init run was made) *)
Definition case_input (c : case) : xinput := fst (fst c).
Definition case_obs (c : case) : obs := snd (fst c).
Definition case_bound (c : case) : list (list bytes) := snd c.

Definition beh_of (i : input) (name : bytes) : behaviour :=
  match beh_code i name with
  | 1 => BFail
  | 2 => BInvalid
  | _ => BOk
  end.

Definition init_obs_of (r : init_out) : init_obs :=
  match result r with
  | InitOk => mkInitObs (asked r) 0 [] (names r)
  | ErrGetConfig p => mkInitObs (asked r) 1 p (names r)
  | ErrCreating n => mkInitObs (asked r) 2 n (names r)
  end.

(* the look-ups the harness makes after Init: GetHook(n) for every n of GetHookNames(),
   then for the relative path of every discovered file, in load order *)
Definition index_obs_of (i : input) : list (bytes * bytes) :=
  let m := hooks_by_name (i_parent i) (i_root i) (i_children i) (beh_of i) in
  map (fun n => (n, get_hook_path m n))
      (names (init (i_parent i) (i_root i) (i_children i) (beh_of i))
       ++ discover (i_parent i) (i_root i) (i_children i)).

Definition model_of (i : input) : obs :=
  mkObs (get_executable_paths (i_parent i) (i_root i) (i_children i))
        (if i_with_init i
         then Some (init_obs_of (init (i_parent i) (i_root i) (i_children i) (beh_of i)))
         else None)
        (if i_with_init i then index_obs_of i else []).

(* the configuration a hook answers: the shape carried by the --config code of its file *)
Definition cfg_of (i : input) (name : bytes) : config := shape_bindings (shape_of_code (beh_code i name)).

Definition registry_of_input (i : input) : registry :=
  registry_of (i_parent i) (i_root i) (i_children i) (beh_of i) (cfg_of i).

(* hm.GetHooksInOrder(b) for every binding type (all generated configurations carry the same
   onStartup order, so the stable sort of the OnStartup list changes nothing) *)
Definition bound_obs_of (i : input) : list (list bytes) :=
  if i_with_init i then map (rg_in_order (registry_of_input i)) valid_binding_types else [].

Definition model_obs (c : case) : obs * list (list bytes) :=
  (model_of (to_input (case_input c)), bound_obs_of (to_input (case_input c))).

Definition paths_eqb : list bytes -> list bytes -> bool := list_eqb bytes_eqb.
Definition init_obs_eqb (a b : init_obs) : bool :=
  paths_eqb (io_asked a) (io_asked b) && N.eqb (io_status a) (io_status b)
  && bytes_eqb (io_named a) (io_named b) && paths_eqb (io_names a) (io_names b).
Definition index_eqb : list (bytes * bytes) -> list (bytes * bytes) -> bool :=
  list_eqb (fun x y => bytes_eqb (fst x) (fst y) && bytes_eqb (snd x) (snd y)).
Definition obs_eqb (a b : obs) : bool :=
  paths_eqb (o_paths a) (o_paths b) && option_eqb init_obs_eqb (o_init a) (o_init b)
  && index_eqb (o_index a) (o_index b).

Definition agrees (c : case) : bool :=
  obs_eqb (fst (model_obs c)) (case_obs c) && list_eqb paths_eqb (snd (model_obs c)) (case_bound c).

Definition mismatches (cs : list case) : list N := indices_where (fun c => negb (agrees c)) cs.
(* the property predicate P and, file by file, P_files (every file of the tree is discovered /
   asked for --config as often as the conditions on its own name, mode and directories say) *)
Definition spec_violations (cs : list case) : list N :=
  indices_where (fun c => negb (PC (case_input c) (case_obs c))) cs.
