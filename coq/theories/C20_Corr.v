(* C20_Corr.v — correspondence vocabulary for C20: a case is an input (tree on disk +
   --config scenario) together with what the implementation did.  Evaluated by
   vm_compute in the generated cases files.  The file names of the trees are arbitrary byte
   strings (streams names-* of the harness put them around every excluded extension); besides
   P, [spec_violations] evaluates P_files, which judges every file of the tree on its own. *)
From Verif Require Import Common C20_Model C20_Spec.
Local Open Scope N_scope.

(* a case: the tree AS IT IS ON DISK (regular files, directories, symbolic links with what they
   resolve to, FIFOs) and the scenario; the model runs on what Lstat shows of it ([to_input]) *)
Definition case := (xinput * obs)%type.

Definition beh_of (i : input) (name : bytes) : behaviour :=
  match beh_code i name with
  | 1 => BFail
  | 2 => BInvalid
  | _ => BOk
  end.

Definition init_obs_of (r : init_out) : init_obs :=
  match result r with
  | InitOk => mkInitObs (asked r) 0 [] (names r)
  | ErrGetConfig p => mkInitObs (asked r) 1 p (names r)
  | ErrCreating n => mkInitObs (asked r) 2 n (names r)
  end.

(* the look-ups the harness makes after Init: GetHook(n) for every n of GetHookNames(),
   then for the relative path of every discovered file, in load order *)
Definition index_obs_of (i : input) : list (bytes * bytes) :=
  let m := hooks_by_name (i_parent i) (i_root i) (i_children i) (beh_of i) in
  map (fun n => (n, get_hook_path m n))
      (names (init (i_parent i) (i_root i) (i_children i) (beh_of i))
       ++ discover (i_parent i) (i_root i) (i_children i)).

Definition model_of (i : input) : obs :=
  mkObs (get_executable_paths (i_parent i) (i_root i) (i_children i))
        (if i_with_init i
         then Some (init_obs_of (init (i_parent i) (i_root i) (i_children i) (beh_of i)))
         else None)
        (if i_with_init i then index_obs_of i else []).

Definition model_obs (c : case) : obs := model_of (to_input (fst c)).

Definition paths_eqb : list bytes -> list bytes -> bool := list_eqb bytes_eqb.
Definition init_obs_eqb (a b : init_obs) : bool :=
  paths_eqb (io_asked a) (io_asked b) && N.eqb (io_status a) (io_status b)
  && bytes_eqb (io_named a) (io_named b) && paths_eqb (io_names a) (io_names b).
Definition index_eqb : list (bytes * bytes) -> list (bytes * bytes) -> bool :=
  list_eqb (fun x y => bytes_eqb (fst x) (fst y) && bytes_eqb (snd x) (snd y)).
Definition obs_eqb (a b : obs) : bool :=
  paths_eqb (o_paths a) (o_paths b) && option_eqb init_obs_eqb (o_init a) (o_init b)
  && index_eqb (o_index a) (o_index b).

Definition agrees (c : case) : bool := obs_eqb (model_obs c) (snd c).

Definition mismatches (cs : list case) : list N := indices_where (fun c => negb (agrees c)) cs.
(* the property predicate P and, file by file, P_files (every file of the tree is discovered /
   asked for --config as often as the conditions on its own name, mode and directories say) *)
Definition spec_violations (cs : list case) : list N :=
  indices_where (fun c => negb (PX (fst c) (snd c))) cs.
