(* C12_ConcModel.v — MANY executions of Hook.Run at the same time ("executions running concurrently
   in different queues"), for the CONTENT of the per-execution input: "a binding-context file
   holding exactly the contexts of the task".  No proofs here.

   Vocabulary.  A context of the class is (kind, tag, index): kind 0 a schedule context
   {"binding","type":"Schedule"}, 1 an onStartup context {"binding"}, 2 a group context
   {"binding","groupName","type":"Group"}; its binding name is t<tag>-<index>.  The contexts of a
   task are written as segments (kind, tag, from, count) = count contexts of one kind with
   consecutive indices, so that a task with thousands of contexts has a small description.
   A DOCUMENT is the list of contexts it holds, in order; [render_doc] gives its bytes
   (BindingContextList.Json(): json.MarshalIndent with two spaces, keys in lexical order) and is
   compared with the bytes the hook process saw on every small document.

   The transition system.  Hook.Run (pkg/hook/hook.go) of execution e, at statement level:

     PAlloc     context.Json(): json.MarshalIndent takes a FRESH buffer           (binding_context.go)
     PEncode    ... and encodes the contexts into it, one context per step (an encoding of hundreds
                of KiB is not atomic); with nothing left, Json() returns the slice: a REFERENCE to the buffer
     PWriteCtx  os.WriteFile(bindingContextPath, data): the file gets what the buffer holds NOW   (hook.go:279-291)
     PCreate1-4 os.WriteFile(metrics / admission / conversion / object-patch path, []byte{})       (hook.go:293-350)
     PStart     the hook process is started and reads the file under $BINDING_CONTEXT_PATH and its output files
     PHook      the hook process ends: a succeeding one has written its token to $KUBERNETES_PATCH_PATH,
                a failing one exits with a non-zero status (and Run returns at once: -> PRemove)
     PRead      Run reads the outputs back (os.ReadFile(kubernetesPatchPath) stands for the four)  (hook.go:165-183)
     PRemove    the deferred function removes the five files                                        (hook.go:103-112)
     PDone

   The path of file f of execution e is (e, f): uuid.NewV4 never repeats (oracle).  That the hook
   process finds ITS OWN files under the variables is C12_env_points_to_own_files (C12_Model.child_env).
   The world holds a heap of buffers, the temp directory and the executions; a SCHEDULE is any list
   of execution numbers, each occurrence lets that execution take its next step: any number of
   executions, any interleaving.  Buffers are never shared because PAlloc takes a fresh one - this is
   what the theorems rest on (C12_ConcProofs.Inv), it is not built into the state: a buffer is a
   number, the slice returned by Json() is that number, and PWriteCtx reads the heap when it runs. *)
From Verif Require Import Common JsonText C12_Model.
Open Scope N_scope.

(* ------------------------------------------------------------------ contexts, documents *)
Definition seg := (N * N * N * N)%type.       (* kind, tag, from, count *)
Definition ctx := (N * N * N)%type.           (* kind, tag, index *)
Definition doc := list ctx.

Fixpoint seq_ctx (k t from : N) (n : nat) : list ctx :=
  match n with O => [] | S m => (k, t, from) :: seq_ctx k t (from + 1) m end.
Definition expand_seg (s : seg) : list ctx := let '(k, t, f, c) := s in seq_ctx k t f (N.to_nat c).
Definition expand (l : list seg) : doc := flat_map expand_seg l.

Definition ctx_eqb (a b : ctx) : bool :=
  let '(k, t, i) := a in let '(k', t', i') := b in (k =? k') && (t =? t') && (i =? i').
Definition doc_eqb : doc -> doc -> bool := list_eqb ctx_eqb.
Definition seg_eqb (a b : seg) : bool :=
  let '(k, t, f, c) := a in let '(k', t', f', c') := b in (k =? k') && (t =? t') && (f =? f') && (c =? c').
(* two segment lists stand for the same contexts (equal lists are not expanded) *)
Definition same_contexts (a b : list seg) : bool :=
  list_eqb seg_eqb a b || doc_eqb (expand a) (expand b).

Record ctask := mkCT {
  ct_queue : N;            (* the queue (goroutine) that runs it; only the harness uses it *)
  ct_hook : N;
  ct_fail : bool;          (* the hook exits with a non-zero status *)
  ct_segs : list seg
}.
Definition task_doc (t : ctask) : doc := expand (ct_segs t).

(* ------------------------------------------------------------------ the bytes of a document *)
Definition print_N (n : N) : bytes := uint_bytes (N.to_uint n).
Definition ctx_name (t i : N) : bytes := 116 :: print_N t ++ 45 :: print_N i.              (* t<tag>-<index> *)
Definition s_binding : bytes := [34; 98; 105; 110; 100; 105; 110; 103; 34; 58; 32].         (* "binding":_ *)
Definition s_type_schedule : bytes :=                                                       (* "type": "Schedule" *)
  [34; 116; 121; 112; 101; 34; 58; 32; 34; 83; 99; 104; 101; 100; 117; 108; 101; 34].
Definition s_type_group : bytes := [34; 116; 121; 112; 101; 34; 58; 32; 34; 71; 114; 111; 117; 112; 34].  (* "type": "Group" *)
Definition s_group_name : bytes := [34; 103; 114; 111; 117; 112; 78; 97; 109; 101; 34; 58; 32].          (* "groupName":_ *)
Definition ind4 : bytes := [32; 32; 32; 32].
(* one element of the array, at indentation 2 *)
Definition render_ctx (c : ctx) : bytes :=
  let '(k, t, i) := c in
  [32; 32; 123; 10] ++ ind4 ++ s_binding ++ 34 :: ctx_name t i ++ [34]
  ++ (if k =? 0 then 44 :: 10 :: ind4 ++ s_type_schedule
      else if k =? 1 then []
      else 44 :: 10 :: ind4 ++ s_group_name ++ 34 :: 103 :: print_N t ++ 34 :: 44 :: 10 :: ind4 ++ s_type_group)
  ++ [10; 32; 32; 125].
Fixpoint render_items (d : doc) : bytes :=
  match d with
  | [] => []
  | c :: r => render_ctx c ++ match r with [] => [10] | _ => 44 :: 10 :: render_items r end
  end.
Definition render_doc (d : doc) : bytes :=
  match d with [] => [91; 93] | _ => 91 :: 10 :: render_items d ++ [93] end.

(* ------------------------------------------------------------------ the world *)
Inductive pc :=
| PAlloc | PEncode | PWriteCtx | PCreate1 | PCreate2 | PCreate3 | PCreate4 | PStart | PHook | PRead | PRemove | PDone.

(* what a file of the temp directory holds *)
Inductive fcont := CDoc (d : doc) | CEmpty | CTok (n : N).

Record exec_st := mkES {
  e_pc : pc;
  e_buf : N;                   (* Json(): the buffer being encoded into; afterwards the slice [data] *)
  e_todo : doc;                (* contexts not yet encoded *)
  e_seen : option fcont;       (* what the hook process read under $BINDING_CONTEXT_PATH *)
  e_empty : bool;              (* ... and it found its four output files empty *)
  e_back : option fcont        (* what Run read back from the object-patch file *)
}.

Record world := mkW {
  w_next : N;                          (* buffers below this number have been handed out *)
  w_heap : N -> doc;                   (* what each buffer holds *)
  w_fs : N -> N -> option fcont;       (* the temp directory: execution, file number (C12_Model.file_context ...) *)
  w_exec : N -> exec_st
}.

Definition upd {A} (f : N -> A) (k : N) (v : A) : N -> A := fun x => if x =? k then v else f x.
Definition upd2 {A} (f : N -> N -> A) (k k' : N) (v : A) : N -> N -> A :=
  fun x y => if (x =? k) && (y =? k') then v else f x y.

Definition dflt_task : ctask := mkCT 0 0 false [].
Definition nth_task (ts : list ctask) (e : N) : ctask := nth (N.to_nat e) ts dflt_task.

Definition init (ts : list ctask) : world :=
  mkW 0 (fun _ => []) (fun _ _ => None)
      (fun e => if e <? N.of_nat (length ts)
                then mkES PAlloc 0 (task_doc (nth_task ts e)) None false None
                else mkES PDone 0 [] None false None).

Definition at_pc (st : exec_st) (p : pc) : exec_st :=
  mkES p (e_buf st) (e_todo st) (e_seen st) (e_empty st) (e_back st).

Definition is_empty_file (c : option fcont) : bool := match c with Some CEmpty => true | _ => false end.

(* the token a succeeding hook of execution e writes to its object-patch file *)
Definition token (e : N) : fcont := CTok e.

(* one step of execution e; [fails] says whether its hook exits with a non-zero status *)
Definition step (fails : N -> bool) (w : world) (e : N) : world :=
  let st := w_exec w e in
  let set st' := mkW (w_next w) (w_heap w) (w_fs w) (upd (w_exec w) e st') in
  let create f p := mkW (w_next w) (w_heap w) (upd2 (w_fs w) e f (Some CEmpty)) (upd (w_exec w) e (at_pc st p)) in
  match e_pc st with
  | PAlloc =>        (* a fresh buffer, empty *)
      mkW (w_next w + 1) (upd (w_heap w) (w_next w) []) (w_fs w)
          (upd (w_exec w) e (mkES PEncode (w_next w) (e_todo st) (e_seen st) (e_empty st) (e_back st)))
  | PEncode =>
      match e_todo st with
      | c :: r => mkW (w_next w) (upd (w_heap w) (e_buf st) (w_heap w (e_buf st) ++ [c])) (w_fs w)
                      (upd (w_exec w) e (mkES PEncode (e_buf st) r (e_seen st) (e_empty st) (e_back st)))
      | [] => set (at_pc st PWriteCtx)          (* return data: the slice is the buffer *)
      end
  | PWriteCtx =>     (* the file gets what the buffer holds when the write happens *)
      mkW (w_next w) (w_heap w) (upd2 (w_fs w) e file_context (Some (CDoc (w_heap w (e_buf st)))))
          (upd (w_exec w) e (at_pc st PCreate1))
  | PCreate1 => create file_metrics PCreate2
  | PCreate2 => create file_admission PCreate3
  | PCreate3 => create file_conversion PCreate4
  | PCreate4 => create file_patch PStart
  | PStart =>        (* the hook process looks at its files *)
      set (mkES PHook (e_buf st) (e_todo st) (w_fs w e file_context)
                (is_empty_file (w_fs w e file_metrics) && is_empty_file (w_fs w e file_admission)
                 && is_empty_file (w_fs w e file_conversion) && is_empty_file (w_fs w e file_patch)) (e_back st))
  | PHook =>
      if fails e then set (at_pc st PRemove)
      else mkW (w_next w) (w_heap w) (upd2 (w_fs w) e file_patch (Some (token e))) (upd (w_exec w) e (at_pc st PRead))
  | PRead => set (mkES PRemove (e_buf st) (e_todo st) (e_seen st) (e_empty st) (w_fs w e file_patch))
  | PRemove =>
      mkW (w_next w) (w_heap w) (fun x y => if x =? e then None else w_fs w x y) (upd (w_exec w) e (at_pc st PDone))
  | PDone => w
  end.

Definition fails_of (ts : list ctask) (e : N) : bool := ct_fail (nth_task ts e).

(* a schedule: which execution takes its next step, again and again *)
Definition run_sched (ts : list ctask) (w : world) (s : list N) : world := fold_left (step (fails_of ts)) s w.
Definition conc_run (ts : list ctask) (s : list N) : world := run_sched ts (init ts) s.

Definition is_done (st : exec_st) : bool := match e_pc st with PDone => true | _ => false end.
Fixpoint all_done_from (k : N) (n : nat) (w : world) : bool :=
  match n with O => true | S m => is_done (w_exec w k) && all_done_from (k + 1) m w end.
(* every execution has ended *)
Definition complete (ts : list ctask) (w : world) : bool := all_done_from 0 (length ts) w.

(* temp files of execution e that exist *)
Definition files_of (w : world) (e : N) : N :=
  N.of_nat (length (filter (fun f => match w_fs w e f with Some _ => true | None => false end) [0; 1; 2; 3; 4])).
Fixpoint files_from (k : N) (n : nat) (w : world) : N :=
  match n with O => 0 | S m => files_of w k + files_from (k + 1) m w end.
Definition files_left (ts : list ctask) (w : world) : N := files_from 0 (length ts) w.

(* the sequential schedule (one queue): enough steps for every execution, one after the other *)
Definition steps_needed (t : ctask) : nat := length (task_doc t) + 12.
Fixpoint seq_sched_from (k : N) (ts : list ctask) : list N :=
  match ts with [] => [] | t :: r => repeat k (steps_needed t) ++ seq_sched_from (k + 1) r end.
Definition seq_sched (ts : list ctask) : list N := seq_sched_from 0 ts.
