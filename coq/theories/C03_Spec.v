(* C03_Spec.v — C03 as a decidable predicate over the operator harness' observations:
   per queue at most one execution, always of the head task; tasks sit in the queue named
   by their binding; per queue the events keep their arrival order; an action that
   concerns one queue leaves every other queue exactly as it was. *)
From Verif Require Import Common Op_Model Op_Corr Op_Spec.
Open Scope N_scope.

(* the execution shown to the hook is the head task of a queue whose worker is in the handler *)
Definition exec_is_head (cfg : config) (cur : sobs) (e : eobs) : bool :=
  match find_q (eo_queue e) (so_queues cur) with
  | Some q => qo_running q &&
              match qo_items q with
              | t :: _ => N.eqb (t_hook t) (eo_hook e)
                          && list_eqb hookctx_eqb (map (render_ctx (hook_v0 cfg (t_hook t))) (t_ctxs t)) (eo_ctxs e)
              | [] => false
              end
  | None => false
  end.

Definition running_has_exec (cur : sobs) (q : qobs) : bool :=
  if qo_running q then match find_e (qo_name q) (so_execs cur) with Some _ => true | None => false end
  else true.

(* routing: Synchronization, onStartup and Enable* tasks are in main; every other hook-run
   task is in the queue configured for each of the bindings it carries *)
Definition task_routed (cfg : config) (qn : N) (t : task) : bool :=
  match t_type t with
  | HookRun =>
      match t_btype t with
      | BOnStartup => N.eqb qn 0
      | _ => if is_sync t then N.eqb qn 0
             else N.eqb (t_queue t) qn
                  && forallb (fun c => match c_kind c with
                                       | KSync | KStartup => true
                                       | _ => match binding_queue cfg (c_binding c) with
                                              | Some q => N.eqb q qn
                                              | None => false
                                              end
                                       end) (t_ctxs t)
      end
  | _ => N.eqb qn 0
  end.
Definition queue_routed (cfg : config) (q : qobs) : bool := forallb (task_routed cfg (qo_name q)) (qo_items q).

(* arrival order: event numbers are handed out increasingly by the harness *)
Definition event_numbers (q : qobs) : list N :=
  flat_map (fun t => flat_map (fun c => match c_kind c with KEvent => [c_obj c] | _ => [] end) (t_ctxs t)) (qo_items q).
Definition queue_events_ordered (q : qobs) : bool := increasing (event_numbers q).

(* independence: the queues an action may touch *)
Definition touched (cfg : config) (a : action) (qn : N) : bool :=
  match a with
  | Boot | Stop => true
  | Finish q _ | FinishWait q | Elapse q => N.eqb q qn
  | Tick c => existsb (fun hb => N.eqb (sb_cron (snd hb)) c && N.eqb (sb_queue (snd hb)) qn) (sched_bindings cfg)
  | KubeEv m _ => existsb (fun hb => N.eqb (kb_mon (snd hb)) m && N.eqb (kb_queue (snd hb)) qn) (kube_bindings cfg)
  end.
Definition untouched_same (cfg : config) (a : action) (prev cur : sobs) : bool :=
  forallb (fun q => if touched cfg a (qo_name q) then true
                    else match find_q (qo_name q) (so_queues prev) with
                         | Some p => qobs_eqb p q
                         | None => false
                         end) (so_queues cur).

Definition step_ok (cfg : config) (a : action) (prev cur : sobs) : bool :=
  negb (so_bad cur)
  && nodup_N (map eo_queue (so_execs cur))
  && forallb (exec_is_head cfg cur) (so_execs cur)
  && forallb (running_has_exec cur) (so_queues cur)
  && forallb (queue_routed cfg) (so_queues cur)
  && forallb queue_events_ordered (so_queues cur)
  && untouched_same cfg a prev cur.

Definition P (c : case) : bool := all_steps (step_ok (c_cfg c)) empty_obs (c_acts c) (c_obs c).
