(* C03_Spec.v — placeholder, replaced below *)
From Verif Require Import Common Op_Model Op_Corr.
Definition P (c : case) : bool := true.
