(* C14_SizeModel.v — the CONTENT of what an admission hook answers, at full size: the message, every
   warning and the JSONPatch document as byte strings of any length (C14_Model keeps dense numbers
   for them, enough to say WHICH verdict was relayed but not that it arrived byte for byte).

     pkg/webhook/admission/response.go   Response{Allowed, Message, Warnings []string, Patch []byte},
                                         ResponseFromFile, Response.Dump()
     pkg/shell-operator/operator.go      handleRunHook:  t.SetProp("admissionResponse", result.AdmissionResponse)
                                                         taskLogEntry.Info("AdmissionResponse from hook",
                                                              slog.String("value", result.AdmissionResponse.Dump()))
                                         (the argument Dump() is evaluated whatever the log level is, and the task
                                          prop is the SAME *Response the log helper was called on)
     pkg/webhook/admission/handler.go    handleReviewRequest: Allowed, Warnings, Patch copied from that *Response,
                                         Result{403, Message} when not allowed, PatchType JSONPatch iff len(Patch) > 0

   The other files of the hook run (metrics, Kubernetes operations, conversion response) are empty in
   this class; routing (detect, find_task) is C14_Model's.  NO proofs in this file. *)
From Verif Require Import Common C14_Model.

(* admission.Response as decoded from the response file *)
Record sresp := mkSResp { s_allowed : bool; s_msg : bytes; s_warnings : list bytes; s_patch : bytes }.

(* the response file: empty, not one JSON object of the documented shape, or such an object *)
Inductive sfile := SEmpty | SMalformed | SResp (r : sresp).

(* response.go Dump(): the text of the log line *)
Definition dump_text (r : sresp) : bytes :=
  [65; 100; 109; 105; 115; 115; 105; 111; 110; 82; 101; 115; 112; 111; 110; 115; 101; 40; 97; 108; 108; 111; 119; 101; 100; 61]%N
  ++ (if s_allowed r then [116; 114; 117; 101] else [102; 97; 108; 115; 101])%N
  ++ match s_patch r with [] => [] | p => [44; 112; 97; 116; 99; 104; 61]%N ++ p end
  ++ match s_msg r with [] => [] | m => [44; 109; 115; 103; 61]%N ++ m end
  ++ flat_map (fun w => [44; 119; 97; 114; 110; 61]%N ++ w) (s_warnings r)
  ++ [41]%N.

(* Dump() is a method on the *Response that is also the task's prop: one step of the run that takes
   the response object and leaves (the text, the response object as it is afterwards).  The code as it
   is only reads the object. *)
Definition dump_step (r : sresp) : bytes * sresp := (dump_text r, r).

(* the HookRun task at its end (other files empty): status, "admissionResponse" prop, the log line *)
Record stask := mkSTask { st_fail : bool; st_prop : option sresp; st_log : option bytes }.

(* hook.go Run + operator.go handleRunHook *)
Definition size_task (exit_zero : bool) (f : sfile) : stask :=
  if negb exit_zero then mkSTask true None None
  else match f with
       | SMalformed => mkSTask true None None                   (* "got bad validating response" *)
       | SEmpty => mkSTask false None None                      (* AdmissionResponse nil: no prop, no log line *)
       | SResp r =>
         let '(line, r') := dump_step r in                      (* SetProp(p); Info(..., p.Dump()) — same object p *)
         mkSTask false (Some r') (Some line)
       end.

(* the message of the answer: one of the operator's own texts (by class, as in C14_Model.amsg) or the
   text the hook gave *)
Inductive smsg := SMClass (a : amsg) | SMText (t : bytes).

Record sreview := mkSReview {
  sa_uid : N; sa_allowed : bool; sa_code : N; sa_msg : smsg;
  sa_warnings : list bytes; sa_patch : bytes; sa_patchtype : bool }.

Inductive sanswer := SStatus (code : N) | SRev (r : sreview).

Definition nonempty (b : bytes) : bool := match b with [] => false | _ => true end.

(* operator.go:262-278 + handler.go handleReviewRequest *)
Definition sanswer_of_task (uid : N) (t : stask) : sreview :=
  if st_fail t then mkSReview uid false 403 (SMClass AMHookFailed) [] [] false
  else match st_prop t with
       | None => mkSReview uid false 500 (SMClass AMPropError) [] [] false
       | Some r =>
         mkSReview uid (s_allowed r)
                   (if s_allowed r then 0 else 403)
                   (if s_allowed r then SMClass AMNone
                    else match s_msg r with [] => SMClass AMNone | m => SMText m end)
                   (s_warnings r) (s_patch r) (nonempty (s_patch r))
       end.

Definition size_review (hooks : list hook) (path : bytes) (uid : N) (exit_zero : bool) (f : sfile) : sreview * ran :=
  let '(conf, id) := detect path in
  match find_task hooks conf id with
  | None => (mkSReview uid false 500 (SMClass AMNoHook) [] [] false, None)
  | Some (h, l) => (sanswer_of_task uid (size_task exit_zero f), Some (h, l))
  end.

(* ------------------------------------------------------------------ forgetting the content *)

(* what C14_Model sees of a byte string: empty or not *)
Definition abs_bytes (b : bytes) : N := match b with [] => 0 | _ => 1 end.

Definition abs_file (f : sfile) : rfile :=
  match f with
  | SEmpty => FEmpty
  | SMalformed => FMalformed
  | SResp r => FResp (s_allowed r) (abs_bytes (s_msg r)) (map abs_bytes (s_warnings r)) (abs_bytes (s_patch r)) false
  end.

Definition abs_run (exit_zero : bool) (f : sfile) : run := mkRun exit_zero (abs_file f) MEmpty CEmpty KEmpty.

Definition abs_msg (m : smsg) : amsg := match m with SMClass a => a | SMText t => AMHook (abs_bytes t) end.

Definition abs_review (r : sreview) : review :=
  mkReview (sa_uid r) (sa_allowed r) (sa_code r) (abs_msg (sa_msg r))
           (map abs_bytes (sa_warnings r)) (abs_bytes (sa_patch r)) (sa_patchtype r).

Definition abs_answer (a : sanswer) : answer :=
  match a with SStatus c => AStatus c | SRev r => AReview (abs_review r) end.
