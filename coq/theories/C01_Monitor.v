(* C01_Monitor.v — the monitor level of a kubernetes binding with namespace.labelSelector
   (pkg/kube_events_manager/monitor.go): a namespace starts matching while the unlock that
   follows a successful Synchronization runs.

     namespace callback  N1: create the informers of the namespace (their initial list fills
                             the cache silently) and store them      -- mark "monitor.n1" --
                         N2: read eventsEnabled; if set, unlock the new informers; start them
     EnableKubeEventCb   U1: eventsEnabled := true                    -- mark "monitor.e1" --
                         U2: unlock every stored informer
   (U1 before U2 is the repair of R4.)  Model, spec and proofs are in this one file because
   the state space is finite; the property theorems are restated in C01_Properties. *)
From Verif Require Import Common.
Open Scope N_scope.

Inductive pc := P0 | P1 | P2.
Inductive mop := MN | MU.

Record min := mkMIn { m_pre : N; m_late : N; m_sched : list mop }.

Record mst := mkM { n_pc : pc; u_pc : pc; stored : bool; ienabled : bool; flag : bool }.
Definition minit : mst := mkM P0 P0 false false false.

Definition mstep (s : mst) (o : mop) : mst :=
  match o with
  | MN => match n_pc s with
          | P0 => mkM P1 (u_pc s) true (ienabled s) (flag s)
          | P1 => mkM P2 (u_pc s) (stored s) (ienabled s || flag s) (flag s)
          | P2 => s
          end
  | MU => match u_pc s with
          | P0 => mkM (n_pc s) P1 (stored s) (ienabled s) true
          | P1 => mkM (n_pc s) P2 (stored s) (ienabled s || stored s) (flag s)
          | P2 => s
          end
  end.

(* the harness lets both goroutines finish: N first, then U *)
Definition mrun (sched : list mop) : mst := fold_left mstep (sched ++ [MN; MN; MU; MU]) minit.

Record mobs := mkMOb {
  mo_flag : bool; mo_informers : N; mo_all_enabled : bool;
  mo_snap_pre : N; mo_snap_late : N; mo_ev_pre : N; mo_ev_late : N; mo_bad : bool
}.

Definition mobserve (i : min) : mobs :=
  let s := mrun (m_sched i) in
  mkMOb (flag s) (if stored s then 1 else 0) (ienabled s)
        (m_pre i) (m_late i)
        0                                        (* objects already present are loaded silently *)
        (if ienabled s then m_late i else 0) false.

(* Spec: once both have finished no informer of the binding is left locked, every object of
   the namespace is in the snapshot, every later change reaches the hook, and the objects the
   namespace brought along are reported too *)
Definition MP (i : min) (o : mobs) : bool :=
  negb (mo_bad o) && mo_flag o && mo_all_enabled o
  && N.eqb (mo_snap_pre o) (m_pre i) && N.eqb (mo_snap_late o) (m_late i)
  && N.eqb (mo_ev_late o) (m_late i)
  && N.eqb (mo_ev_pre o) (m_pre i).

(* trigger of the recorded finding F24 (R5): the namespace already holds matching objects *)
Definition MT (i : min) : bool := negb (N.eqb (m_pre i) 0).

Definition pc_eqb (a b : pc) : bool := match a, b with P0, P0 | P1, P1 | P2, P2 => true | _, _ => false end.

Definition mwf (s : mst) : bool :=
  Bool.eqb (flag s) (negb (pc_eqb (u_pc s) P0))
  && Bool.eqb (stored s) (negb (pc_eqb (n_pc s) P0))
  && (if pc_eqb (n_pc s) P2 && pc_eqb (u_pc s) P2 then ienabled s else true).

Lemma mstep_wf s o : mwf s = true -> mwf (mstep s o) = true.
Proof. destruct s as [[] [] [] [] []]; destruct o; vm_compute; intros H; try reflexivity; discriminate. Qed.

Lemma mexec_wf ops : forall s, mwf s = true -> mwf (fold_left mstep ops s) = true.
Proof. induction ops as [|o r IH]; intros s H; [exact H|]. simpl. apply IH, mstep_wf, H. Qed.

Lemma mstep_n_mono s o : pc_eqb (n_pc s) P2 = true -> pc_eqb (n_pc (mstep s o)) P2 = true.
Proof. destruct s as [[] [] [] [] []]; destruct o; vm_compute; auto. Qed.
Lemma mstep_u_mono s o : pc_eqb (u_pc s) P2 = true -> pc_eqb (u_pc (mstep s o)) P2 = true.
Proof. destruct s as [[] [] [] [] []]; destruct o; vm_compute; auto. Qed.

Lemma tail_done s : let s' := fold_left mstep [MN; MN; MU; MU] s in
  pc_eqb (n_pc s') P2 = true /\ pc_eqb (u_pc s') P2 = true.
Proof. destruct s as [[] [] [] [] []]; vm_compute; auto. Qed.

(* for EVERY interleaving of the namespace callback and the unlock, no informer is left locked *)
Theorem no_informer_left_locked sched :
  let s := mrun sched in ienabled s = true /\ flag s = true /\ stored s = true.
Proof.
  unfold mrun. rewrite fold_left_app. set (s0 := fold_left mstep sched minit).
  assert (W0 : mwf s0 = true) by (apply mexec_wf; reflexivity).
  pose proof (mexec_wf [MN; MN; MU; MU] s0 W0) as W. destruct (tail_done s0) as [N2 U2].
  set (s := fold_left mstep [MN; MN; MU; MU] s0) in *.
  destruct s as [[] [] [] [] []]; vm_compute in *; try discriminate; auto.
Qed.

Theorem monitor_P_partial i : MT i = false -> MP i (mobserve i) = true.
Proof.
  intros HT. unfold MT in HT. apply negb_false_iff, N.eqb_eq in HT.
  unfold MP, mobserve. destruct (no_informer_left_locked (m_sched i)) as (A & B & C).
  cbn [mo_bad mo_flag mo_all_enabled mo_snap_pre mo_snap_late mo_ev_late mo_ev_pre].
  rewrite A, B, !N.eqb_refl, HT. reflexivity.
Qed.

Theorem monitor_refuted_F24 : exists i, MT i = true /\ MP i (mobserve i) = false.
Proof. exists (mkMIn 2 1 [MU; MU; MN; MN]). split; vm_compute; reflexivity. Qed.
