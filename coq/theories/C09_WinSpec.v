(* C09_WinSpec.v — the contract of C09 for the files that come out of a WINDOW (C09_WinModel: deliveries
   while the binding's events are still locked, runs of the Synchronization hook, the unlock, deliveries
   afterwards).  Written from the property text and the documented life of a binding:

     * "Event has watchEvent, object and - when jqFilter is set - filterResult equal to the jq result
       for THAT VERY object": every Event file stands for ONE delivery; it must be the documented Event
       context for that delivery's event type and that delivery's object ([expected_ctx], [P] of C09_Spec),
       whatever happened to the object between the delivery and the moment the file is written;
       and, when the file shows both `object` and `filterResult`, the filterResult must be what jq says
       about the object SHOWN ([rejq_ok]: jq is asked again about the rendered object);
     * the number and order of the Event files are what the deliveries say: one per delivery that passes
       the change filter (its type is listed in executeHookOnEvent and, for Added / Modified, the watched
       part of the object - the jq result with a jqFilter, the object without one - differs from the one
       last seen), in delivery order; the changes delivered before a run of the Synchronization hook are
       shown by that run's snapshot and are not repeated; nothing is handed over before the unlock;
     * a Synchronization file lists the objects as they are when the hook runs; `snapshots` of every file
       shows the objects as they are when the file is written.

   The predicate is about the INPUT (options, objects with the jq oracle's answers, the sequence of
   deliveries / Synchronization runs / unlock) and the OBSERVED files; it does not mention the model's
   cache or buffer. *)
From Verif Require Import Common Json C09_Model C09_Spec C09_WinModel.

(* the part of an object a binding watches *)
Definition watched (b : binding) (w : wobj) : json :=
  if b_jq b then JArr (w_outs w) else w_obj w.

(* does the delivery (t, w), arriving when the cluster's objects are [a], pass the change filter? *)
Definition passes (b : binding) (a : list (bytes * wobj)) (t : wevent) (w : wobj) : bool :=
  existsb (wev_eqb t) (b_types b)
  && match t with
     | WAdded | WModified =>
         match aget (w_id w) a with
         | Some w0 => negb (json_eqb (watched b w0) (watched b w))
         | None => true
         end
     | WDeleted => true
     | WNone => false
     end.

(* an expected file: written when [ex_step] deliveries have been handled and the cluster's objects are
   [ex_alive]; for the delivery [ex_event], or (None) the Synchronization *)
Record expect := mkExp {
  ex_alive : list (bytes * wobj);
  ex_step : N;
  ex_event : option (wevent * wobj) }.

Record sst := mkSst {
  ss_alive : list (bytes * wobj);
  ss_pending : list (wevent * wobj);    (* passed the filter since the last Synchronization run, not handed over yet *)
  ss_unlocked : bool;
  ss_step : N }.

Definition spec_step (b : binding) (s : sst) (op : wop) : sst * list expect :=
  match op with
  | WDeliver t w =>
      let a' := alive_step (ss_alive s) (t, w) in
      let n := N.succ (ss_step s) in
      if passes b (ss_alive s) t w then
        if ss_unlocked s
        then (mkSst a' (ss_pending s) true n, [mkExp a' n (Some (t, w))])
        else (mkSst a' (ss_pending s ++ [(t, w)]) false n, [])
      else (mkSst a' (ss_pending s) (ss_unlocked s) n, [])
  | WSync =>
      if b_sync b then
        (mkSst (ss_alive s) (if ss_unlocked s then ss_pending s else []) (ss_unlocked s) (ss_step s),
         [mkExp (ss_alive s) (ss_step s) None])
      else (s, [])
  | WUnlock =>
      if ss_unlocked s then (s, [])
      else (mkSst (ss_alive s) [] true (ss_step s),
            map (fun d => mkExp (ss_alive s) (ss_step s) (Some d)) (ss_pending s))
  end.

Fixpoint spec_run (b : binding) (s : sst) (ops : list wop) : list expect :=
  match ops with
  | [] => []
  | op :: r => let (s', es) := spec_step b s op in es ++ spec_run b s' r
  end.

Definition expected_files (w : win) : list expect :=
  spec_run (wn_bind w) (mkSst (alive_init (wn_initial w)) [] false 0) (wn_ops w ++ [WUnlock]).

(* jq asked again about the object the file shows: the file is an array of one item that has `object`
   and whose `filterResult` is jq's answer (when jq yields one result) *)
Definition rejq_ok (x : wfile) : bool :=
  match wf_rejq x with
  | None => true
  | Some outs =>
      match fo_out (wf_file x) with
      | Some (JArr [j]) =>
          is_some (jget k_object j)
          && match single outs with
             | Some v => option_eqb json_eqb (jget k_filterResult j) (Some v)
             | None => true
             end
      | _ => false
      end
  end.

Definition P_wfile (v : version) (b : binding) (e : expect) (x : wfile) : bool :=
  let fo := wf_file x in
  let a := ex_alive e in
  N.eqb (fo_step fo) (ex_step e)
  && list_eqb bytes_eqb (map fst (fo_snaps fo)) (canon_names (b_incl b))
  && match resolve_snaps a (fo_snaps fo) with
     | None => false
     | Some snaps =>
         match ex_event e with
         | None =>
             wf_sync x
             && match resolve a (fo_ids fo) with
                | Some objs =>
                    let c := expected_ctx b KSync WNone objs snaps in
                    wfv v c && P v [c] (fo_out fo)
                | None => false
                end
         | Some (t, w) =>
             negb (wf_sync x)
             && list_eqb bytes_eqb (fo_ids fo) [w_id w]
             && (let c := expected_ctx b KEvent t [w] snaps in
                 wfv v c && P v [c] (fo_out fo))
             && rejq_ok x
         end
     end.

(* a crash (no observation) never conforms; one file per expected file, in order *)
Definition P_win (w : win) (obs : option (list wfile)) : bool :=
  match obs with
  | Some files => forall2b (P_wfile (wn_version w) (wn_bind w)) (expected_files w) files
  | None => false
  end.

(* trigger of F8: a jqFilter is set and the jq result of some object is not a single JSON object
   (applyFilter keeps object-valued results only: filterResult {} and changes that never count) *)
Definition wop_trigger (b : binding) (op : wop) : bool :=
  match op with WDeliver _ w => wobj_trigger b w | _ => false end.

Definition T_win (w : win) : bool :=
  existsb (wobj_trigger (wn_bind w)) (wn_initial w) || existsb (wop_trigger (wn_bind w)) (wn_ops w).

Definition win_canon (w : win) : bool :=
  forallb wobj_canon (wn_initial w)
  && forallb (fun op => match op with WDeliver _ x => wobj_canon x | _ => true end) (wn_ops w).
