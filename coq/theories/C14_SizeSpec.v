(* C14_SizeSpec.v — "The answer ... carries the hook's message, warnings and - for mutating hooks -
   patch with patch type JSONPatch", read at full size: what reaches the API server is, byte for byte,
   what the hook wrote - the warnings element for element and in order, the patch as the same byte
   string, the message of a denial as the same text.  Written from the property text; only data types
   are shared with the model.  Everything else the text says (fail closed, UID, routing) is C14_Spec.P,
   applied to the observation with the content forgotten. *)
From Verif Require Import Common C14_Model C14_Spec C14_SizeModel.

Definition relay_full (regs : list reg) (path : bytes) (exit_zero : bool) (f : sfile) (a : sanswer) (who : ran) : bool :=
  match a, f with
  | SRev rv, SResp r =>
    (* the hook bound to the path ran, exited zero and wrote a valid response *)
    if exit_zero && existsb (ran_is who) (registrars regs path) then
      Bool.eqb (sa_allowed rv) (s_allowed r)
      && list_eqb bytes_eqb (sa_warnings rv) (s_warnings r)
      && (if s_allowed r then true
          else match s_msg r with
               | [] => true
               | m => match sa_msg rv with SMText m' => bytes_eqb m' m | SMClass _ => false end
               end)
      && (match who with
          | Some (_, (Mutating, _)) =>
            bytes_eqb (sa_patch rv) (s_patch r) && Bool.eqb (sa_patchtype rv) (nonempty (s_patch r))
          | _ => true
          end)
    else true
  | _, _ => true
  end.

(* an answer that was not relayed from a hook (a denial made by the operator) carries no warnings and
   no patch of its own making: warnings and patch only ever come from the hook *)
Definition nothing_invented (f : sfile) (a : sanswer) : bool :=
  match a with
  | SRev rv =>
    match f with
    | SResp r =>
      (match sa_warnings rv with [] => true | w => list_eqb bytes_eqb w (s_warnings r) end)
      && (match sa_patch rv with [] => true | p => bytes_eqb p (s_patch r) end)
    | _ => match sa_warnings rv, sa_patch rv with [], [] => true | _, _ => false end
    end
  | SStatus _ => true
  end.

Definition P_size (regs : list reg) (path : bytes) (uid : N) (exit_zero : bool) (f : sfile) (a : sanswer) (who : ran) : bool :=
  P regs path (BReview uid) (abs_run exit_zero f) (abs_answer a) who
  && relay_full regs path exit_zero f a who
  && nothing_invented f a.
