(* C01_OpProofs.v — the operator-level predicate of C01 (C01_OpSpec.P_op) holds of the
   operator model's own observations, for every well-formed configuration and every action
   sequence.
   Method (as C17_Proofs / C06_PProofs): an invariant of every reachable state, kept by
   [step], from which each clause of the step predicate follows; induction over the actions.
   The invariant is
     Op_Proofs.Inv            queue names distinct, a busy queue is not empty, ...
     C06_PProofs.s_ok         per task / per queue facts: which tasks carry monitor ids, what
                              the head of a busy queue looks like, named queues hold plain
                              tasks only, a skipped Synchronization is one of an exempt binding
     C06_PProofs.booted_or_not  shape of the main queue while onStartup tasks are pending
     ev_queues (new here)     every Event context queued anywhere belongs to a binding whose
                              monitor is unlocked. *)
From Verif Require Import Common Op_Model Op_Corr Op_Spec Op_Proofs.
From Verif Require Import C06_Spec C06_Proofs C06_PProofs.
From Verif Require Import C17_Proofs.
From Verif Require Import C01_OpSpec.
From Coq Require Import Permutation.
Open Scope N_scope.

(* ------------------------------------------------------------------ Event contexts only of unlocked monitors *)

Definition ev_ctx (unl : list N) (c : ctx) : bool :=
  match c_kind c with KEvent => mem_N (c_binding c) unl | _ => true end.
Definition ev_task (unl : list N) (t : task) : bool := forallb (ev_ctx unl) (t_ctxs t).
Definition ev_items (unl : list N) (l : list task) : bool := forallb (ev_task unl) l.
Definition ev_queues (unl : list N) (qs : list qstate) : bool :=
  forallb (fun q => ev_items unl (q_items q)) qs.

Lemma ev_ctx_mono a b c : sub a b -> ev_ctx a c = true -> ev_ctx b c = true.
Proof. intros S. unfold ev_ctx. destruct (c_kind c); auto. Qed.

Lemma ev_task_mono a b t : sub a b -> ev_task a t = true -> ev_task b t = true.
Proof.
  intros S H. unfold ev_task in *. apply forallb_forall. intros c Hc.
  apply (ev_ctx_mono a b c S). apply (forallb_In _ _ c H Hc).
Qed.

Lemma ev_items_mono a b l : sub a b -> ev_items a l = true -> ev_items b l = true.
Proof.
  intros S H. unfold ev_items in *. apply forallb_forall. intros t Ht.
  apply (ev_task_mono a b t S). apply (forallb_In _ _ t H Ht).
Qed.

Lemma ev_queues_mono a b qs : sub a b -> ev_queues a qs = true -> ev_queues b qs = true.
Proof.
  intros S H. unfold ev_queues in *. apply forallb_forall. intros q Hq.
  apply (ev_items_mono a b _ S). apply (forallb_In _ _ q H Hq).
Qed.

Lemma ev_items_app unl a b : ev_items unl (a ++ b) = ev_items unl a && ev_items unl b.
Proof. apply forallb_app. Qed.

Lemma ev_items_cons unl t l : ev_items unl (t :: l) = ev_task unl t && ev_items unl l.
Proof. reflexivity. Qed.

Lemma ev_queues_cons unl q qs : ev_queues unl (q :: qs) = ev_items unl (q_items q) && ev_queues unl qs.
Proof. reflexivity. Qed.

(* combining: the contexts of the combined task are among those of the merged tasks *)
Lemma ev_combine unl t rest : ev_items unl (t :: rest) = true ->
  ev_items unl (fst (combine t rest) :: snd (combine t rest)) = true.
Proof.
  intros H. unfold combine. destruct (take_block t rest) as [B rest'] eqn:TB.
  destruct (take_block_spec t rest B rest' TB) as [E _].
  destruct B as [|x0 bl]; [exact H|].
  cbn [fst snd]. rewrite E, ev_items_cons, ev_items_app in H.
  apply andb_true_iff in H as [Ht Hr]. apply andb_true_iff in Hr as [HB Hr'].
  rewrite ev_items_cons, Hr', andb_true_r.
  unfold ev_task. cbn [set_combined t_ctxs]. apply forallb_compact. rewrite forallb_app.
  apply andb_true_iff. split; [exact Ht|]. rewrite forallb_flat_map. exact HB.
Qed.

(* the worker of one queue *)
Lemma ev_advance_q cfg qok : forall fuel items sh,
  ev_items (s_unlocked sh) items = true ->
  ev_items (s_unlocked (snd (advance_q fuel cfg qok items sh))) (fst (fst (advance_q fuel cfg qok items sh))) = true
  /\ sub (s_unlocked sh) (s_unlocked (snd (advance_q fuel cfg qok items sh))).
Proof.
  induction fuel as [|fuel IH]; intros items sh H.
  { rewrite advance_q_O. split; [exact H | apply sub_refl]. }
  destruct items as [|t rest].
  { rewrite advance_q_nil. split; [exact H | apply sub_refl]. }
  pose proof H as H0. rewrite ev_items_cons in H. apply andb_true_iff in H as [Ht Hr].
  destruct (t_type t) eqn:Ty.
  - rewrite advance_q_hookrun by exact Ty. cbv zeta.
    destruct (should_run _ t).
    + destruct (negb _ && should_combine t && qok (t_queue t)).
      * pose proof (ev_combine _ t rest H0) as C. destruct (combine t rest) as [t' rest'].
        cbn [fst snd] in *. split; [exact C | apply sub_refl].
      * cbn [fst snd]. split; [exact H0 | apply sub_refl].
    + set (sh1 := mkSh (s_sched_on sh) (s_unlocked sh ++ t_mids t) (s_mon_started sh)).
      assert (Hr1 : ev_items (s_unlocked sh1) rest = true).
      { apply (ev_items_mono (s_unlocked sh)); [apply sub_app_l | exact Hr]. }
      destruct (IH rest sh1 Hr1) as [I1 I2].
      split; [exact I1|]. apply (sub_trans _ (s_unlocked sh1)); [apply sub_app_l | exact I2].
  - destruct (find_hook cfg (t_hook t)) as [h|] eqn:F.
    + rewrite (enable_kube_creates_syncs fuel cfg qok t rest sh h Ty F).
      set (sh1 := mkSh (s_sched_on sh) (s_unlocked sh) (s_mon_started sh ++ map kb_mon (h_kube h))).
      assert (Hr1 : ev_items (s_unlocked sh1) (map (sync_task h) (h_kube h) ++ rest) = true).
      { rewrite ev_items_app. apply andb_true_iff. split; [|exact Hr].
        apply forallb_forall. intros x Hx. apply in_map_iff in Hx as [b [<- _]]. reflexivity. }
      destruct (IH _ sh1 Hr1) as [I1 I2]. split; [exact I1 | exact I2].
    + rewrite (advance_q_kube_none fuel cfg qok t rest sh Ty F). apply IH. exact Hr.
  - rewrite (enable_sched_step fuel cfg qok t rest sh Ty).
    set (sh1 := mkSh (s_sched_on sh ++ [t_hook t]) (s_unlocked sh) (s_mon_started sh)).
    destruct (IH rest sh1 Hr) as [I1 I2]. split; [exact I1 | exact I2].
Qed.

(* one round of all workers *)
Lemma ev_advance_all cfg qok : forall qs sh,
  ev_queues (s_unlocked sh) qs = true ->
  ev_queues (s_unlocked (snd (advance_all cfg qok qs sh))) (fst (advance_all cfg qok qs sh)) = true
  /\ sub (s_unlocked sh) (s_unlocked (snd (advance_all cfg qok qs sh))).
Proof.
  induction qs as [|q r IH]; intros sh H.
  { cbn [advance_all fst snd]. split; [reflexivity | apply sub_refl]. }
  rewrite ev_queues_cons in H. apply andb_true_iff in H as [Hq Hr].
  cbn [advance_all]. destruct (is_running q).
  - destruct (IH sh Hr) as [I1 I2]. destruct (advance_all cfg qok r sh) as [r' sh']. cbn [fst snd] in *.
    split; [|exact I2]. rewrite ev_queues_cons, I1, andb_true_r.
    apply (ev_items_mono (s_unlocked sh)); [exact I2 | exact Hq].
  - destruct (ev_advance_q cfg qok (fuel_for cfg (q_items q)) (q_items q) sh Hq) as [A1 A2].
    destruct (advance_q (fuel_for cfg (q_items q)) cfg qok (q_items q) sh) as [[items run] sh1].
    cbn [fst snd] in A1, A2.
    destruct (IH sh1 (ev_queues_mono _ _ r A2 Hr)) as [I1 I2].
    destruct (advance_all cfg qok r sh1) as [r' sh']. cbn [fst snd] in *.
    split; [|apply (sub_trans _ _ _ A2 I2)].
    rewrite ev_queues_cons, I1, andb_true_r. cbn [q_items].
    apply (ev_items_mono (s_unlocked sh1)); [exact I2 | exact A1].
Qed.

Lemma ev_advance cfg s : ev_queues (unlocked s) (queues s) = true ->
  ev_queues (unlocked (advance cfg s)) (queues (advance cfg s)) = true.
Proof.
  intros H. unfold advance. destruct (stopped s); [exact H|].
  pose proof (ev_advance_all cfg (has_queue (queues s)) (queues s)
                (mkSh (sched_on s) (unlocked s) (mon_started s)) H) as [I1 _].
  destruct (advance_all _ _ _ _) as [qs sh]. exact I1.
Qed.

(* ---- what the actions put into the queues *)

Lemma ev_sched_tasks cfg on unl c : ev_items unl (sched_tasks cfg on c) = true.
Proof.
  rewrite sched_tasks_exactly. apply forallb_forall. intros t Ht.
  apply in_map_iff in Ht as [hb [<- _]]. reflexivity.
Qed.

(* an Event task is created only for an unlocked monitor, and it names that monitor's binding *)
Lemma ev_kube_tasks cfg unl m o : wf_facts cfg -> ev_items unl (kube_tasks cfg unl m o) = true.
Proof.
  intros W. rewrite kube_tasks_exactly. destruct (mem_N m unl) eqn:M; [|reflexivity].
  apply forallb_forall. intros t Ht. apply in_map_iff in Ht as [[n b] [<- Hb]].
  apply filter_In in Hb as [Hb Em]. cbn [snd] in Em. apply N.eqb_eq in Em.
  unfold kube_pairs in Hb. apply in_flat_map in Hb as [h [Hh Hb]]. apply in_map_iff in Hb as [b' [E Hb]].
  inversion E; subst n b'. clear E.
  unfold ev_task, kube_task_of. cbn [t_ctxs snd forallb]. unfold ev_ctx. cbn [c_kind c_binding].
  rewrite <- (wf_mon cfg W h b Hh Hb), Em, M. reflexivity.
Qed.

Lemma ev_app_many unl ts q : ev_items unl (q_items q) = true -> ev_items unl ts = true ->
  ev_items unl (q_items (app_many ts q)) = true.
Proof.
  intros H1 H2. unfold app_many. cbn [q_items]. rewrite ev_items_app, H1. cbn [andb].
  apply forallb_forall. intros t Ht. apply filter_In in Ht as [Ht _]. apply (forallb_In _ _ t H2 Ht).
Qed.

Lemma ev_finish_one unl ok stp wait q : ev_items unl (q_items q) = true ->
  ev_items unl (q_items (finish_one ok stp wait q)) = true.
Proof.
  intros H. destruct q as [n items run d]. unfold finish_one. cbn [q_running q_items q_delay q_name] in *.
  destruct run; [|exact H]. destruct items as [|t rest]; [exact H|]. destruct d; [exact H|].
  rewrite ev_items_cons in H. apply andb_true_iff in H as [Ht Hr].
  destruct stp; [cbn [q_items]; rewrite ev_items_cons, Ht; exact Hr|].
  destruct (ok || t_allow t); [exact Hr|].
  destruct wait; cbn [q_items]; rewrite ev_items_cons; change (ev_task unl (incr_fail t)) with (ev_task unl t);
    rewrite Ht; exact Hr.
Qed.

Lemma ev_finish_map unl unl' qn ok stp wait qs : sub unl unl' -> ev_queues unl qs = true ->
  ev_queues unl' (map (fun q => if N.eqb (q_name q) qn then finish_one ok stp wait q else q) qs) = true.
Proof.
  intros S H. unfold ev_queues. apply forallb_forall. intros q' Hq'. apply in_map_iff in Hq' as [q [<- Hq]].
  pose proof (forallb_In _ _ q H Hq) as Q. cbv beta in Q.
  apply (ev_items_mono unl unl' _ S).
  destruct (N.eqb (q_name q) qn); [now apply ev_finish_one | exact Q].
Qed.

Lemma ev_boot_main cfg unl : ev_items unl (boot_main cfg) = true.
Proof.
  unfold boot_main. rewrite ev_items_app. apply andb_true_iff. split; apply forallb_forall; intros t Ht.
  - apply in_map_iff in Ht as [h [<- _]]. reflexivity.
  - apply in_flat_map in Ht as [h [_ Ht]]. unfold enable_tasks in Ht.
    apply in_app_or in Ht as [Ht|Ht]; destruct (h_kube h), (h_sched h); simpl in Ht;
      repeat (destruct Ht as [<-|Ht]; [reflexivity|]); try contradiction.
Qed.

Lemma ev_boot_queues cfg unl : ev_queues unl (boot_queues cfg) = true.
Proof.
  unfold ev_queues, boot_queues.
  apply fold_add_queue_forallb; [intros n; reflexivity|].
  apply fold_add_queue_forallb; [intros n; reflexivity|].
  cbn [forallb q_items]. now rewrite ev_boot_main.
Qed.

(* the action part of a step *)
Lemma ev_pre cfg s a : wf_facts cfg -> NoDup (names (queues s)) ->
  ev_queues (unlocked s) (queues s) = true ->
  ev_queues (unlocked (pre_state cfg s a)) (queues (pre_state cfg s a)) = true.
Proof.
  intros W ND H. destruct a; cbn [pre_state].
  - destruct (queues s) eqn:E; [|rewrite E; exact H]. cbn [queues unlocked]. apply ev_boot_queues.
  - cbn [queues unlocked]. rewrite (append_tasks_map _ _ ND). unfold ev_queues.
    apply forallb_forall. intros q' Hq'. apply in_map_iff in Hq' as [q [<- Hq]].
    apply ev_app_many; [apply (forallb_In _ _ q H Hq) | apply ev_sched_tasks].
  - cbn [queues unlocked]. rewrite (append_tasks_map _ _ ND). unfold ev_queues.
    apply forallb_forall. intros q' Hq'. apply in_map_iff in Hq' as [q [<- Hq]].
    apply ev_app_many; [apply (forallb_In _ _ q H Hq) | now apply ev_kube_tasks].
  - pose proof (finish_in_map (queues s) q ok (stopped s) false (unlocked s) ND) as FM.
    pose proof (finish_in_snd (queues s) q ok (stopped s) false (unlocked s)) as FS.
    destruct (finish_in (queues s) q ok (stopped s) false (unlocked s)) as [qs unl].
    cbn [fst snd] in FM, FS. cbn [queues unlocked]. rewrite FM, FS.
    apply (ev_finish_map (unlocked s)); [|exact H].
    destruct (find _ (queues s)); [apply sub_fin_unl | apply sub_refl].
  - exact H.
  - pose proof (finish_in_map (queues s) q false (stopped s) true (unlocked s) ND) as FM.
    pose proof (finish_in_snd (queues s) q false (stopped s) true (unlocked s)) as FS.
    destruct (finish_in (queues s) q false (stopped s) true (unlocked s)) as [qs unl].
    cbn [fst snd] in FM, FS. cbn [queues unlocked]. rewrite FM, FS.
    apply (ev_finish_map (unlocked s)); [|exact H].
    destruct (find _ (queues s)); [apply sub_fin_unl | apply sub_refl].
  - cbn [queues unlocked]. rewrite (elapse_in_map _ q ND). unfold ev_queues.
    apply forallb_forall. intros q' Hq'. apply in_map_iff in Hq' as [q0 [<- Hq]].
    pose proof (forallb_In _ _ q0 H Hq) as Q. cbv beta in Q.
    destruct (N.eqb (q_name q0) q); [|exact Q]. unfold elapse_one. destruct (q_delay q0); exact Q.
Qed.

(* ------------------------------------------------------------------ reading the observation *)

Lemma so_unlocked_observe cfg s : so_unlocked (observe cfg s) = sort_dedup (unlocked s).
Proof. reflexivity. Qed.

Lemma so_bad_observe cfg s : so_bad (observe cfg s) = false.
Proof. reflexivity. Qed.

Lemma find_q_obs cfg s q : NoDup (names (queues s)) -> In q (queues s) ->
  find_q (q_name q) (so_queues (observe cfg s))
  = Some (mkQO (q_name q) (q_items q) (in_handler q) (stopped s && negb (in_handler q))
               (is_running q && q_delay q && negb (stopped s))).
Proof.
  intros ND Hq. unfold observe. cbn [so_queues].
  rewrite find_map_name by reflexivity.
  assert (ND' : NoDup (names (sort_queues (queues s)))).
  { unfold names. apply (Permutation_NoDup (l := map q_name (queues s))); [|exact ND].
    apply Permutation_map, Permutation_sym, sort_queues_perm. }
  rewrite (find_queue_unique _ q ND' (proj2 (in_sort_queues q _) Hq)). reflexivity.
Qed.

Lemma find_q_inv cfg s n m : find_q n (so_queues (observe cfg s)) = Some m ->
  exists q, In q (queues s) /\ q_name q = n /\ qo_items m = q_items q /\ qo_running m = in_handler q.
Proof.
  unfold find_q. intros F. apply find_some in F as [F1 F2]. apply N.eqb_eq in F2.
  unfold observe in F1. cbn [so_queues] in F1. apply in_map_iff in F1 as [q [E Hq]].
  apply (proj1 (in_sort_queues q _)) in Hq. exists q. subst m. cbn [qo_name] in F2.
  split; [exact Hq|]. split; [exact F2|]. split; reflexivity.
Qed.

(* the main queue shows an open execution with head [t]: the state's queue 0 is in a handler
   on [t] *)
Lemma main_head_running cfg s t :
  main_running (observe cfg s) = true -> main_head (observe cfg s) = Some t ->
  exists q r sy, In q (queues s) /\ q_name q = 0 /\ q_items q = t :: r
                 /\ q_running q = Some sy /\ q_delay q = false.
Proof.
  unfold main_running, main_head. destruct (find_q 0 (so_queues (observe cfg s))) as [m|] eqn:F; [|discriminate].
  destruct (find_q_inv cfg s 0 m F) as (q & Hq & En & Ei & Er). rewrite Er, Ei.
  intros R H. destruct (q_items q) as [|t' r] eqn:I; [discriminate|]. inversion H; subst t'.
  unfold in_handler, is_running in R. destruct (q_running q) as [sy|] eqn:Rq; [|discriminate].
  destruct (q_delay q) eqn:D; [discriminate|].
  exists q, r, sy. auto.
Qed.

(* what a rendered context can show as an Event *)
Lemma render_event unl v0 c : ev_ctx unl c = true ->
  (match render_ctx v0 c with (b, k, _, _) => if N.eqb k K_Event then mem_N b unl else true end) = true.
Proof.
  unfold render_ctx, ev_ctx. intros H. destruct v0; [reflexivity|].
  destruct (c_kind c); try reflexivity; destruct (N.eqb (c_group c) 0); try reflexivity. exact H.
Qed.

(* ------------------------------------------------------------------ clause (2): every state *)

Lemma events_only_unlocked_holds cfg s : ev_queues (unlocked s) (queues s) = true ->
  events_only_unlocked cfg (observe cfg s) = true.
Proof.
  intros H. unfold events_only_unlocked. rewrite so_unlocked_observe.
  pose proof (ev_queues_mono _ _ _ (sub_sort_dedup (unlocked s)) H) as H'.
  apply andb_true_iff. split.
  - apply forallb_forall. intros qo Hqo. apply in_so_queues in Hqo as (q & Hq & -> & _).
    exact (forallb_In _ _ q H' Hq).
  - apply forallb_forall. intros e He.
    apply in_execs_inv in He as (q & t & r & sy & Hq & R & I & D & ->).
    pose proof (forallb_In _ _ q H' Hq) as Q. cbv beta in Q. rewrite I, ev_items_cons in Q.
    apply andb_true_iff in Q as [Qt _].
    unfold exec_of. cbn [eo_ctxs]. apply forallb_forall. intros hc Hhc.
    apply in_map_iff in Hhc as [c [<- Hc]]. apply render_event. apply (forallb_In _ _ c Qt Hc).
Qed.

(* ------------------------------------------------------------------ an emitted event is queued *)

Lemma filter_le1 {A} (f : A -> N) v : forall l, NoDup (map f l) ->
  (length (filter (fun x => N.eqb (f x) v) l) <= 1)%nat.
Proof.
  induction l as [|x r IH]; intros H; [simpl; lia|]. inversion H as [|? ? Hx Hr]; subst. simpl.
  destruct (N.eqb (f x) v) eqn:E; [|now apply IH].
  apply N.eqb_eq in E. simpl.
  assert (Z : filter (fun y => N.eqb (f y) v) r = []).
  { destruct (filter (fun y => N.eqb (f y) v) r) as [|y ys] eqn:F; [reflexivity|]. exfalso.
    assert (Hy : In y (filter (fun y => N.eqb (f y) v) r)) by (rewrite F; now left).
    apply filter_In in Hy as [Hy Ey]. apply N.eqb_eq in Ey. apply Hx. rewrite E, <- Ey. now apply in_map. }
  rewrite Z. simpl. lia.
Qed.

Lemma kube_pairs_snd cfg : map snd (kube_pairs cfg) = map snd (kube_bindings cfg).
Proof.
  unfold kube_pairs, kube_bindings. induction cfg as [|h r IH]; [reflexivity|]. simpl.
  rewrite !map_app, IH. f_equal. rewrite !map_map. reflexivity.
Qed.

Lemma filter_map_snd {A B} (p : B -> bool) (l : list (A * B)) :
  map snd (filter (fun x => p (snd x)) l) = filter p (map snd l).
Proof. induction l as [|x r IH]; [reflexivity|]. simpl. destruct (p (snd x)); simpl; now rewrite IH. Qed.

(* at most one binding watches through a given monitor (names are unique, a monitor is named
   after its binding) *)
Lemma one_binding_per_monitor cfg m : wf_facts cfg ->
  (length (filter (fun hb : N * kbinding => N.eqb (kb_mon (snd hb)) m) (kube_pairs cfg)) <= 1)%nat.
Proof.
  intros W.
  rewrite <- (map_length snd), (filter_map_snd (fun b => N.eqb (kb_mon b) m)), kube_pairs_snd.
  assert (E : filter (fun b => N.eqb (kb_mon b) m) (map snd (kube_bindings cfg))
              = filter (fun b => N.eqb (kb_name b) m) (map snd (kube_bindings cfg))).
  { apply filter_ext_in. intros b Hb. apply in_map_iff in Hb as [[h b'] [<- Hb]]. cbn [snd].
    unfold kube_bindings in Hb. apply in_flat_map in Hb as [h' [Hh Hb]]. apply in_map_iff in Hb as [b'' [E Hb]].
    inversion E; subst. now rewrite (wf_mon cfg W h b' Hh Hb). }
  rewrite E. apply (filter_le1 kb_name m). rewrite map_map. exact (wf_knames cfg W).
Qed.

Lemma has_queue_fold_add l : forall qs n, has_queue qs n = true -> has_queue (fold_left add_queue l qs) n = true.
Proof.
  induction l as [|x l IH]; intros qs n H; [exact H|]. simpl. apply IH.
  unfold add_queue. destruct (has_queue qs x); [exact H|].
  unfold has_queue in *. rewrite existsb_app, H. reflexivity.
Qed.

Lemma has_queue_fold_added l : forall qs n, In n l -> has_queue (fold_left add_queue l qs) n = true.
Proof.
  induction l as [|x l IH]; intros qs n H; [destruct H|]. simpl. destruct H as [->|H]; [|now apply IH].
  apply has_queue_fold_add. unfold add_queue. destruct (has_queue qs n) eqn:E; [exact E|].
  unfold has_queue. rewrite existsb_app. cbn. rewrite N.eqb_refl. apply orb_true_r.
Qed.

Lemma boot_queue_of_binding cfg h b : In h cfg -> In b (h_kube h) -> has_queue (boot_queues cfg) (kb_queue b) = true.
Proof.
  intros Hh Hb. unfold boot_queues. apply has_queue_fold_added.
  apply in_flat_map. exists h. split; [exact Hh | now apply in_map].
Qed.

(* a single Event task in an idle queue is picked as it is *)
Lemma adv_one_single_event cfg qok n tk :
  t_type tk = HookRun -> is_sync tk = false ->
  q_items (adv_one cfg qok (mkQ n [tk] None false)) = [tk].
Proof.
  intros Ty Sy. unfold adv_one, is_running. cbn [q_running q_items q_name].
  unfold fuel_for. cbn [fold_right]. unfold advance_q at 1. rewrite Ty.
  unfold should_run. rewrite Sy. cbn [andb negb].
  destruct (negb _ && should_combine tk && qok (t_queue tk)); [|reflexivity].
  unfold combine. cbn [take_block]. reflexivity.
Qed.

(* ------------------------------------------------------------------ one step *)

Section Run.
Variable cfg : config.
Hypothesis W : wf_facts cfg.
Hypothesis Hnoq : has_queue (boot_queues cfg) no_queue = false.

Record good (s : state) : Prop := mkGood {
  gd_inv : Inv s;
  gd_boot : booted_or_not cfg s;
  gd_sok : s_ok cfg s;
  gd_ev : ev_queues (unlocked s) (queues s) = true
}.

Lemma good_step s a : good s -> good (step cfg s a).
Proof.
  intros [G1 G2 G3 G4]. constructor.
  - now apply step_inv.
  - now apply (step_booted cfg Hnoq).
  - apply (C06_PProofs.step_ok cfg W Hnoq s a G1 G2 G3).
  - rewrite step_pre. apply ev_advance. apply ev_pre; [exact W | apply (inv_names s G1) | exact G4].
Qed.

Lemma good_init : good init.
Proof.
  constructor.
  - apply init_inv.
  - left. repeat split.
  - split; reflexivity.
  - reflexivity.
Qed.

(* clause (1): a monitor becomes unlocked only by the successful end of a main-queue execution
   whose task carries it, or because its binding is exempt from Synchronization *)
Lemma unlock_legal_holds s a : good s ->
  unlock_legal cfg a (observe cfg s) (observe cfg (step cfg s a)) = true.
Proof.
  intros [HI HB HS HE]. destruct (C06_PProofs.step_ok cfg W Hnoq s a HI HB HS) as (_ & ex & EU & EX).
  unfold unlock_legal. apply forallb_forall. intros b Hb.
  rewrite so_unlocked_observe in Hb. apply (proj1 (in_sort_dedup b _)) in Hb.
  rewrite EU in Hb. apply in_app_or in Hb as [Hb|Hb].
  2:{ rewrite (forallb_In _ _ b EX Hb). now rewrite orb_true_r. }
  assert (Old : In b (unlocked s) -> mem_N b (so_unlocked (observe cfg s)) = true).
  { intros H. rewrite so_unlocked_observe. apply mem_N_In. apply (proj2 (in_sort_dedup b _)), H. }
  assert (Fin : forall qn ok,
            In b (match find_queue (queues s) qn with Some q => fin_unl q ok (unlocked s) | None => unlocked s end) ->
            mem_N b (so_unlocked (observe cfg s)) = true
            \/ N.eqb qn 0 && main_running (observe cfg s)
               && match main_head (observe cfg s) with
                  | Some t => (ok || t_allow t) && mem_N b (t_mids t)
                  | None => false
                  end = true).
  { intros qn ok H. destruct (find_queue (queues s) qn) as [q|] eqn:F; [|left; now apply Old].
    unfold find_queue in F. apply find_some in F as [Hq En]. apply N.eqb_eq in En.
    unfold fin_unl in H. destruct (q_running q) as [sy|] eqn:R; [|left; now apply Old].
    destruct (q_items q) as [|t r] eqn:I; [left; now apply Old|].
    destruct (q_delay q) eqn:D; [left; now apply Old|].
    destruct (ok || t_allow t) eqn:C; [|left; now apply Old].
    apply in_app_or in H as [H|H]; [left; now apply Old|]. right.
    destruct (head_facts cfg s q t r sy HS Hq R I) as (_ & _ & _ & [Z|Pl]).
    2:{ exfalso. cbn [forallb] in Pl. apply andb_true_iff in Pl as [Pl _]. apply plain_facts in Pl.
        destruct Pl as (_ & _ & _ & Mi & _). rewrite Mi in H. destruct H. }
    apply N.eqb_eq in Z.
    pose proof (find_q_obs cfg s q (inv_names s HI) Hq) as Fq. rewrite Z in Fq.
    assert (E0 : N.eqb qn 0 = true) by (apply N.eqb_eq; congruence).
    unfold main_running, main_head. rewrite E0, Fq. cbn [qo_running qo_items]. rewrite I, C.
    unfold in_handler, is_running. rewrite R, D. cbn [negb andb]. now apply mem_N_In. }
  destruct a; cbn [pre_unl] in Hb; try (rewrite (Old Hb); reflexivity).
  - destruct (Fin q ok Hb) as [H|H]; rewrite H; [reflexivity | now rewrite orb_true_r].
  - pose proof (Fin q false Hb) as H. cbn [orb] in H.
    destruct H as [H|H]; rewrite H; [reflexivity | now rewrite orb_true_r].
Qed.

(* the monitors carried by the head of main are unlocked by the action part of a Finish of
   main that succeeds *)
Lemma fin_mids s qn ok t : Inv s -> N.eqb qn 0 = true -> main_running (observe cfg s) = true ->
  main_head (observe cfg s) = Some t -> ok || t_allow t = true ->
  forall b, In b (t_mids t) -> In b (pre_unl s (Finish qn ok)).
Proof.
  intros HI E0 MR MH Su b Hb. apply N.eqb_eq in E0. subst qn.
  destruct (main_head_running cfg s t MR MH) as (q & r & sy & Hq & En & I & R & D).
  assert (F : find_queue (queues s) 0 = Some q).
  { rewrite <- En. apply find_queue_unique; [apply (inv_names s HI) | exact Hq]. }
  cbn [pre_unl]. rewrite F. unfold fin_unl. rewrite R, I, D, Su. apply in_or_app. now right.
Qed.

(* clause (3): after the successful end of a main-queue execution every monitor its task
   carries is unlocked *)
Lemma unlock_complete_holds s a stp : good s ->
  unlock_complete stp a (observe cfg s) (observe cfg (step cfg s a)) = true.
Proof.
  intros [HI HB HS HE]. destruct (C06_PProofs.step_ok cfg W Hnoq s a HI HB HS) as (_ & ex & EU & _).
  destruct a as [| | |qn ok| |qn|]; try reflexivity; cbn [unlock_complete].
  - destruct (N.eqb qn 0 && main_running (observe cfg s) && negb stp) eqn:C; [|reflexivity].
    apply andb_true_iff in C as [C _]. apply andb_true_iff in C as [C1 C2].
    destruct (main_head (observe cfg s)) as [t|] eqn:MH; [|reflexivity].
    destruct (ok || t_allow t) eqn:Su; [|reflexivity].
    apply forallb_forall. intros b Hb. rewrite so_unlocked_observe. apply mem_N_In, in_sort_dedup.
    rewrite EU. apply in_or_app. left. apply (fin_mids s qn ok t HI C1 C2 MH Su b Hb).
  - destruct (N.eqb qn 0 && main_running (observe cfg s) && negb stp) eqn:C; [|reflexivity].
    apply andb_true_iff in C as [C _]. apply andb_true_iff in C as [C1 C2].
    destruct (main_head (observe cfg s)) as [t|] eqn:MH; [|reflexivity].
    destruct (t_allow t) eqn:Su; [|reflexivity].
    apply forallb_forall. intros b Hb. rewrite so_unlocked_observe. apply mem_N_In, in_sort_dedup.
    rewrite EU. apply in_or_app. left. apply (fin_mids s qn false t HI C1 C2 MH Su b Hb).
Qed.

(* clause (4): an event an unlocked monitor emits is queued *)
Lemma event_queued_holds s a : good s ->
  event_queued cfg (stopped s) a (observe cfg s) (observe cfg (step cfg s a)) = true.
Proof.
  intros G. unfold event_queued. destruct a as [| |m obj| | | |]; try reflexivity.
  rewrite so_unlocked_observe.
  destruct (mem_N m (sort_dedup (unlocked s))) eqn:M; [|reflexivity].
  destruct (stopped s) eqn:St; [reflexivity|]. cbn [negb andb].
  apply (proj1 (mem_N_In _ _)) in M. apply (proj1 (in_sort_dedup _ _)) in M.
  apply forallb_forall. intros [h b] Hhb. cbn [snd]. destruct (N.eqb (kb_mon b) m) eqn:Em; [|reflexivity].
  apply N.eqb_eq in Em.
  unfold kube_bindings in Hhb. apply in_flat_map in Hhb as [h' [Hh Hb]]. apply in_map_iff in Hb as [b' [E Hb]].
  inversion E; subst h' b'. clear E.
  (* the operator is booted: the binding's queue exists *)
  destruct (gd_boot s G) as [(_ & _ & U & _)|HJ]; [rewrite U in M; destruct M|].
  destruct HJ as [sts others mr md Qs Hq Hst Hoth Hn Hp].
  assert (Hne : queues s <> []) by (rewrite Hq; discriminate).
  assert (HQ : has_queue (queues s) (kb_queue b) = true)
    by (rewrite (has_queue_names _ _ Hn); now apply (boot_queue_of_binding cfg h b)).
  unfold has_queue in HQ. apply existsb_exists in HQ as [q [Hq0 Eq]]. apply N.eqb_eq in Eq.
  (* the tasks of this event: exactly the one of this binding *)
  set (tk := kube_task_of obj (h_id h, b)).
  assert (Hts : kube_tasks cfg (unlocked s) m obj = [tk]).
  { rewrite kube_tasks_exactly. rewrite (proj2 (mem_N_In m (unlocked s)) M).
    pose proof (one_binding_per_monitor cfg m W) as L1.
    assert (Hin : In (h_id h, b) (filter (fun hb : N * kbinding => N.eqb (kb_mon (snd hb)) m) (kube_pairs cfg))).
    { apply filter_In. split; [|cbn [snd]; now apply N.eqb_eq].
      unfold kube_pairs. apply in_flat_map. exists h. split; [exact Hh | now apply in_map]. }
    destruct (filter (fun hb : N * kbinding => N.eqb (kb_mon (snd hb)) m) (kube_pairs cfg)) as [|x [|y r]] eqn:F.
    - destruct Hin.
    - destruct Hin as [->|[]]. reflexivity.
    - simpl in L1. lia. }
  (* where it ends up *)
  unfold has_event. apply existsb_exists.
  pose proof (step_queue_local cfg s (KubeEv m obj) (inv_names s (gd_inv s G)) Hne) as SQ.
  set (q' := step_q cfg (KubeEv m obj) (sched_on s) (unlocked s) (stopped s) (has_queue (queues s)) q).
  assert (Hq' : In q' (queues (step cfg s (KubeEv m obj)))) by (rewrite SQ; now apply in_map).
  assert (Hobs : exists qo, In qo (so_queues (observe cfg (step cfg s (KubeEv m obj)))) /\ qo_items qo = q_items q').
  { unfold observe. cbn [so_queues]. eexists. split.
    - apply in_map. apply (proj2 (in_sort_queues q' _)). exact Hq'.
    - reflexivity. }
  destruct Hobs as (qo & Hqo & Eqo). exists qo. split; [exact Hqo|]. rewrite Eqo.
  assert (Htk : In tk (q_items q')).
  { unfold q', step_q. rewrite St. cbn [orb is_stop]. rewrite Hts.
    assert (Ea : app_many [tk] q = mkQ (q_name q) (q_items q ++ [tk]) (q_running q) (q_delay q)).
    { unfold app_many. cbn [filter]. unfold tk at 1, kube_task_of. cbn [t_queue snd]. now rewrite Eq, N.eqb_refl. }
    rewrite Ea. unfold adv_one at 1. cbn [is_running q_running].
    destruct (q_running q) as [sy|] eqn:R.
    - cbn [q_items]. apply in_or_app. right. now left.
    - (* idle: the queue was empty (every queue is blocked or empty) *)
      pose proof (inv_quiet s (gd_inv s G) St) as Qu. rewrite Forall_forall in Qu.
      destruct (Qu q Hq0) as [Rn|Em0]; [unfold is_running in Rn; rewrite R in Rn; discriminate|].
      pose proof (inv_delay s (gd_inv s G)) as Dl. rewrite Forall_forall in Dl.
      assert (Dq : q_delay q = false).
      { destruct (q_delay q) eqn:D; [|reflexivity]. specialize (Dl q Hq0 D). unfold is_running in Dl. rewrite R in Dl. discriminate. }
      rewrite Em0, Dq. cbn [app].
      pose proof (adv_one_single_event cfg (has_queue (queues s)) (q_name q) tk eq_refl eq_refl) as A.
      unfold adv_one in A. cbn [is_running q_running q_items q_name] in A.
      cbn [q_items q_name]. 
      match goal with |- In tk (q_items ?X) => change X with
        (let '(items, run, _) := advance_q (fuel_for cfg [tk]) cfg (has_queue (queues s)) [tk] no_shared in
         mkQ (q_name q) items run false) end.
      rewrite A. now left. }
  apply existsb_exists. exists tk. split; [exact Htk|].
  apply existsb_exists. eexists. split; [unfold tk, kube_task_of; cbn [t_ctxs]; now left|].
  cbn [c_kind c_binding c_obj snd]. now rewrite !N.eqb_refl.
Qed.

(* ------------------------------------------------------------------ all steps *)

Lemma steps_ok_from : forall acts s, good s ->
  C01_OpSpec.steps_ok cfg (stopped s) (observe cfg s) acts (map (observe cfg) (trace_from cfg s acts)) = true.
Proof.
  induction acts as [|a acts IH]; intros s G; [reflexivity|].
  cbn [trace_from map C01_OpSpec.steps_ok].
  pose proof (good_step s a G) as G'.
  assert (Hst : stopped (step cfg s a) = (stopped s || match a with Stop => true | _ => false end)).
  { rewrite step_stopped. destruct a; reflexivity. }
  rewrite <- Hst, (IH _ G'), andb_true_r.
  unfold C01_OpSpec.step_ok.
  rewrite so_bad_observe, (unlock_legal_holds s a G), (events_only_unlocked_holds cfg _ (gd_ev _ G')),
          (unlock_complete_holds s a (stopped s) G), (event_queued_holds s a G).
  reflexivity.
Qed.

End Run.

(* The operator-level predicate of C01 holds of the model for every well-formed
   configuration (none of whose bindings uses the number standing for the empty queue name)
   and every sequence of actions. *)
Theorem P_holds cfg acts : wf_config cfg = true -> has_queue (boot_queues cfg) no_queue = false ->
  P_op (cfg, acts, Op_Corr.model_obs (cfg, acts, [])) = true.
Proof.
  intros Wf Hnoq. unfold P_op, Op_Corr.model_obs, c_cfg, c_acts, c_obs, trace. cbn [fst snd].
  exact (steps_ok_from cfg (wf_config_facts cfg Wf) Hnoq acts init (good_init cfg)).
Qed.
