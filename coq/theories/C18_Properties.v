(* C18_Properties.v — the property theorems of C18 and nothing else.

   Model: C18_Model (settings -> CreateRateLimiter -> integer token bucket transcribing
   golang.org/x/time/rate reserveN for n = 1).  [grants b arrivals] lists, per request
   instant, the instant the request is allowed to act (Some) or a refusal (None).

   PARTIAL (runtime, not provable in a Gallina model): Limiter.Wait sleeps on a runtime
   timer until the granted instant; that an execution really starts no EARLIER than its
   granted instant is a fact of the Go runtime's timers and scheduler.  The theorems
   bound the granted instants; the correspondence checks the real limiter's grants on
   synthetic clocks and the RateLimitWait call with a deadline on the wall clock.
   Model assumption: durations below 2^63 ns (see C18_Model).

   Operator level (theorems C18_op_...): the queue workers of the operator's task-flow model (a local
   copy of the model shared by C03/C04/C06/C17, see C18_Model) with
   the limiter call of taskHandleHookRun in front of every HookRun task - first attempts
   and retries of failed runs, every binding type, every queue, hooks sharing queues,
   executions that are skipped after the call.  [run_lim cfg (init_lim hs) script] runs a
   script of timed actions (Boot / Tick / KubeEv / Finish ok|fail / Stop); its ghost log
   lists every limiter call and every execution start.  A worker that has to wait sleeps
   until the instant of ITS OWN reservation and then goes on with its task; several workers
   (the hook's bindings sit in different queues) may sleep for one hook at once, their
   reservations stack (C18_stacked_reservations, C18_concurrent_waiters).  The bound is proved
   for every script: executions that start at once and executions that start after a sleep.

   Timed correspondence (instants observed late, see C18_Spec [anchored_ok]):
   C18_late_observation_sound shows that the judgement used on measured start instants cannot
   fail because of the delay between a start and its observation; C18_grants_monotone is the
   reason why the implementation's k-th start may be compared one-sidedly (never earlier) with
   the model's, whose requests happen at the earliest possible instants.

   Hooks of every shape (theorems C18_limiter_..., C18_shape_..., C18_startup_..., C18_after_idle_...,
   at the end): a hook configuration is its bindings (any number of kubernetes bindings, grouped
   or not, executed on Synchronization or not, schedule bindings, queues, onStartup) AND its
   settings; CreateRateLimiter is handed the whole of it and uses the settings only.  The bound
   is proved with the CONFIGURED burst for every list of such hooks and every script - the
   Synchronization runs of the start-up (Boot) and single events after idle periods included. *)
From Verif Require Import Common C18_Model C18_Spec C18_Proofs C18_Shared C18_ShapeProofs.
Open Scope Z_scope.

(* any j-i+1 consecutive grants span at least (j-i+1-B) intervals *)
Theorem C18_window_bound : forall I B arrivals,
  0 < I -> 1 <= B -> sortedb arrivals = true ->
  forall i j ai aj, (i <= j)%nat ->
  nth_error (grants (create_rate_limiter (Some (mkSettings I B))) arrivals) i = Some (Some ai) ->
  nth_error (grants (create_rate_limiter (Some (mkSettings I B))) arrivals) j = Some (Some aj) ->
  (Z.of_nat j - Z.of_nat i + 1 - B) * I <= aj - ai.
Proof. exact window_bound. Qed.
Print Assumptions C18_window_bound.

(* every request is granted (so the bound above speaks about all of them) *)
Theorem C18_always_granted : forall I B arrivals,
  0 < I -> 1 <= B -> sortedb arrivals = true ->
  let g := grants (create_rate_limiter (Some (mkSettings I B))) arrivals in
  g = map Some (somes g) /\ length (somes g) = length arrivals.
Proof. exact always_granted. Qed.
Print Assumptions C18_always_granted.

(* any closed window [s, s+T] contains at most B + floor(T/I) grants ... *)
Theorem C18_count_in_window : forall I B arrivals,
  0 < I -> 1 <= B -> sortedb arrivals = true ->
  forall s T, 0 <= T ->
  count_in s T (somes (grants (create_rate_limiter (Some (mkSettings I B))) arrivals)) <= B + T / I.
Proof. exact count_in_window. Qed.
Print Assumptions C18_count_in_window.

(* ... hence at most B + T/I rounded up, the property's wording *)
Theorem C18_respects_limit : forall I B arrivals,
  0 < I -> 1 <= B -> sortedb arrivals = true ->
  respects_limit I B (somes (grants (create_rate_limiter (Some (mkSettings I B))) arrivals)).
Proof. exact respects_limit_model. Qed.
Print Assumptions C18_respects_limit.

(* hooks without settings are not throttled: every request acts at its own instant *)
Theorem C18_unlimited_without_settings : forall arrivals,
  grants (create_rate_limiter None) arrivals = map Some arrivals.
Proof. exact unlimited_without_settings. Qed.
Print Assumptions C18_unlimited_without_settings.

(* the decidable predicate P used on the implementation's observations holds of the model,
   for every configuration and every non-decreasing arrival pattern *)
Theorem C18_spec_holds : forall cfg arrivals,
  sortedb arrivals = true -> P cfg arrivals (grants (create_rate_limiter cfg) arrivals) = true.
Proof. exact spec_holds. Qed.
Print Assumptions C18_spec_holds.

(* executionBurst: 0 is read as 1; executionMinInterval: 0 switches the limit off *)
Theorem C18_zero_burst_is_one : forall I,
  create_rate_limiter (Some (mkSettings I 0)) = create_rate_limiter (Some (mkSettings I 1)).
Proof. exact zero_burst_is_one. Qed.
Print Assumptions C18_zero_burst_is_one.

Theorem C18_zero_interval_unlimited : forall B arrivals,
  grants (create_rate_limiter (Some (mkSettings 0 B))) arrivals = map Some arrivals.
Proof. exact unlimited_zero_interval. Qed.
Print Assumptions C18_zero_interval_unlimited.

(* RateLimitWait with a deadline shorter than I, called n times at one instant, lets at
   most B executions start *)
Theorem C18_wait_deadline_bound : forall I B t budget n,
  0 < I -> 1 <= B -> 0 <= budget < I ->
  P_wall (Some (mkSettings I B))
         (count_true (wait_probe (create_rate_limiter (Some (mkSettings I B))) t budget n)) 0 = true.
Proof. exact probe_spec. Qed.
Print Assumptions C18_wait_deadline_bound.

(* non-vacuity: I = 5 s, B = 2; a burst of four requests, a steady stream and a long
   pause.  The hypotheses are met, all seven requests are granted, the limiter really
   delays (third request of the burst acts 5 s later) and really refills after the pause. *)
Example C18_hyp_met :
  let I := 5000000000 in
  let arr := [0; 0; 0; 0; 1000000000; 2000000000; 60000000000] in
  0 < I /\ 1 <= 2 /\ sortedb arr = true /\
  grants (create_rate_limiter (Some (mkSettings I 2))) arr
  = [Some 0; Some 0; Some 5000000000; Some 10000000000; Some 15000000000; Some 20000000000;
     Some 60000000000] /\
  count_in 0 10000000000 (somes (grants (create_rate_limiter (Some (mkSettings I 2))) arr)) = 4 /\
  2 + 10000000000 / I = 4.
Proof. cbv zeta. repeat split; vm_compute; try reflexivity; intros H; discriminate H. Qed.

(* the bound is tight (so P is not vacuous): one more start in the window violates P *)
Example C18_P_rejects :
  P (Some (mkSettings 5000000000 2)) [0; 0; 0] [Some 0; Some 0; Some 0] = false /\
  P (Some (mkSettings 5000000000 2)) [0; 0; 0] [Some 0; Some 0; Some 4999999999] = true /\
  P None [0; 7] [Some 0; Some 8] = false /\
  wait_probe (create_rate_limiter (Some (mkSettings 10000000000 2))) 0 50000000 4
  = [true; true; false; false].
Proof. repeat split; vm_compute; reflexivity. Qed.

(* ---- operator level ---- *)

(* every execution start of a hook - whatever the task, its failure count, its queue - is
   one of the grants of the hook's own limiter over the sorted list of its request instants *)
Theorem C18_op_starts_are_grants : forall cfg hs script h,
  sortedb (map fst script) = true ->
  let log := final_log cfg hs script in
  sortedb (reqs_of h log) = true /\
  acts_of h log = grants (create_rate_limiter (settings_of hs h)) (reqs_of h log) /\
  Sub (starts_in h log) (somes (acts_of h log)).
Proof. exact op_starts_are_grants. Qed.
Print Assumptions C18_op_starts_are_grants.

(* hence, for every configuration, every script (failing executions and their retries
   included) and every hook with settings (I, B): any window of length T holds at most
   B + T/I (rounded up) starts of the hook's executions *)
Theorem C18_op_respects_limit : forall cfg hs script h I B,
  settings_of hs h = Some (mkSettings I B) -> 0 < I -> 1 <= B -> sortedb (map fst script) = true ->
  respects_limit I B (starts_in h (final_log cfg hs script)).
Proof. exact op_respects_limit. Qed.
Print Assumptions C18_op_respects_limit.

(* a hook without settings is never throttled: each of its limiter calls returns at once *)
Theorem C18_op_not_throttled : forall cfg hs script h,
  settings_of hs h = None -> ~ In h (throttled_in (final_log cfg hs script)).
Proof. exact op_not_throttled. Qed.
Print Assumptions C18_op_not_throttled.

(* the decidable predicate used on the implementation's observations holds of the model *)
Theorem C18_op_P_holds : forall cfg hs script,
  sortedb (map fst script) = true ->
  let log := final_log cfg hs script in
  P_op hs (starts_all log) (throttled_in log) = true.
Proof. exact op_P_holds. Qed.
Print Assumptions C18_op_P_holds.

(* when no hook has a limit the workers are exactly those of the plain task-flow model
   (the one of C03, C04, C06, C17, without the limiter call): nothing waits, same states *)
Theorem C18_op_unlimited_is_plain_operator : forall cfg hs script,
  (forall h, b_limit (init_limiters hs h) = None) ->
  l_op (run_lim cfg (init_lim hs) script) = exec cfg (map snd script) init /\
  l_waiting (run_lim cfg (init_lim hs) script) = [].
Proof. exact op_unlimited_is_plain_operator. Qed.
Print Assumptions C18_op_unlimited_is_plain_operator.

(* non-vacuity: hook 1 (I = 1 min, B = 1) with a schedule binding in queue 1 shares that
   queue with hook 2 (no settings).  Two ticks; the first execution of hook 1 fails: its
   retry needs a second token and waits until 1 ms + 1 min; both tasks of hook 2 wait behind it (4 tasks queued).
   One start, queue 1 waiting, hook 1 (and only hook 1) throttled. *)
Example C18_op_hyp_met :
  let cfg := [mkHook 1 false None [] [mkSb 1 1 0 false 1]; mkHook 2 false None [] [mkSb 2 1 0 false 1]] in
  let hs := [(1%N, Some (mkSettings 60000000000 1)); (2%N, None)] in
  let script := [(0, Boot); (1000000, Tick 1); (2000000, Tick 1); (3000000, Finish 1 false)] in
  let ls := run_lim cfg (init_lim hs) script in
  sortedb (map fst script) = true /\
  settings_of hs 1 = Some (mkSettings 60000000000 1) /\ settings_of hs 2 = None /\
  starts_all (l_log ls) = [(1%N, 1000000)] /\
  reqs_of 1 (l_log ls) = [1000000; 3000000] /\
  acts_of 1 (l_log ls) = [Some 1000000; Some 60001000000] /\
  l_waiting ls = [(1%N, Some 60001000000, 1%N)] /\
  throttled_in (l_log ls) = [1%N] /\
  l_overrun ls = false /\
  map (fun q => (q_name q, length (q_items q), is_running q)) (queues (l_op ls)) = [(0%N, 0%nat, false); (1%N, 4%nat, false)].
Proof. cbv zeta. repeat split; vm_compute; reflexivity. Qed.

(* the hypothesis of C18_op_unlimited_is_plain_operator is met by hooks without settings and by
   executionMinInterval 0; P_op is not vacuous: a third start within the minute is rejected,
   and so is a hook without settings that was seen waiting *)
Example C18_op_P_rejects :
  (forall h, b_limit (init_limiters [(1%N, None); (2%N, Some (mkSettings 0 3))] h) = None) /\
  P_op [(1%N, Some (mkSettings 60000000000 1))] [(1%N, 1000000); (1%N, 2000000); (1%N, 3000000)] [] = false /\
  P_op [(1%N, Some (mkSettings 60000000000 1))] [(1%N, 1000000); (1%N, 2000000)] [1%N] = true /\
  P_op [(1%N, Some (mkSettings 60000000000 1)); (2%N, None)] [(2%N, 1); (2%N, 2); (2%N, 3); (1%N, 4)] [2%N] = false.
Proof.
  split; [|repeat split; vm_compute; reflexivity].
  intros h. unfold init_limiters, settings_of. cbn [find fst snd].
  destruct (N.eqb 1 h); [reflexivity|]. destruct (N.eqb 2 h); reflexivity.
Qed.

(* ---- concurrent waiters of one hook ---- *)

(* stacked reservations: a request that has to wait is granted at most one interval after
   the request before it, and exactly one interval after it when that one had to wait too:
   the k-th of several sleepers wakes up k intervals after the bucket ran empty - each
   sleeper has to sleep until its OWN instant *)
Theorem C18_stacked_reservations : forall I B arrivals,
  0 < I -> 1 <= B -> sortedb arrivals = true ->
  forall i ti tj ai aj,
  nth_error arrivals i = Some ti -> nth_error arrivals (S i) = Some tj ->
  nth_error (grants (create_rate_limiter (Some (mkSettings I B))) arrivals) i = Some (Some ai) ->
  nth_error (grants (create_rate_limiter (Some (mkSettings I B))) arrivals) (S i) = Some (Some aj) ->
  tj < aj -> aj <= ai + I /\ (ti < ai -> aj = ai + I).
Proof. exact stacked_reservations. Qed.
Print Assumptions C18_stacked_reservations.

(* n workers ask at one instant t: the first B go on at once, the (B+k)-th at t + k*I *)
Theorem C18_concurrent_waiters : forall I B t n k,
  0 < I -> 1 <= B -> (k < n)%nat ->
  nth_error (grants (create_rate_limiter (Some (mkSettings I B))) (repeat t n)) k
  = Some (Some (t + Z.max 0 (Z.of_nat k + 1 - B) * I)).
Proof. exact concurrent_waiters. Qed.
Print Assumptions C18_concurrent_waiters.

(* requests that come later (one by one) are granted later (one by one) *)
Theorem C18_grants_monotone : forall I B arr arr',
  0 < I -> 1 <= B -> Forall2 Z.le arr arr' -> sortedb arr = true -> sortedb arr' = true ->
  Forall2 Z.le (somes (grants (create_rate_limiter (Some (mkSettings I B))) arr))
               (somes (grants (create_rate_limiter (Some (mkSettings I B))) arr')).
Proof. exact grants_monotone. Qed.
Print Assumptions C18_grants_monotone.

(* operator level: the sleepers of a hook hold grants of its limiter that nobody else uses -
   the starts so far and the pending wake-up instants together are a sub-multiset of the
   grants (so no two sleepers wake up on the same grant, and none earlier than its grant) *)
Theorem C18_op_sleepers_hold_grants : forall cfg hs script h,
  sortedb (map fst script) = true ->
  let ls := run_lim cfg (init_lim hs) script in
  forall v, (cnt (starts_in h (l_log ls)) v + cnt (pend h (l_waiting ls)) v
             <= cnt (somes (grants (create_rate_limiter (settings_of hs h)) (reqs_of h (l_log ls)))) v)%nat.
Proof. exact op_sleepers_hold_grants. Qed.
Print Assumptions C18_op_sleepers_hold_grants.

(* judging instants that are observed late: if the real starts respect the limit, every
   start is observed at or after it happened, and every start observed at or after the
   anchor a happened at or after a, then the anchored judgement on the OBSERVED instants
   holds: no delay between a start and its observation can raise a false alarm *)
Theorem C18_late_observation_sound : forall I B a reals meas,
  0 < I -> respects_limit I B reals -> Forall2 Z.le reals meas -> sortedb meas = true ->
  (forall r x, In (r, x) (List.combine reals meas) -> a <= x -> a <= r) ->
  anchored_ok I B a meas = true.
Proof. exact late_observation_sound. Qed.
Print Assumptions C18_late_observation_sound.

(* the anchored predicate used on timed observations holds of the model, for every script
   (sleeping and waking up included) and every list of anchors *)
Theorem C18_op_P_timed_holds : forall cfg hs script anchors,
  sortedb (map fst script) = true ->
  P_timed hs anchors (starts_all (final_log cfg hs script)) = true.
Proof. exact op_P_timed_holds. Qed.
Print Assumptions C18_op_P_timed_holds.

(* non-vacuity: hook 1 (I = 100 ms, B = 1) has schedule bindings in queues 1 and 2, both on
   crontab 1, and a third one in queue 1 on crontab 2.  One tick feeds both queues: queue 1
   starts at once, queue 2 sleeps until 110 ms.  Queue 1 finishes and is fed again at 20 ms:
   its reservation stacks behind the sleeper's (210 ms).  Both wake up at their own instants,
   in the order of the grants; nothing is left waiting. *)
Example C18_op_wake_hyp_met :
  let cfg := [mkHook 1 false None [] [mkSb 1 1 0 false 1; mkSb 2 2 0 false 1; mkSb 3 1 0 false 2]] in
  let hs := [(1%N, Some (mkSettings 100000000 1))] in
  let ms := 1000000 in
  let script := [(0, Boot); (10 * ms, Tick 1); (12 * ms, Finish 1 true); (20 * ms, Tick 2);
                 (250 * ms, Finish 2 true); (260 * ms, Finish 1 true); (400 * ms, Idle)] in
  let ls := run_lim cfg (init_lim hs) script in
  sortedb (map fst script) = true /\
  l_waiting (run_lim cfg (init_lim hs) (firstn 4 script)) = [(2%N, Some (110 * ms), 1%N); (1%N, Some (210 * ms), 1%N)] /\
  reqs_of 1 (l_log ls) = [10 * ms; 10 * ms; 20 * ms] /\
  acts_of 1 (l_log ls) = [Some (10 * ms); Some (110 * ms); Some (210 * ms)] /\
  starts_all (l_log ls) = [(1%N, 10 * ms); (1%N, 110 * ms); (1%N, 210 * ms)] /\
  l_waiting ls = [] /\
  map (fun q => (q_name q, length (q_items q), is_running q)) (queues (l_op ls))
    = [(0%N, 0%nat, false); (1%N, 0%nat, false); (2%N, 0%nat, false)] /\
  P_timed hs [0; 10 * ms] (starts_all (l_log ls)) = true.
Proof. cbv zeta. repeat split; vm_compute; reflexivity. Qed.

(* the anchored predicate is not vacuous: sleepers that wake up one interval after they fell
   asleep instead of at their own (stacked) instants - two queues, each starting once per
   interval - are rejected; so is a third start within the first interval *)
Example C18_P_timed_rejects :
  let hs := [(1%N, Some (mkSettings 100 1))] in
  P_timed hs [0] [(1%N, 0); (1%N, 100); (1%N, 110); (1%N, 200); (1%N, 210)] = false /\
  P_timed hs [0] [(1%N, 0); (1%N, 100); (1%N, 200); (1%N, 300); (1%N, 400)] = true /\
  P_timed hs [0] [(1%N, 0); (1%N, 50); (1%N, 60)] = false /\
  P_timed hs [0; 1000] [(1%N, 0); (1%N, 1000); (1%N, 1001)] = true /\
  P_timed hs [0; 1000] [(1%N, 0); (1%N, 1000); (1%N, 1001); (1%N, 1002)] = false /\
  grants (create_rate_limiter (Some (mkSettings 100 2))) [5; 5; 5; 5] = [Some 5; Some 5; Some 105; Some 205].
Proof. cbv zeta. repeat split; vm_compute; reflexivity. Qed.

(* ---- a queue shared with other hooks, held while events keep arriving ---- *)

(* the moment of the reservation: the limiter of hook h is asked with the instants at which the
   handlers of h's tasks were ENTERED - each at or after the task was queued and at or after the
   queue was given back by the task before it - and these instants are in time order whatever
   the queueing instants were; the starts are the grants over them *)
Theorem C18_shared_queue_charged_at_entry : forall hs ts free h,
  let rs := serve (init_limiters hs) free ts in
  sr_acts h rs = grants (create_rate_limiter (settings_of hs h)) (sr_reqs h rs) /\
  sortedb (sr_reqs h rs) = true /\
  Forall (fun r => sr_queued r <= sr_entered r /\ free <= sr_entered r) rs /\
  sortedb (map sr_entered rs) = true.
Proof. exact shared_charged_at_entry. Qed.
Print Assumptions C18_shared_queue_charged_at_entry.

(* hence, for EVERY list of tasks in the queue (any interleaving of hooks, any queueing instants -
   bursts, steady streams -, any execution times and back-offs that hold the queue): any window
   of length T holds at most B + T/I (rounded up) starts of a hook with settings (I, B) *)
Theorem C18_shared_queue_respects_limit : forall hs ts free h I B,
  settings_of hs h = Some (mkSettings I B) -> 0 < I -> 1 <= B ->
  respects_limit I B (starts_of h (sr_all (serve (init_limiters hs) free ts))).
Proof. exact shared_respects_limit. Qed.
Print Assumptions C18_shared_queue_respects_limit.

(* the decidable predicates used on observations hold of every served queue: window bound per
   hook with settings, no waiting in a limiter for hooks without; anchored form for all anchors *)
Theorem C18_shared_queue_P_holds : forall hs ts free,
  let rs := serve (init_limiters hs) free ts in
  P_op hs (sr_all rs) (sr_throttled rs) = true.
Proof. exact shared_P_holds. Qed.
Print Assumptions C18_shared_queue_P_holds.

Theorem C18_shared_queue_P_timed_for_holds : forall hs ts free anchors,
  P_timed_for hs anchors (sr_all (serve (init_limiters hs) free ts)) = true.
Proof. exact shared_P_timed_for_holds. Qed.
Print Assumptions C18_shared_queue_P_timed_for_holds.

(* tasks that were all queued before the queue was given back (at [free0] or earlier) enter
   their handlers and start at instants that do not depend on WHEN they were queued *)
Theorem C18_held_queueing_instants_irrelevant : forall free0 ts ts',
  Forall2 (fun t t' => qt_hook t = qt_hook t' /\ qt_end t = qt_end t' /\
                       qt_queued t <= free0 /\ qt_queued t' <= free0) ts ts' ->
  forall lims free, free0 <= free ->
  map sr_view (serve lims free ts) = map sr_view (serve lims free ts').
Proof. exact serve_queued_irrelevant. Qed.
Print Assumptions C18_held_queueing_instants_irrelevant.

(* later queueing, later ends, a worker that is free later: every handler entry and every start
   later - an implementation whose queueing and end instants are known lower bounds may be compared
   one-sidedly (never earlier) with the model run on those bounds *)
Theorem C18_shared_queue_monotone : forall hs ts ts' free free',
  (forall h s, settings_of hs h = Some s -> 0 <= s_burst s) ->
  Forall2 (fun t t' => qt_hook t = qt_hook t' /\ qt_queued t <= qt_queued t' /\ qt_end t <= qt_end t') ts ts' ->
  free <= free' ->
  Forall2 run_le (serve (init_limiters hs) free ts) (serve (init_limiters hs) free' ts').
Proof. exact shared_monotone. Qed.
Print Assumptions C18_shared_queue_monotone.

(* the task-flow model meets the anchored predicate with anchors valid for some hooks only, for
   every script and every list of anchors *)
Theorem C18_op_P_timed_for_holds : forall cfg hs script anchors,
  sortedb (map fst script) = true ->
  P_timed_for hs anchors (starts_all (final_log cfg hs script)) = true.
Proof. exact op_P_timed_for_holds. Qed.
Print Assumptions C18_op_P_timed_for_holds.

(* soundness of the judgement per hook: real starts that respect the limit, observed late, and
   anchors such that every start of THIS hook observed at or after the anchor happened at or
   after it (e.g. the instant at which a queue the hook shares with a slow hook is given back,
   taken before the slow execution is allowed to end) never fail the anchored predicate *)
Theorem C18_late_observation_sound_for : forall I B anchors reals meas,
  0 < I -> 1 <= B -> respects_limit I B reals -> Forall2 Z.le reals meas -> sortedb meas = true ->
  (forall a, In a anchors -> forall r x, In (r, x) (List.combine reals meas) -> a <= x -> a <= r) ->
  P_hook_anchored (Some (mkSettings I B)) anchors meas = true.
Proof. exact late_observation_sound_for. Qed.
Print Assumptions C18_late_observation_sound_for.

(* non-vacuity (instants in ms): hook 1 (I = 100, B = 1) shares a queue with hook 2 (no settings,
   same crontab: their tasks alternate, nothing is combined) and hook 3 (no settings, slow).
   Hook 3 holds the queue from 0 to 450 while four events arrive, one per interval.  When the
   queue is given back the executions of hook 1 start at 450, 550, 650, 750 - not four at once;
   hook 2 is never made to wait by a limiter, only behind hook 1's task.  The hypotheses of the
   theorems above are met; the same tasks queued at other instants before 450 give the same
   entries and starts. *)
Example C18_shared_hyp_met :
  let hs := [(1%N, Some (mkSettings 100 1)); (2%N, None); (3%N, None)] in
  let ts := [mkQT 3 0 450; mkQT 1 50 0; mkQT 2 50 0; mkQT 1 150 0; mkQT 2 150 0;
             mkQT 1 250 0; mkQT 2 250 0; mkQT 1 350 0; mkQT 2 350 0] in
  let ts' := [mkQT 1 449 0; mkQT 2 449 0; mkQT 1 449 0; mkQT 2 449 0;
              mkQT 1 449 0; mkQT 2 449 0; mkQT 1 449 0; mkQT 2 449 0] in
  let rs := serve (init_limiters hs) 0 ts in
  settings_of hs 1 = Some (mkSettings 100 1) /\
  (forall h s, settings_of hs h = Some s -> 0 <= s_burst s) /\
  sr_all rs = [(3%N, 0); (1%N, 450); (2%N, 450); (1%N, 550); (2%N, 550); (1%N, 650); (2%N, 650); (1%N, 750); (2%N, 750)] /\
  sr_reqs 1 rs = [450; 450; 550; 650] /\
  sr_throttled rs = [1%N; 1%N; 1%N] /\
  Forall2 (fun t t' => qt_hook t = qt_hook t' /\ qt_end t = qt_end t' /\ qt_queued t <= 450 /\ qt_queued t' <= 450) (tl ts) ts' /\
  map sr_view (serve (init_limiters hs) 450 (tl ts)) = map sr_view (serve (init_limiters hs) 450 ts') /\
  starts_of 1 (sr_all (serve (init_limiters hs) 450 ts')) = [450; 550; 650; 750].
Proof.
  cbv zeta. split; [reflexivity|]. split.
  { intros h s. unfold settings_of. cbn [find fst snd].
    destruct (N.eqb 1 h); [intros H; inversion H; cbn; lia|].
    destruct (N.eqb 2 h); [discriminate|]. destruct (N.eqb 3 h); discriminate. }
  split; [vm_compute; reflexivity|]. split; [vm_compute; reflexivity|]. split; [vm_compute; reflexivity|].
  split.
  { cbn [tl]. repeat (apply Forall2_cons; [cbn; repeat split; intros H; discriminate H|]). apply Forall2_nil. }
  split; vm_compute; reflexivity.
Qed.

(* the moment of the reservation matters, and the predicates see it: a worker that charged the
   limiter with the instant at which the task was QUEUED (Shared.charged_at_queueing - NOT the
   code) would let all four executions start at 450; P_op and the anchored predicate with the
   anchor 450 (the queue is given back) reject that, and accept the model's starts.  An anchor
   that is not valid for hook 1 says nothing about it. *)
Example C18_charged_at_queueing_rejected :
  let hs := [(1%N, Some (mkSettings 100 1)); (2%N, None); (3%N, None)] in
  let ts := [mkQT 3 0 450; mkQT 1 50 0; mkQT 2 50 0; mkQT 1 150 0; mkQT 2 150 0;
             mkQT 1 250 0; mkQT 2 250 0; mkQT 1 350 0; mkQT 2 350 0] in
  let bad := charged_at_queueing (init_limiters hs) 0 ts in
  let good := serve (init_limiters hs) 0 ts in
  starts_of 1 (sr_all bad) = [450; 450; 450; 450] /\
  P_op hs (sr_all bad) [] = false /\
  P_timed_for hs [(450, [1%N; 2%N; 3%N])] (sr_all bad) = false /\
  P_timed_for hs [(450, [2%N; 3%N])] (sr_all bad) = true /\
  P_timed_for hs [(0, [1%N; 2%N; 3%N])] (sr_all bad) = true /\
  P_op hs (sr_all good) (sr_throttled good) = true /\
  P_timed_for hs [(0, [1%N; 2%N; 3%N]); (450, [1%N; 2%N; 3%N])] (sr_all good) = true.
Proof. cbv zeta. repeat split; vm_compute; reflexivity. Qed.

(* ---- hooks of every shape: the B of the bound is the configured executionBurst ---- *)

(* CreateRateLimiter is handed the whole hook configuration and uses the settings only: two
   hooks with the same settings - whatever kubernetes / schedule bindings, groups, queues,
   executeHookOnSynchronization flags they declare - get the same limiter *)
Theorem C18_limiter_depends_on_settings_only : forall hc hc',
  hc_settings hc = hc_settings hc' -> create_rate_limiter_hc hc = create_rate_limiter_hc hc'.
Proof. exact limiter_of_settings_only. Qed.
Print Assumptions C18_limiter_depends_on_settings_only.

(* its capacity is the configured executionBurst and it starts with exactly that many tokens,
   one more every executionMinInterval - for a hook of any shape *)
Theorem C18_limiter_capacity_is_configured_burst : forall shape I B, 0 < I -> 1 <= B ->
  let b := create_rate_limiter_hc (mkHC shape (Some (mkSettings I B))) in
  b_limit b = Some I /\ b_burst b = B /\ b_tokens b = B * I /\ b_last b = None.
Proof. exact limiter_capacity. Qed.
Print Assumptions C18_limiter_capacity_is_configured_burst.

(* the limiters the operator works with: for every list of loaded hooks and every hook, the
   limiter made from the settings that hook was configured with; changing the shapes of the
   hooks (not their settings) changes no limiter *)
Theorem C18_shape_limiters_from_settings : forall hcs h,
  load_limiters hcs h = create_rate_limiter (settings_of (configured_settings hcs) h).
Proof. exact load_limiters_settings. Qed.
Print Assumptions C18_shape_limiters_from_settings.

Theorem C18_shape_irrelevant_for_limiters : forall hcs hcs' h,
  configured_settings hcs = configured_settings hcs' -> load_limiters hcs h = load_limiters hcs' h.
Proof. exact load_limiters_shape_irrelevant. Qed.
Print Assumptions C18_shape_irrelevant_for_limiters.

(* the operator with hooks of any shapes, any script (Boot with its Synchronization runs - one
   per kubernetes binding, one per group, exempt bindings skipped after the limiter call -,
   idle periods, single events, failures and retries): every execution start of a hook is a
   grant of the limiter made from ITS SETTINGS over its sorted request instants *)
Theorem C18_shape_starts_are_grants : forall hcs script h,
  sortedb (map fst script) = true ->
  let log := shape_log hcs script in
  sortedb (reqs_of h log) = true /\
  acts_of h log = grants (create_rate_limiter (settings_of (configured_settings hcs) h)) (reqs_of h log) /\
  Sub (starts_in h log) (somes (acts_of h log)).
Proof. exact shape_starts_are_grants. Qed.
Print Assumptions C18_shape_starts_are_grants.

(* hence the property's bound with the CONFIGURED (I, B), whatever else the hook declares *)
Theorem C18_shape_respects_limit : forall hcs script h I B,
  settings_of (configured_settings hcs) h = Some (mkSettings I B) -> 0 < I -> 1 <= B ->
  sortedb (map fst script) = true ->
  respects_limit I B (starts_in h (shape_log hcs script)).
Proof. exact shape_respects_limit. Qed.
Print Assumptions C18_shape_respects_limit.

(* the start-up: the operator is started at t0 (Boot), anything may follow; the window that
   begins at t0 - the Synchronization runs back to back - holds at most B + T/I (rounded up)
   starts of the hook's executions, however many kubernetes bindings the hook has *)
Theorem C18_startup_sync_runs_respect_limit : forall hcs script h I B t0,
  settings_of (configured_settings hcs) h = Some (mkSettings I B) -> 0 < I -> 1 <= B ->
  sortedb (t0 :: map fst script) = true ->
  forall T, 0 <= T ->
  count_in t0 T (starts_in h (shape_log hcs ((t0, Boot) :: script))) <= B + ceil_div T I.
Proof. exact startup_window. Qed.
Print Assumptions C18_startup_sync_runs_respect_limit.

(* idle periods: whatever happened before t - in particular nothing at all, for however long -
   of the requests that arrive from t on (one by one or all at once) the (B+m)-th is granted no
   earlier than t + m*I: an idle period of any length buys at most B executions *)
Theorem C18_after_idle_at_most_burst : forall I B pre post t,
  0 < I -> 1 <= B -> sortedb (pre ++ post) = true -> Forall (fun x => t <= x) post ->
  forall k a,
  nth_error (grants (create_rate_limiter (Some (mkSettings I B))) (pre ++ post)) (length pre + k) = Some (Some a) ->
  t + (Z.of_nat k + 1 - B) * I <= a.
Proof. exact after_idle_bound. Qed.
Print Assumptions C18_after_idle_at_most_burst.

(* the decidable predicates used on the observations of shape cases hold of the model, for
   every list of hook configurations, every script, every boot instant and every list of anchors *)
Theorem C18_shape_P_holds : forall hcs script boot anchors,
  sortedb (map fst script) = true ->
  P_shape (configured_settings hcs) boot anchors (starts_all (shape_log hcs script)) = true.
Proof. exact shape_P_holds. Qed.
Print Assumptions C18_shape_P_holds.

Theorem C18_shape_P_op_holds : forall hcs script,
  sortedb (map fst script) = true ->
  let log := shape_log hcs script in
  P_op (configured_settings hcs) (starts_all log) (throttled_in log) = true.
Proof. exact shape_P_op_holds. Qed.
Print Assumptions C18_shape_P_op_holds.

(* non-vacuity (instants in ms).  Hook 1: I = 100, B = 1, FIVE kubernetes bindings - 1 (events in
   queue 1) and 2 ungrouped, 3 and 4 in group 1, 5 with executeHookOnSynchronization: false - and a
   schedule binding in queue 2.  Its start-up needs three Synchronization executions (1, 2, and one
   for the group) and a fourth limiter call for the exempt binding.  Boot at 0, every execution
   ends the moment it starts: the runs start at 0, 100, 200 (not three at once), the exempt
   binding's call is granted at 300.  Then nothing happens for 700 ms - seven intervals - and
   three single events arrive at 1000, 1001, 1102: one execution at once, the others at 1100 and
   1200 (not three at once: the idle period bought one token, not seven).  The hypotheses of the
   theorems above are met; the same hook with no kubernetes binding at all has the same limiter. *)
Example C18_shape_hyp_met :
  let h1 := mkHook 1 false None
              [mkKb 1 1 0 false true 1; mkKb 2 0 0 false true 2; mkKb 3 0 1 false true 3;
               mkKb 4 0 1 false true 4; mkKb 5 0 0 false false 5] [mkSb 6 2 0 false 1] in
  let hcs := [mkHC h1 (Some (mkSettings 100 1))] in
  let script := [(0, Boot); (0, Finish 0 true); (100, Idle); (100, Finish 0 true); (200, Idle);
                 (200, Finish 0 true); (300, Idle);
                 (1000, KubeEv 1 1); (1000, Finish 1 true); (1001, KubeEv 2 2); (1100, Idle);
                 (1100, Finish 0 true); (1102, Tick 1); (1200, Idle); (1200, Finish 2 true); (1300, Idle)] in
  let ls := run_shape hcs script in
  sortedb (map fst script) = true /\
  settings_of (configured_settings hcs) 1 = Some (mkSettings 100 1) /\
  sync_runs h1 = 3%nat /\
  reqs_of 1 (l_log ls) = [0; 0; 100; 200; 1000; 1001; 1102] /\
  acts_of 1 (l_log ls) = [Some 0; Some 100; Some 200; Some 300; Some 1000; Some 1100; Some 1200] /\
  starts_all (l_log ls) = [(1%N, 0); (1%N, 100); (1%N, 200); (1%N, 1000); (1%N, 1100); (1%N, 1200)] /\
  l_waiting ls = [] /\
  unlocked (l_op ls) = [1%N; 2%N; 3%N; 4%N; 5%N] /\
  P_shape (configured_settings hcs) 0 [1000; 1001; 1102] (starts_all (l_log ls)) = true /\
  create_rate_limiter_hc (mkHC h1 (Some (mkSettings 100 1)))
  = create_rate_limiter_hc (mkHC (mkHook 1 false None [] []) (Some (mkSettings 100 1))).
Proof. cbv zeta. repeat split; vm_compute; reflexivity. Qed.

(* the predicate is not vacuous, and it reads the CONFIGURED burst: three Synchronization runs
   seen within 30 ms of the start-up of a hook with B = 1 are rejected - also when the hook has
   three kubernetes bindings; so are three executions for single events right after an idle
   period, however long it was; with B = 3 configured both are fine; after_idle: the instance
   of C18_after_idle_at_most_burst for a bucket that was idle for 10^6 intervals *)
Example C18_P_shape_rejects :
  let hs := [(1%N, Some (mkSettings 100 1))] in
  P_shape hs 0 [] [(1%N, 10); (1%N, 20); (1%N, 30)] = false /\
  P_shape hs 0 [] [(1%N, 10); (1%N, 20); (1%N, 130)] = true /\
  P_shape hs 0 [5000] [(1%N, 10); (1%N, 110); (1%N, 5001); (1%N, 5002); (1%N, 5003)] = false /\
  P_shape hs 0 [5000] [(1%N, 10); (1%N, 110); (1%N, 5001); (1%N, 5002); (1%N, 5103)] = true /\
  P_shape [(1%N, Some (mkSettings 100 3))] 0 [5000] [(1%N, 10); (1%N, 20); (1%N, 30); (1%N, 5001); (1%N, 5002); (1%N, 5003)] = true /\
  grants (create_rate_limiter (Some (mkSettings 100 1))) [0; 100000000; 100000000; 100000000]
  = [Some 0; Some 100000000; Some 100000100; Some 100000200].
Proof. cbv zeta. repeat split; vm_compute; reflexivity. Qed.
