(* C18_Properties.v — the property theorems of C18 and nothing else.

   Model: C18_Model (settings -> CreateRateLimiter -> integer token bucket transcribing
   golang.org/x/time/rate reserveN for n = 1).  [grants b arrivals] lists, per request
   instant, the instant the request is allowed to act (Some) or a refusal (None).

   PARTIAL (runtime, not provable in a Gallina model): Limiter.Wait sleeps on a runtime
   timer until the granted instant; that an execution really starts no EARLIER than its
   granted instant is a fact of the Go runtime's timers and scheduler.  The theorems
   bound the granted instants; the correspondence checks the real limiter's grants on
   synthetic clocks and the RateLimitWait call with a deadline on the wall clock.
   Model assumption: durations below 2^63 ns (see C18_Model). *)
From Verif Require Import Common C18_Model C18_Spec C18_Proofs.
Open Scope Z_scope.

(* any j-i+1 consecutive grants span at least (j-i+1-B) intervals *)
Theorem C18_window_bound : forall I B arrivals,
  0 < I -> 1 <= B -> sortedb arrivals = true ->
  forall i j ai aj, (i <= j)%nat ->
  nth_error (grants (create_rate_limiter (Some (mkSettings I B))) arrivals) i = Some (Some ai) ->
  nth_error (grants (create_rate_limiter (Some (mkSettings I B))) arrivals) j = Some (Some aj) ->
  (Z.of_nat j - Z.of_nat i + 1 - B) * I <= aj - ai.
Proof. exact window_bound. Qed.
Print Assumptions C18_window_bound.

(* every request is granted (so the bound above speaks about all of them) *)
Theorem C18_always_granted : forall I B arrivals,
  0 < I -> 1 <= B -> sortedb arrivals = true ->
  let g := grants (create_rate_limiter (Some (mkSettings I B))) arrivals in
  g = map Some (somes g) /\ length (somes g) = length arrivals.
Proof. exact always_granted. Qed.
Print Assumptions C18_always_granted.

(* any closed window [s, s+T] contains at most B + floor(T/I) grants ... *)
Theorem C18_count_in_window : forall I B arrivals,
  0 < I -> 1 <= B -> sortedb arrivals = true ->
  forall s T, 0 <= T ->
  count_in s T (somes (grants (create_rate_limiter (Some (mkSettings I B))) arrivals)) <= B + T / I.
Proof. exact count_in_window. Qed.
Print Assumptions C18_count_in_window.

(* ... hence at most B + T/I rounded up, the property's wording *)
Theorem C18_respects_limit : forall I B arrivals,
  0 < I -> 1 <= B -> sortedb arrivals = true ->
  respects_limit I B (somes (grants (create_rate_limiter (Some (mkSettings I B))) arrivals)).
Proof. exact respects_limit_model. Qed.
Print Assumptions C18_respects_limit.

(* hooks without settings are not throttled: every request acts at its own instant *)
Theorem C18_unlimited_without_settings : forall arrivals,
  grants (create_rate_limiter None) arrivals = map Some arrivals.
Proof. exact unlimited_without_settings. Qed.
Print Assumptions C18_unlimited_without_settings.

(* the decidable predicate P used on the implementation's observations holds of the model,
   for every configuration and every non-decreasing arrival pattern *)
Theorem C18_spec_holds : forall cfg arrivals,
  sortedb arrivals = true -> P cfg arrivals (grants (create_rate_limiter cfg) arrivals) = true.
Proof. exact spec_holds. Qed.
Print Assumptions C18_spec_holds.

(* executionBurst: 0 is read as 1; executionMinInterval: 0 switches the limit off *)
Theorem C18_zero_burst_is_one : forall I,
  create_rate_limiter (Some (mkSettings I 0)) = create_rate_limiter (Some (mkSettings I 1)).
Proof. exact zero_burst_is_one. Qed.
Print Assumptions C18_zero_burst_is_one.

Theorem C18_zero_interval_unlimited : forall B arrivals,
  grants (create_rate_limiter (Some (mkSettings 0 B))) arrivals = map Some arrivals.
Proof. exact unlimited_zero_interval. Qed.
Print Assumptions C18_zero_interval_unlimited.

(* RateLimitWait with a deadline shorter than I, called n times at one instant, lets at
   most B executions start *)
Theorem C18_wait_deadline_bound : forall I B t budget n,
  0 < I -> 1 <= B -> 0 <= budget < I ->
  P_wall (Some (mkSettings I B))
         (count_true (wait_probe (create_rate_limiter (Some (mkSettings I B))) t budget n)) 0 = true.
Proof. exact probe_spec. Qed.
Print Assumptions C18_wait_deadline_bound.

(* non-vacuity: I = 5 s, B = 2; a burst of four requests, a steady stream and a long
   pause.  The hypotheses are met, all seven requests are granted, the limiter really
   delays (third request of the burst acts 5 s later) and really refills after the pause. *)
Example C18_hyp_met :
  let I := 5000000000 in
  let arr := [0; 0; 0; 0; 1000000000; 2000000000; 60000000000] in
  0 < I /\ 1 <= 2 /\ sortedb arr = true /\
  grants (create_rate_limiter (Some (mkSettings I 2))) arr
  = [Some 0; Some 0; Some 5000000000; Some 10000000000; Some 15000000000; Some 20000000000;
     Some 60000000000] /\
  count_in 0 10000000000 (somes (grants (create_rate_limiter (Some (mkSettings I 2))) arr)) = 4 /\
  2 + 10000000000 / I = 4.
Proof. cbv zeta. repeat split; vm_compute; try reflexivity; intros H; discriminate H. Qed.

(* the bound is tight (so P is not vacuous): one more start in the window violates P *)
Example C18_P_rejects :
  P (Some (mkSettings 5000000000 2)) [0; 0; 0] [Some 0; Some 0; Some 0] = false /\
  P (Some (mkSettings 5000000000 2)) [0; 0; 0] [Some 0; Some 0; Some 4999999999] = true /\
  P None [0; 7] [Some 0; Some 8] = false /\
  wait_probe (create_rate_limiter (Some (mkSettings 10000000000 2))) 0 50000000 4
  = [true; true; false; false].
Proof. repeat split; vm_compute; reflexivity. Qed.
