(* C13_Spec.v — the property C13 as a decidable predicate over what one hook run shows
   of its patch file: whether the run failed, the final state of the cluster, the apply
   errors, and whether the JSON and the YAML rendering of the documents gave the same
   operations.

   Written from the property text: "The operations a hook writes as a stream of JSON or
   YAML documents are validated together - if any document is invalid none is applied
   and the execution fails - and are otherwise applied once each in document order,
   with the documented effect of each operation (three create variants, three delete
   propagation modes, merge/JSON/jq patches with subresource and ignoreMissingObject).
   The same documents written as JSON or as YAML produce the same operations."

   The documented effect of an operation is given here on an abstract cluster (a finite
   map from object key to object) by [effect]; it knows nothing of API calls, of
   AlreadyExists / Get / Update round trips or of the order in which the code does
   things inside one operation.  The document formats, RFC 7386, RFC 6902 and the jq
   family are shared vocabulary (Json, and the pure JSON functions of C13_Model). *)
From Verif Require Import Common Json C13_Model.

(* what a patch does to the object it targets; [None] = the patch cannot be applied *)
Definition patched (body : patch_body) (o : json) : option json :=
  match body with
  | PMerge p => Some (merge_patch o p)          (* RFC 7386 *)
  | PJson ops => apply_jps ops o                (* RFC 6902, all or nothing *)
  | PJq f => apply_jq f o
  end.

Definition patch_err (body : patch_body) : err :=
  match body with PJq _ => EJqFailed | _ => EPatchFailed end.

(* documented effect of the three create variants on the object [k] *)
Definition effect_create (c : cluster) (m : create_mode) (k : key) (obj : json) : cluster * option err :=
  match cl_get k c, m with
  | None, _ => (cl_set k obj c, None)                 (* all three create a missing object *)
  | Some _, CPlain => (c, Some EAlreadyExists)        (* Create: an existing object is an error *)
  | Some _, CIfNotExists => (c, None)                 (* CreateIfNotExists: left as it is *)
  | Some _, COrUpdate => (cl_set k obj c, None)       (* CreateOrUpdate: replaced *)
  end.

(* documented effect of one operation: new cluster, and the error it reports if any *)
Definition effect (c : cluster) (o : op) : cluster * option err :=
  match o with
  | OCreate m obj => effect_create c m (key_of_object obj) obj
  | ODelete _ k => (cl_del k c, None)                   (* the three modes: the object is gone; a missing one is fine *)
  | OPatch k body _ ignore_missing =>                   (* the subresource does not change which object is patched *)
    match cl_get k c with
    | None => (c, if ignore_missing then None else Some ENotFound)
    | Some o =>
      match patched body o with
      | Some o' => (cl_set k o' c, None)
      | None => (c, Some (patch_err body))
      end
    end
  end.

(* once each, in document order; an error is reported and the following operations still run *)
Fixpoint effects (c : cluster) (os : list op) : cluster * list err :=
  match os with
  | [] => (c, [])
  | o :: r =>
    let (c1, e) := effect c o in
    let (c2, es) := effects c1 r in
    (c2, opt_list e ++ es)
  end.

Definition all_valid (ds : list doc) : bool :=
  forallb (fun d => match d with DOp _ => true | DBad => false end) ds.

Definition ops_of (ds : list doc) : list op :=
  flat_map (fun d => match d with DOp o => [o] | DBad => [] end) ds.

(* ---------- equality of observations ---------- *)

Definition err_eqb (a b : err) : bool :=
  match a, b with
  | EAlreadyExists, EAlreadyExists | ENotFound, ENotFound | EPatchFailed, EPatchFailed
  | EJqFailed, EJqFailed | ENotServed, ENotServed | EConflict, EConflict | EOther, EOther => true
  | _, _ => false
  end.

(* the same finite map: equal lookups on every key either side mentions *)
Definition cluster_sameb (a b : cluster) : bool :=
  forallb (fun k => option_eqb json_eqb (cl_get k a) (cl_get k b)) (map fst a ++ map fst b).

(* ---------- the predicate ---------- *)

(* [proj] is what is observed of one object (the harness lists a projection of every
   object); the predicate is stated on projected clusters. *)
Definition view (proj : json -> json) (c : cluster) : cluster := map (fun kv => (fst kv, proj (snd kv))) c.

Definition P_run (proj : json -> json) (c0 : cluster) (ds : list doc) (r : outcome) : bool :=
  if all_valid ds then
    let (c1, es) := effects c0 (ops_of ds) in
    r_parse_ok r && cluster_sameb (view proj (r_cluster r)) (view proj c1) && list_eqb err_eqb (r_errors r) es
  else
    (* any invalid document: nothing applied, the execution fails *)
    failed r && cluster_sameb (view proj (r_cluster r)) (view proj c0) && match r_calls r with [] => true | _ => false end.

(* the same property seen from outside the operator: only whether the hook run failed,
   the API calls and the final cluster are visible *)
Definition P_hook_run (proj : json -> json) (c0 : cluster) (ds : list doc)
           (run_failed : bool) (cl : cluster) (calls : list call) : bool :=
  if all_valid ds then
    let (c1, es) := effects c0 (ops_of ds) in
    cluster_sameb (view proj cl) (view proj c1)
    && Bool.eqb run_failed (match es with [] => false | _ => true end)
  else
    run_failed && cluster_sameb (view proj cl) (view proj c0) && match calls with [] => true | _ => false end.
