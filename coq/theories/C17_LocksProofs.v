(* C17_LocksProofs.v — if the program passes [lock_ok], then in every reachable state of every
   pool of threads running its functions, under every schedule, a thread that stands at an operation
   that may block holds no lock.  So whoever waits for a lock - Shutdown() on its way to the queues
   in particular - waits only for threads that are inside a critical section of non-blocking
   operations: no API server, channel or hook process can keep it from reaching TaskQueues.Stop. *)
From Verif Require Import Common C17_Locks.
Open Scope N_scope.

Lemma func_ok_split h : forall done rest,
  func_ok h (done ++ rest) = true -> func_ok (fold_left apply_op done h) rest = true.
Proof.
  intros done. revert h. induction done as [|o r IH]; intros h rest H; [exact H|].
  cbn [app func_ok] in H. apply andb_true_iff in H as [_ H]. cbn [fold_left]. now apply IH.
Qed.

(* a thread that runs a checked function: what it has done and what is left make up the function *)
Definition runs (f : func) (t : thread) : Prop := th_done t ++ th_rest t = f.

Lemma runs_advance f t : runs f t -> runs f (advance_thread t).
Proof.
  unfold runs, advance_thread. destruct (th_rest t) as [|o r] eqn:E; intros H; [now rewrite E|].
  cbn [th_done th_rest]. now rewrite <- app_assoc.
Qed.

Lemma block_holds_nothing f t : func_ok [] f = true -> runs f t -> at_block t = true -> th_held t = [].
Proof.
  intros Hok Hr Hb. unfold runs in Hr. rewrite <- Hr in Hok.
  apply func_ok_split in Hok. fold (th_held t) in Hok.
  unfold at_block in Hb. destruct (th_rest t) as [|o r]; [discriminate|].
  cbn [func_ok] in Hok. rewrite Hb in Hok. destruct (th_held t); [reflexivity | discriminate].
Qed.

(* the pool: thread k runs function fs[k] *)
Definition pool_runs (fs : list func) (ts : list thread) : Prop := Forall2 runs fs ts.

Lemma set_nth_runs fs : forall ts i t f,
  pool_runs fs ts -> nth_error ts i = Some t -> nth_error fs i = Some f -> runs f (advance_thread t) ->
  pool_runs fs (set_nth i (advance_thread t) ts).
Proof.
  induction fs as [|g gs IH]; intros ts i t f H Ht Hf Hr.
  - destruct i; discriminate.
  - inversion H as [|? u ? us H1 H2]; subst. destruct i as [|i]; cbn [set_nth].
    + cbn in Ht, Hf. inversion Ht; inversion Hf; subst. constructor; assumption.
    + constructor; [exact H1|]. cbn in Ht, Hf. now apply (IH us i t f).
Qed.

Lemma pool_nth fs ts i t : pool_runs fs ts -> nth_error ts i = Some t -> exists f, nth_error fs i = Some f /\ runs f t.
Proof.
  intros H. revert i. induction H as [|f u fs us H1 H2 IH]; intros i Ht; [destruct i; discriminate|].
  destruct i as [|i]; cbn in *.
  - inversion Ht; subst. now exists f.
  - now apply IH.
Qed.

Lemma sys_step_runs fs ts i : pool_runs fs ts -> pool_runs fs (sys_step ts i).
Proof.
  intros H. unfold sys_step. destruct (enabled i ts); [|exact H].
  destruct (nth_error ts i) as [t|] eqn:Ht; [|exact H].
  destruct (pool_nth fs ts i t H Ht) as (f & Hf & Hr).
  apply (set_nth_runs fs ts i t f H Ht Hf). now apply runs_advance.
Qed.

Lemma sys_run_runs fs : forall sched ts, pool_runs fs ts -> pool_runs fs (sys_run ts sched).
Proof.
  induction sched as [|i r IH]; intros ts H; [exact H|]. cbn [sys_run fold_left]. apply IH, sys_step_runs, H.
Qed.

Lemma start_runs fs : pool_runs fs (map start fs).
Proof. induction fs as [|f r IH]; constructor; [reflexivity | exact IH]. Qed.

(* THE theorem: any program that passes the check, any pool of threads running functions of it
   (any number, any function any number of times), any schedule: a thread that stands at an
   operation that may block holds no lock *)
Theorem blocked_threads_hold_no_lock (p : program) (fs : list func) (sched : list nat) :
  lock_ok p = true -> (forall f, In f fs -> In f (map snd p)) ->
  forall t, In t (sys_run (map start fs) sched) -> at_block t = true -> th_held t = [].
Proof.
  intros Hok Hin t Ht Hb.
  pose proof (sys_run_runs fs sched _ (start_runs fs)) as HR.
  assert (G : forall fs ts, pool_runs fs ts -> (forall f, In f fs -> func_ok [] f = true) ->
              forall t, In t ts -> at_block t = true -> th_held t = []).
  { clear. intros fs ts H. induction H as [|f u fs us H1 H2 IH]; intros Hall t Ht Hb.
    - destruct Ht.
    - destruct Ht as [E|Ht].
      + subst u. apply (block_holds_nothing f t); [apply Hall; now left | exact H1 | exact Hb].
      + apply IH; [intros g Hg; apply Hall; now right | exact Ht | exact Hb]. }
  apply (G fs _ HR); [|exact Ht|exact Hb].
  intros f Hf. specialize (Hin f Hf). apply in_map_iff in Hin as ((n & g) & E & Hg). cbn in E. subst g.
  unfold lock_ok in Hok. rewrite forallb_forall in Hok. exact (Hok (n, f) Hg).
Qed.

(* consequence for a thread that waits for a lock (Shutdown() before PauseHandleEvents / before
   TaskQueues.Stop): every thread that holds the lock is NOT standing at an operation that may block *)
Corollary lock_holders_can_move (p : program) (fs : list func) (sched : list nat) (l : N) :
  lock_ok p = true -> (forall f, In f fs -> In f (map snd p)) ->
  forall t, In t (sys_run (map start fs) sched) -> holds_any l t = true -> at_block t = false.
Proof.
  intros Hok Hin t Ht Hh. destruct (at_block t) eqn:B; [|reflexivity].
  unfold holds_any in Hh. rewrite (blocked_threads_hold_no_lock p fs sched Hok Hin t Ht B) in Hh. discriminate.
Qed.

(* the check is not vacuous: it rejects a function that makes an API call inside a critical section *)
Example lock_ok_rejects : lock_ok [(1, [LLock 1; LStep; LBlock 7; LStep; LUnlock 1])] = false.
Proof. reflexivity. Qed.
Example lock_ok_accepts : lock_ok [(1, [LStep; LBlock 7; LLock 1; LStep; LUnlock 1]); (2, [LRLock 1; LStep; LRUnlock 1; LBlock 3])] = true.
Proof. reflexivity. Qed.
