(* C19_Proofs.v — lemmas and proofs for C19. *)
From Coq Require Import String.
From Verif Require Import Common C19_Model C19_Spec.

(* ---------- the model's table is the documented table ---------- *)

Ltac case_is s t :=
  let E := fresh "E" in
  destruct (is s t) eqn:E; [ apply bytes_eqb_eq in E; subst t | ].

Lemma table_doc c :
  wf_ctx c = true -> reserved c = false -> table c = Some (doc_specific c).
Proof.
  destruct c as [ob ot oe og ofr oto].
  unfold wf_ctx, reserved, table, doc_specific, kind_of, cur_binding, conv_suffix, dotted, kube;
    cbn [c_binding c_type c_event c_group c_from c_to].
  intros Hwf Hres.
  destruct ob as [b|]; [|discriminate].
  destruct (is "onStartup" b) eqn:Eb.
  - destruct ot as [t|]; [discriminate|reflexivity].
  - destruct ot as [t|]; [|reflexivity].
    case_is "Synchronization"%string t; [vm_compute; reflexivity|].
    case_is "Event"%string t.
    { destruct oe as [e|]; [|vm_compute; reflexivity].
      case_is "Added"%string e; [vm_compute; reflexivity|].
      case_is "Modified"%string e; [vm_compute; reflexivity|].
      case_is "Deleted"%string e; [vm_compute; reflexivity|].
      vm_compute; reflexivity. }
    case_is "Group"%string t.
    { destruct og as [g|]; [vm_compute; reflexivity|]. vm_compute in Hwf. discriminate. }
    case_is "Schedule"%string t; [vm_compute; reflexivity|].
    case_is "Validating"%string t; [vm_compute; reflexivity|].
    case_is "Mutating"%string t; [vm_compute; reflexivity|].
    case_is "Conversion"%string t.
    { destruct ofr as [f|]; [|vm_compute in Hwf; discriminate].
      destruct oto as [t'|]; [|vm_compute in Hwf; discriminate].
      vm_compute; reflexivity. }
    reflexivity.
Qed.

Lemma candidates_doc c :
  wf_ctx c = true -> reserved c = false -> candidates c = doc_candidates c.
Proof. intros Hwf Hres. unfold candidates, doc_candidates. now rewrite (table_doc c Hwf Hres). Qed.

(* ---------- first_defined picks the first defined name ---------- *)

Lemma mem_true x l : mem x l = true <-> In x l.
Proof.
  unfold mem. rewrite existsb_exists. split.
  - intros [y [Hy E]]. apply bytes_eqb_eq in E. now subst.
  - intros H. exists x. split; [assumption | apply bytes_eqb_eq; reflexivity].
Qed.

Lemma first_defined_spec defined hs h :
  first_defined defined hs = Some h <->
  exists pre post, hs = pre ++ h :: post /\ In h defined /\ (forall x, In x pre -> ~ In x defined).
Proof.
  revert h. induction hs as [|a r IH]; intros h; simpl.
  - split; [discriminate|]. intros [pre [post [E _]]]. destruct pre; discriminate.
  - destruct (mem a defined) eqn:Ea.
    + split.
      * intros E. inversion E; subst. exists [], r. split; [reflexivity|]. split; [now apply mem_true|]. intros x [].
      * intros [pre [post [E [Hin Hpre]]]]. destruct pre as [|p pre].
        -- simpl in E. inversion E; subst. reflexivity.
        -- simpl in E. inversion E; subst. exfalso. apply (Hpre p); [now left | now apply mem_true].
    + rewrite IH. split.
      * intros [pre [post [E [Hin Hpre]]]]. exists (a :: pre), post. subst. split; [reflexivity|]. split; [assumption|].
        intros x [<-|Hx]; [intros Hc; apply mem_true in Hc; congruence | now apply Hpre].
      * intros [pre [post [E [Hin Hpre]]]]. destruct pre as [|p pre].
        -- simpl in E. inversion E; subst. apply mem_true in Hin. congruence.
        -- simpl in E. inversion E; subst. exists pre, post. split; [reflexivity|]. split; [assumption|].
           intros x Hx. apply Hpre. now right.
Qed.

Lemma first_defined_none defined hs :
  first_defined defined hs = None <-> forall x, In x hs -> ~ In x defined.
Proof.
  induction hs as [|a r IH]; simpl.
  - split; [intros _ x [] | reflexivity].
  - destruct (mem a defined) eqn:Ea.
    + split; [discriminate|]. intros H. exfalso. apply (H a); [now left | now apply mem_true].
    + rewrite IH. split.
      * intros H x [<-|Hx]; [intros Hc; apply mem_true in Hc; congruence | now apply H].
      * intros H x Hx. apply H. now right.
Qed.

(* ---------- the loop ---------- *)

Definition ok (cs : list ctx) : Prop := forallb wf_ctx cs = true /\ existsb reserved cs = false.

Lemma ok_cons c r : ok (c :: r) -> wf_ctx c = true /\ reserved c = false /\ ok r.
Proof.
  unfold ok; simpl. intros [H1 H2]. apply andb_true_iff in H1 as [H1 H1']. apply orb_false_iff in H2 as [H2 H2'].
  repeat split; assumption.
Qed.

Lemma first_defined_table defined c :
  wf_ctx c = true -> reserved c = false ->
  table c = Some (doc_specific c) /\ first_defined defined (doc_specific c ++ [main_name]) = chosen defined c.
Proof. intros Hwf Hres. split; [now apply table_doc | reflexivity]. Qed.

Lemma bytes_eqb_refl' x : bytes_eqb x x = true.
Proof. apply bytes_eqb_eq; reflexivity. Qed.

Lemma entry_eqb_refl e : entry_eqb e e = true.
Proof. destruct e as [[n i] b]. unfold entry_eqb; simpl. now rewrite !bytes_eqb_refl', N.eqb_refl. Qed.

(* the model's loop produces a trace and status the property's predicate accepts *)
Lemma dispatch_follows defined results cs : forall i,
  ok cs ->
  follows defined results i cs (fst (dispatch_from defined results i cs))
                                (snd (dispatch_from defined results i cs)) = true.
Proof.
  induction cs as [|c r IH]; intros i Hok; [reflexivity|].
  apply ok_cons in Hok as [Hwf [Hres Hok]].
  cbn [dispatch_from follows]. rewrite (table_doc c Hwf Hres).
  change (first_defined defined (doc_specific c ++ [main_name])) with (chosen defined c).
  destruct (chosen defined c) as [h|]; [|reflexivity].
  destruct (N.eqb (results h i) 0) eqn:Est.
  - specialize (IH (N.succ i) Hok). destruct (dispatch_from defined results (N.succ i) r) as [t s].
    cbn [fst snd] in *. now rewrite entry_eqb_refl, IH.
  - cbn [fst snd is_nil]. now rewrite entry_eqb_refl, Est.
Qed.

Definition mk_input args defined results cs := mkInput args defined results cs.

Definition run_i (i : input) : obs := run (i_args i) (i_defined i) (i_results i) (i_ctxs i).

Lemma config_mode_P i : is_config (i_args i) = true -> P i (run_i i) = true.
Proof.
  intros Hc. unfold P, run_i, run. rewrite Hc.
  destruct (mem config_name (i_defined i)) eqn:Ed; cbn [o_trace o_status o_printed forallb andb].
  - unfold config_entry; cbn [fst]. rewrite bytes_eqb_refl'. cbn [andb is_nil negb].
    destruct (N.eqb (i_results i config_name 0%N) 0); reflexivity.
  - reflexivity.
Qed.

Lemma meets_spec_partial i : in_domain i = true -> T i = false -> P i (run_i i) = true.
Proof.
  intros Hdom HT. destruct (is_config (i_args i)) eqn:Hc; [now apply config_mode_P|].
  unfold T in HT. rewrite Hc in HT. cbn [negb andb] in HT.
  unfold P, run_i, run, dispatch. rewrite Hc.
  pose proof (dispatch_follows (i_defined i) (i_results i) (i_ctxs i) 0%N (conj Hdom HT)) as H.
  destruct (dispatch_from (i_defined i) (i_results i) 0%N (i_ctxs i)) as [t s]. exact H.
Qed.

(* the hypothesis T = false is needed: a schedule binding the user named "onStartup" *)
Definition refute_ctx : ctx := mkCtx (Some (B "onStartup")) (Some (B "Schedule")) None None None None.
Definition refute_input : input :=
  mkInput [] [B "__on_schedule::onStartup"; B "__on_startup"] (fun _ _ => 0%N) [refute_ctx].

Lemma reserved_name_refuted :
  exists i, in_domain i = true /\ T i = true /\ P i (run_i i) = false.
Proof. exists refute_input. repeat split; vm_compute; reflexivity. Qed.

(* ---------- Prop-level corollaries ---------- *)

(* context number k is served successfully *)
Definition served (defined : list name) (results : name -> N -> N) (k : nat) (c : ctx) : Prop :=
  exists h, chosen defined c = Some h /\ results h (N.of_nat k) = 0%N.

Lemma shift i j : (N.succ i + N.of_nat j = i + N.of_nat (S j))%N.
Proof. rewrite Nat2N.inj_succ. lia. Qed.

(* every invocation k is for context k, selected as current, by its chosen handler *)
Lemma trace_entries defined results cs : forall i k e,
  ok cs ->
  nth_error (fst (dispatch_from defined results i cs)) k = Some e ->
  exists c h, nth_error cs k = Some c /\ chosen defined c = Some h /\
              e = (h, (i + N.of_nat k)%N, cur_binding c).
Proof.
  induction cs as [|c r IH]; intros i k e Hok Hn.
  - destruct k; discriminate.
  - apply ok_cons in Hok as [Hwf [Hres Hok]].
    cbn [dispatch_from] in Hn. rewrite (table_doc c Hwf Hres) in Hn.
    change (first_defined defined (doc_specific c ++ [main_name])) with (chosen defined c) in Hn.
    destruct (chosen defined c) as [h|] eqn:Ech; [|destruct k; discriminate].
    destruct (N.eqb (results h i) 0) eqn:Est.
    + destruct (dispatch_from defined results (N.succ i) r) as [t s] eqn:Ed. cbn [fst] in Hn.
      destruct k as [|k].
      * inversion Hn; subst. exists c, h. repeat split; try assumption. simpl. f_equal. f_equal. lia.
      * simpl in Hn. specialize (IH (N.succ i) k e Hok). rewrite Ed in IH. cbn [fst] in IH.
        destruct (IH Hn) as [c' [h' [H1 [H2 H3]]]]. exists c', h'. repeat split; try assumption.
        rewrite H3, shift. reflexivity.
    + cbn [fst] in Hn. destruct k as [|k]; [|destruct k; discriminate].
      inversion Hn; subst. exists c, h. repeat split; try assumption. simpl. f_equal. f_equal. lia.
Qed.

Lemma trace_length defined results cs : forall i,
  (length (fst (dispatch_from defined results i cs)) <= length cs)%nat.
Proof.
  induction cs as [|c r IH]; intros i; [simpl; lia|].
  cbn [dispatch_from]. destruct (table c) as [l|]; [|simpl; lia].
  destruct (first_defined defined (l ++ [main_name])) as [h|]; [|simpl; lia].
  destruct (N.eqb (results h i) 0).
  - specialize (IH (N.succ i)). destruct (dispatch_from defined results (N.succ i) r) as [t s]. simpl in *. lia.
  - simpl. lia.
Qed.

(* the run stops at the first context k that is not served successfully *)
Lemma stops_gen defined results cs : forall i k c,
  ok cs ->
  nth_error cs k = Some c ->
  (forall j c', (j < k)%nat -> nth_error cs j = Some c' ->
                exists h, chosen defined c' = Some h /\ results h (i + N.of_nat j)%N = 0%N) ->
  let tr := fst (dispatch_from defined results i cs) in
  let st := snd (dispatch_from defined results i cs) in
  match chosen defined c with
  | None => st = 1%N /\ length tr = k
  | Some h => results h (i + N.of_nat k)%N <> 0%N ->
              st = results h (i + N.of_nat k)%N /\ length tr = S k /\
              nth_error tr k = Some (h, (i + N.of_nat k)%N, cur_binding c)
  end.
Proof.
  induction cs as [|c0 r IH]; intros i k c Hok Hn Hpre; [destruct k; discriminate|].
  apply ok_cons in Hok as [Hwf [Hres Hok]].
  cbn [dispatch_from]. rewrite (table_doc c0 Hwf Hres).
  change (first_defined defined (doc_specific c0 ++ [main_name])) with (chosen defined c0).
  destruct k as [|k].
  - simpl in Hn. inversion Hn; subst c0. replace (i + N.of_nat 0)%N with i by lia.
    destruct (chosen defined c) as [h|]; [|split; reflexivity].
    intros Hne. apply N.eqb_neq in Hne. rewrite Hne. cbn [fst snd]. repeat split.
  - simpl in Hn.
    destruct (Hpre 0%nat c0) as [h0 [Hc0 Hr0]]; [lia | reflexivity |].
    replace (i + N.of_nat 0)%N with i in Hr0 by lia.
    rewrite Hc0. apply N.eqb_eq in Hr0. rewrite Hr0.
    specialize (IH (N.succ i) k c Hok Hn).
    assert (Hpre' : forall j c', (j < k)%nat -> nth_error r j = Some c' ->
                     exists h, chosen defined c' = Some h /\ results h (N.succ i + N.of_nat j)%N = 0%N).
    { intros j c' Hj Hnj. destruct (Hpre (S j) c') as [h [H1 H2]]; [lia | exact Hnj |].
      exists h. split; [assumption|]. now rewrite shift. }
    specialize (IH Hpre'). cbv zeta in IH.
    destruct (dispatch_from defined results (N.succ i) r) as [t s]. cbn [fst snd] in *.
    rewrite shift in IH.
    destruct (chosen defined c) as [h|].
    + intros Hne. destruct (IH Hne) as [H1 [H2 H3]]. repeat split; [assumption | simpl; now rewrite H2 | exact H3].
    + destruct IH as [H1 H2]. split; [assumption | simpl; now rewrite H2].
Qed.

Lemma succeeds_gen defined results cs : forall i,
  ok cs ->
  (forall j c', nth_error cs j = Some c' ->
                exists h, chosen defined c' = Some h /\ results h (i + N.of_nat j)%N = 0%N) ->
  snd (dispatch_from defined results i cs) = 0%N /\
  length (fst (dispatch_from defined results i cs)) = length cs.
Proof.
  induction cs as [|c0 r IH]; intros i Hok Hall; [split; reflexivity|].
  apply ok_cons in Hok as [Hwf [Hres Hok]].
  cbn [dispatch_from]. rewrite (table_doc c0 Hwf Hres).
  change (first_defined defined (doc_specific c0 ++ [main_name])) with (chosen defined c0).
  destruct (Hall 0%nat c0) as [h0 [Hc0 Hr0]]; [reflexivity|].
  replace (i + N.of_nat 0)%N with i in Hr0 by lia.
  rewrite Hc0. apply N.eqb_eq in Hr0. rewrite Hr0.
  assert (Hall' : forall j c', nth_error r j = Some c' ->
                   exists h, chosen defined c' = Some h /\ results h (N.succ i + N.of_nat j)%N = 0%N).
  { intros j c' Hnj. destruct (Hall (S j) c') as [h [H1 H2]]; [exact Hnj|].
    exists h. split; [assumption|]. now rewrite shift. }
  destruct (IH (N.succ i) Hok Hall') as [H1 H2].
  destruct (dispatch_from defined results (N.succ i) r) as [t s]. cbn [fst snd] in *.
  split; [assumption | simpl; now rewrite H2].
Qed.

(* ---------- the four named statements ---------- *)

Lemma exactly_one_first_defined defined results cs :
  ok cs ->
  let tr := fst (dispatch defined results cs) in
  (length tr <= length cs)%nat /\
  forall k e, nth_error tr k = Some e ->
    exists c h, nth_error cs k = Some c /\
      e = (h, N.of_nat k, cur_binding c) /\
      (exists pre post, doc_candidates c = pre ++ h :: post /\ In h defined /\
                        forall x, In x pre -> ~ In x defined).
Proof.
  intros Hok. split; [apply trace_length|].
  intros k e Hn. destruct (trace_entries defined results cs 0%N k e Hok Hn) as [c [h [H1 [H2 H3]]]].
  exists c, h. split; [assumption|]. split; [now rewrite H3|].
  now apply first_defined_spec.
Qed.

Lemma stops_at_first_failure defined results cs k c :
  ok cs ->
  nth_error cs k = Some c ->
  (forall j c', (j < k)%nat -> nth_error cs j = Some c' -> served defined results j c') ->
  let tr := fst (dispatch defined results cs) in
  let st := snd (dispatch defined results cs) in
  ((forall x, In x (doc_candidates c) -> ~ In x defined) -> st <> 0%N /\ length tr = k) /\
  (forall h, chosen defined c = Some h -> results h (N.of_nat k) <> 0%N ->
             st <> 0%N /\ st = results h (N.of_nat k) /\ length tr = S k /\
             nth_error tr k = Some (h, N.of_nat k, cur_binding c)).
Proof.
  intros Hok Hn Hpre.
  pose proof (stops_gen defined results cs 0%N k c Hok Hn) as H. cbv zeta in H.
  assert (Hpre' : forall j c', (j < k)%nat -> nth_error cs j = Some c' ->
                    exists h, chosen defined c' = Some h /\ results h (0 + N.of_nat j)%N = 0%N).
  { intros j c' Hj Hnj. destruct (Hpre j c' Hj Hnj) as [h [H1 H2]]. exists h. split; [assumption|]. now rewrite N.add_0_l. }
  specialize (H Hpre'). rewrite N.add_0_l in H. unfold dispatch. cbv zeta. split.
  - intros Hnone. apply first_defined_none in Hnone. fold (chosen defined c) in Hnone. rewrite Hnone in H.
    destruct H as [H1 H2]. split; [rewrite H1; discriminate | assumption].
  - intros h Hch Hne. rewrite Hch in H. destruct (H Hne) as [H1 [H2 H3]].
    repeat split; try assumption. now rewrite H1.
Qed.

Lemma succeeds_otherwise defined results cs :
  ok cs ->
  (forall k c, nth_error cs k = Some c -> served defined results k c) ->
  snd (dispatch defined results cs) = 0%N /\
  length (fst (dispatch defined results cs)) = length cs.
Proof.
  intros Hok Hall. apply succeeds_gen; [assumption|].
  intros j c' Hnj. destruct (Hall j c' Hnj) as [h [H1 H2]]. exists h. split; [assumption|]. now rewrite N.add_0_l.
Qed.

Lemma config_mode args defined results cs :
  is_config args = true ->
  let o := run args defined results cs in
  (forall e, In e (o_trace o) -> e = config_entry) /\
  (In config_name defined ->
     o_trace o = [config_entry] /\ o_printed o = true /\ o_status o = results config_name 0%N).
Proof.
  intros Hc. unfold run. rewrite Hc. cbv zeta. destruct (mem config_name defined) eqn:Ed.
  - cbn [o_trace o_printed o_status]. split; [intros e [<-|[]]; reflexivity|]. intros _. repeat split.
  - cbn [o_trace]. split; [intros e []|]. intros Hin. apply mem_true in Hin. congruence.
Qed.

(* ====================================================================================
   Handler bodies in strict mode: the model's interpreter (run_cmd / exec_from) against
   the Spec's reading of "the handler fails" (leaves / ends / strict_status), and
   hook::run over bodies (dispatchB / runB) against the loop over abstract statuses. *)

Lemma find_app' {A} (f : A -> bool) l1 l2 :
  find f (l1 ++ l2) = match find f l1 with Some x => Some x | None => find f l2 end.
Proof. induction l1 as [|a r IH]; simpl; [reflexivity|]. destruct (f a); [reflexivity | exact IH]. Qed.

Lemma pipe_status_rev sts : forall acc,
  pipe_status sts acc = match find nonzero (rev sts) with Some s => s | None => acc end.
Proof.
  induction sts as [|s r IH]; intros acc; simpl; [reflexivity|].
  rewrite IH, find_app'. destruct (find nonzero (rev r)); [reflexivity|].
  simpl. unfold nonzero. destruct (N.eqb s 0); reflexivity.
Qed.

Lemma run_block_status k sts : forall j, snd (run_block k j sts) = first_failure sts.
Proof.
  unfold first_failure. induction sts as [|s r IH]; intros j; [reflexivity|].
  cbn [run_block find]. unfold nonzero at 1. destruct (N.eqb s 0) eqn:E; cbn [negb].
  - specialize (IH (N.succ j)). destruct (run_block k (N.succ j) r) as [t st]. exact IH.
  - reflexivity.
Qed.

(* each command: the model's status and "the function ends here" are the Spec's *)
Lemma run_cmd_spec k c : snd (fst (run_cmd k c)) = leaves c /\ snd (run_cmd k c) = ends c.
Proof.
  destruct c as [st|sts|st|st|st|st|st|st| |sts|sts|sts|sts]; cbn [run_cmd leaves ends fst snd];
    try (split; reflexivity).
  - rewrite pipe_status_rev. unfold first_failure, nonzero. split; reflexivity.
  - pose proof (run_block_status k sts 1%N) as H. destruct (run_block k 1%N sts) as [t s]. cbn [fst snd] in *.
    subst s. split; reflexivity.
  - pose proof (run_block_status k sts 1%N) as H. destruct (run_block k 1%N sts) as [t s]. cbn [fst snd] in *.
    subst s. split; reflexivity.
  - pose proof (run_block_status k sts 1%N) as H. destruct (run_block k 1%N sts) as [t s]. cbn [fst snd] in *.
    subst s. split; reflexivity.
  - destruct (run_block k 1%N sts) as [t s]. split; reflexivity.
Qed.

Lemma last_indep {A} (l : list A) a d d' : last (a :: l) d = last (a :: l) d'.
Proof. revert a. induction l as [|b r IH]; intros a; [reflexivity|]. cbn [last] in *. apply IH. Qed.

Lemma last_cons' {A} (l : list A) a d : last (a :: l) d = last l a.
Proof. destruct l as [|b r]; [reflexivity|]. cbn [last]. apply (last_indep r b d a). Qed.

Lemma exec_from_status b : forall k lst,
  snd (exec_from k b lst) =
  match find ends b with Some c => leaves c | None => last (map leaves b) lst end.
Proof.
  induction b as [|c r IH]; intros k lst; [reflexivity|].
  cbn [exec_from find map]. destruct (run_cmd_spec k c) as [H1 H2].
  destruct (run_cmd k c) as [[inner st] e]. cbn [fst snd] in H1, H2. subst st e.
  destruct (ends c).
  - reflexivity.
  - specialize (IH (N.succ k) (leaves c)). destruct (exec_from (N.succ k) r (leaves c)) as [t f].
    cbn [snd] in *. rewrite IH. destruct (find ends r); [reflexivity|]. now rewrite last_cons'.
Qed.

Lemma exec_body_status b : snd (exec_body b) = strict_status b.
Proof. unfold exec_body, strict_status. apply exec_from_status. Qed.

(* ---------- which commands start ---------- *)

(* the commands up to and including the first one that ends the handler *)
Fixpoint upto_end (b : body) : body :=
  match b with [] => [] | c :: r => if ends c then [c] else c :: upto_end r end.

(* ... of a block: up to and including the first failing one *)
Fixpoint upto_failure (sts : list N) : list N :=
  match sts with [] => [] | s :: r => if N.eqb s 0 then s :: upto_failure r else [s] end.

Fixpoint positions (k : N) (n : nat) : list N :=
  match n with O => [] | S m => k :: positions (N.succ k) m end.

(* the marks of the body's own commands (inner marks of blocks dropped) *)
Definition top (ss : list step) : list N := map fst (filter (fun s => N.eqb (snd s) 0) ss).

Lemma run_block_marks k sts : forall j,
  fst (run_block k j sts) = map (fun p => (k, p)) (positions j (length (upto_failure sts))).
Proof.
  induction sts as [|s r IH]; intros j; [reflexivity|].
  cbn [run_block upto_failure]. destruct (N.eqb s 0).
  - specialize (IH (N.succ j)). destruct (run_block k (N.succ j) r) as [t st]. cbn [fst] in *.
    cbn [length positions map]. now rewrite IH.
  - reflexivity.
Qed.

Lemma positions_inner_nonzero k n : forall j, j <> 0%N ->
  filter (fun s : step => N.eqb (snd s) 0) (map (fun p => (k, p)) (positions j n)) = [].
Proof.
  induction n as [|n IH]; intros j Hj; [reflexivity|].
  cbn [positions map filter snd]. apply N.eqb_neq in Hj. rewrite Hj. apply IH. lia.
Qed.

Lemma run_cmd_inner k c : filter (fun s : step => N.eqb (snd s) 0) (fst (fst (run_cmd k c))) = [].
Proof.
  destruct c as [st|sts|st|st|st|st|st|st| |sts|sts|sts|sts]; cbn [run_cmd fst]; try reflexivity;
    pose proof (run_block_marks k sts 1%N) as H; destruct (run_block k 1%N sts) as [t s]; cbn [fst] in *;
    subst t; apply positions_inner_nonzero; lia.
Qed.

Lemma filter_app' {A} (f : A -> bool) l1 l2 : filter f (l1 ++ l2) = filter f l1 ++ filter f l2.
Proof. induction l1 as [|a r IH]; simpl; [reflexivity|]. destruct (f a); simpl; now rewrite IH. Qed.

Lemma filter_top_cons k (l : list step) :
  filter (fun s : step => N.eqb (snd s) 0) ((k, 0%N) :: l) = (k, 0%N) :: filter (fun s : step => N.eqb (snd s) 0) l.
Proof. reflexivity. Qed.

Lemma exec_from_top b : forall k lst,
  top (fst (exec_from k b lst)) = positions k (length (upto_end b)).
Proof.
  unfold top. induction b as [|c r IH]; intros k lst; [reflexivity|].
  cbn [exec_from upto_end]. destruct (run_cmd_spec k c) as [_ H2]. pose proof (run_cmd_inner k c) as H3.
  destruct (run_cmd k c) as [[inner st] e]. cbn [fst snd] in H2, H3. subst e.
  destruct (ends c).
  - cbn [fst]. rewrite filter_top_cons, H3. reflexivity.
  - specialize (IH (N.succ k) st). destruct (exec_from (N.succ k) r st) as [t f]. cbn [fst] in *.
    rewrite filter_top_cons, filter_app', H3. cbn [app map fst length positions].
    f_equal. exact IH.
Qed.

Lemma exec_body_top b : top (fst (exec_body b)) = positions 0%N (length (upto_end b)).
Proof. apply exec_from_top. Qed.

(* nothing after the command that ends the handler matters *)
Lemma strict_status_split pre cm post :
  (forall x, In x pre -> ends x = false) -> ends cm = true ->
  strict_status (pre ++ cm :: post) = leaves cm /\ upto_end (pre ++ cm :: post) = pre ++ [cm].
Proof.
  intros Hpre Hcm.
  assert (H : find ends (pre ++ cm :: post) = Some cm /\ upto_end (pre ++ cm :: post) = pre ++ [cm]).
  { induction pre as [|a r IH].
    - cbn [app find upto_end]. rewrite Hcm. split; reflexivity.
    - cbn [app find upto_end]. rewrite (Hpre a (or_introl eq_refl)).
      destruct IH as [H1 H2]; [intros x Hx; apply Hpre; now right|]. rewrite H2. split; [exact H1 | reflexivity]. }
  destruct H as [H1 H2]. unfold strict_status. rewrite H1. split; [reflexivity | exact H2].
Qed.

(* a body no command of which ends the handler runs to its end *)
Lemma strict_status_through b :
  (forall x, In x b -> ends x = false) ->
  strict_status b = last (map leaves b) 0%N /\ upto_end b = b.
Proof.
  intros H. split.
  - unfold strict_status. destruct (find ends b) as [c|] eqn:E; [|reflexivity].
    apply find_some in E as [Hin He]. rewrite (H c Hin) in He. discriminate.
  - induction b as [|a r IH]; [reflexivity|]. cbn [upto_end]. rewrite (H a (or_introl eq_refl)).
    rewrite IH; [reflexivity|]. intros x Hx. apply H. now right.
Qed.

(* ---------- hook::run over bodies refines the loop over statuses ---------- *)

Lemma dispatchB_dispatch defined bodies cs : forall i,
  dispatch_from defined (results_of_bodies bodies) i cs =
    (fst (fst (dispatchB_from defined bodies i cs)), snd (dispatchB_from defined bodies i cs)) /\
  length (snd (fst (dispatchB_from defined bodies i cs))) = length (fst (fst (dispatchB_from defined bodies i cs))).
Proof.
  induction cs as [|c r IH]; intros i; [split; reflexivity|].
  cbn [dispatchB_from dispatch_from]. destruct (table c) as [l|]; [|split; reflexivity].
  destruct (first_defined defined (l ++ [main_name])) as [h|]; [|split; reflexivity].
  assert (Hr : results_of_bodies bodies h i = snd (exec_body (bodies h i))).
  { unfold results_of_bodies. now rewrite exec_body_status. }
  rewrite !Hr. clear Hr.
  destruct (exec_body (bodies h i)) as [ss st]. cbn [snd].
  destruct (N.eqb st 0).
  - destruct (IH (N.succ i)) as [H1 H2]. rewrite H1.
    destruct (dispatchB_from defined bodies (N.succ i) r) as [[t s] f]. cbn [fst snd] in *.
    split; [reflexivity | cbn [length]; now rewrite H2].
  - split; reflexivity.
Qed.

(* the marks recorded for invocation k are those of the body of the handler named in
   entry k, at the context index named there *)
Lemma steps_entries defined bodies cs : forall i k e,
  nth_error (fst (fst (dispatchB_from defined bodies i cs))) k = Some e ->
  nth_error (snd (fst (dispatchB_from defined bodies i cs))) k =
    Some (fst (exec_body (bodies (fst (fst e)) (snd (fst e))))).
Proof.
  induction cs as [|c r IH]; intros i k e Hn; [destruct k; discriminate|].
  cbn [dispatchB_from] in *. destruct (table c) as [l|]; [|destruct k; discriminate].
  destruct (first_defined defined (l ++ [main_name])) as [h|]; [|destruct k; discriminate].
  destruct (exec_body (bodies h i)) as [ss st] eqn:Ee.
  destruct (N.eqb st 0).
  - specialize (IH (N.succ i)). destruct (dispatchB_from defined bodies (N.succ i) r) as [[t s] f].
    cbn [fst snd] in *. destruct k as [|k].
    + cbn [nth_error] in *. inversion Hn; subst e. cbn [fst snd]. now rewrite Ee.
    + cbn [nth_error] in *. now apply IH.
  - cbn [fst snd] in *. destruct k as [|k]; [|destruct k; discriminate].
    cbn [nth_error] in *. inversion Hn; subst e. cbn [fst snd]. now rewrite Ee.
Qed.

Definition runB_i (i : inputB) : obsB := runB (ib_args i) (ib_defined i) (ib_bodies i) (ib_ctxs i).

Lemma runB_run args defined bodies cs :
  ob_obs (runB args defined bodies cs) = run args defined (results_of_bodies bodies) cs /\
  length (ob_steps (runB args defined bodies cs)) = length (o_trace (ob_obs (runB args defined bodies cs))).
Proof.
  unfold runB, run. destruct (is_config args).
  - destruct (mem config_name defined).
    + unfold results_of_bodies. rewrite <- exec_body_status.
      destruct (exec_body (bodies config_name 0%N)) as [ss st]. split; reflexivity.
    + split; reflexivity.
  - unfold dispatch, dispatchB. destruct (dispatchB_dispatch defined bodies cs 0%N) as [H1 H2]. rewrite H1.
    destruct (dispatchB_from defined bodies 0%N cs) as [[t s] f]. cbn [fst snd] in *. split; [reflexivity | exact H2].
Qed.

Lemma strict_meets_spec_partial i :
  in_domain (to_input i) = true -> T (to_input i) = false -> PB i (ob_obs (runB_i i)) = true.
Proof.
  intros Hd HT. unfold PB, runB_i. rewrite (proj1 (runB_run _ _ _ _)).
  exact (meets_spec_partial (to_input i) Hd HT).
Qed.

Lemma positions_length k n : length (positions k n) = n.
Proof. revert k. induction n as [|n IH]; intros k; [reflexivity|]. simpl. now rewrite IH. Qed.

(* a command in the middle of the chosen handler's body ends it with a non-zero status:
   the run stops there - whatever follows in the body and whatever contexts follow *)
Lemma stops_inside_handler defined bodies cs k c h pre cm post :
  ok cs ->
  nth_error cs k = Some c ->
  (forall j c', (j < k)%nat -> nth_error cs j = Some c' -> served defined (results_of_bodies bodies) j c') ->
  chosen defined c = Some h ->
  bodies h (N.of_nat k) = pre ++ cm :: post ->
  (forall x, In x pre -> ends x = false) -> ends cm = true -> leaves cm <> 0%N ->
  let X := dispatchB defined bodies cs in
  snd X = leaves cm /\ snd X <> 0%N /\ length (fst (fst X)) = S k /\ length (snd (fst X)) = S k /\
  nth_error (fst (fst X)) k = Some (h, N.of_nat k, cur_binding c) /\
  exists ss, nth_error (snd (fst X)) k = Some ss /\ top ss = positions 0%N (S (length pre)).
Proof.
  intros Hok Hn Hpre Hch Hb Hnone Hends Hne X.
  destruct (strict_status_split pre cm post Hnone Hends) as [Hst Hup].
  assert (Hres : results_of_bodies bodies h (N.of_nat k) = leaves cm).
  { unfold results_of_bodies. now rewrite Hb. }
  destruct (stops_at_first_failure defined (results_of_bodies bodies) cs k c Hok Hn Hpre) as [_ H].
  specialize (H h Hch). rewrite Hres in H. destruct (H Hne) as [H1 [H2 [H3 H4]]].
  destruct (dispatchB_dispatch defined bodies cs 0%N) as [D1 D2].
  unfold dispatch in *. rewrite D1 in *. cbn [fst snd] in *.
  subst X. unfold dispatchB.
  split; [exact H2|]. split; [exact H1|]. split; [exact H3|]. split; [now rewrite D2|]. split; [exact H4|].
  eexists. split; [exact (steps_entries defined bodies cs 0%N k _ H4)|].
  cbn [fst snd]. rewrite exec_body_top, Hb, Hup, app_length. cbn [length]. f_equal. lia.
Qed.

Lemma body_strict_mode b :
  snd (exec_body b) = strict_status b /\
  top (fst (exec_body b)) = positions 0%N (length (upto_end b)) /\
  (forall pre cm post, b = pre ++ cm :: post -> (forall x, In x pre -> ends x = false) -> ends cm = true ->
     strict_status b = leaves cm /\ upto_end b = pre ++ [cm]) /\
  ((forall x, In x b -> ends x = false) -> strict_status b = last (map leaves b) 0%N /\ upto_end b = b).
Proof.
  split; [apply exec_body_status|]. split; [apply exec_body_top|]. split.
  - intros pre cm post -> Hpre Hcm. now apply strict_status_split.
  - apply strict_status_through.
Qed.

(* ====================================================================================
   `hook::run --config` prints the configuration: the bytes on stdout. *)

Definition runC_i (i : inputC) : obsC :=
  runC (ib_args (ic_in i)) (ib_defined (ic_in i)) (ib_bodies (ic_in i)) (ib_ctxs (ic_in i)) (ic_text i).

(* --config, __config__ defined: the stdout of the script is the text of __config__, for
   every byte string; __config__ ran once, with no context selected, and its strict-mode
   status is the status of the run *)
Lemma config_verbatim args defined bodies cs (text : bytes) :
  is_config args = true -> In config_name defined ->
  let o := runC args defined bodies cs text in
  oc_stdout o = text /\
  o_trace (ob_obs (oc_run o)) = [config_entry] /\
  o_status (ob_obs (oc_run o)) = strict_status (bodies config_name 0%N).
Proof.
  intros Hc Hin. cbv zeta. unfold runC. cbn [oc_stdout oc_run].
  rewrite (proj1 (runB_run args defined bodies cs)).
  apply mem_true in Hin. unfold stdout_of, run. rewrite Hc, Hin.
  cbn [o_trace o_status]. repeat split.
Qed.

(* what is on stdout does not depend on what __config__ does after writing, on the
   contexts or on the other handlers *)
Lemma stdout_of_text args defined bodies cs text :
  oc_stdout (runC args defined bodies cs text) =
  if is_config args && mem config_name defined then text else [].
Proof. unfold runC, stdout_of. cbn [oc_stdout]. destruct (is_config args), (mem config_name defined); reflexivity. Qed.

Lemma config_clause_holds i : config_clause i (runC_i i) = true.
Proof.
  unfold config_clause, runC_i.
  destruct (is_config (ib_args (ic_in i))) eqn:Hc; [|reflexivity].
  destruct (mem config_name (ib_defined (ic_in i))) eqn:Hm; [|reflexivity].
  cbn [andb].
  destruct (config_verbatim _ _ (ib_bodies (ic_in i)) (ib_ctxs (ic_in i)) (ic_text i) Hc (proj1 (mem_true _ _) Hm))
    as [Hs [_ Hst]].
  rewrite Hs, Hst.
  destruct (N.eqb (strict_status (ib_bodies (ic_in i) config_name 0%N)) 0) eqn:E.
  - apply bytes_eqb_refl'.
  - unfold nonzero. now rewrite E.
Qed.

Lemma config_meets_spec i :
  in_domain (to_input (ic_in i)) = true -> T (to_input (ic_in i)) = false -> PC i (runC_i i) = true.
Proof.
  intros Hd HT. unfold PC. rewrite config_clause_holds, Bool.andb_true_r.
  exact (strict_meets_spec_partial (ic_in i) Hd HT).
Qed.

(* --config needs no hypothesis about the contexts at all *)
Lemma config_meets_spec_config i : is_config (ib_args (ic_in i)) = true -> PC i (runC_i i) = true.
Proof.
  intros Hc. unfold PC. rewrite config_clause_holds, Bool.andb_true_r.
  unfold runC_i, runC. cbn [oc_run]. unfold PB. rewrite (proj1 (runB_run _ _ _ _)).
  exact (config_mode_P (to_input (ic_in i)) Hc).
Qed.

(* the predicate accepts NOTHING but the text itself: an observation that passes it for a
   succeeding __config__ has exactly the bytes of the text on stdout and status 0 *)
Lemma spec_demands_verbatim i o :
  is_config (ib_args (ic_in i)) = true -> In config_name (ib_defined (ic_in i)) ->
  strict_status (ib_bodies (ic_in i) config_name 0%N) = 0%N ->
  PC i o = true ->
  oc_stdout o = ic_text i /\ o_status (ob_obs (oc_run o)) = 0%N.
Proof.
  intros Hc Hin Hst HP. apply mem_true in Hin.
  unfold PC in HP. apply Bool.andb_true_iff in HP. destruct HP as [HB HC].
  unfold config_clause in HC. rewrite Hc, Hin, Hst in HC. cbn [andb N.eqb] in HC.
  split; [now apply bytes_eqb_eq|].
  unfold PB, P in HB. cbn [to_input i_args i_defined i_results] in HB. rewrite Hc, Hin in HB.
  unfold results_of_bodies in HB. rewrite Hst in HB. cbn [andb N.eqb] in HB.
  apply Bool.andb_true_iff in HB. destruct HB as [_ HB].
  apply Bool.andb_true_iff in HB. destruct HB as [_ HB]. now apply N.eqb_eq.
Qed.

(* ... and for a failing __config__ only a failing run *)
Lemma spec_demands_failure i o :
  is_config (ib_args (ic_in i)) = true -> In config_name (ib_defined (ic_in i)) ->
  strict_status (ib_bodies (ic_in i) config_name 0%N) <> 0%N ->
  PC i o = true -> o_status (ob_obs (oc_run o)) <> 0%N.
Proof.
  intros Hc Hin Hst HP. apply mem_true in Hin.
  unfold PC in HP. apply Bool.andb_true_iff in HP. destruct HP as [_ HC].
  unfold config_clause in HC. rewrite Hc, Hin in HC. cbn [andb] in HC.
  apply N.eqb_neq in Hst. rewrite Hst in HC. unfold nonzero in HC.
  apply Bool.negb_true_iff in HC. now apply N.eqb_neq.
Qed.
