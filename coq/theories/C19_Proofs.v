(* C19_Proofs.v — lemmas and proofs for C19. *)
From Coq Require Import String.
From Verif Require Import Common C19_Model C19_Spec.

(* ---------- the model's table is the documented table ---------- *)

Ltac case_is s t :=
  let E := fresh "E" in
  destruct (is s t) eqn:E; [ apply bytes_eqb_eq in E; subst t | ].

Lemma table_doc c :
  wf_ctx c = true -> reserved c = false -> table c = Some (doc_specific c).
Proof.
  destruct c as [ob ot oe og ofr oto].
  unfold wf_ctx, reserved, table, doc_specific, kind_of, cur_binding, conv_suffix, dotted, kube;
    cbn [c_binding c_type c_event c_group c_from c_to].
  intros Hwf Hres.
  destruct ob as [b|]; [|discriminate].
  destruct (is "onStartup" b) eqn:Eb.
  - destruct ot as [t|]; [discriminate|reflexivity].
  - destruct ot as [t|]; [|reflexivity].
    case_is "Synchronization"%string t; [vm_compute; reflexivity|].
    case_is "Event"%string t.
    { destruct oe as [e|]; [|vm_compute; reflexivity].
      case_is "Added"%string e; [vm_compute; reflexivity|].
      case_is "Modified"%string e; [vm_compute; reflexivity|].
      case_is "Deleted"%string e; [vm_compute; reflexivity|].
      vm_compute; reflexivity. }
    case_is "Group"%string t.
    { destruct og as [g|]; [vm_compute; reflexivity|]. vm_compute in Hwf. discriminate. }
    case_is "Schedule"%string t; [vm_compute; reflexivity|].
    case_is "Validating"%string t; [vm_compute; reflexivity|].
    case_is "Mutating"%string t; [vm_compute; reflexivity|].
    case_is "Conversion"%string t.
    { destruct ofr as [f|]; [|vm_compute in Hwf; discriminate].
      destruct oto as [t'|]; [|vm_compute in Hwf; discriminate].
      vm_compute; reflexivity. }
    reflexivity.
Qed.

Lemma candidates_doc c :
  wf_ctx c = true -> reserved c = false -> candidates c = doc_candidates c.
Proof. intros Hwf Hres. unfold candidates, doc_candidates. now rewrite (table_doc c Hwf Hres). Qed.

(* ---------- first_defined picks the first defined name ---------- *)

Lemma mem_true x l : mem x l = true <-> In x l.
Proof.
  unfold mem. rewrite existsb_exists. split.
  - intros [y [Hy E]]. apply bytes_eqb_eq in E. now subst.
  - intros H. exists x. split; [assumption | apply bytes_eqb_eq; reflexivity].
Qed.

Lemma first_defined_spec defined hs h :
  first_defined defined hs = Some h <->
  exists pre post, hs = pre ++ h :: post /\ In h defined /\ (forall x, In x pre -> ~ In x defined).
Proof.
  revert h. induction hs as [|a r IH]; intros h; simpl.
  - split; [discriminate|]. intros [pre [post [E _]]]. destruct pre; discriminate.
  - destruct (mem a defined) eqn:Ea.
    + split.
      * intros E. inversion E; subst. exists [], r. split; [reflexivity|]. split; [now apply mem_true|]. intros x [].
      * intros [pre [post [E [Hin Hpre]]]]. destruct pre as [|p pre].
        -- simpl in E. inversion E; subst. reflexivity.
        -- simpl in E. inversion E; subst. exfalso. apply (Hpre p); [now left | now apply mem_true].
    + rewrite IH. split.
      * intros [pre [post [E [Hin Hpre]]]]. exists (a :: pre), post. subst. split; [reflexivity|]. split; [assumption|].
        intros x [<-|Hx]; [intros Hc; apply mem_true in Hc; congruence | now apply Hpre].
      * intros [pre [post [E [Hin Hpre]]]]. destruct pre as [|p pre].
        -- simpl in E. inversion E; subst. apply mem_true in Hin. congruence.
        -- simpl in E. inversion E; subst. exists pre, post. split; [reflexivity|]. split; [assumption|].
           intros x Hx. apply Hpre. now right.
Qed.

Lemma first_defined_none defined hs :
  first_defined defined hs = None <-> forall x, In x hs -> ~ In x defined.
Proof.
  induction hs as [|a r IH]; simpl.
  - split; [intros _ x [] | reflexivity].
  - destruct (mem a defined) eqn:Ea.
    + split; [discriminate|]. intros H. exfalso. apply (H a); [now left | now apply mem_true].
    + rewrite IH. split.
      * intros H x [<-|Hx]; [intros Hc; apply mem_true in Hc; congruence | now apply H].
      * intros H x Hx. apply H. now right.
Qed.

(* ---------- the loop ---------- *)

Definition ok (cs : list ctx) : Prop := forallb wf_ctx cs = true /\ existsb reserved cs = false.

Lemma ok_cons c r : ok (c :: r) -> wf_ctx c = true /\ reserved c = false /\ ok r.
Proof.
  unfold ok; simpl. intros [H1 H2]. apply andb_true_iff in H1 as [H1 H1']. apply orb_false_iff in H2 as [H2 H2'].
  repeat split; assumption.
Qed.

Lemma first_defined_table defined c :
  wf_ctx c = true -> reserved c = false ->
  table c = Some (doc_specific c) /\ first_defined defined (doc_specific c ++ [main_name]) = chosen defined c.
Proof. intros Hwf Hres. split; [now apply table_doc | reflexivity]. Qed.

Lemma bytes_eqb_refl' x : bytes_eqb x x = true.
Proof. apply bytes_eqb_eq; reflexivity. Qed.

Lemma entry_eqb_refl e : entry_eqb e e = true.
Proof. destruct e as [[n i] b]. unfold entry_eqb; simpl. now rewrite !bytes_eqb_refl', N.eqb_refl. Qed.

(* the model's loop produces a trace and status the property's predicate accepts *)
Lemma dispatch_follows defined results cs : forall i,
  ok cs ->
  follows defined results i cs (fst (dispatch_from defined results i cs))
                                (snd (dispatch_from defined results i cs)) = true.
Proof.
  induction cs as [|c r IH]; intros i Hok; [reflexivity|].
  apply ok_cons in Hok as [Hwf [Hres Hok]].
  cbn [dispatch_from follows]. rewrite (table_doc c Hwf Hres).
  change (first_defined defined (doc_specific c ++ [main_name])) with (chosen defined c).
  destruct (chosen defined c) as [h|]; [|reflexivity].
  destruct (N.eqb (results h i) 0) eqn:Est.
  - specialize (IH (N.succ i) Hok). destruct (dispatch_from defined results (N.succ i) r) as [t s].
    cbn [fst snd] in *. now rewrite entry_eqb_refl, IH.
  - cbn [fst snd is_nil]. now rewrite entry_eqb_refl, Est.
Qed.

Definition mk_input args defined results cs := mkInput args defined results cs.

Definition run_i (i : input) : obs := run (i_args i) (i_defined i) (i_results i) (i_ctxs i).

Lemma config_mode_P i : is_config (i_args i) = true -> P i (run_i i) = true.
Proof.
  intros Hc. unfold P, run_i, run. rewrite Hc.
  destruct (mem config_name (i_defined i)) eqn:Ed; cbn [o_trace o_status o_printed forallb andb].
  - unfold config_entry; cbn [fst]. rewrite bytes_eqb_refl'. cbn [andb is_nil negb].
    destruct (N.eqb (i_results i config_name 0%N) 0); reflexivity.
  - reflexivity.
Qed.

Lemma meets_spec_partial i : in_domain i = true -> T i = false -> P i (run_i i) = true.
Proof.
  intros Hdom HT. destruct (is_config (i_args i)) eqn:Hc; [now apply config_mode_P|].
  unfold T in HT. rewrite Hc in HT. cbn [negb andb] in HT.
  unfold P, run_i, run, dispatch. rewrite Hc.
  pose proof (dispatch_follows (i_defined i) (i_results i) (i_ctxs i) 0%N (conj Hdom HT)) as H.
  destruct (dispatch_from (i_defined i) (i_results i) 0%N (i_ctxs i)) as [t s]. exact H.
Qed.

(* the hypothesis T = false is needed: a schedule binding the user named "onStartup" *)
Definition refute_ctx : ctx := mkCtx (Some (B "onStartup")) (Some (B "Schedule")) None None None None.
Definition refute_input : input :=
  mkInput [] [B "__on_schedule::onStartup"; B "__on_startup"] (fun _ _ => 0%N) [refute_ctx].

Lemma reserved_name_refuted :
  exists i, in_domain i = true /\ T i = true /\ P i (run_i i) = false.
Proof. exists refute_input. repeat split; vm_compute; reflexivity. Qed.

(* ---------- Prop-level corollaries ---------- *)

(* context number k is served successfully *)
Definition served (defined : list name) (results : name -> N -> N) (k : nat) (c : ctx) : Prop :=
  exists h, chosen defined c = Some h /\ results h (N.of_nat k) = 0%N.

Lemma shift i j : (N.succ i + N.of_nat j = i + N.of_nat (S j))%N.
Proof. rewrite Nat2N.inj_succ. lia. Qed.

(* every invocation k is for context k, selected as current, by its chosen handler *)
Lemma trace_entries defined results cs : forall i k e,
  ok cs ->
  nth_error (fst (dispatch_from defined results i cs)) k = Some e ->
  exists c h, nth_error cs k = Some c /\ chosen defined c = Some h /\
              e = (h, (i + N.of_nat k)%N, cur_binding c).
Proof.
  induction cs as [|c r IH]; intros i k e Hok Hn.
  - destruct k; discriminate.
  - apply ok_cons in Hok as [Hwf [Hres Hok]].
    cbn [dispatch_from] in Hn. rewrite (table_doc c Hwf Hres) in Hn.
    change (first_defined defined (doc_specific c ++ [main_name])) with (chosen defined c) in Hn.
    destruct (chosen defined c) as [h|] eqn:Ech; [|destruct k; discriminate].
    destruct (N.eqb (results h i) 0) eqn:Est.
    + destruct (dispatch_from defined results (N.succ i) r) as [t s] eqn:Ed. cbn [fst] in Hn.
      destruct k as [|k].
      * inversion Hn; subst. exists c, h. repeat split; try assumption. simpl. f_equal. f_equal. lia.
      * simpl in Hn. specialize (IH (N.succ i) k e Hok). rewrite Ed in IH. cbn [fst] in IH.
        destruct (IH Hn) as [c' [h' [H1 [H2 H3]]]]. exists c', h'. repeat split; try assumption.
        rewrite H3, shift. reflexivity.
    + cbn [fst] in Hn. destruct k as [|k]; [|destruct k; discriminate].
      inversion Hn; subst. exists c, h. repeat split; try assumption. simpl. f_equal. f_equal. lia.
Qed.

Lemma trace_length defined results cs : forall i,
  (length (fst (dispatch_from defined results i cs)) <= length cs)%nat.
Proof.
  induction cs as [|c r IH]; intros i; [simpl; lia|].
  cbn [dispatch_from]. destruct (table c) as [l|]; [|simpl; lia].
  destruct (first_defined defined (l ++ [main_name])) as [h|]; [|simpl; lia].
  destruct (N.eqb (results h i) 0).
  - specialize (IH (N.succ i)). destruct (dispatch_from defined results (N.succ i) r) as [t s]. simpl in *. lia.
  - simpl. lia.
Qed.

(* the run stops at the first context k that is not served successfully *)
Lemma stops_gen defined results cs : forall i k c,
  ok cs ->
  nth_error cs k = Some c ->
  (forall j c', (j < k)%nat -> nth_error cs j = Some c' ->
                exists h, chosen defined c' = Some h /\ results h (i + N.of_nat j)%N = 0%N) ->
  let tr := fst (dispatch_from defined results i cs) in
  let st := snd (dispatch_from defined results i cs) in
  match chosen defined c with
  | None => st = 1%N /\ length tr = k
  | Some h => results h (i + N.of_nat k)%N <> 0%N ->
              st = results h (i + N.of_nat k)%N /\ length tr = S k /\
              nth_error tr k = Some (h, (i + N.of_nat k)%N, cur_binding c)
  end.
Proof.
  induction cs as [|c0 r IH]; intros i k c Hok Hn Hpre; [destruct k; discriminate|].
  apply ok_cons in Hok as [Hwf [Hres Hok]].
  cbn [dispatch_from]. rewrite (table_doc c0 Hwf Hres).
  change (first_defined defined (doc_specific c0 ++ [main_name])) with (chosen defined c0).
  destruct k as [|k].
  - simpl in Hn. inversion Hn; subst c0. replace (i + N.of_nat 0)%N with i by lia.
    destruct (chosen defined c) as [h|]; [|split; reflexivity].
    intros Hne. apply N.eqb_neq in Hne. rewrite Hne. cbn [fst snd]. repeat split.
  - simpl in Hn.
    destruct (Hpre 0%nat c0) as [h0 [Hc0 Hr0]]; [lia | reflexivity |].
    replace (i + N.of_nat 0)%N with i in Hr0 by lia.
    rewrite Hc0. apply N.eqb_eq in Hr0. rewrite Hr0.
    specialize (IH (N.succ i) k c Hok Hn).
    assert (Hpre' : forall j c', (j < k)%nat -> nth_error r j = Some c' ->
                     exists h, chosen defined c' = Some h /\ results h (N.succ i + N.of_nat j)%N = 0%N).
    { intros j c' Hj Hnj. destruct (Hpre (S j) c') as [h [H1 H2]]; [lia | exact Hnj |].
      exists h. split; [assumption|]. now rewrite shift. }
    specialize (IH Hpre'). cbv zeta in IH.
    destruct (dispatch_from defined results (N.succ i) r) as [t s]. cbn [fst snd] in *.
    rewrite shift in IH.
    destruct (chosen defined c) as [h|].
    + intros Hne. destruct (IH Hne) as [H1 [H2 H3]]. repeat split; [assumption | simpl; now rewrite H2 | exact H3].
    + destruct IH as [H1 H2]. split; [assumption | simpl; now rewrite H2].
Qed.

Lemma succeeds_gen defined results cs : forall i,
  ok cs ->
  (forall j c', nth_error cs j = Some c' ->
                exists h, chosen defined c' = Some h /\ results h (i + N.of_nat j)%N = 0%N) ->
  snd (dispatch_from defined results i cs) = 0%N /\
  length (fst (dispatch_from defined results i cs)) = length cs.
Proof.
  induction cs as [|c0 r IH]; intros i Hok Hall; [split; reflexivity|].
  apply ok_cons in Hok as [Hwf [Hres Hok]].
  cbn [dispatch_from]. rewrite (table_doc c0 Hwf Hres).
  change (first_defined defined (doc_specific c0 ++ [main_name])) with (chosen defined c0).
  destruct (Hall 0%nat c0) as [h0 [Hc0 Hr0]]; [reflexivity|].
  replace (i + N.of_nat 0)%N with i in Hr0 by lia.
  rewrite Hc0. apply N.eqb_eq in Hr0. rewrite Hr0.
  assert (Hall' : forall j c', nth_error r j = Some c' ->
                   exists h, chosen defined c' = Some h /\ results h (N.succ i + N.of_nat j)%N = 0%N).
  { intros j c' Hnj. destruct (Hall (S j) c') as [h [H1 H2]]; [exact Hnj|].
    exists h. split; [assumption|]. now rewrite shift. }
  destruct (IH (N.succ i) Hok Hall') as [H1 H2].
  destruct (dispatch_from defined results (N.succ i) r) as [t s]. cbn [fst snd] in *.
  split; [assumption | simpl; now rewrite H2].
Qed.

(* ---------- the four named statements ---------- *)

Lemma exactly_one_first_defined defined results cs :
  ok cs ->
  let tr := fst (dispatch defined results cs) in
  (length tr <= length cs)%nat /\
  forall k e, nth_error tr k = Some e ->
    exists c h, nth_error cs k = Some c /\
      e = (h, N.of_nat k, cur_binding c) /\
      (exists pre post, doc_candidates c = pre ++ h :: post /\ In h defined /\
                        forall x, In x pre -> ~ In x defined).
Proof.
  intros Hok. split; [apply trace_length|].
  intros k e Hn. destruct (trace_entries defined results cs 0%N k e Hok Hn) as [c [h [H1 [H2 H3]]]].
  exists c, h. split; [assumption|]. split; [now rewrite H3|].
  now apply first_defined_spec.
Qed.

Lemma stops_at_first_failure defined results cs k c :
  ok cs ->
  nth_error cs k = Some c ->
  (forall j c', (j < k)%nat -> nth_error cs j = Some c' -> served defined results j c') ->
  let tr := fst (dispatch defined results cs) in
  let st := snd (dispatch defined results cs) in
  ((forall x, In x (doc_candidates c) -> ~ In x defined) -> st <> 0%N /\ length tr = k) /\
  (forall h, chosen defined c = Some h -> results h (N.of_nat k) <> 0%N ->
             st <> 0%N /\ st = results h (N.of_nat k) /\ length tr = S k /\
             nth_error tr k = Some (h, N.of_nat k, cur_binding c)).
Proof.
  intros Hok Hn Hpre.
  pose proof (stops_gen defined results cs 0%N k c Hok Hn) as H. cbv zeta in H.
  assert (Hpre' : forall j c', (j < k)%nat -> nth_error cs j = Some c' ->
                    exists h, chosen defined c' = Some h /\ results h (0 + N.of_nat j)%N = 0%N).
  { intros j c' Hj Hnj. destruct (Hpre j c' Hj Hnj) as [h [H1 H2]]. exists h. split; [assumption|]. now rewrite N.add_0_l. }
  specialize (H Hpre'). rewrite N.add_0_l in H. unfold dispatch. cbv zeta. split.
  - intros Hnone. apply first_defined_none in Hnone. fold (chosen defined c) in Hnone. rewrite Hnone in H.
    destruct H as [H1 H2]. split; [rewrite H1; discriminate | assumption].
  - intros h Hch Hne. rewrite Hch in H. destruct (H Hne) as [H1 [H2 H3]].
    repeat split; try assumption. now rewrite H1.
Qed.

Lemma succeeds_otherwise defined results cs :
  ok cs ->
  (forall k c, nth_error cs k = Some c -> served defined results k c) ->
  snd (dispatch defined results cs) = 0%N /\
  length (fst (dispatch defined results cs)) = length cs.
Proof.
  intros Hok Hall. apply succeeds_gen; [assumption|].
  intros j c' Hnj. destruct (Hall j c' Hnj) as [h [H1 H2]]. exists h. split; [assumption|]. now rewrite N.add_0_l.
Qed.

Lemma config_mode args defined results cs :
  is_config args = true ->
  let o := run args defined results cs in
  (forall e, In e (o_trace o) -> e = config_entry) /\
  (In config_name defined ->
     o_trace o = [config_entry] /\ o_printed o = true /\ o_status o = results config_name 0%N).
Proof.
  intros Hc. unfold run. rewrite Hc. cbv zeta. destruct (mem config_name defined) eqn:Ed.
  - cbn [o_trace o_printed o_status]. split; [intros e [<-|[]]; reflexivity|]. intros _. repeat split.
  - cbn [o_trace]. split; [intros e []|]. intros Hin. apply mem_true in Hin. congruence.
Qed.
