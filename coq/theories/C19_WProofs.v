(* C19_WProofs.v — (1) proofs about the word-level model C19_WModel, which describes hook.sh
   BEFORE the repair a686454 (kept as a record: lemmas *_before_fix in C19_Properties.v);
   (2) last section: the CURRENT code (C19_Model: a name is one line, every expansion quoted) and
   names that are arbitrary strings. *)
From Coq Require Import String.
From Verif Require Import Common C19_Model C19_Spec C19_Proofs C19_WModel C19_WSpec.

(* ---------- word splitting ---------- *)

Lemma split_acc_one acc s :
  forallb (fun x => negb (is_ws x)) s = true -> acc ++ s <> [] -> split_acc acc s = [acc ++ s].
Proof.
  revert acc. induction s as [|x r IH]; intros acc Hs Hne.
  - rewrite app_nil_r in *. cbn [split_acc]. destruct acc; [congruence | reflexivity].
  - cbn [forallb] in Hs. apply andb_true_iff in Hs as [Hx Hr].
    cbn [split_acc]. apply Bool.negb_true_iff in Hx. rewrite Hx.
    rewrite (IH (acc ++ [x]) Hr).
    + now rewrite <- app_assoc.
    + destruct acc; discriminate.
Qed.

Lemma split_one_word l : one_word l = true -> split_ws l = [l].
Proof.
  unfold one_word, split_ws. intros H. apply andb_true_iff in H as [Hn Hw].
  apply (split_acc_one [] l Hw). destruct l; [discriminate | discriminate].
Qed.

(* the words of any string are words: no whitespace inside, not empty *)
Lemma split_acc_words s : forall acc w,
  forallb (fun x => negb (is_ws x)) acc = true ->
  In w (split_acc acc s) -> one_word w = true.
Proof.
  induction s as [|x r IH]; intros acc w Hacc Hin.
  - cbn [split_acc] in Hin. destruct acc as [|a acc']; [destruct Hin|].
    destruct Hin as [<-|[]]. unfold one_word. now rewrite Hacc.
  - cbn [split_acc] in Hin. destruct (is_ws x) eqn:Ex.
    + destruct acc as [|a acc'].
      * now apply (IH [] w).
      * destruct Hin as [<-|Hin]; [unfold one_word; now rewrite Hacc | now apply (IH [] w)].
    + apply (IH (acc ++ [x]) w); [|assumption].
      rewrite forallb_app, Hacc. cbn [forallb]. now rewrite Ex.
Qed.

Lemma split_ws_words s w : In w (split_ws s) -> one_word w = true.
Proof. now apply split_acc_words. Qed.

(* ---------- the search over words ---------- *)

Lemma first_defined_app defined a b :
  first_defined defined (a ++ b) =
  match first_defined defined a with Some h => Some h | None => first_defined defined b end.
Proof. induction a as [|x r IH]; [reflexivity|]. cbn [app first_defined]. now destruct (mem x defined). Qed.

Lemma first_avail_skip defined amb ws rest :
  existsb (shell_knows defined amb) ws = false ->
  first_avail defined amb (ws ++ rest) = first_avail defined amb rest.
Proof.
  induction ws as [|w r IH]; [reflexivity|]. cbn [existsb app first_avail]. intros H.
  apply orb_false_iff in H as [Hw Hr]. unfold shell_knows in Hw. apply orb_false_iff in Hw as [Hm Ha].
  rewrite Hm. destruct (amb w); [discriminate|]. now apply IH.
Qed.

Lemma mem_one_word defined l : forallb one_word defined = true -> mem l defined = true -> one_word l = true.
Proof. intros Hall Hm. apply mem_true in Hm. rewrite forallb_forall in Hall. now apply Hall. Qed.

Definition line_quiet (defined : list name) (amb : ambient) (l : name) : bool :=
  negb (if one_word l then is_some (amb l) else existsb (shell_knows defined amb) (split_ws l)).

Lemma first_avail_lines defined amb ls : forall rest,
  forallb one_word defined = true ->
  forallb (line_quiet defined amb) ls = true ->
  first_avail defined amb (flat_map split_ws ls ++ rest) =
  match first_defined defined ls with
  | Some h => Some (PHandler h)
  | None => first_avail defined amb rest
  end.
Proof.
  induction ls as [|l r IH]; intros rest Hnames Hq; [reflexivity|].
  cbn [forallb] in Hq. apply andb_true_iff in Hq as [Hl Hr].
  cbn [flat_map first_defined]. rewrite <- app_assoc.
  unfold line_quiet in Hl. apply Bool.negb_true_iff in Hl.
  destruct (one_word l) eqn:Ew.
  - rewrite (split_one_word l Ew). cbn [app first_avail].
    destruct (mem l defined); [reflexivity|].
    destruct (amb l); [discriminate|]. now apply IH.
  - rewrite (first_avail_skip _ _ _ _ Hl).
    destruct (mem l defined) eqn:Em.
    + rewrite (mem_one_word defined l Hnames Em) in Ew. discriminate.
    + now apply IH.
Qed.

(* ---------- one context: where the words change nothing ---------- *)

Definition quiet (defined : list name) (amb : ambient) (c : ctx) : bool :=
  negb (frag_hit defined amb c) && negb (glob_hit c).

Lemma step_of_chosen defined amb c :
  wf_ctx c = true -> reserved c = false -> forallb one_word defined = true ->
  quiet defined amb c = true ->
  step_of defined amb c = match chosen defined c with Some h => Some (PHandler h) | None => None end.
Proof.
  intros Hwf Hres Hnames Hq. unfold quiet in Hq. apply andb_true_iff in Hq as [Hf Hg].
  apply Bool.negb_true_iff in Hf. apply Bool.negb_true_iff in Hg.
  unfold step_of, tableW. rewrite (table_doc c Hwf Hres).
  unfold glob_hit in Hg.
  assert (Hp : existsb is_pattern (flat_map split_ws (doc_specific c)) = false).
  { clear - Hg. induction (doc_specific c) as [|l r IH]; [reflexivity|].
    cbn [existsb flat_map] in *. rewrite existsb_app. apply orb_false_iff in Hg as [H1 H2].
    rewrite H1. now apply IH. }
  rewrite Hp.
  unfold frag_hit, doc_candidates in Hf. rewrite existsb_app in Hf. apply orb_false_iff in Hf as [Hs Hm].
  assert (Hq : forallb (line_quiet defined amb) (doc_specific c) = true).
  { clear - Hs. induction (doc_specific c) as [|l r IH]; [reflexivity|].
    cbn [existsb forallb] in *. apply orb_false_iff in Hs as [H1 H2]. unfold line_quiet. rewrite H1. now apply IH. }
  etransitivity; [exact (first_avail_lines defined amb (doc_specific c) [main_name] Hnames Hq)|].
  unfold chosen, doc_candidates. rewrite first_defined_app.
  destruct (first_defined defined (doc_specific c)); [reflexivity|].
  cbn [existsb] in Hm. rewrite Bool.orb_false_r in Hm.
  change (one_word main_name) with true in Hm. cbn [first_avail first_defined].
  destruct (mem main_name defined); [reflexivity|]. destruct (amb main_name); [discriminate | reflexivity].
Qed.

(* ---------- the loop over words is the loop over names on quiet arrays ---------- *)

Lemma dispatchW_dispatchB defined amb bodies cs : forall i,
  ok cs -> forallb one_word defined = true -> forallb (quiet defined amb) cs = true ->
  dispatchW_from defined amb bodies i cs = dispatchB_from defined bodies i cs.
Proof.
  induction cs as [|c r IH]; intros i Hok Hnames Hq; [reflexivity|].
  apply ok_cons in Hok as [Hwf [Hres Hok]].
  cbn [forallb] in Hq. apply andb_true_iff in Hq as [Hc Hr].
  cbn [dispatchW_from dispatchB_from].
  rewrite (step_of_chosen defined amb c Hwf Hres Hnames Hc).
  rewrite (table_doc c Hwf Hres).
  change (first_defined defined (doc_specific c ++ [main_name])) with (chosen defined c).
  destruct (chosen defined c) as [h|]; [|reflexivity].
  destruct (exec_body (bodies h i)) as [ss st]. destruct (N.eqb st 0); [|reflexivity].
  now rewrite (IH (N.succ i) Hok Hnames Hr).
Qed.

Definition runCW_i (amb : ambient) (i : inputC) : obsC :=
  runCW (ib_args (ic_in i)) (ib_defined (ic_in i)) amb (ib_bodies (ic_in i)) (ib_ctxs (ic_in i)) (ic_text i).

Lemma runCW_runC amb i :
  in_domain (to_input (ic_in i)) = true -> T (to_input (ic_in i)) = false ->
  names_ok (to_input (ic_in i)) = true ->
  T_frag (to_input (ic_in i)) amb = false -> T_glob (to_input (ic_in i)) = false ->
  runCW_i amb i = runC_i i.
Proof.
  destruct i as [[args defined bodies cs] text].
  unfold in_domain, T, names_ok, T_frag, T_glob, runCW_i, runC_i, runCW, runC, runBW, runB, to_input;
    cbn [ic_in ic_text ib_args ib_defined ib_bodies ib_ctxs i_args i_defined i_ctxs].
  intros Hd HT Hn Hf Hg. destruct (is_config args); [reflexivity|].
  cbn [negb andb] in *. unfold dispatchW, dispatchB.
  rewrite (dispatchW_dispatchB defined amb bodies cs 0%N); [reflexivity | split; assumption | assumption |].
  clear - Hf Hg. induction cs as [|c r IH]; [reflexivity|].
  cbn [existsb forallb] in *. apply orb_false_iff in Hf as [F1 F2]. apply orb_false_iff in Hg as [G1 G2].
  unfold quiet at 1. rewrite F1, G1. now apply IH.
Qed.

(* ---------- the clause own_context follows from `follows` ---------- *)

Lemma follows_own defined results cs : forall k tr st,
  follows defined results k cs tr st = true -> own_context_from defined k cs tr = true.
Proof.
  induction cs as [|c r IH]; intros k tr st H.
  - cbn [follows] in H. destruct tr; [reflexivity | discriminate].
  - cbn [follows] in H. destruct (chosen defined c) as [h|] eqn:Ec.
    + destruct tr as [|e tr']; [reflexivity|]. cbn [own_context_from]. rewrite Ec.
      apply andb_true_iff in H as [He H]. rewrite He. cbn [andb].
      destruct (N.eqb (results h k) 0).
      * now apply (IH (N.succ k) tr' st).
      * apply andb_true_iff in H as [Hn _]. destruct tr'; [reflexivity | discriminate].
    + apply andb_true_iff in H as [Hn _]. destruct tr; [reflexivity | discriminate].
Qed.

Lemma P_own i o : P i o = true -> own_context i o = true.
Proof.
  unfold P, own_context. destruct (is_config (i_args i)); [reflexivity|]. cbn [orb].
  apply follows_own.
Qed.

Lemma words_meet_spec_partial amb i :
  in_domain (to_input (ic_in i)) = true -> T (to_input (ic_in i)) = false ->
  names_ok (to_input (ic_in i)) = true ->
  T_frag (to_input (ic_in i)) amb = false -> T_glob (to_input (ic_in i)) = false ->
  PW i (runCW_i amb i) = true.
Proof.
  intros Hd HT Hn Hf Hg. rewrite (runCW_runC amb i Hd HT Hn Hf Hg).
  unfold PW. pose proof (config_meets_spec i Hd HT) as HP. rewrite HP. cbn [andb].
  apply P_own. unfold PC in HP. apply andb_true_iff in HP as [HB _]. exact HB.
Qed.

(* ---------- plain names: the word-level model IS the atom-level model ---------- *)

(* names as C19_Model assumed them: every documented line one word, no pattern, nothing
   the shell knows by itself *)
Lemma words_refine_atoms amb i :
  in_domain (to_input (ic_in i)) = true -> T (to_input (ic_in i)) = false ->
  names_ok (to_input (ic_in i)) = true ->
  T_frag (to_input (ic_in i)) amb = false -> T_glob (to_input (ic_in i)) = false ->
  runCW_i amb i = runC_i i.
Proof. exact (runCW_runC amb i). Qed.

(* ---------- the dispatch of context i depends on context i only ---------- *)

(* the contexts [pre] are all served and none stops the run *)
Definition passes defined amb bodies (i : N) (pre : list ctx) : Prop :=
  snd (dispatchW_from defined amb bodies i pre) = 0%N.

Definition glue (a b : trace * list (list step) * N) : trace * list (list step) * N :=
  (fst (fst a) ++ fst (fst b), snd (fst a) ++ snd (fst b), snd b).

Lemma dispatchW_app defined amb bodies pre : forall i rest,
  passes defined amb bodies i pre ->
  dispatchW_from defined amb bodies i (pre ++ rest) =
  glue (dispatchW_from defined amb bodies i pre)
       (dispatchW_from defined amb bodies (i + N.of_nat (length pre)) rest).
Proof.
  unfold passes. induction pre as [|c r IH]; intros i rest Hp.
  - cbn [app length N.of_nat dispatchW_from glue fst snd]. rewrite N.add_0_r.
    now destruct (dispatchW_from defined amb bodies i rest) as [[t s] f].
  - cbn [app dispatchW_from] in *.
    replace (i + N.of_nat (length (c :: r)))%N with (N.succ i + N.of_nat (length r))%N
      by (cbn [length]; lia).
    destruct (step_of defined amb c) as [[h|w st]|]; [| |discriminate].
    + destruct (exec_body (bodies h i)) as [ss st]. destruct (N.eqb st 0) eqn:Est.
      * specialize (IH (N.succ i) rest).
        destruct (dispatchW_from defined amb bodies (N.succ i) r) as [[t s] f]. cbn [snd] in Hp.
        rewrite (IH Hp). unfold glue. cbn [fst snd app]. reflexivity.
      * cbn [snd] in Hp. subst st. discriminate.
    + destruct (N.eqb st 0) eqn:Est.
      * now apply IH.
      * cbn [snd] in Hp. subst st. discriminate.
Qed.

(* what the loop does first with a context is [step_of] of THAT context, under ITS number *)
Lemma dispatchW_head defined amb bodies i c rest h :
  step_of defined amb c = Some (PHandler h) ->
  exists t s f, dispatchW_from defined amb bodies i (c :: rest) = ((h, i, cur_binding c) :: t, s, f).
Proof.
  intros Hs. cbn [dispatchW_from]. rewrite Hs.
  destruct (exec_body (bodies h i)) as [ss st]. destruct (N.eqb st 0).
  - destruct (dispatchW_from defined amb bodies (N.succ i) rest) as [[t s] f]. now exists t, (ss :: s), f.
  - now exists [], [ss], st.
Qed.

(* two arrays that differ in the STRINGS of the contexts before number n only (both
   prefixes pass): from context n on the run is the same - same handlers, same current
   index and binding, same commands started, same final status *)
Lemma dispatch_local defined amb bodies pre1 pre2 rest :
  length pre1 = length pre2 ->
  passes defined amb bodies 0%N pre1 -> passes defined amb bodies 0%N pre2 ->
  exists tail,
    dispatchW defined amb bodies (pre1 ++ rest) = glue (dispatchW defined amb bodies pre1) tail /\
    dispatchW defined amb bodies (pre2 ++ rest) = glue (dispatchW defined amb bodies pre2) tail /\
    tail = dispatchW_from defined amb bodies (N.of_nat (length pre1)) rest.
Proof.
  intros Hl H1 H2. exists (dispatchW_from defined amb bodies (N.of_nat (length pre1)) rest).
  unfold dispatchW. rewrite (dispatchW_app _ _ _ pre1 0%N rest H1), (dispatchW_app _ _ _ pre2 0%N rest H2).
  rewrite <- Hl. cbn [N.add]. repeat split; reflexivity.
Qed.

(* ---------- the framework falls short of the property: witnesses ---------- *)

Definition no_amb : ambient := fun _ => None.
Definition amb_in : ambient := fun w => if bytes_eqb w (B "in") then Some 127%N else None.

Definition mk_wi (cs : list ctx) (defined : list name) : inputC :=
  mkInputC (mkInputB [] defined (fun _ _ => [Return 0%N]) cs) [].

(* a schedule named "every minute" beside the handler of the schedule "every" *)
Definition frag_input : inputC :=
  mk_wi [mkCtx (Some (B "every minute")) (Some (B "Schedule")) None None None None]
        [B "__on_schedule::every"; B "__main__"].
(* the name from the documentation, "Monitor pods in cache tier": `in` is a shell keyword *)
Definition keyword_input : inputC :=
  mk_wi [mkCtx (Some (B "Monitor pods in cache tier")) (Some (B "Event")) (Some (B "Added")) None None None]
        [B "__main__"].
Definition glob_input : inputC :=
  mk_wi [mkCtx (Some (B "what?")) (Some (B "Schedule")) None None None None] [B "__main__"].

Lemma fragment_refuted :
  exists amb i, in_domain (to_input (ic_in i)) = true /\ T (to_input (ic_in i)) = false /\
    names_ok (to_input (ic_in i)) = true /\ T_glob (to_input (ic_in i)) = false /\
    T_frag (to_input (ic_in i)) amb = true /\ PW i (runCW_i amb i) = false.
Proof. exists no_amb, frag_input. vm_compute. repeat split. Qed.

Lemma keyword_refuted :
  exists amb i, in_domain (to_input (ic_in i)) = true /\ T (to_input (ic_in i)) = false /\
    names_ok (to_input (ic_in i)) = true /\ T_glob (to_input (ic_in i)) = false /\
    T_frag (to_input (ic_in i)) amb = true /\ PW i (runCW_i amb i) = false.
Proof. exists amb_in, keyword_input. vm_compute. repeat split. Qed.

Lemma glob_refuted :
  exists amb i, in_domain (to_input (ic_in i)) = true /\ T (to_input (ic_in i)) = false /\
    names_ok (to_input (ic_in i)) = true /\ T_frag (to_input (ic_in i)) amb = false /\
    T_glob (to_input (ic_in i)) = true /\ PW i (runCW_i amb i) = false.
Proof. exists no_amb, glob_input. vm_compute. repeat split. Qed.

(* ====================================================================================
   THE CURRENT CODE (after a686454).  hook.sh keeps the candidate names one per line, reads
   them with `mapfile -t`, quotes every expansion (echo "__on_...::${BINDING}", type "$handler",
   ("$handler")): a name is ONE word whatever blanks, tabs, glob characters, quotes,
   backslashes or $ it contains.  That is C19_Model with [bytes] read as arbitrary strings (only a
   newline would still separate two lines; NUL cannot pass a command substitution: both are
   outside the correspondence).  No hypothesis on the strings below. *)

Lemma names_meet_spec i :
  in_domain (to_input (ic_in i)) = true -> T (to_input (ic_in i)) = false -> PW i (runC_i i) = true.
Proof.
  intros Hd HT. unfold PW. pose proof (config_meets_spec i Hd HT) as HP. rewrite HP. cbn [andb].
  apply P_own. unfold PC in HP. apply andb_true_iff in HP as [HB _]. exact HB.
Qed.

Definition passesB defined bodies (i : N) (pre : list ctx) : Prop :=
  snd (dispatchB_from defined bodies i pre) = 0%N.

Lemma dispatchB_app defined bodies pre : forall i rest,
  passesB defined bodies i pre ->
  dispatchB_from defined bodies i (pre ++ rest) =
  glue (dispatchB_from defined bodies i pre)
       (dispatchB_from defined bodies (i + N.of_nat (length pre)) rest).
Proof.
  unfold passesB. induction pre as [|c r IH]; intros i rest Hp.
  - cbn [app length N.of_nat dispatchB_from glue fst snd]. rewrite N.add_0_r.
    now destruct (dispatchB_from defined bodies i rest) as [[t s] f].
  - cbn [app dispatchB_from] in *.
    replace (i + N.of_nat (length (c :: r)))%N with (N.succ i + N.of_nat (length r))%N
      by (cbn [length]; lia).
    destruct (table c) as [l|]; [|discriminate].
    destruct (first_defined defined (l ++ [main_name])) as [h|]; [|discriminate].
    destruct (exec_body (bodies h i)) as [ss st]. destruct (N.eqb st 0) eqn:Est.
    + specialize (IH (N.succ i) rest).
      destruct (dispatchB_from defined bodies (N.succ i) r) as [[t s] f]. cbn [snd] in Hp.
      rewrite (IH Hp). unfold glue. cbn [fst snd app]. reflexivity.
    + cbn [snd] in Hp. subst st. discriminate.
Qed.

Lemma dispatchB_local defined bodies pre1 pre2 rest :
  length pre1 = length pre2 ->
  passesB defined bodies 0%N pre1 -> passesB defined bodies 0%N pre2 ->
  exists tail,
    dispatchB defined bodies (pre1 ++ rest) = glue (dispatchB defined bodies pre1) tail /\
    dispatchB defined bodies (pre2 ++ rest) = glue (dispatchB defined bodies pre2) tail /\
    tail = dispatchB_from defined bodies (N.of_nat (length pre1)) rest.
Proof.
  intros Hl H1 H2. exists (dispatchB_from defined bodies (N.of_nat (length pre1)) rest).
  unfold dispatchB. rewrite (dispatchB_app _ _ pre1 0%N rest H1), (dispatchB_app _ _ pre2 0%N rest H2).
  rewrite <- Hl. cbn [N.add]. repeat split; reflexivity.
Qed.

(* the handler of a context is found from the strings of THAT context ([candidates c]) and
   invoked under its number with its binding name *)
Lemma dispatchB_head defined bodies i c rest h :
  first_defined defined (candidates c) = Some h ->
  exists t s f, dispatchB_from defined bodies i (c :: rest) = ((h, i, cur_binding c) :: t, s, f).
Proof.
  unfold candidates. intros Hs. cbn [dispatchB_from].
  destruct (table c) as [l|]; [|discriminate]. rewrite Hs.
  destruct (exec_body (bodies h i)) as [ss st]. destruct (N.eqb st 0).
  - destruct (dispatchB_from defined bodies (N.succ i) rest) as [[t s] f]. now exists t, (ss :: s), f.
  - now exists [], [ss], st.
Qed.
