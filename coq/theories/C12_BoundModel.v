(* C12_BoundModel.v - WHERE in an output file a malformation sits relative to how the parsers read.

   All four output files are read with encoding/json's Decoder (metrics: Decode until io.EOF; admission and
   conversion response: Decode, then Token() must report io.EOF; the object-patch file: Decode until io.EOF,
   and when that fails the YAML decoder).  The Decoder reads its input in pieces (512 bytes, then it doubles
   its buffer: 512, 1536, 3584, ... bytes read so far), so "what follows the first document" may be inside the
   buffer already, start exactly at the end of a read, or not have been read at all.  The property text knows
   nothing of that: a file is a byte string, and the model of this development reads it as ONE byte string
   (JsonText).  This class states it for files of the shape

        first document  ++  tail

   with a first document of ANY length and ANY tail (C12_BoundProofs: accepted iff the tail is acceptable - for
   the two response files: white space only; for the two stream files: itself a stream of documents), and the
   harness generates first documents of every length around the read boundaries.

   So that a case with a 4 KiB document stays a small term, a text is given in SEGMENTS: (chunk, n) stands
   for the chunk repeated n times; the harness describes the bytes it wrote this way, [bexpand] gives them back.

   The object-patch file (outside C12_Model, whose patch position holds one of four kinds) gets a reader of
   its JSON path here: [patch_text_kind] maps a text to the kind C12_Model.run continues with.  It is the loop
   of unmarshalFromJson (helpers.go) + ParseOperations for documents of ONE recognised shape
   ({"operation":"CreateOrUpdate","object":{...}}, what the harness writes); a text that is not a JSON
   stream goes to the YAML decoder, which is NOT modelled: it is taken to refuse the text (true of the
   generated class: a JSON flow mapping followed by a stray closer / by a word on a line of its own). *)
From Verif Require Import Common Json JsonText C12_Model.
Open Scope N_scope.

Definition bseg := (bytes * N)%type.
Fixpoint rep_bytes (n : nat) (c : bytes) : bytes :=
  match n with O => [] | S k => c ++ rep_bytes k c end.
Definition bexpand (l : list bseg) : bytes :=
  concat (map (fun s => rep_bytes (N.to_nat (snd s)) (fst s)) l).

Record binput := mkBI {
  bi_file : N;              (* C12_Model.file_metrics / file_admission / file_conversion / file_patch *)
  bi_first : list bseg;      (* the first document *)
  bi_tail : list bseg;       (* what follows it in the file *)
  bi_exit : Z
}.
Definition b_first (b : binput) : bytes := bexpand (bi_first b).
Definition b_tail (b : binput) : bytes := bexpand (bi_tail b).
Definition b_text (b : binput) : bytes := b_first b ++ b_tail b.

(* ------------------------------------------------------------------ the object-patch file, JSON path *)
Definition k_operation : bytes := [111; 112; 101; 114; 97; 116; 105; 111; 110].
Definition k_object : bytes := [111; 98; 106; 101; 99; 116].
Definition s_CreateOrUpdate : bytes := [67; 114; 101; 97; 116; 101; 79; 114; 85; 112; 100; 97; 116; 101].

Definition is_obj (j : json) : bool := match j with JObj _ => true | _ => false end.
(* one operation of the recognised shape: exactly the members "operation":"CreateOrUpdate" and "object":{...} *)
Definition patch_doc_ok (j : json) : bool :=
  match j with
  | JObj m =>
      forallb (fun kv => bytes_eqb (fst kv) k_operation || bytes_eqb (fst kv) k_object) m
      && match assoc k_operation m with Some (JStr s) => bytes_eqb s s_CreateOrUpdate | _ => false end
      && match assoc k_object m with Some o => is_obj o | None => false end
      && (Nat.eqb (length m) 2)
  | _ => false
  end.

(* unmarshalFromJSONOrYAML + ParseOperations, as a kind of C12_Model: no document = nothing to do, documents
   of the recognised shape = operations that are applied, another document = refused by the schema, not
   a JSON stream = (YAML decoder, taken to refuse) malformed *)
Definition patch_text_kind (s : bytes) : fkind :=
  match parse_stream s with
  | Some [] => FEmpty
  | Some docs => if forallb patch_doc_ok docs then FValid else FWrongType
  | None => FTruncated
  end.

(* ------------------------------------------------------------------ the execution *)
Definition input_of (b : binput) : input :=
  let t := FText (b_text b) in
  mkIn (bi_exit b)
       (if bi_file b =? file_metrics then t else FEmpty)
       (if bi_file b =? file_patch then patch_text_kind (b_text b) else FEmpty)
       (if bi_file b =? file_admission then t else FEmpty)
       (if bi_file b =? file_conversion then t else FEmpty)
       false 0 [].

(* the same execution with the first document alone in the file *)
Definition first_only (b : binput) : binput := mkBI (bi_file b) (bi_first b) [] (bi_exit b).

Definition exec_bound (b : binput) : outcome := exec (input_of b).
