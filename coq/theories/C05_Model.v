(* C05_Model.v — executable model of pkg/task/queue/task_queue.go (TaskQueue).
   Transcribes: addFirst, addLast, addAfter, addBefore, remove, removeFirst,
   removeLast, Filter, get, GetFirst, GetLast, Length, and the result
   application inside Start().  No proofs here. *)
From Verif Require Import Common.

(* A task is (id, uniq).  [id] is what GetId() returns and what the by-id
   operations compare; [uniq] distinguishes two tasks that carry the same id. *)
Definition task := (N * N)%type.
Definition tid (t : task) : N := fst t.
Definition task_eqb : task -> task -> bool := pair_eqb N.eqb N.eqb.

Inductive status := Success | Keep | Fail | Repeat.

(* operations another goroutine may issue while a Filter callback is running *)
Inductive cop :=
| CAddFirst (t : task) | CAddLast (t : task) | CAddAfter (id : N) (t : task) | CAddBefore (id : N) (t : task)
| CRemove (id : N) | CRemoveFirst | CRemoveLast.

Inductive op :=
| AddFirst (t : task)
| AddLast (t : task)
| AddAfter (id : N) (t : task)
| AddBefore (id : N) (t : task)
| Remove (id : N)
| RemoveFirst
| RemoveLast
| Filter (keep : list N)                 (* keep the tasks whose id is listed *)
| FilterDuring (keep : list N) (c : cop) (* Filter, and while its callback runs another goroutine
                                            issues [c]: the queue's operations are atomic (one
                                            lock section each), so [c] takes effect after the Filter *)
| Start                                  (* start the worker goroutine *)
| Return (st : status) (head after tail : list task).
                                         (* the blocked handler returns this TaskResult *)

Definition to_op (c : cop) : op :=
  match c with
  | CAddFirst t => AddFirst t | CAddLast t => AddLast t
  | CAddAfter id t => AddAfter id t | CAddBefore id t => AddBefore id t
  | CRemove id => Remove id | CRemoveFirst => RemoveFirst | CRemoveLast => RemoveLast
  end.

Record state := mkState { items : list task; started : bool; running : option task }.

Definition init : state := mkState [] false None.

(* addAfter: copy while id not found; inject after the first task with that id;
   (after the fix for F1) append when no task has that id. *)
Fixpoint add_after (id : N) (t : task) (l : list task) : list task :=
  match l with
  | [] => [t]
  | x :: r => if N.eqb (tid x) id then x :: t :: r else x :: add_after id t r
  end.

Fixpoint add_before (id : N) (t : task) (l : list task) : list task :=
  match l with
  | [] => [t]
  | x :: r => if N.eqb (tid x) id then t :: x :: r else x :: add_before id t r
  end.

(* remove: first task with that id *)
Fixpoint remove (id : N) (l : list task) : option task * list task :=
  match l with
  | [] => (None, [])
  | x :: r => if N.eqb (tid x) id then (Some x, r)
              else let (o, r') := remove id r in (o, x :: r')
  end.

Fixpoint get (id : N) (l : list task) : option task :=
  match l with
  | [] => None
  | x :: r => if N.eqb (tid x) id then Some x else get id r
  end.

Definition last_opt (l : list task) : option task := hd_error (rev l).   (* items[len-1] *)

(* Result application in Start(), in the order of the code:
   after-tasks in reverse through addAfter(picked id); remove(picked id) on
   Success; head tasks in reverse through addFirst; tail tasks through addLast. *)
Definition apply_result (p : task) (st : status) (h a t : list task) (l : list task)
  : list task :=
  match st with
  | Fail | Repeat => l
  | Success | Keep =>
      let l1 := fold_left (fun acc x => add_after (tid p) x acc) (rev a) l in
      let l2 := match st with Success => snd (remove (tid p) l1) | _ => l1 end in
      let l3 := fold_left (fun acc x => x :: acc) (rev h) l2 in
      fold_left (fun acc x => acc ++ [x]) t l3
  end.

(* The worker: when started and not inside a handler, it picks the head of a
   non-empty queue (waitForTask -> GetFirst) and blocks in the handler.  The
   harness waits for that quiescent point after every operation. *)
Definition auto_pick (s : state) : state :=
  if started s then
    match running s, items s with
    | None, x :: _ => mkState (items s) true (Some x)
    | _, _ => s
    end
  else s.

(* one operation: new state and the task returned by the operation, if any *)
Definition step_simple (s : state) (o : op) : state * option task :=
  let set l := mkState l (started s) (running s) in
  match o with
  | FilterDuring _ _ => (s, None)        (* not a simple operation: see step_raw *)
  | AddFirst t => (set (t :: items s), None)
  | AddLast t => (set (items s ++ [t]), None)
  | AddAfter id t => (set (add_after id t (items s)), None)
  | AddBefore id t => (set (add_before id t (items s)), None)
  | Remove id => let (r, l) := remove id (items s) in (set l, r)
  | RemoveFirst => match items s with [] => (s, None) | x :: r => (set r, Some x) end
  | RemoveLast => match items s with [] => (s, None)
                  | _ => (set (removelast (items s)), last_opt (items s)) end
  | Filter keep => (set (filter (fun x => mem_N (tid x) keep) (items s)), None)
  | Start => (mkState (items s) true (running s), None)
  | Return st h a t =>
      match running s with
      | None => (s, None)
      | Some p => (mkState (apply_result p st h a t (items s)) (started s) None, None)
      end
  end.

Definition step_raw (s : state) (o : op) : state * option task :=
  match o with
  | FilterDuring keep c =>
      step_simple (mkState (filter (fun x => mem_N (tid x) keep) (items s)) (started s) (running s)) (to_op c)
  | _ => step_simple s o
  end.

Definition step (s : state) (o : op) : state * option task :=
  let (s', r) := step_raw s o in (auto_pick s', r).

(* what the harness observes after each operation *)
Definition probe_ids : list N := [1; 2; 3; 4; 5; 6]%N.

Record obs := mkObs {
  o_items : list (option task);   (* Iterate: None = an empty slot *)
  o_len : N;                      (* Length() *)
  o_first : option task;          (* GetFirst() *)
  o_last : option task;           (* GetLast() *)
  o_gets : list (option task);    (* Get(id) for id in probe_ids *)
  o_running : option task;        (* task the handler is blocked on *)
  o_ret : option task;            (* task returned by Remove*/ *)
  o_crash : bool                  (* the implementation panicked *)
}.

Definition observe (s : state) (r : option task) : obs :=
  mkObs (map Some (items s)) (N.of_nat (length (items s)))
        (hd_error (items s)) (last_opt (items s))
        (map (fun id => get id (items s)) probe_ids)
        (running s) r false.

Fixpoint run_from (s : state) (ops : list op) : list obs :=
  match ops with
  | [] => []
  | o :: r => let (s', ret) := step s o in observe s' ret :: run_from s' r
  end.

Definition run (ops : list op) : list obs := run_from init ops.

(* final state, for the theorems *)
Definition exec (s : state) (ops : list op) : state :=
  fold_left (fun s o => fst (step s o)) ops s.

(* ---- observers running while another goroutine changes the queue ----
   Iterate (and String, which is built on it) run their callback inside ONE read-lock
   section (withRLock); every modifying operation takes the write lock.  Hence an observer is
   atomic: whatever the other goroutine does while the callback is in progress waits for the
   lock and takes effect after the walk.  [IterateDuring pos cs]: an Iterate whose callback is
   held up at element number [pos] while another goroutine issues the operations [cs] one
   after the other.  The walk reports the list as it was when the Iterate began - whatever
   [pos] - and the operations are then applied in order (the worker picks a task whenever it
   can, as after any operation). *)
Inductive xop :=
| Plain (o : op)
| IterateDuring (pos : N) (cs : list op).

Record xobs := mkXObs {
  x_obs : obs;                       (* the observation after the (last) operation *)
  x_walk : list (option task);       (* what the overlapping Iterate reported (Plain: []) *)
  x_rets : list (option task)        (* the tasks returned by the overlapping operations *)
}.

Fixpoint chain_run (s : state) (cs : list op) : state * list (option task) :=
  match cs with
  | [] => (s, [])
  | o :: r => let (s', ret) := step s o in
              let (s'', rs) := chain_run s' r in (s'', ret :: rs)
  end.

Definition xstep (s : state) (x : xop) : state * xobs :=
  match x with
  | Plain o => let (s', r) := step s o in (s', mkXObs (observe s' r) [] [])
  | IterateDuring _ cs =>
      let (s', rs) := chain_run s cs in
      (s', mkXObs (observe s' None) (map Some (items s)) rs)
  end.

Fixpoint xrun_from (s : state) (xs : list xop) : list xobs :=
  match xs with
  | [] => []
  | x :: r => let (s', ob) := xstep s x in ob :: xrun_from s' r
  end.

Definition xrun (xs : list xop) : list xobs := xrun_from init xs.
